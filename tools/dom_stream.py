"""Domain: emmet.output_stream.OutputStream driven directly by random operation programs (push, push_string, push_newline,
push_indent, push_field, level changes) under random newline / baseIndent / indent strings and recording callbacks. The same
programs run on the Lean model of the class (Emmet/Stream.lean, the model the C13 theorem is about). Serves C13.

Oracle (from the statement): every string a callback returned sits in the final value exactly at the offset the callback was
given; when the text callback keeps the newline string (the statement's setting: the editor's callbacks do not rewrite line
breaks) the reported line is the number of newline strings before that offset and the column the distance to the end of the last
one (or to the start of the output)."""
import random
from vlib import hx

MODE = 'stream'
TEXTS = ['', 'a', 'foo bar', 'x & y', '&', '<div class="c">', 'l1\nl2', 'a\r\nb\n\nc', '\n', 'tail\n', 'é中', 'p & q\nr & s', '\r', 'a\x0bb', ' ']
NLS = ['\n', '\r\n', '\r', '\n\n', ' \n']
BIS = ['', '  ', '\t', '>>', '& ']
INDS = ['\t', '  ', '    ', '', '-']
PHS = ['', 'x', 'name', 'a & b', 'l1\nl2']


def cb_text(k):
    def f(text, offset=0, line=0, column=0, **kw):
        return {0: text, 1: text.replace('&', '&amp;'), 2: ''.join(chr(ord(c) - 32) if 'a' <= c <= 'z' else c for c in text), 3: '[' + text + ']'}[k]
    return f


def cb_field(k):
    def f(index, placeholder, offset=0, line=0, column=0, **kw):
        return {0: ('${%d:%s}' % (index, placeholder)) if placeholder else '${%d}' % index, 1: placeholder, 2: ''}[k]
    return f


def cases(tier, seed, prop):
    rnd = random.Random(seed)
    out = []
    n = 3000 if tier == 'quick' else 40000
    for _ in range(n):
        ops = []
        for _ in range(rnd.randint(0, 14)):
            k = rnd.random()
            if k < .3: ops.append(['p', rnd.choice(TEXTS[:6] + ['é中', ' '])])
            elif k < .5: ops.append(['s', rnd.choice(TEXTS)])
            elif k < .7: ops.append(['n', rnd.choice(['-', 't', 't', 0, 1, 2, -1])])
            elif k < .78: ops.append(['i', rnd.choice(['-', 0, 1, 3, -2])])
            elif k < .92: ops.append(['f', rnd.randint(0, 12), rnd.choice(PHS)])
            else: ops.append(['l', rnd.choice([1, 1, -1, 2])])
        out.append({'nl': rnd.choice(NLS), 'bi': rnd.choice(BIS), 'ind': rnd.choice(INDS), 'ct': rnd.choice([0, 0, 1, 2, 3]), 'cf': rnd.choice([0, 0, 1, 2]), 'ops': ops, 'g': 'program'})
    return out


def enc_op(op):
    if op[0] in ('p', 's'): return '%s:%s' % (op[0], hx(op[1]) if op[1] else '')
    if op[0] == 'f': return 'f:%d:%s' % (op[1], hx(op[2]) if op[2] else '')
    return '%s:%s' % (op[0], op[1])


def req(case):
    return ';'.join([hx(case['nl']), hx(case['bi']) if case['bi'] else '', hx(case['ind']) if case['ind'] else '', str(case['ct']), str(case['cf']), '|'.join(enc_op(o) for o in case['ops'])])


def run(case, prop):
    from emmet.output_stream import OutputStream
    log = []
    ct = cb_text(case['ct']); cf = cb_field(case['cf'])

    def text(t, offset=0, line=0, column=0, **kw):
        r = ct(t); log.append((offset, line, column, r)); return r

    def field(i, ph, offset=0, line=0, column=0, **kw):
        r = cf(i, ph); log.append((offset, line, column, r)); return r
    opts = {'output.newline': case['nl'], 'output.baseIndent': case['bi'], 'output.indent': case['ind'], 'output.text': text, 'output.field': field}
    st = OutputStream(opts)
    for op in case['ops']:
        if op[0] == 'p': st.push(op[1])
        elif op[0] == 's': st.push_string(op[1])
        elif op[0] == 'n': st.push_newline(None if op[1] == '-' else True if op[1] == 't' else op[1])
        elif op[0] == 'i': st.push_indent(None if op[1] == '-' else op[1])
        elif op[0] == 'f': st.push_field(op[1], op[2])
        else: st.level += op[1]
    value = st.value
    viol = []
    if st.offset != len(value): viol.append('offset| final offset %d, the value has %d characters' % (st.offset, len(value)))
    # the newline string as it went through the text callback
    nlkeep = len(ct(case['nl'] + case['bi'])) == len(case['nl'] + case['bi'])
    nlpiece = ct(case['nl'] + case['bi'])
    for (off, line, col, piece) in log:
        if value[off:off + len(piece)] != piece:
            viol.append('located| callback result %r reported at offset %d, the value has %r there (program %r)' % (piece, off, value[off:off + len(piece)], case['ops'])); break
    if nlkeep and not viol:
        # line / column: recount from the recorded newline pushes (a newline push is a text callback whose argument was newline+baseIndent
        # issued by push_newline; the harness recognises them by replaying the program)
        viol += replay_linecol(case, log, value)
    line_ = '%s | %d:%d:%d | %s' % (hx(value) if value else '', st.offset, st.line, st.column, ' '.join('%d:%d:%d:%s' % (o, l, c, hx(p) if p else '') for o, l, c, p in log))
    tags = {'gen:program': 1, 'ops': len(case['ops']), 'callbacks': len(log), 'cbText:%d' % case['ct']: 1, 'cbField:%d' % case['cf']: 1, 'nlkeep' if nlkeep else 'nl-rewritten': 1}
    return line_, viol[:3], tags


def replay_linecol(case, log, value):
    """expected line / column of every callback from the program alone: line = number of push_newline calls completed before it,
    column = offset - (offset just after the last newline+baseIndent...): the statement's 'where it ends up': characters since the
    end of the last newline STRING (the base indent counts as columns)"""
    import re
    v = []
    nl = case['nl']
    # positions where a newline string pushed by push_newline ends: recorded log entries whose piece starts with the processed newline
    # string AND that were issued by push_newline are not distinguishable from user text equal to it, so recount from the value: the
    # line of an offset is the number of newline-string occurrences that END at or before it, scanning pushes in order
    ends = []       # offsets just after each newline string written by push_newline
    idx = 0
    # replay the program against the log to know which log entries are newline pushes
    ct = cb_text(case['ct'])
    nlp = ct(nl + case['bi'])
    li = 0
    kinds = []

    def emit_text(kind): kinds.append(kind)
    for op in case['ops']:
        if op[0] == 'p': emit_text('t')
        elif op[0] == 's':
            lines = op[1].splitlines()
            for i, _l in enumerate(lines):
                if i: emit_text('n'); emit_text('t')      # push_newline(True): newline piece, then indent piece
                emit_text('t')
        elif op[0] == 'n':
            emit_text('n')
            if op[1] not in ('-', 0): emit_text('t')
        elif op[0] == 'i': emit_text('t')
        elif op[0] == 'f': emit_text('f')
    if len(kinds) != len(log): return ['callback-count| %d callback invocations, the program implies %d' % (len(log), len(kinds))]
    line = 0; last_nl_end = 0
    for kind, (off, l, c, piece) in zip(kinds, log):
        exp_col = off - last_nl_end
        if l != line or c != exp_col:
            v.append('line-column| callback at offset %d reported line %d column %d, it ends up at line %d column %d (program %r, newline %r baseIndent %r)' % (off, l, c, line, exp_col, case['ops'], nl, case['bi'])); break
        if kind == 'n':
            line += 1; last_nl_end = off + len(ct(nl))        # columns count from the end of the newline string: the base indent occupies columns
    return v


def compare(case, line, ml):
    return line == ml


def nontrivial(case, line):
    return len(case['ops']) >= 3


def describe(case):
    return {'newline': case['nl'], 'baseIndent': case['bi'], 'indent': case['ind'], 'text_callback': case['ct'], 'field_callback': case['cf'], 'program': case['ops']}
