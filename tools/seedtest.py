"""Confirm a seeded change (made by an independent sub-agent in its own scratch worktree) and run the checks against it.

  seedtest.py <scratch worktree> <mutation dir> <seed id> [--props C01,C02] [--tier quick]

1. in the scratch worktree: apply patch -> test suite must pass, demo must FAIL; revert -> demo must PASS
2. copy patch.diff / demo.py / meta.json to /verif/seeded/<seed id>/
3. apply the patch to /repo, run ./check for the property (and any extra ones), undo it straight afterwards
4. record what was run and what each check said in meta.json"""
import os, sys, json, subprocess, shutil, time

ROOT = os.path.dirname(os.path.dirname(os.path.abspath(__file__)))


def sh(cmd, cwd=None, env=None, timeout=3600):
    r = subprocess.run(cmd, shell=True, cwd=cwd, env=env, capture_output=True, text=True, timeout=timeout)
    return r.returncode, r.stdout + r.stderr


def main():
    wt, mdir, sid = sys.argv[1:4]
    props = None; tier = 'quick'
    a = sys.argv[4:]
    while a:
        if a[0] == '--props': props = a[1].split(','); a = a[2:]
        elif a[0] == '--tier': tier = a[1]; a = a[2:]
        else: raise SystemExit('bad arg ' + a[0])
    meta = json.load(open(os.path.join(mdir, 'meta.json')))
    props = props or [meta['property']]
    patch = os.path.abspath(os.path.join(mdir, 'patch.diff')); demo = os.path.abspath(os.path.join(mdir, 'demo.py'))
    env = dict(os.environ, PYTHONPATH=wt, PYTHONDONTWRITEBYTECODE='1')
    ran = []
    # ---- 1. confirm in the scratch worktree
    rc, out = sh('git status --porcelain emmet', cwd=wt)
    if out.strip(): raise SystemExit('scratch worktree not clean: ' + out)
    rc, out = sh('git apply %s' % patch, cwd=wt)
    if rc != 0: raise SystemExit('patch does not apply: ' + out)
    try:
        rc_t, out_t = sh('/venv/bin/python -m pytest -q -p no:cacheprovider 2>&1 | tail -1', cwd=wt, env=env)
        ran.append('cd <worktree>; git apply patch.diff; PYTHONPATH=<worktree> /venv/bin/python -m pytest -q -p no:cacheprovider -> %s' % out_t.strip())
        rc_d, out_d = sh('/venv/bin/python %s' % demo, cwd=wt, env=env)
        ran.append('PYTHONPATH=<worktree> /venv/bin/python demo.py (with the change) -> exit %d' % rc_d)
    finally:
        sh('git checkout -- emmet', cwd=wt)
    rc_c, out_c = sh('/venv/bin/python %s' % demo, cwd=wt, env=env)
    ran.append('git checkout -- emmet; demo.py (without the change) -> exit %d' % rc_c)
    confirmed = ('141 passed' in out_t) and rc_d != 0 and rc_c == 0
    print('confirm: tests=%s demo_with=%d demo_without=%d -> %s' % (out_t.strip(), rc_d, rc_c, 'CONFIRMED' if confirmed else 'REJECTED'))
    if not confirmed:
        print(out_d[-800:]); print(out_c[-800:]); return 1
    dest = os.path.join(ROOT, 'seeded', sid)
    os.makedirs(dest, exist_ok=True)
    shutil.copy(patch, os.path.join(dest, 'patch.diff')); shutil.copy(demo, os.path.join(dest, 'demo.py'))
    # ---- 3. run the checks against /repo with the change applied
    rc, out = sh('git status --porcelain', cwd='/repo')
    if out.strip(): raise SystemExit('/repo not clean: ' + out)
    rc, out = sh('git apply %s' % patch, cwd='/repo')
    if rc != 0: raise SystemExit('patch does not apply to /repo: ' + out)
    results = {}
    try:
        for p in props:
            t0 = time.time()
            rc, out = sh('./check %s --tier %s' % (p, tier), cwd=ROOT, timeout=7200)
            vl = [l for l in out.splitlines() if l.startswith('VIOLATION')]
            first = [l for l in out.splitlines() if l.startswith('[%s] dom_' % p) or 'broken:' in l][:3]
            results[p] = {'exit': rc, 'violation_lines': vl[:3], 'detail': [x[:400] for x in first], 'wall_s': round(time.time() - t0, 1), 'tier': tier}
            print('  %s: exit %d %s' % (p, rc, (vl[0] if vl else '')))
            for x in first: print('     ' + x[:300])
            ran.append('git -C /repo apply patch.diff; ./check %s --tier %s -> exit %d' % (p, tier, rc))
    finally:
        sh('git checkout -- .', cwd='/repo')
        ran.append('git -C /repo checkout -- .')
    meta_out = {'seed_id': sid, 'breaks_property': meta['property'], 'summary': meta.get('summary'), 'needs_to_manifest': meta.get('needs'), 'files': meta.get('files'),
                'author': 'independent sub-agent given only the property text and a scratch worktree', 'confirmed': True, 'what_was_run': ran, 'check_results': results,
                'detected_by': [p for p, r in results.items() if r['exit'] == 1]}
    json.dump(meta_out, open(os.path.join(dest, 'meta.json'), 'w'), indent=1)
    # clean replays produced by the seeded run (they describe the seeded tree, not /repo)
    return 0


if __name__ == '__main__':
    sys.exit(main())
