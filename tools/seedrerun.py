"""Re-run the registered checks against every stored seeded change (seeded/<id>/patch.diff): apply to /repo, run ./check for the
property it breaks, undo straight afterwards, record the result in meta.json (`check_results`, `detected_by`).

  seedrerun.py [--only C12-m4,C03-m4] [--tier quick]"""
import os, sys, json, subprocess, time, glob

ROOT = os.path.dirname(os.path.dirname(os.path.abspath(__file__)))


def sh(cmd, cwd=None, timeout=1800):
    r = subprocess.run(cmd, shell=True, cwd=cwd, capture_output=True, text=True, timeout=timeout)
    return r.returncode, r.stdout + r.stderr


def main():
    only = None; tier = 'quick'
    a = sys.argv[1:]
    while a:
        if a[0] == '--only': only = set(a[1].split(',')); a = a[2:]
        elif a[0] == '--tier': tier = a[1]; a = a[2:]
        else: raise SystemExit('bad arg ' + a[0])
    rc, out = sh('git status --porcelain', cwd='/repo')
    if out.strip(): raise SystemExit('/repo not clean: ' + out)
    summary = []
    for d in sorted(glob.glob(os.path.join(ROOT, 'seeded', 'C*-m*'))):
        sid = os.path.basename(d)
        if only and sid not in only: continue
        meta = json.load(open(os.path.join(d, 'meta.json')))
        prop = meta['breaks_property']
        rc, out = sh('git apply %s' % os.path.join(d, 'patch.diff'), cwd='/repo')
        if rc != 0:
            summary.append((sid, 'patch no longer applies (the code it changed was repaired since)')); meta['rerun_note'] = 'patch no longer applies to the current tree'; json.dump(meta, open(os.path.join(d, 'meta.json'), 'w'), indent=1); continue
        try:
            t0 = time.time()
            rc, out = sh('./check %s --tier %s' % (prop, tier), cwd=ROOT)
            vl = [l for l in out.splitlines() if l.startswith('VIOLATION')]
            first = [l for l in out.splitlines() if l.startswith('[%s] dom_' % prop) or 'broken:' in l][:3]
            meta.setdefault('check_results', {})[prop] = {'exit': rc, 'violation_lines': vl[:3], 'detail': [x[:400] for x in first], 'wall_s': round(time.time() - t0, 1), 'tier': tier}
            meta['detected_by'] = sorted(set([p for p, r in meta['check_results'].items() if r['exit'] == 1]))
            json.dump(meta, open(os.path.join(d, 'meta.json'), 'w'), indent=1)
            kind = 'MISSED' if rc == 0 else ('weak (no-failing-input-found)' if vl and 'no-failing-input-found' in vl[0] else ('detected' if rc == 1 else 'exit %d' % rc))
            summary.append((sid, kind))
            print(sid, kind, flush=True)
        finally:
            sh('git checkout -- .', cwd='/repo')
    print(json.dumps(summary))
    return 0


if __name__ == '__main__':
    sys.exit(main())
