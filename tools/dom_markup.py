"""Domain: emmet.expand on markup abbreviations generated from typed ASTs whose denotation is computed from the property
text (tools/mk.py). Serves C01, C02, C03, C04 (per-property generator mix and oracle). Correspondence goes through the same
`expandg` driver mode as dom_expand."""
import random, copy, re
from vlib import hx
import gens, cfgcodec, mk
from dom_expand import B, field, outcome, outcome_cached, outcome_rerendered, outcome_reordered, line_of

MODE = 'expandg'


def mkcfg(c):
    c = copy.deepcopy(c); c.pop('own', None); o = dict(B); o.update(c.get('options', {})); c['options'] = o; return c


ATTR_POOL = [('attr', 'title', 'v', 'raw'), ('attr', 'title', 'a b', 'dq'), ('attr', 'data-x', 'y', 'sq'), ('attr', 'lang', None, None), ('attr', 'rel', 'e', 'expr'),
             ('attr', 'title', 'w', 'raw'), ('attr', 'data-x', 'z z', 'dq'), ('bool', 'checked'), ('bool', 'foo'), ('implied', 'dir', None), ('implied', 'dir', 'ltr'),
             ('attr', 'class', 'k', 'raw'), ('attr', 'id', 'j', 'raw'), ('attr', 'disabled', None, None), ('attr', 'for', 'f', 'raw'), ('attr', 'class', '', 'dq'),
             ('implbool', 'b', None), ('implbool', 'hidden', 'x'), ('attr', 'title', None, None), ('attr', 'data-items', '[1,2]', 'raw'), ('attr', 'a', 'x[1]', 'raw'), ('attr', 'k', '(v)', 'raw')]
TEXT_POOL = ['txt', 'a b', 'x > y + z', 'item', 'l1', ' sp ']


def base_opt(prop):
    names = mk.PLAIN + mk.VOID
    if prop == 'C01': return dict(names=names + [n for n in mk.INLINE_DOC if n not in ('br', 'img', 'input', 'select', 'a', 'label', 'map', 'object', 'iframe', 'textarea', 'button', 'basefont', 'applet', 'font')] + ['EM', 'Span', 'Q', 'S', 'Kbd', 'UL', 'Tr'], p_void_child=.25, p_noname=.2, p_class=.25, p_id=.1, p_attr=.1, p_text=.1, p_rep=.2, attr_pool=ATTR_POOL[:7], text_pool=TEXT_POOL + ['see ${1} now', '${2:x} y', 'a ${0} b'], p_group=.25, p_grep=.4, max_rep=3)
    if prop == 'C02': return dict(names=[n for n in mk.PLAIN if n not in ('select', 'option', 'optgroup')], p_noname=.05, p_class=.4, p_id=0, p_attr=.3, p_text=.35, p_rep=.45, attr_pool=[ATTR_POOL[0], ATTR_POOL[2], ATTR_POOL[5]], text_pool=TEXT_POOL[:5],
                                  p_group=.25, p_grep=.6, max_rep=4, num=.6)
    if prop == 'C03': return dict(names=['div', 'p', 'span', 'section', 'x', 'ul', 'li', 'em', 'h1', 'td'], p_class2=.12, p_noname=.15, p_class=.6, p_id=.4, p_attr=.8, p_text=.1, p_rep=.1, attr_pool=ATTR_POOL, text_pool=TEXT_POOL[:2],
                                  p_group=.1, p_grep=.2, max_rep=2)
    return dict(names=names, p_noname=.1, p_class=.3, p_id=.1, p_attr=.2, p_text=.3, p_rep=.2, attr_pool=ATTR_POOL[:7], text_pool=TEXT_POOL, p_group=.2, p_grep=.4, max_rep=3)


C01_CFGS = [{}, {'options': {'output.format': False}}, {'options': {'output.selfClosingStyle': 'xhtml'}}, {'options': {'output.selfClosingStyle': 'xml', 'output.format': False}},
            {'syntax': 'xml'}, {'context': {'name': 'ul'}}, {'context': {'name': 'em'}}, {'options': {'inlineElements': ['em', 'span', 'x', 'b', 'q', 'a']}}, {'context': {'name': '\u017fpan'}}, {'context': {'name': '\u017felect'}}, {'context': {'name': '\ufb06rong'}}, {'options': {'output.inlineBreak': 0, 'output.indent': '  ', 'output.newline': '\r\n'}}]
C02_CFGS = [{}, {}, {'syntax': 'jsx'}, {'syntax': 'svelte'}, {'maxRepeat': 1}, {'maxRepeat': 2}, {'maxRepeat': 3}, {'maxRepeat': 5}, {'maxRepeat': 9}, {'options': {'output.format': False}}]
C03_CFGS = [{}, {'options': {'output.attributeQuotes': 'single'}}, {'options': {'output.reverseAttributes': True}}, {'options': {'output.compactBoolean': True}},
            {'options': {'output.attributeCase': 'upper'}}, {'syntax': 'jsx'}, {'syntax': 'vue'}, {'syntax': 'xml'}, {'options': {'output.selfClosingStyle': 'xhtml', 'output.compactBoolean': True, 'output.reverseAttributes': True}},
            {'options': {'output.booleanAttributes': ['lang', 'foo']}}, {'syntax': 'jsx', 'options': {'output.attributeCase': 'upper'}}, {'syntax': 'vue', 'options': {'output.attributeCase': 'upper'}},
            {'syntax': 'jsx', 'options': {'output.attributeCase': 'lower', 'output.reverseAttributes': True}},
            {'snippets': {'pair': 'dt+dd', 'trio': 'dt+dd+dl'}}, {'snippets': {'pair': 'dt+dd', 'trio': 'dt+dd+dl'}, 'options': {'output.reverseAttributes': True}},
            {'options': {'markup.attributes': {'class': 'klass', 'title': 'data-title', 'for': 'html-for'}}}, {'syntax': 'vue', 'options': {'markup.attributes': {'class': 'klass', 'for': 'htmlFor'}}},
            {'snippets': {'pair': 'dt[title=term]+dd[lang=en]', 'trio': 'dt[data-a=1]+dd[data-b=2 title=u]+dl'}, 'own': 1},
            {'snippets': {'pair': 'dt[title=term]+dd[lang=en]', 'trio': 'dt[data-a=1]+dd[data-b=2 title=u]+dl'}, 'options': {'output.reverseAttributes': True}, 'own': 1}]
C03_ALIASES = {'pair': ['dt', 'dd'], 'trio': ['dt', 'dd', 'dl']}
# attributes the definitions of the `own` tables carry themselves (in front of what is written on the alias; behind it under reverseAttributes)
C03_OWN = {'pair': [[('attr', 'title', 'term', 'raw')], [('attr', 'lang', 'en', 'raw')]], 'trio': [[('attr', 'data-a', '1', 'raw')], [('attr', 'data-b', '2', 'raw'), ('attr', 'title', 'u', 'raw')], []]}


def strip_note(seq):
    """the text-only alias `note` carries nothing of its own (no attributes, text, repeater): only children"""
    for item, op in seq:
        if item['k'] == 'group': strip_note(item['body'])
        elif item['name'] == 'note': item['mentions'] = []; item['text'] = None; item['rep'] = None


def insert_empty_text(rnd, seq):
    """put an empty text node `{}` in front of a random item of a random level (as a sibling)"""
    i = rnd.randrange(len(seq))
    item = seq[i][0]
    if item['k'] == 'group' and rnd.random() < .5: insert_empty_text(rnd, item['body']); return
    seq.insert(i, [{'k': 'elem', 'name': None, 'mentions': [], 'text': '', 'rep': None, 'slash': False}, '+'])


def skeletons(k):
    """every operator skeleton with <= k items over > + ^ ^^ ( ) *2 (exhaustive)"""
    out = []

    def el(i): return {'k': 'elem', 'name': 'e%d' % i, 'mentions': [], 'text': None, 'rep': None, 'slash': False}

    def seqs(n, start):
        # all Seqs with exactly n items (elements or one-level groups), numbering elements from `start`
        if n == 0: return
        res = []
        # first item: element (optionally *2) or group containing m items
        firsts = []
        for rep in (None, 2): firsts.append(([dict(el(start), rep=rep)], 1))
        for m in range(1, n + 1):
            for body in seqs_flat(m, start):
                for rep in (None, 2): firsts.append(([{'k': 'group', 'body': body, 'rep': rep}], m))
        for (item, used) in firsts:
            if used == n: res.append([[item[0], None]])
            else:
                for rest in seqs(n - used, start + used):
                    for op in (['>'] if item[0]['k'] == 'elem' else []) + ['+', '^', '^^']:
                        res.append([[item[0], op]] + rest)
        return res

    def seqs_flat(n, start):
        # group bodies: element-only sequences (no nested groups) to keep the space finite and small
        if n == 1: return [[[dict(el(start), rep=rep), None]] for rep in (None,)]
        res = []
        for rest in seqs_flat(n - 1, start + 1):
            for op in ('>', '+', '^'):
                res.append([[el(start), op]] + rest)
        return res
    for n in range(1, k + 1): out += seqs(n, 1)
    return out


def cases(tier, seed, prop):
    rnd = random.Random(seed)
    out = []
    opt = base_opt(prop)
    if prop == 'C01':
        sk = skeletons(4)
        for i, s in enumerate(sk):
            for ci in ((i % 2,) if tier == 'quick' else (0, 1, 2, 3)):
                out.append({'seq': s, 'c': C01_CFGS[ci], 'g': 'skeleton'})
        n = 8000 if tier == 'quick' else 40000
        for _ in range(n):
            out.append({'seq': mk.gen_seq(rnd, opt, [rnd.randint(1, 10)], 3), 'c': rnd.choice(C01_CFGS), 'g': 'random'})
        for (n1, n2) in ((40, 30), (12, 100)):
            row = {'k': 'elem', 'name': 'row', 'mentions': [], 'text': None, 'rep': n1, 'slash': False}; cell = {'k': 'elem', 'name': 'cell', 'mentions': [], 'text': None, 'rep': n2, 'slash': False}
            out.append({'seq': [[row, '>'], [cell, None]], 'c': {'options': {'output.format': False}}, 'g': 'large'})
        oi = dict(opt, names=['div', 'p', 'ul', 'li', 'span', 'em', 'br', 'hr', 'wbr', 'section', 'x', 'table', 'tr', 'td'], p_noname=.1, p_void_child=.25, p_attr=0, p_text=0, p_id=.1, p_class=.2, p_rep=.2)
        for _ in range(n // 6):
            seq_ = mk.gen_seq(rnd, oi, [rnd.randint(2, 9)], 2)
            tidy_C13(seq_)
            out.append({'seq': seq_, 'c': {'syntax': rnd.choice(['haml', 'pug', 'slim'])}, 'g': 'indent-syntax'})
        # user snippets whose definitions nest: the alias stands for its definition's tree, children go into its deepest last element -
        # on every use, also repeated ones and later ones in the same process
        oa = dict(opt, names=list(mk.ALIAS_SNIPPETS) * 2 + ['p', 'b', 'ul', 'li', 'span', 'div'], p_noname=.1, p_void_child=0, p_rep=.3)
        for _ in range(n // 6):
            seq_ = mk.gen_seq(rnd, oa, [rnd.randint(2, 8)], 2)
            strip_note(seq_)
            out.append({'seq': seq_, 'c': dict(rnd.choice(C01_CFGS[:4]), snippets=dict(mk.ALIAS_SNIPPETS)), 'alias': 1, 'g': 'alias'})
    elif prop == 'C02':
        # exhaustive numbering forms on three carriers
        for N in range(1, 6 if tier == 'quick' else 13):
            for w in (1, 2, 3):
                for form in ('', '@0', '@2', '@10', '@-', '@-3', '@-0', '@98', '@-97', '@999'):
                    t = '$' * w + form
                    for carrier in ('name', 'attr', 'text', 'group'):
                        e = {'k': 'elem', 'name': 'x', 'mentions': [], 'text': None, 'rep': N, 'slash': False}
                        if carrier == 'name': e['name'] = 'h' + t
                        elif carrier == 'attr': e['mentions'] = [('attr', 'title', 'v' + t, 'raw')]
                        elif carrier == 'text': e['text'] = 'i ' + t
                        if carrier == 'group':
                            inner = dict(e, rep=None, text='g ' + t)
                            seq = [[{'k': 'group', 'body': [[inner, '+'], [dict(inner, name='y'), None]], 'rep': N}, None]]
                        else: seq = [[e, None]]
                        out.append({'seq': seq, 'c': {}, 'g': 'forms'})
        # large counts without any configured limit: "exactly N copies" has no small built-in ceiling
        for (n1, n2) in ((1200, None), (40, 30), (1, 2500)) + (() if tier == 'quick' else ((12000, None), (200, 60))):
            e = {'k': 'elem', 'name': 'x', 'mentions': [('attr', 'title', 'v$', 'raw')], 'text': None, 'rep': n1, 'slash': False}
            if n2 is None: seq = [[e, None]]
            else: seq = [[{'k': 'group', 'body': [[e, None]], 'rep': n2}, None]]
            out.append({'seq': seq, 'c': {'options': {'output.format': False}}, 'g': 'large'})
        for ab, exp in [('div.{a$}*2', '<div className={a1}></div><div className={a2}></div>'), ('p#{i$$}*2', '<p id={i01}></p><p id={i02}></p>'), ('ul>li.{k$@3}*2', '<ul><li className={k3}></li><li className={k4}></li></ul>')]:
            out.append({'s': ab, 'c': {'syntax': 'jsx', 'options': {'output.format': False}}, 'expect': exp, 'g': 'jsx-shorthand-expr'})
        # numbering next to the `$#` placeholder under two nested repeaters, with a wrap text
        for text in ('T', 'some text'):
            for o_ in ({'output.format': False}, {'output.format': False, 'output.attributeQuotes': 'single'}):
                q = "'" if 'output.attributeQuotes' in o_ else '"'
                exp1 = ''.join('<ul class=%sl%d%s>' % (q, i, q) + ''.join('<li class=%si%d%s title=%s%s%s></li>' % (q, j, q, q, text, q) for j in (1, 2, 3)) + '</ul>' for i in (1, 2))
                out.append({'s': 'ul.l$*2>li.i$[title=$#]*3', 'c': {'text': text, 'options': o_}, 'expect': exp1, 'g': 'wrapnum'})
                exp2 = ''.join('<p class=%sa%d%s><b class=%sc%d%s>%s</b></p>' % (q, i, q, q, i + 2, q, text) for i in (1, 2))
                out.append({'s': '(p.a$>b.c$@3{$#})*2', 'c': {'text': text, 'options': o_}, 'expect': exp2, 'g': 'wrapnum'})
                exp3 = ''.join('<ol class=%so%02d%s>' % (q, i, q) + ''.join('<li class=%sn%d%s>%s %d</li>' % (q, 3 - j, q, text, j) for j in (1, 2)) + '</ol>' for i in (1, 2))
                out.append({'s': 'ol.o$$*2>li.n$@-*2{$# $}', 'c': {'text': text, 'options': o_}, 'expect': exp3, 'g': 'wrapnum'})
        n = 8000 if tier == 'quick' else 40000
        for _ in range(n):
            out.append({'seq': mk.gen_seq(rnd, opt, [rnd.randint(1, 8)], 3), 'c': rnd.choice(C02_CFGS), 'g': 'random'})
        # repeated user snippets whose definitions nest: N copies of the alias are N copies of its definition, each with its own descendants
        oa = dict(opt, names=list(mk.ALIAS_SNIPPETS) * 2 + ['p', 'b', 'ul', 'li', 'span'], p_noname=0, p_rep=.6, p_attr=.15)
        for _ in range(n // 6):
            seq_ = mk.gen_seq(rnd, dict(oa, names=[x for x in oa['names'] if x != 'note']), [rnd.randint(2, 7)], 2)
            out.append({'seq': seq_, 'c': dict(rnd.choice([{}, {'options': {'output.format': False}}]), snippets=dict(mk.ALIAS_SNIPPETS)), 'alias': 1, 'g': 'alias'})
    elif prop == 'C03':
        for ab, exp in [('xsl:param[select=x]>p', '<xsl:param select="x"><p></p></xsl:param>'), ('xsl:param[name=n select=x]{t}', '<xsl:param name="n" select="x">t</xsl:param>'),
                        ('xsl:variable[select=x]>p', '<xsl:variable><p></p></xsl:variable>'), ('xsl:with-param[name=n select=x]{t}', '<xsl:with-param name="n">t</xsl:with-param>'),
                        ('xsl:param[select=x]', '<xsl:param select="x"></xsl:param>'), ('par[select=x]>b', '<xsl:param name="" select="x"><b></b></xsl:param>'), ('xsl:variable[select=x]', '<xsl:variable select="x"></xsl:variable>'),
                        ('xsl:param[name=n select="a b"]>xsl:variable[name=m select=y]{v}', '<xsl:param name="n" select="a b"><xsl:variable name="m">v</xsl:variable></xsl:param>'),
                        ('xsl:template[match=x select=y]>b', '<xsl:template match="x" select="y"><b></b></xsl:template>'), ('xsl:sort[select=k order=d]', '<xsl:sort select="k" order="d"></xsl:sort>')]:
            out.append({'s': ab, 'c': {'syntax': 'xsl', 'options': {'output.format': False}}, 'expect': exp, 'g': 'xsl-select'})
        for ab, exp in [('label[for=${1:email}]>input', '<label for="email"><input type="text"></label>'), ('label>input[id=${1:x}]', '<label><input type="text" id="x"></label>'),
                        ('label[for=a]>textarea', '<label for="a"><textarea name=""></textarea></label>'), ('label[for=${1:e} title=t]>div>input', '<label for="e" title="t"><div><input type="text"></div></label>')]:
            out.append({'s': ab, 'c': {'options': {'output.format': False}}, 'expect': exp, 'g': 'label-addon'})
        n = 10000 if tier == 'quick' else 50000
        for _ in range(n):
            c = rnd.choice(C03_CFGS)
            # a user snippet with several top-level elements: what is written on the alias belongs to each of them
            o2 = dict(opt, names=opt['names'] + ['pair', 'trio', 'pair', 'trio']) if 'snippets' in c else opt
            case = {'seq': mk.gen_seq(rnd, o2, [rnd.randint(1, 4)], 1), 'c': c, 'g': 'random', 'sep': rnd.choice([' ', ' ', ' ', ' ', ' ', ' ', '\t', '  ', '\n', ' \t'])}
            # the elements stand inside a text node with a tabstop (the stock comment snippets, or text written in place): they are
            # elements like any other
            if rnd.random() < .12: case['pre'] = rnd.choice(['c>', 'cc:ie>', '{x ${0} y}>', '{${0}}>', 'c>c>']); case['g'] = 'under-text'
            out.append(case)
    elif prop == 'C04':
        n = 8000 if tier == 'quick' else 40000
        # exhaustive short payloads over the punctuation alphabet (well-formed ones only) at two positions
        alpha = [ch for ch in gens.ABBR_ALPHA if ch not in '$'] + ['\\$', '\\{', '\\}', '\\\\']
        import itertools
        L = 2 if tier == 'quick' else 3
        for l in range(1, L + 1):
            for t in itertools.product(alpha, repeat=l):
                w = ''.join(t)
                if not wellformed(w): continue
                for tpl in (0, 1):
                    out.append({'w': w, 'tpl': tpl, 'c': {'options': {'output.format': False}}, 'g': 'text-exh'})
        for _ in range(n):
            w = gen_w(rnd, rnd.randint(1, 12))
            out.append({'w': w, 'tpl': rnd.randrange(len(TEXT_TPL)), 'c': rnd.choice([{}, {'options': {'output.format': False}}, {'syntax': 'xml'}, {'syntax': 'jsx'}, {'syntax': 'jsx', 'options': {'output.format': False}}]), 'g': 'text'})
        for ab, tx, exp in [('div>a', 'T', '<div><a href="">T</a></div>'), ('a', 'some text', '<a href="">some text</a>'), ('p>b+a', 'T', '<p><b></b><a href="">T</a></p>')]:
            out.append({'s0': ab, 'c': {'text': tx, 'options': {'output.format': False}}, 'expect_bare': exp, 'g': 'wrap-into-a'})
        sn_ = {'btn': 'button{Click}', 'lnk': 'a{here}+i'}
        for ab, tx, exp in [('btn{Go}', None, '<button>Go</button>'), ('div>btn{A b}', None, '<div><button>A b</button></div>'), ('btn', None, '<button>Click</button>'), ('ul>btn*', ['x', 'y'], '<ul><button>x</button><button>y</button></ul>'),
                            ('div>btn', 'T', '<div><button>T</button></div>'), ('lnk{x}', None, '<a href="">x</a><i>x</i>')]:
            c_ = {'snippets': dict(sn_), 'options': {'output.format': False}}
            if tx is not None: c_['text'] = tx
            out.append({'s0': ab, 'c': c_, 'expect_bare': exp, 'g': 'alias-with-text'})
        # text that begins with an inline-level tag written in capitals: still content, character for character
        for ab, exp in [('x{<B>b</B> t}', '<x><B>b</B> t</x>'), ('div>x{<SPAN k=v>t</SPAN>}', '<div>\n\t<x><SPAN k=v>t</SPAN></x>\n</div>'), ('div>x{<b>b</b> t}', '<div>\n\t<x><b>b</b> t</x>\n</div>'), ('p>x{<Em>e</Em>}+y', '<p>\n\t<x><Em>e</Em></x>\n\t<y></y>\n</p>')]:
            out.append({'s0': ab, 'c': {}, 'expect_bare': exp, 'g': 'inline-tag-text'})
        # multi-line texts whose lines begin with blanks: laid out one line per text line, every blank kept
        for w in ('  a\nb', ' \tq\n r', 'a\n  b', '   x y\n\n  z'):
            exp = '<x>\n' + ''.join('\t' + l + '\n' for l in w.split('\n')) + '</x>'
            out.append({'w': w, 'tpl': 0, 'c': {'options': {'output.format': False}}, 'expect_full': exp, 'g': 'text-lines'})
        for _ in range(n // 2):
            lines = [rnd.choice(WRAP_LINES) for _ in range(rnd.randint(0, 5))]
            k = rnd.randrange(len(WRAP_TPL))
            text = lines if (WRAP_TPL[k][1] or rnd.random() < .6) else '\n'.join(lines)
            out.append({'wrap': k, 'c': {'text': text, 'options': {'output.format': rnd.random() < .5}}, 'g': 'wrap'})
        # numbering and tabstops inside text, also inside balanced inner braces (`{{ ${1:name} }}`, `{a{$}b}`)
        for _ in range(n // 6):
            w, want = gen_wnum(rnd, rnd.randint(1, 8), 0)
            out.append({'w': w, 'want': want, 'tpl': rnd.choice([0, 3]), 'c': rnd.choice([{}, {'options': {'output.format': False}}, {'syntax': 'jsx'}, {'syntax': 'vue'}]), 'g': 'text-num'})
        # a long list of lines: one copy per non-blank line has no small built-in ceiling
        # (the model's list-append loops are quadratic: beyond MODEL_MAX_LINES lines the case is judged by the oracle on the implementation
        # only and counted as unmodelled)
        for cnt in (1500, 120001 if tier == 'quick' else 250001):
            out.append({'wrap': 0, 'c': {'text': ['l%d' % i if i % 7 else '  ' for i in range(cnt)], 'options': {'output.format': False}}, 'g': 'wrap-large',
                        'nomodel': cnt > MODEL_MAX_LINES})
        # text with tabstops in front of children: the children stand at the first tabstop, every other character of the text stays
        for _ in range(n // 6):
            w, want = gen_wnum(rnd, rnd.randint(2, 9), 0)
            out.append({'w': w, 'want': want, 'kids': 1, 'tpl': 1, 'c': {'options': {'output.format': False}}, 'g': 'text-kids'})
        for c in out:
            c['s'] = c['s0'] if 's0' in c else TEXT_TPL[c['tpl']] % c['w'] if 'w' in c else WRAP_TPL[c['wrap']][0]
        return out
    elif prop == 'C13':
        n = 8000 if tier == 'quick' else 40000
        o13 = dict(base_opt('C04'), names=['div', 'p', 'span', 'ul', 'li', 'em', 'b', 'hr', 'br', 'strong', 'section', 'x', 'table', 'tr', 'td'], p_attr=.5, p_text=.4,
                   attr_pool=[('attr', 'title', None, None), ('attr', 'lang', None, None), ('attr', 'data-x', 'y', 'raw'), ('attr', 'title', '${1}', 'dq'), ('attr', 'alt', '${2:ph} ${1}', 'dq'),
                              ('attr', 'rel', 'a${3}b', 'dq'), ('attr', 'class', 'a${1} b${1}', 'dq'), ('attr', 'class', '${2:x} ${1:y}', 'dq'), ('attr', 'id', 'i${1}${2}', 'raw'), ('attr', 'href', '', 'dq'), ('attr', 'alt', '${caption}', 'dq'), ('attr', 'title', '${foo}', 'raw')],
                   text_pool=['txt', '${1}', '${1:one} and ${2}', 'l1\nl2', '${2:b}${1:a}', 'a ${0} z', 'x ${3:c}', 'foo\nbar ${1}', 'Tom & Jerry', 'a & b\nc & d', 'first ${2:b}\nsecond ${1:a}', '${1:x} one\ntwo', '${3:c}\n${1}\nmid ${2:k}', '${2}\n${1}', '${foo}', 'a ${bar} b', '${lang}'])
        for _ in range(n):
            c = {}
            r = rnd.random()
            if r < .55: c['syntax'] = rnd.choice(['html', 'xml', 'jsx', 'vue', 'xsl', 'svelte'])
            elif r < .85: c['syntax'] = rnd.choice(['haml', 'pug', 'slim'])
            o = {}
            if rnd.random() < .5: o['output.newline'] = rnd.choice(['\n', '\r\n', '\r'])
            if rnd.random() < .5: o['output.indent'] = rnd.choice(['\t', '  ', '    ', ''])
            if rnd.random() < .4: o['output.baseIndent'] = rnd.choice(['', '  ', '\t'])
            if rnd.random() < .2: o['output.format'] = False
            if rnd.random() < .2: o['output.formatLeafNode'] = True
            if rnd.random() < .2: o['output.inlineBreak'] = rnd.choice([0, 1, 2])
            if o: c['options'] = o
            seq = mk.gen_seq(rnd, o13, [rnd.randint(1, 7)], 2)
            tidy_C13(seq)
            out.append({'seq': seq, 'c': c, 'g': 'random'})
        # comments switched on, explicit fields inside id / class values (the comment repeats those values): positions, and no tabstop number
        # shared by two different values
        o13c = dict(o13, p_attr=.7, p_text=.3, attr_pool=[('attr', 'id', '${1:intro}', 'raw'), ('attr', 'class', 'k${2:x}', 'raw'), ('attr', 'id', 'a${1}b${2:c}', 'dq'), ('attr', 'class', '${3}', 'dq'),
                                                         ('attr', 'id', 'main', 'raw'), ('attr', 'title', '', 'dq'), ('attr', 'href', '${1}', 'dq'), ('attr', 'class', 'a b', 'dq')], p_id=.2, p_class=.2)
        for _ in range(n // 5):
            o = {'comment.enabled': True}
            if rnd.random() < .3: o['comment.after'] = rnd.choice(['\n<!-- /[#ID][.CLASS] -->', ' <!-- [#ID] -->', '\n<!-- end [.CLASS] [#ID] -->'])
            if rnd.random() < .3: o['comment.before'] = rnd.choice(['<!-- [#ID] -->\n', '<!-- [.CLASS] -->'])
            if rnd.random() < .3: o['output.format'] = False
            seq = mk.gen_seq(rnd, o13c, [rnd.randint(1, 6)], 1)
            tidy_C13(seq)
            out.append({'seq': seq, 'c': {'options': o}, 'g': 'comment-fields'})
        for t_ in FIELD_TPL + ['div>{a ${1} b ${2:x} c ${2}}>p+q', '{${2}${1:k} ${1}}>em', 'ul>{${0} ${1} ${1}}>li*2']:
            for sy_ in ('html', 'xml'):
                out.append({'s': t_, 'c': {'syntax': sy_}, 'g': 'snippet-fields'})
        # stylesheet syntaxes: snippets whose bodies span lines, numeric values, fields; positions only
        for _ in range(n // 6):
            c = {'type': 'stylesheet', 'syntax': rnd.choice(['css', 'scss', 'sass', 'less', 'stylus'])}
            o = {}
            if rnd.random() < .6: o['output.newline'] = rnd.choice(['\n', '\r\n', '\r'])
            if rnd.random() < .5: o['output.baseIndent'] = rnd.choice(['', '  ', '\t'])
            if rnd.random() < .3: o['output.indent'] = rnd.choice(['\t', '  '])
            if o: c['options'] = o
            ab = '+'.join(rnd.choice(['@kf', '@m', '@f', '@ff', 'p10', 'm5-10', 'c#f', 'pos', 'bd', 'anim', 'trf:r', '@i', 'lg(top, #f, #0)', 'd:n', 'bg']) for _ in range(rnd.randint(1, 3)))
            out.append({'s': ab, 'c': c, 'g': 'stylesheet'})
        for c in out:
            if 'seq' in c: c['s'] = mk.print_seq(c['seq'])
        return out
    elif prop == 'C14':
        out = cases_C14(tier, rnd)
        return out
    elif prop in ('C12', 'C15'):
        n = 8000 if tier == 'quick' else 40000
        names = ['div', 'p', 'span', 'ul', 'li', 'em', 'b', 'hr', 'br', 'strong', 'section', 'x', 'table', 'tr', 'td', 'article', 'body', 'i', 'h1', 'nav']
        if prop == 'C15': names = names + ['samp', 'kbd', 'var', 'code', 'q', 's', 'tt', 'sub', 'sup', 'cite', 'dfn', 'u', 'small', 'big', 'del', 'ins', 'strike']
        o12 = dict(base_opt('C04'), names=names, p_attr=.3, p_text=.35, p_noname=.1, p_void_child=.25,
                   attr_pool=[('attr', 'title', 'v', 'raw'), ('attr', 'data-x', 'a b', 'dq'), ('attr', 'lang', None, None), ('attr', 'rel', 'e', 'expr')] if prop == 'C12' else [('attr', 'title', 'v', 'raw'), ('attr', 'data-x', 'a b', 'dq'), ('attr', 'd', 'M0', 'raw'), ('attr', 'as', 'font', 'raw'), ('attr', 'a', '1', 'raw'), ('attr', 's', 'z', 'dq'), ('attr', 'rel', 'e', 'expr'), ('attr', 'on', 'f(x)', 'expr'), ('bool', 'hidden'), ('bool', 'foo'), ('bool', 'disabled'), ('implied', 'dir', None), ('implied', 'lang', 'en'), ('implied', 'dir', None), ('attr', 'class', 'x\ty', 'dq'), ('attr', 'class', 'q  r', 'dq'), ('attr', 'class', 'u \t v', 'dq'), ('attr', 'class', 'cls', 'expr'), ('attr', 'id', 'uid', 'expr'), ('attr', 'id', 'main', 'dq')],
                   text_pool=['txt', 'a b', 'l1\nl2', 'one\ntwo\nthree', 'x', ' sp ', 'first\rsecond', 'p\r\nq', '${1:one} two\nthree', 'a ${1} b\nc', '${2}${1:k}\nz'] if prop == 'C12' else ['txt', 'a b', 'l1\nl2', 'one\ntwo\nthree', 'x', 'first\rsecond', 'a\x0bb', 'p\r\nq', 'Item\n$ of 3', 'n\n$$\n$ x', '$\nb', 'first\n\nthird', '\nfoo', 'a\n\n\nb'])
        for _ in range(n):
            seq = mk.gen_seq(rnd, o12, [rnd.randint(1, 8)], 2)
            tidy_C13(seq)
            if prop == 'C12' and rnd.random() < .12:
                insert_empty_text(rnd, seq)
            if prop == 'C12':
                c = {'syntax': rnd.choice(['html', 'html', 'xml', 'xsl', 'jsx', 'vue', 'svelte'])}
                # content options (the same on both sides): letter case of tag / attribute names
                cont = {} if rnd.random() < .75 else rnd.choice([{'output.tagCase': 'upper'}, {'output.tagCase': 'lower'}, {'output.tagCase': 'upper', 'output.attributeCase': 'upper'}])
                out.append({'seq': seq, 'c': dict(c, options=dict(rand_layout(rnd), **cont)), 'alt': dict(c, options=dict(rand_layout(rnd), **cont)), 'g': 'random'})
            else:
                c = {'syntax': rnd.choice(['haml', 'pug', 'slim'])}
                if rnd.random() < .5: c['options'] = {'output.indent': rnd.choice(['\t', '  ', '    ', ' '])}
                if rnd.random() < .15: c.setdefault('options', {})['output.tagCase'] = 'upper'
                ps_ = mk.print_seq(seq)
                if '\n\n' in ps_ or '{\n' in ps_: (c.get('options') or {}).pop('output.indent', None)      # blank text lines are padded with blanks: keep the indentation unit (a tab) distinguishable
                out.append({'seq': seq, 'c': c, 'g': 'random'})
        if prop == 'C15':
            # aliases whose definitions branch: the children written on the alias go into the deepest LAST element, at its depth
            oa15 = dict(o12, names=['card', 'wrap', 'pair2', 'solo', 'p', 'b', 'ul', 'li', 'span'], p_noname=0, p_attr=0, p_text=.1, p_void_child=0)
            for _ in range(n // 10):
                seq_ = mk.gen_seq(rnd, oa15, [rnd.randint(2, 6)], 1)
                tidy_C13(seq_)
                out.append({'seq': seq_, 'c': {'syntax': rnd.choice(['haml', 'pug', 'slim']), 'snippets': {k: v for k, v in mk.ALIAS_SNIPPETS.items() if k != 'note'}}, 'alias': 1, 'g': 'alias'})
            many = 'p' + ''.join('.c%d' % i for i in range(12))
            for sy in ('pug', 'haml', 'slim'):
                pre_ = '%' if sy == 'haml' else ''
                out.append({'s': many, 'c': {'syntax': sy}, 'expect_lines': [pre_ + many], 'g': 'many-classes'})
                out.append({'s': 'ul>li' + ''.join('.k%d' % i for i in range(10)) + '*2', 'c': {'syntax': sy}, 'expect_lines': [pre_ + 'ul', '\t' + pre_ + 'li' + ''.join('.k%d' % i for i in range(10)), '\t' + pre_ + 'li' + ''.join('.k%d' % i for i in range(10))], 'g': 'many-classes'})
                out.append({'s': '{Note ${1:x}:}>em', 'c': {'syntax': sy}, 'expect_lines': ['Note x:', '\t' + pre_ + 'em'], 'g': 'text-node-child'})
        if prop == 'C12':
            # text nodes with fields and children (the children replace the first field; what follows it must survive every layout)
            for _ in range(n // 10):
                t = rnd.choice(FIELD_TPL)
                c = {'syntax': rnd.choice(['html', 'html', 'xml', 'jsx', 'vue'])}
                out.append({'s': t, 'c': dict(c, options=rand_layout(rnd)), 'alt': dict(c, options=rand_layout(rnd)), 'g': 'fields'})
    for c in out:
        if 'seq' in c:
            mk.SEP[:] = [c['sep']] if 'sep' in c else []
            c['s'] = c.get('pre', '') + mk.print_seq(c['seq'])
    mk.SEP[:] = []
    return out


MODEL_MAX_LINES = 4000


def req(case):
    if case.get('nomodel'): return '%s;%s' % (hx('x'), cfgcodec.encode({}))
    return '%s;%s' % (hx(case['s']), cfgcodec.encode(mkcfg(case['c']), case.get('gc')))


def inline_doc(cfg):
    """the inline-level elements the statement refers to: the documented default list unless the configuration itself overrides it"""
    o = (cfg.get('options') or {}) if isinstance(cfg, dict) else {}
    return [x.lower() for x in o['inlineElements']] if 'inlineElements' in o else list(mk.INLINE_DOC)


def inline_elements(cfg):
    from emmet.config import Config
    return Config(mkcfg(cfg)).options.get('inlineElements')


# ------------------------------------------------------------------------------------------------- C01
def oracle_C01(case, o):
    if o[0] != 'ok': return ['no-output| expand(%r) -> %s %s' % (case['s'], o[0], o[1])]
    if case['c'].get('syntax') in ('haml', 'pug', 'slim'):
        return ['tree| ' + v.split('|', 1)[1] for v in oracle_C15(case, o)]      # the tree is read from the indentation: one line per element at its depth
    forest = mk.unroll(mk.flat(case['seq']))
    if case.get('alias'): forest = mk.apply_alias(forest)
    ctx = (case['c'].get('context') or {}).get('name')
    mk.implicit_names(forest, ctx, inline_doc(case['c']))
    want = mk.tag_sequence(forest)
    got = [(t[0], t[1].lower()) for t in mk.read_html(o[1]) if t[0] != 'text']
    if got != want:
        i = next((k for k in range(min(len(got), len(want))) if got[k] != want[k]), min(len(got), len(want)))
        return ['tree| expand(%r): tag sequence differs from the denoted tree at #%d: got %r, expected %r' % (case['s'], i, got[i:i + 3], want[i:i + 3])]
    return []


# ------------------------------------------------------------------------------------------------- C02
def simple_attrs(el):
    """C02 generator keeps attribute merging trivial: distinct names, at most one class / id"""
    cls = [m[1] for m in el['mentions'] if m[0] == 'class']
    ids = [m[1] for m in el['mentions'] if m[0] == 'id']
    at = [(m[1], m[2]) for m in el['mentions'] if m[0] == 'attr']
    res = []
    seen = set()
    for m in el['mentions']:
        if m[0] == 'class' and 'class' not in seen: res.append(('class', ' '.join(cls))); seen.add('class')
        elif m[0] == 'id' and 'id' not in seen: res.append(('id', ids[-1])); seen.add('id')
        elif m[0] == 'attr' and m[1] not in seen: res.append((m[1], [v for n, v in at if n == m[1]][-1])); seen.add(m[1])
    return res


def doc_order(forest, acc):
    for el in forest:
        acc.append(('open', el['name'].lower(), simple_attrs(el)))
        if el['text'] is not None: acc.append(('text', el['text']))
        doc_order(el['kids'], acc)
    return acc


def oracle_C02(case, o):
    if o[0] != 'ok': return ['no-output| expand(%r) -> %s %s' % (case['s'], o[0], o[1])]
    if 'expect' in case:
        got = mk.strip_fields(o[1])
        return [] if got == case['expect'] else ['numbering| expand(%r, %r) = %r, expected %r' % (case['s'], case['c'], got, case['expect'])]
    mr = case['c'].get('maxRepeat')
    forest = mk.unroll(mk.flat(case['seq']), None, [mr] if mr else None)
    if case.get('alias'): forest = mk.apply_alias(forest)
    mk.implicit_names(forest, None, inline_doc(case['c']))
    want = doc_order(forest, [])
    if case['c'].get('syntax') == 'jsx':       # documented name map of the syntax
        want = [(w[0], w[1], [({'class': 'className', 'for': 'htmlFor'}.get(n, n), v) for n, v in w[2]]) if w[0] == 'open' else w for w in want]
    got = []
    for t in mk.read_html(o[1]):
        if t[0] == 'open': got.append(('open', t[1].lower(), [(n, mk.strip_fields(v or '')) for n, q, v in t[2]]))
        elif t[0] == 'text': got.append(('text', mk.strip_fields(t[1])))
    # compare element by element; texts modulo surrounding layout white space
    gi = [g for g in got]
    wi = [w for w in want]
    if len([g for g in gi if g[0] == 'open']) != len([w for w in wi if w[0] == 'open']):
        return ['count| expand(%r, maxRepeat=%r): %d elements, expected %d' % (case['s'], mr, len([g for g in gi if g[0] == 'open']), len([w for w in wi if w[0] == 'open']))]
    k = 0
    for w in wi:
        if w[0] == 'open':
            while k < len(gi) and gi[k][0] != 'open': k += 1
            if k >= len(gi): return ['count| output ends early']
            g = gi[k]; k += 1
            if g[1] != w[1] or g[2] != w[2]:
                return ['numbering| expand(%r, maxRepeat=%r): element %r %r, expected %r %r' % (case['s'], mr, g[1], g[2], w[1], w[2])]
        else:
            if k >= len(gi) or gi[k][0] != 'text' or gi[k][1].strip() != w[1].strip():
                return ['numbering| expand(%r, maxRepeat=%r): text %r, expected %r' % (case['s'], mr, gi[k] if k < len(gi) else None, w[1])]
            k += 1
    return []


# ------------------------------------------------------------------------------------------------- C03
def spec_attrs(mentions, cfg_options, syntax_attr_map):
    """declarative reading of the statement: order of first mention; class = non-empty values joined by one space; any other
    name: last value wins (first under reverseAttributes) at the first position; flags are the disjunction over mentions;
    a declared expression stays an expression"""
    rev = cfg_options.get('output.reverseAttributes')
    order = []; info = {}; multi = set()
    for m in mentions:
        kind = m[0]
        if kind == 'class': name, val, vt, b_, imp = 'class', m[1], 'raw', False, False
        elif kind == 'class2': name, val, vt, b_, imp = 'class', m[1], 'raw', False, False; multi.add('class')
        elif kind == 'id': name, val, vt, b_, imp = 'id', m[1], 'raw', False, False
        elif kind == 'attr': name, val, vt, b_, imp = m[1], m[2], ('expr' if m[3] == 'expr' else (m[3] or 'raw')), False, False
        elif kind == 'bool': name, val, vt, b_, imp = m[1], None, 'raw', True, False
        elif kind == 'implbool': name, val, vt, b_, imp = m[1], m[2], 'raw', True, True
        else: name, val, vt, b_, imp = m[1], m[2], 'raw', False, True
        if name not in info:
            order.append(name); info[name] = {'vals': [val], 'vt_first': vt, 'vt_last': vt, 'bool': b_, 'implied': imp}
        else:
            d = info[name]; d['vals'].append(val); d['vt_last'] = vt; d['bool'] = d['bool'] or b_; d['implied'] = d['implied'] or imp
    res = []
    for name in order:
        d = info[name]
        if name == 'class':
            parts = [v for v in d['vals'] if v]
            value = ' '.join(parts) if parts else (None if all(v is None for v in d['vals']) else '')
        else:
            value = d['vals'][0] if rev and len(d['vals']) > 1 else d['vals'][-1]
            if rev and len(d['vals']) > 1: value = d['vals'][0]
        expr = d['vt_first'] == 'expr' or (d['vt_last'] == 'expr')
        res.append((name + '*' if name in multi else name, value, 'expr' if (d['vt_first'] == 'expr' or d['vt_last'] == 'expr') else 'q', d['bool'], d['implied']))
    return res


JS_RESERVED = {'for', 'while', 'of', 'async', 'await', 'const', 'let', 'var', 'continue', 'break', 'debugger', 'do', 'export', 'import', 'in', 'instanceof', 'new', 'return', 'switch',
               'this', 'throw', 'try', 'catch', 'typeof', 'void', 'with', 'yield'}


def render_attrs(attrs, opt):
    """what the formatter must print: list of (name, quote-kind, value) ; quote-kind dq / sq / expr / none"""
    out = []
    booleans = [x.lower() for x in opt.get('output.booleanAttributes')]
    amap = opt.get('markup.attributes') or {}
    q = 'sq' if opt.get('output.attributeQuotes') == 'single' else 'dq'
    case = opt.get('output.attributeCase')
    for name, value, kind, is_bool, implied in attrs:
        if implied and kind != 'expr' and not value: continue        # implied attribute without value is dropped
        if name.endswith('*'):
            # the "multiple" form `..name`: its own entry of the name table, else the plain one; a value prefix turns the value into
            # a property access (an expression under jsx)
            base = name[:-1]
            n = amap.get(name) or amap.get(base, base)
            pf = (opt.get('markup.valuePrefix') or {}).get(name)
            if pf and value:
                value = '%s.%s' % (pf, value) if re.fullmatch(r'[A-Za-z_$][\w$]*', value) and value not in JS_RESERVED else "%s['%s']" % (pf, value)
                if opt.get('jsx.enabled'): kind = 'expr'
            name = base
        else: n = amap.get(name, name)
        if case == 'upper': n = n.upper()
        elif case == 'lower': n = n.lower()
        boolean = is_bool or name.lower() in booleans
        if boolean and not value:
            if opt.get('output.compactBoolean'):
                out.append((n, 'none', None) if opt.get('output.selfClosingStyle') == 'html' else (n, q if kind != 'expr' else 'expr', ''))
            else: out.append((n, q if kind != 'expr' else 'expr', n))
        else:
            out.append((n, 'expr' if kind == 'expr' else q, value or ''))
    return out


def oracle_C03(case, o):
    from emmet.config import Config
    if o[0] != 'ok': return ['no-output| expand(%r) -> %s %s' % (case['s'], o[0], o[1])]
    if 'expect' in case:
        got = mk.strip_fields(o[1])
        return [] if got == case['expect'] else ['attributes| expand(%r, %r) = %r, expected %r' % (case['s'], case['c'], got, case['expect'])]
    opt = Config(mkcfg(case['c'])).options
    forest = mk.unroll(mk.flat(case['seq']))
    els = []

    def walk(f):
        for el in f:
            tops = C03_ALIASES.get(el['name']) if 'snippets' in case['c'] else None
            if tops:
                # multi-root alias: its id / classes / attributes go to every top-level element, its children into the last one
                for ti_, t in enumerate(tops):
                    if case['c'].get('own'):
                        own_ = C03_OWN[el['name']][ti_]
                        rev_ = (case['c'].get('options') or {}).get('output.reverseAttributes')
                        els.append(dict(el, name=t, mentions=(list(el['mentions']) + own_) if rev_ else (own_ + list(el['mentions']))))
                    else: els.append(dict(el, name=t))
            else: els.append(el)
            walk(el['kids'])
    walk(forest)
    opens = [t for t in mk.read_html(o[1]) if t[0] == 'open']
    if len(opens) != len(els): return ['count| expand(%r): %d tags, expected %d' % (case['s'], len(opens), len(els))]
    for el, t in zip(els, opens):
        want = render_attrs(spec_attrs(el['mentions'], opt, None), opt)
        got = [(n, k if k != 'raw' else 'raw', mk.strip_fields(v) if v is not None else None) for n, k, v in t[2]]
        if got != want:
            return ['attributes| expand(%r, %r): <%s> has %r, written attributes denote %r' % (case['s'], case['c'], t[1], got, want)]
    return []


# ------------------------------------------------------------------------------------------------- C04
TEXT_TPL = ['x{%s}', 'x[title=v]{%s}>em', 'ul>li{%s}*2', 'p>b{%s}+i', '(x.c{%s}>i)+b', 'x{%s}/', 'div>br{%s}', 'y>x{%s}/+b']
WRAP_LINES = ['foo', 'bar baz', '', '   ', '  indented  ', '*3', '$$', 'a>b+c', '${1}', ')', '[x=y]', '{t}', 'item $#', '\\', 'é ü', 'x^2', 'a.b#c', '\t tab']
# (abbreviation, has implicit repeater, where the text goes: list of (tag carrying the text, prefix) per copy)
WRAP_TPL = [('ul>li*', True), ('ul>li*>a', True), ('ul>li[title=$#]*>b{x $#}', True), ('p*+em', True), ('div>p', False), ('x', False), ('div>span*2', False), ('(tr>td)+b', False),
            ('ul>li*>span*2{$#}', True), ('ul>li*>(b{$#}+i)*2', True), ('hr*', True), ('div>hr/', False),
            ('ul>li*{Note: ${1}}', True), ('ul>li*>a{link ${1}}', True)]


def gen_w(rnd, n):
    out = ''
    pool = [ch for ch in gens.ABBR_ALPHA if ch not in '$\\{}'] + ['é', ' ', '—']
    while n > 0:
        k = rnd.random()
        if k < .7: out += rnd.choice(pool); n -= 1
        elif k < .85: out += '\\' + rnd.choice(list('{}\\$*a>')); n -= 1
        else:
            m = rnd.randint(0, max(0, n - 1)); out += '{' + gen_w(rnd, m) + '}'; n -= m + 1
    return out


def gen_wnum(rnd, n, depth):
    """(payload, expected content): plain characters, escapes, balanced inner braces, `$` runs (numbering: 1 outside any repeater, zero
    padded to the run's width), `${n}` / `${n:placeholder}` tabstops (the placeholder is the content)"""
    w = ''; want = ''
    pool = list('ab .,:;=+>^()[]*#!-') + ['é']
    while n > 0:
        k = rnd.random()
        if k < .45: ch = rnd.choice(pool); w += ch; want += ch; n -= 1
        elif k < .55: ch = rnd.choice('{}$\\a'); w += '\\' + ch; want += ch; n -= 1
        elif k < .7:
            r = rnd.choice([1, 1, 2, 3]); w += '$' * r; want += '1'.zfill(r); n -= 1
            ch = rnd.choice('z z.')                              # never directly followed by `$`, `{`, `#` or `@` (those would change the token)
            w += ch; want += ch
        elif k < .82:
            i = rnd.randint(0, 3); ph = rnd.choice(['', '', 'name', 'x y'])
            w += '${%d%s}' % (i, ':' + ph if ph else ''); want += ph; n -= 1
        elif depth < 2:
            m = rnd.randint(0, max(0, n - 1)); iw, iwant = gen_wnum(rnd, m, depth + 1)
            w += '{' + iw + '}'; want += '{' + iwant + '}'; n -= m + 1
        else: n -= 1
    return w, want


def wellformed(w):
    """ordinary characters, `\\c`, balanced `{...}`; must not end the text early or leave a dangling escape"""
    depth = 0; i = 0
    while i < len(w):
        ch = w[i]
        if ch == '\\':
            if i + 1 >= len(w): return False
            i += 2; continue
        if ch == '$': return False                # an unescaped `$` is numbering, not text
        if ch == '{': depth += 1
        elif ch == '}':
            depth -= 1
            if depth < 0: return False
        i += 1
    return depth == 0


def decode(w):
    out = ''; i = 0
    while i < len(w):
        if w[i] == '\\' and i + 1 < len(w): out += w[i + 1]; i += 2
        else: out += w[i]; i += 1
    return out


def first_text_after(outp, tag):
    m = re.search(r'<%s(?:\s[^>]*)?>' % re.escape(tag), outp)
    if not m: return None
    rest = outp[m.end():]
    j = rest.find('<')
    return rest if j < 0 else rest[:j]


def parse_wnum(w):
    """(content, [(offset in content, placeholder length) of every tabstop in order]) of a payload written by gen_wnum"""
    want = ''; spans = []; i = 0
    while i < len(w):
        if w[i] == '\\': want += w[i + 1]; i += 2
        elif w.startswith('${', i):
            j = w.index('}', i); body = w[i + 2:j]; ph = body.split(':', 1)[1] if ':' in body else ''
            spans.append((len(want), len(ph))); want += ph; i = j + 1
        elif w[i] == '$':
            r = 0
            while i + r < len(w) and w[i + r] == '$': r += 1
            want += '1'.zfill(r); i += r
        else: want += w[i]; i += 1
    return want, spans


def oracle_C04_kids(case, o):
    want, spans = parse_wnum(case['w'])
    if want != case['want']: return []
    m = re.match(r'^<x title="v">(.*)</x>$', mk.strip_fields(o[1]), re.S)
    if not m: return ['text-kids| expand(%r): no <x title="v">..</x> in %r' % (case['s'], o[1])]
    got = m.group(1); kid = '<em></em>'
    ok = [want + kid]
    if spans:
        a, l = spans[0]
        ok += [want[:a] + kid + want[a + l:], want[:a] + kid + want[a:], want[:a + l] + kid + want[a + l:]]
    if got not in ok: return ['text-kids| expand(%r): <x> contains %r; the written text is %r and the child stands after it or at its first tabstop: %r' % (case['s'], got, want, ok[:2])]
    return []


def oracle_C04_text(case, o):
    if o[0] != 'ok': return ['no-output| expand(%r) -> %s %s' % (case['s'], o[0], o[1])]
    if case.get('kids'): return oracle_C04_kids(case, o)
    if 'expect_full' in case:
        return [] if o[1] == case['expect_full'] else ['text-lines| expand(%r) = %r, expected %r' % (case['s'], o[1], case['expect_full'])]
    want = case['want'] if 'want' in case else decode(case['w'])
    # the whole output of the template: the text is the content of ITS element and nothing else changes (what follows the text in the
    # abbreviation is still abbreviation syntax)
    full = {0: '<x>%s</x>', 1: '<x title="v">%s<em></em></x>', 2: '<ul><li>%s</li><li>%s</li></ul>', 3: '<p><b>%s</b><i></i></p>', 4: '<x class="c">%s<i></i></x><b></b>'}.get(case['tpl'])
    if full and case['c'].get('options', {}).get('output.format') is False and 'syntax' not in case['c'] and '\n' not in want and '\r' not in want and 'want' not in case:
        exp = full.replace('%s', want)
        bare = lambda t: re.sub(r'\$\{\d+\}', '', t)          # tabstops of the empty elements (the same shape inside the text, on both sides)
        if bare(o[1]) != bare(exp):
            return ['text-whole| expand(%r) = %r, expected %r' % (case['s'], o[1], exp)]
    tag = ['x', 'x', 'li', 'b', 'x', 'x', 'br', 'x'][case['tpl']]
    got = first_text_after(o[1], tag)
    if got is not None and 'want' in case: got = mk.strip_fields(got)
    if got is None: return ['text| expand(%r): no <%s> in %r' % (case['s'], tag, o[1])]
    ok = got == want or (got.startswith(want) and not got[len(want):].strip()) or (not want.strip() and not got.strip())
    if not ok: return ['text| expand(%r): <%s> contains %r, the written text is %r' % (case['s'], tag, got, want)]
    return []


def sq(s):
    return re.sub(r'\s+', '', s)


def oracle_C04_wrap(case, o):
    if o[0] != 'ok': return ['no-output| expand(%r, text=%r) -> %s %s' % (case['s'], case['c']['text'], o[0], o[1])]
    text = case['c']['text']; k = case['wrap']; implicit = WRAP_TPL[k][1]
    outp = o[1]
    if implicit:
        lines = [l.strip() for l in text if l.strip()]
        if k == 0: want = '<ul>' + ''.join('<li>%s</li>' % l for l in lines) + '</ul>'
        elif k == 1: want = '<ul>' + ''.join('<li><a href="">%s</a></li>' % l for l in lines) + '</ul>'
        elif k == 2: want = '<ul>' + ''.join('<li title="%s"><b>x %s</b></li>' % (l, l) for l in lines) + '</ul>'
        elif k == 3: want = ''.join('<p>%s</p>' % l for l in lines) + '<em></em>'
        elif k == 8: want = '<ul>' + ''.join('<li><span>%s</span><span>%s</span></li>' % (l, l) for l in lines) + '</ul>'
        elif k == 9: want = '<ul>' + ''.join('<li><b>%s</b><i></i><b>%s</b><i></i></li>' % (l, l) for l in lines) + '</ul>'
        elif k == 12: want = '<ul>' + ''.join('<li>Note: %s</li>' % l for l in lines) + '</ul>'
        elif k == 13: want = '<ul>' + ''.join('<li><a href="">link %s</a></li>' % l for l in lines) + '</ul>'
        else: want = ''.join('<hr>%s</hr>' % l for l in lines)
        if not lines:
            # no non-blank line: zero copies of the repeated element
            want = {0: '<ul></ul>', 1: '<ul></ul>', 2: '<ul></ul>', 3: '<em></em>', 8: '<ul></ul>', 9: '<ul></ul>', 10: '', 12: '<ul></ul>', 13: '<ul></ul>'}[k]
    else:
        tx = ('\n'.join(text) if isinstance(text, list) else text).strip()
        want = {4: '<div><p>%s</p></div>', 5: '<x>%s</x>', 6: '<div><span></span><span>%s</span></div>', 7: '<tr><td></td></tr><b>%s</b>', 11: '<div><hr>%s</hr></div>'}[k] % tx
    norm = lambda t: re.sub(r'\$\{\d+\}', '', t)      # tabstops of empty leaves / attributes (and the same shape inside supplied text, on both sides)
    got = norm(outp); want = norm(want)
    if sq(got) != sq(want):
        if len(outp) > 5000:
            i = next((j for j in range(min(len(got), len(want))) if got[j] != want[j]), min(len(got), len(want)))
            return ['wrap| expand(%r, text=<%d lines>): output of %d characters differs from the expected one (%d characters, %d copies) at offset %d: %r vs %r'
                    % (case['s'], len(text), len(got), len(want), len(lines) if implicit else 1, i, got[max(0, i - 30):i + 30], want[max(0, i - 30):i + 30])]
        return ['wrap| expand(%r, text=%r) = %r, expected (modulo white space) %r' % (case['s'], text, outp, want)]
    # the whole text, inserted once: every line of it is there, blank ones included (compared line by line modulo the indentation the
    # formatter gives to the lines of a multi-line text)
    if not implicit and case['c'].get('options', {}).get('output.format') is False:
        tpl = {4: '<div><p>%s</p></div>', 5: '<x>%s</x>', 6: '<div><span></span><span>%s</span></div>', 7: '<tr><td></td></tr><b>%s</b>', 11: '<div><hr>%s</hr></div>'}[k]
        pre, suf = tpl.split('%s')
        if got.startswith(pre) and got.endswith(suf) and len(got) >= len(pre) + len(suf):
            inner = got[len(pre):len(got) - len(suf)]
            gl = [l.strip() for l in inner.strip().split('\n')]; wl = [l.strip() for l in norm(tx).strip().split('\n')]
            if gl != wl: return ['wrap-lines| expand(%r, text=%r): the inserted text has the lines %r, the supplied text has %r' % (case['s'], text, gl, wl)]
    # "each containing that trimmed line": without formatting nothing but the trimmed line may stand inside the element, white space included
    if implicit and case['c'].get('options', {}).get('output.format') is False and got != want:
        return ['wrap-trim| expand(%r, text=%r) = %r, expected exactly %r' % (case['s'], text, outp, want)]
    return []


def oracle_C04(case, o):
    if 'expect_bare' in case:
        if o[0] != 'ok': return ['no-output| expand(%r, %r) -> %s %s' % (case['s'], case['c'], o[0], o[1])]
        got = re.sub(r'\$\{\d+\}', '', o[1])
        return [] if got == case['expect_bare'] else ['text-whole| expand(%r, %r) = %r, expected %r' % (case['s'], case['c'], o[1], case['expect_bare'])]
    return oracle_C04_text(case, o) if 'w' in case else oracle_C04_wrap(case, o)


# ------------------------------------------------------------------------------------------------- C13
def tidy_C13(seq):
    """domain of the numbering clause: attribute names distinct per element; explicit fields in text only on leaves (the statement
    speaks of values and of empty leaf content; a field-bearing text in front of children is formatted as a snippet)"""
    for item, op in seq:
        if item['k'] == 'group': tidy_C13(item['body']); continue
        seen = set(); ms = []
        for m in item['mentions']:
            key = m[1] if m[0] == 'attr' else m[0] + str(len(ms))
            if key in seen: continue
            seen.add(key); ms.append(m)
        # a class / id given in attribute form stands alone (merging with the shorthand moves it to the first mention: C03's subject)
        for nm in ('class', 'id'):
            if any(m[0] == 'attr' and m[1] == nm for m in ms): ms = [m for m in ms if m[0] != nm]
        item['mentions'] = ms
        if op == '>' and item['text'] and '${' in item['text']: item['text'] = 'txt'


IDX_RE = re.compile(r'\$\{(\d+)')


def value_indices(v):
    """indices of the explicit fields of one value, in order; [] = no field; None value / empty value = caret"""
    return [int(x) for x in IDX_RE.findall(v)]


def expected_fields(forest, indent_syntax, acc, base):
    """tabstop indices in document order, by the statement: every empty attribute value and the empty content of every leaf that is
    not self-closed gets its own tabstop; an explicit value with indices I at running base b emits b+i and advances b by max(I)+1"""
    for el in forest:
        seen = []
        # the indentation-based syntaxes write id / class first (`name#id.class`), then the attribute list
        ms = el['mentions'] if not indent_syntax else [m for m in el['mentions'] if m[0] == 'attr' and m[1] in ('id', 'class')] + [m for m in el['mentions'] if not (m[0] == 'attr' and m[1] in ('id', 'class'))]
        for m in ms:
            if m[0] == 'attr' and m[1] not in seen:
                seen.append(m[1])
                v = m[2]
                if not v: acc.append(base[0]); base[0] += 1
                else:
                    I = value_indices(v)
                    for i in I: acc.append(base[0] + i)
                    if I: base[0] += max(I) + 1
        void = (el['name'] or '').lower() in mk.VOID or el['slash']
        if el['text'] is not None and el['text'] != '':
            I = value_indices(el['text'])
            for i in I: acc.append(base[0] + i)
            if I: base[0] += max(I) + 1
        elif not el['kids'] and not void:
            acc.append(base[0]); base[0] += 1
        expected_fields(el['kids'], indent_syntax, acc, base)
    return acc


def run_C13(case, escape=False):
    """expand with recording callbacks; returns (outcome, calls). With `escape` the text callback changes the length of what it
    is given (`&` -> `&amp;`), as an editor's escaping callback would"""
    from emmet import expand
    from emmet.scanner import ScannerException
    from emmet.token_scanner import TokenScannerException
    calls = []

    def rec_field(index, placeholder, **kw):
        if len(calls) % 3 == 0:
            try: expand('ul>li.x$*2>a', {'options': {'output.field': field}})          # a callback may use the library itself
            except Exception: pass
        r = field(index, placeholder); calls.append(('field', r, kw.get('offset'), kw.get('line'), kw.get('column'))); return r

    def rec_text(text, **kw):
        r = text.replace('&', '&amp;') if escape else text
        calls.append(('text', r, kw.get('offset'), kw.get('line'), kw.get('column'))); return r
    c = mkcfg(case['c']); c['options']['output.field'] = rec_field; c['options']['output.text'] = rec_text
    try: return ('ok', expand(case['s'], c)), calls
    except ScannerException as e: return ('scanner', e.pos), calls
    except TokenScannerException as e: return ('token', e.pos), calls
    except RecursionError: raise
    except Exception as e: return ('internal', type(e).__name__), calls


def oracle_C13(case, o, calls, escaped=False):
    from emmet.config import Config
    if o[0] != 'ok': return ['no-output| expand(%r) -> %s %s' % (case['s'], o[0], o[1])]
    final = o[1]; v = []
    opt = Config(mkcfg(case['c'])).options
    nl = opt.get('output.newline')
    for kind, piece, off, line, col in calls:
        if not isinstance(off, int) or final[off:off + len(piece)] != piece:
            v.append('offset| %s callback: piece %r reported at offset %r, but the result has %r there' % (kind, piece, off, final[off:off + len(piece)] if isinstance(off, int) else None)); break
        eline = final.count(nl, 0, off) if nl else 0
        last = final.rfind(nl, 0, off) if nl else -1
        ecol = off - (last + len(nl)) if last >= 0 else off
        if (line, col) != (eline, ecol):
            v.append('line-column| %s callback for %r at offset %d: reported line %r column %r, it ends up at line %d column %d' % (kind, piece, off, line, col, eline, ecol)); break
    if case.get('g') == 'comment-fields':
        # comments repeat id / class values: every value (attribute value, text between tags, comment) has tabstop numbers of its own
        places = []
        for piece in re.split(r'(<!--.*?-->)', final, flags=re.S):
            if piece.startswith('<!--'): places.append(piece); continue
            pos = 0
            for m in mk.TAG_RE.finditer(piece):
                if piece[pos:m.start()].strip(): places.append(piece[pos:m.start()])
                pos = m.end()
                for a in mk.ATTR_RE.finditer(m.group(3)):
                    if a.group(2): places.append(a.group(2))
            if piece[pos:].strip(): places.append(piece[pos:])
        owner = {}
        for k, pl in enumerate(places):
            for i in IDX_RE.findall(pl):
                if owner.setdefault(i, k) != k:
                    v.append('collision| expand(%r, %r): tabstop %s is used by two different values, %r and %r, in %r' % (case['s'], case['c'], i, places[owner[i]], pl, final)); break
            if v: break
        return v
    if 'seq' in case and not escaped:
        forest = mk.unroll(mk.flat(case['seq']))
        want = expected_fields(forest, case['c'].get('syntax') in ('haml', 'pug', 'slim'), [], [1])
        got = [int(x) for x in IDX_RE.findall(final)]
        if got != want: v.append('numbering| expand(%r, %r): tabstop indices in document order %r, expected %r' % (case['s'], case['c'], got, want))
        # read off the output itself (tag syntaxes): no attribute value and no leaf content is left empty without a tabstop
        if case['c'].get('syntax', 'html') in ('html', 'xml', 'jsx', 'vue', 'xsl', 'svelte'):
            m = re.search(r'<([\w:-]+)((?:\s[^<>]*)?)></\1>', final) or re.search(r'\s[\w:@.-]+=(?:""|\'\'|\{\})', final)
            if m: v.append('empty-without-tabstop| expand(%r, %r): %r is left empty without a tabstop' % (case['s'], case['c'], m.group(0)))
    return v


# ------------------------------------------------------------------------------------------------- C14
SIMPLE_DEF = re.compile(r'^[A-Za-z][\w:-]*(\[[^\]\[{}()]*\])?$')
CHAIN_DEF = re.compile(r'^[A-Za-z][\w:.#-]*(\[[^\]\[{}()]*\])?(>[A-Za-z][\w:.#-]*(\[[^\]\[{}()]*\])?)*$')


def cases_C14(tier, rnd):
    import sys, vlib
    if vlib.REPO not in sys.path: sys.path.insert(0, vlib.REPO)
    from emmet.snippets import markup_snippets, xsl_snippets, pug_snippets
    from emmet.snippets import raw_markup_snippets, raw_xsl_snippets, raw_pug_snippets
    out = []
    # every name of every entry AS WRITTEN in the snippet files (`a|b: definition`) expands like that entry's definition: two entries
    # claiming the same short name are not hidden by reading the flattened table
    for sy, raw in (('html', raw_markup_snippets), ('xsl', raw_xsl_snippets), ('pug', raw_pug_snippets)):
        for k, v in raw.items():
            for name in k.split('|'):
                out.append({'s': name, 'alt': v, 'c': {'syntax': sy}, 'g': 'raw-entry'})
                out.append({'s': 'p>' + name, 'alt': 'p>(' + v + ')', 'c': {'syntax': sy}, 'g': 'raw-entry'})
    tables = [('html', markup_snippets), ('xsl', dict(markup_snippets, **xsl_snippets)), ('pug', dict(markup_snippets, **pug_snippets))]
    for sy, tbl in tables:
        for k, v in tbl.items():
            for rev in (False, True):
                c = {'syntax': sy}
                if rev: c['options'] = {'output.reverseAttributes': True}
                out.append({'s': k, 'alt': v, 'c': c, 'g': 'builtin'})
                if '${' in v and not rev:
                    # a definition that mentions variables, under a call config that overrides only some of them: the alias sees the
                    # same merged variables as the definition typed in its place
                    for vs in ({'charset': 'koi8-r'}, {'lang': 'ru'}, {'foo': 'bar'}, {}):
                        out.append({'s': k, 'alt': v, 'c': dict(c, variables=vs), 'g': 'builtin-vars'})
                if sy == 'html' or k not in markup_snippets:
                    if SIMPLE_DEF.match(v) and not rev:
                        for sfx in ('.c', '[x=y]', '#i.c[x=y]', '{t}'):
                            out.append({'s': k + sfx, 'alt': v + sfx, 'c': c, 'g': 'applied'})
                        out.append({'s': k + '*2', 'alt': '(' + v + ')*2', 'c': c, 'g': 'applied'})
                    if CHAIN_DEF.match(v):
                        if sy == 'html' and not rev:
                            # the same alias below itself (no recursion: the inner use is a new use)
                            out.append({'s': k + '>' + k + '>b', 'alt': v + '>(' + v + '>b)', 'c': c, 'g': 'alias-in-alias'})
                        out.append({'s': k + '>b', 'alt': v + '>b', 'c': c, 'g': 'children'})
                        out.append({'s': 'p>' + k + '>b+i', 'alt': 'p>(' + v + '>b+i)', 'c': c, 'g': 'children'})
    # multi-root and multi-level user definitions: what is written on the alias goes to EVERY top-level element, children into the
    # deepest LAST element
    multi = {'two': 'a+b', 'trio': 'x+y.k+z', 'card': 'div.card>h2+p', 'deep': 'ul>li>em+b>i', 'pair': 'p>span+q>s'}
    for k, v in multi.items():
        tops = v.split('+') if '>' not in v else None
        c = {'snippets': dict(multi)}
        if tops:
            out.append({'s': k + '{t}', 'alt': '+'.join(t + '{t}' for t in tops), 'c': c, 'g': 'multiroot'})
            out.append({'s': k + '/', 'alt': '+'.join(t + '/' for t in tops), 'c': c, 'g': 'multiroot'})
            out.append({'s': k + '.z[q=r]', 'alt': '+'.join(t + '.z[q=r]' for t in tops), 'c': c, 'g': 'multiroot'})
            for sfx in ('.x.y', '.x.y.z', '#i.x[q=r].y'):
                out.append({'s': k + sfx, 'alt': '+'.join(t + sfx for t in tops), 'c': c, 'g': 'multiroot'})
        out.append({'s': k + '>u', 'alt': v + '>u', 'c': c, 'g': 'deepest-last'})
        out.append({'s': k + '>' + k + '>u', 'alt': v + '>(' + v + '>u)', 'c': c, 'g': 'alias-in-alias'})
        out.append({'s': k + '>p+' + k + '>' + k, 'alt': v + '>(p+(' + v + '>(' + v + ')))', 'c': c, 'g': 'alias-in-alias'})
        out.append({'s': 'w>' + k + '>u+v', 'alt': 'w>(' + v + '>u+v)', 'c': c, 'g': 'deepest-last'})
    # aliases that arrive through the global configuration: the type section and the syntax section both hold snippets
    gc_ = {'markup': {'snippets': {'galias': 'section>h1+p', 'both': 'i'}}, 'html': {'snippets': {'halias': 'nav>ul', 'both': 'b'}}}
    for k, alt in [('galias', 'section>h1+p'), ('galias>em', 'section>h1+p>em'), ('halias>li', 'nav>ul>li'), ('both', 'b'), ('div>galias+halias', 'div>(section>h1+p)+(nav>ul)')]:
        out.append({'s': k, 'alt': alt, 'c': {}, 'gc': gc_, 'g': 'global-aliases'})
        out.append({'s': k, 'alt': alt, 'c': {'snippets': {'mine': 'u'}}, 'gc': gc_, 'g': 'global-aliases'})
    for k, alt in [('cells*3', '(td*2)*3'), ('tr>cells*2', 'tr>(td*2)*2'), ('cells', 'td*2'), ('rows*2', '(tr*2)*2')]:
        out.append({'s': k, 'alt': alt, 'c': {'snippets': {'cells': 'td*2', 'rows': 'tr*2'}, 'options': {'output.format': False}}, 'g': 'alias-repeaters'})
    for sy_ in ('jsx', 'svelte', 'html'):
        for k, alt in [('Btn', 'button.btn'), ('Card>b', 'div.card>p>b'), ('ul>Btn*2', 'ul>(button.btn)*2')]:
            out.append({'s': k, 'alt': alt, 'c': {'syntax': sy_, 'snippets': {'Btn': 'button.btn', 'Card': 'div.card>p'}}, 'g': 'capitalised-alias'})
    chain = dict(('s%d' % i, 's%d.k%d' % (i + 1, i)) for i in range(12)); chain['s12'] = 'p.end'
    out.append({'s': 's0', 'alt': 'p.end' + ''.join('.k%d' % i for i in range(11, -1, -1)), 'c': {'snippets': chain}, 'g': 'long-chain'})
    out.append({'s': 'ul>s3*2', 'alt': 'ul>(p.end' + ''.join('.k%d' % i for i in range(11, 2, -1)) + ')*2', 'c': {'snippets': chain}, 'g': 'long-chain'})
    # an earlier call failed in the middle of a nested resolution (alias `box` uses `menu` uses the broken `item`): the corrected table expands as ever
    bad = {'snippets': {'menu': 'nav>item', 'item': 'li[title="]', 'box': 'div>menu'}}
    good = {'snippets': {'menu': 'nav>item', 'item': 'li[title=""]', 'box': 'div>menu'}}
    for k, alt in [('box', 'div>nav>li[title=""]'), ('menu', 'nav>li[title=""]'), ('ul>menu*2', 'ul>(nav>li[title=""])*2'), ('box>b', 'div>nav>li[title=""]>b')]:
        out.append({'s': k, 'alt': alt, 'c': good, 'precalls': [('box', bad), ('menu', bad), ('p>box', bad)], 'g': 'after-failure'})
    # an empty wrap text does not reach the definitions
    for tx in ('', [], [''], ['  ']):
        for k, alt in [('two+p', 'a+b+p'), ('card+em', 'div.card>h2+p^em'), ('deep+p', 'ul>li>em+b>i^^^p'), ('pair+two+x', 'p>span+q>s^^a+b+x')]:
            out.append({'s': k, 'alt': alt, 'c': {'snippets': dict(multi), 'text': tx}, 'g': 'empty-text'})
            out.append({'s': k, 'alt': alt, 'c': {'snippets': dict(multi), 'text': tx, 'syntax': 'pug'}, 'g': 'empty-text'})
    # a definition with text of its own: text written on the alias replaces it on every top-level element
    withtext = {'note': 'p.note{default text}', 'two2': 'h1{Title}+p', 'lbl': 'label{L}+input'}
    for k, alt in [('note{hello}', 'p.note{hello}'), ('two2{x}', 'h1{x}+p{x}'), ('note', 'p.note{default text}'), ('lbl{y}*2', '(label{y}+input{y})*2'), ('div>note{a b}', 'div>p.note{a b}')]:
        out.append({'s': k, 'alt': alt, 'c': {'snippets': dict(withtext)}, 'g': 'alias-text'})
    # user tables, including self-referencing and mutually recursive ones: resolution must end
    names = ['s1', 's2', 's3', 's4', 's5', 'x', 'y']
    n = 1000 if tier == 'quick' else 3000
    for _ in range(n):
        tbl = {}
        for k in rnd.sample(names, rnd.randint(1, 5)):
            parts = []
            for _ in range(rnd.randint(1, 3)):
                parts.append(rnd.choice(names + ['div', 'p']) + rnd.choice(['', '', '.c', '[a=b]', '{t}', '*2']))
            tbl[k] = rnd.choice(['>', '+']).join(parts)
        ab = rnd.choice(list(tbl)) + rnd.choice(['', '.z', '>b', '*2', '+' + rnd.choice(names)])
        c = {'snippets': tbl}
        if rnd.random() < .3: c['options'] = {'output.reverseAttributes': True}
        out.append({'s': ab, 'c': c, 'g': 'usertable'})
    return out


def oracle_C14(case, o):
    v = []
    if o[0] == 'internal': return ['internal-error| expand(%r, %r) raised %s' % (case['s'], case['c'], o[1])]
    if 'alt' in case:
        o2 = outcome(case['alt'], mkcfg(case['c']), case.get('gc'))
        if o2 != o:
            v.append('alias| expand(%r) = %r but expanding its definition in its place, expand(%r), gives %r  (config %r)' % (case['s'], o[1], case['alt'], o2[1], case['c']))
    return v


# ------------------------------------------------------------------------------------------------- C12
def rand_layout(rnd):
    """a random assignment of the formatting options only"""
    o = {}
    if rnd.random() < .3: o['output.format'] = False
    if rnd.random() < .5: o['output.indent'] = rnd.choice(['\t', '  ', '    '])
    if rnd.random() < .4: o['output.newline'] = rnd.choice(['\n', '\r\n'])
    if rnd.random() < .3: o['output.baseIndent'] = rnd.choice(['  ', '\t'])
    if rnd.random() < .4: o['output.inlineBreak'] = rnd.choice([0, 1, 2, 3, 5])
    if rnd.random() < .3: o['output.formatLeafNode'] = True
    if rnd.random() < .2: o['output.formatSkip'] = rnd.choice([[], ['div'], ['ul', 'p']])
    if rnd.random() < .2: o['output.formatForce'] = rnd.choice([[], ['span'], ['em', 'a']])
    return o


FIELD_TPL = ['div>{[${0}${1:tail}]}>p*2', 'div>{a ${0} b}>p', '{x${1}${2:y}z}>em+b', 'ul>{${0}${0}}>li*2', 'p>{pre ${1:a}${2:b} post}>span*3', 'div>{${1:one}${2:two}${3:three}}>p+p',
             'section>{${0}}>div>p', '{${1}${1}}>x', 'div>{[${0} ${1:tail}]}>p*2', 'x>{t${0}}+{u${1:v}${2}}>y*2', 'div>{${0}${1:k}}>ul>li*2', 'a>{(${2}${1:q})}>b*3', 'div>{${0}\n${1:tail}}>p*2']
COMMENT_RE = re.compile('<!--.*?-->|\u00ab[^\u00ab\u00bb]*\u00bb', re.S)       # html comments and the «…» templates of the C12 oracle (complete ones only)


def oracle_C12(case, o):
    from emmet.config import Config
    if o[0] != 'ok': return ['no-output| expand(%r) -> %s %s' % (case['s'], o[0], o[1])]
    v = []
    base = sq(o[1])
    # (1) any other assignment of the formatting options changes white space only
    o2 = outcome(case['s'], mkcfg(case['alt']))
    if o2[0] != 'ok' or sq(o2[1]) != base:
        v.append('weave| expand(%r): formatting options %r and %r differ in more than white space: %r vs %r' % (case['s'], case['c'].get('options'), case['alt'].get('options'), o[1], o2[1]))
    # (2) comments only add comment text
    cc = copy.deepcopy(case['c']); cc.setdefault('options', {})['comment.enabled'] = True
    r12 = random.Random(case['s'])
    ca = r12.choice([None, None, '[\n<!-- /#ID -->]', ' <!-- /[#ID][.CLASS] -->', '\n<!-- /[#ID][.CLASS] -->\n<!-- end -->', '[\n<!-- /.CLASS -->]', ' \u00ab[#ID][.CLASS]\u00bb', '\n\u00ab[ID]\u00bb', ' \u00ab[.CLASS]!\u00bb'])
    cb = r12.choice([None, None, None, '<!-- [#ID] -->\n', '[<!-- .CLASS -->\n]'])
    if ca is not None: cc['options']['comment.after'] = ca
    if cb is not None: cc['options']['comment.before'] = cb
    o3 = outcome(case['s'], mkcfg(cc))
    if o3[0] != 'ok' or sq(COMMENT_RE.sub('', o3[1])) != base:
        v.append('comments| expand(%r) with comments enabled differs from the plain output by more than comments: %r vs %r' % (case['s'], o3[1], o[1]))
    # (3) the self-closing style changes only the slash before `>`
    outs = []
    for st in ('html', 'xhtml', 'xml'):
        c4 = copy.deepcopy(case['c']); c4.setdefault('options', {})['output.selfClosingStyle'] = st
        o4 = outcome(case['s'], mkcfg(c4))
        outs.append(re.sub(r'\s*/>', '>', o4[1]) if o4[0] == 'ok' else repr(o4))
    if len(set(outs)) != 1: v.append('self-closing| expand(%r): self-closing styles differ in more than the slash: %r' % (case['s'], outs))
    # (4) indentation = number of elements open at that point
    if 'seq' not in case: return v
    opt = Config(mkcfg(case['c'])).options
    forest = mk.unroll(mk.flat(case['seq']))
    mk.implicit_names(forest, None, [x.lower() for x in opt.get('inlineElements')])
    names = set()

    def collect(f):
        for el in f:
            if not el['name']: collect(el['kids']); continue          # a text node
            names.add(el['name'].lower()); collect(el['kids'])
    collect(forest)
    texts = [(o[1], case['c'])]
    if o3[0] == 'ok': texts.append((o3[1], cc))            # the same layout rule with comments enabled (comment lines are lines too)
    for text, cdesc in texts:
      if v: break
      if opt.get('output.format') and not (names & set(x.lower() for x in opt.get('output.formatSkip'))):     # no element exempted through formatSkip
        nl = opt.get('output.newline'); ind = opt.get('output.indent'); bi = opt.get('output.baseIndent')
        lines = text.split(nl)
        # which open tags are leaves (a void / self-closed element without children is never closed): from the denoted tree, in
        # document order (= order of the opening tags)
        leafs = []; order = []

        def classify(f):
            for el in f:
                if not el['name']: classify(el['kids']); continue
                leafs.append((el['name'].lower() in mk.VOID or el['slash']) and not el['kids']); order.append(el); classify(el['kids'])
        classify(forest)
        leaf = set(i for i, b_ in enumerate(leafs) if b_)
        ti = 0
        depth = 0
        open_units = []
        for li, line in enumerate(lines):
            body = line[len(bi):] if li > 0 else line
            if li > 0:
                if not line.startswith(bi): v.append('indent| expand(%r, %r): line %d %r does not start with baseIndent %r' % (case['s'], cdesc, li, line, bi)); break
                k = 0
                while ind and body.startswith(ind): body = body[len(ind):]; k += 1
                want = depth - 1 if body.startswith('</') else depth
                if ind and k != want and body.strip():
                    v.append('indent| expand(%r, %r): line %d %r is indented %d units, %d elements are open there' % (case['s'], cdesc, li, line, k, want)); break
                if ind and k != want and not body.strip():
                    v.append('blank-line| expand(%r, %r): white-space-only line %d %r at %d units, %d elements are open there' % (case['s'], cdesc, li, line, k, want)); break
            units = k if li > 0 else 0
            first_tok = True
            for t in mk.read_html(line):
                if t[0] == 'open':
                    if ti not in leaf: depth += 1; open_units.append((units, order[ti] if ti < len(order) else None, body.lstrip().startswith('<!--')))
                    ti += 1
                elif t[0] == 'close':
                    depth -= 1
                    ou, oel, after_comment = open_units.pop() if open_units else (None, None, False)
                    # a closing tag on its own line (first thing on the line) is aligned with the line that holds its opening tag
                    if first_tok and li > 0 and body.startswith('</') and ou is not None and ind and ou != units:
                        # known finding F33: an element that was not given a line of its own but whose OWN content is laid out on separate lines
                        # (multi-line text, or an empty leaf under formatLeafNode / formatForce)
                        own = oel is not None and ((oel.get('text') and ('\n' in oel['text'] or '\r' in oel['text'])) or ((opt.get('output.formatLeafNode') or oel['name'].lower() in [x.lower() for x in opt.get('output.formatForce')]) and not oel['kids'] and not oel.get('text')))
                        # same finding, other trigger: the element was opened on a line that a comment started (the comment's own indentation is
                        # that of the commented element's children; an inline sibling that follows stays on that line)
                        kind = 'align-own-content' if own else ('align-comment-line' if after_comment else 'align')
                        v.append('%s| expand(%r, %r): closing tag on line %d %r is indented %d units, the line holding its opening tag %d' % (kind, case['s'], cdesc, li, line, units, ou)); break
                first_tok = False
            else: continue
            break
    return v


# ------------------------------------------------------------------------------------------------- C15
# documented boolean attribute names (pinned copy of output.booleanAttributes)
BOOL_DOC = ['contenteditable', 'seamless', 'async', 'autofocus', 'autoplay', 'checked', 'controls', 'defer', 'disabled', 'formnovalidate', 'hidden', 'ismap', 'loop', 'multiple', 'muted',
            'novalidate', 'readonly', 'required', 'reversed', 'selected', 'typemustmatch']


TAGCASE = ['']          # output.tagCase of the case being judged (set by oracle_C15)


def lines_of(forest, sy, depth, acc):
    """one line per element at its depth: name#id.class.class + the syntax's attribute list; `div` omitted when id / class present;
    multi-line text one line per text line one level deeper"""
    for el in forest:
        ids = [m[1] for m in el['mentions'] if m[0] == 'id'] + [m[2] for m in el['mentions'] if m[0] == 'attr' and m[1] == 'id' and m[2]]      # an id given in attribute form (any notation) is the id
        cls = []          # class names: the shorthand mentions and the words of a class given in attribute form, in the order written
        for m in el['mentions']:
            if m[0] == 'class': cls.append(m[1])
            elif m[0] == 'attr' and m[1] == 'class' and m[2]: cls += m[2].split()
        attrs = []
        for m in el['mentions']:
            if m[0] == 'attr' and m[1] in ('class', 'id'): continue
            if m[0] == 'attr' and m[1] not in [a[0] for a in attrs]: attrs.append((m[1], m[2], m[3]))
            elif m[0] == 'bool' and m[1] not in [a[0] for a in attrs]: attrs.append((m[1], None, 'bool'))
            elif m[0] == 'implied' and m[2] is not None and m[1] not in [a[0] for a in attrs]: attrs.append((m[1], m[2], 'raw'))      # an implied attribute without value is dropped
        name = el['name']
        if not name:      # text-only node: its text on a line of its own
            acc.append((depth, ('| ' if sy in ('pug', 'slim') else '') + el['text'])); continue
        head = ('%' if sy == 'haml' else '') + name if not (name == 'div' and (ids or cls)) else ''
        done = set()
        for m in el['mentions']:          # id / class shorthands in the order they were first written
            if (m[0] == 'id' or (m[0] == 'attr' and m[1] == 'id')) and 'id' not in done: head += '#' + ids[-1]; done.add('id')
            elif (m[0] == 'class' or (m[0] == 'attr' and m[1] == 'class')) and 'class' not in done: head += ''.join('.' + c for c in cls); done.add('class')
        if attrs:
            # an expression keeps its braces; a boolean attribute without value: `name=true` in haml, the bare name in pug and slim
            parts = [('%s=true' % n if sy == 'haml' else n) if (k == 'bool' or (v is None and n in BOOL_DOC)) else '%s={%s}' % (n, v) if k == 'expr' else '%s="%s"' % (n, v) for n, v, k in attrs]
            if sy == 'haml': head += '(' + ' '.join(parts) + ')'
            elif sy == 'pug': head += '(' + ', '.join(parts) + ')'
            else: head += ' ' + ' '.join(parts)
        void = (name.lower() in mk.VOID or el['slash']) and not el['kids']      # a self-closing element that was given children is an ordinary parent
        text = el['text']
        if void: head += '/' if sy in ('haml', 'slim') else ''
        tlines = text.splitlines() if text is not None else []
        if text is not None and len(tlines) <= 1: acc.append((depth, head + ' ' + text))
        else: acc.append((depth, head))
        if text is not None and len(tlines) > 1:
            mx = max(len(x) for x in tlines)
            for tl in tlines:
                if sy == 'haml': acc.append((depth + 1, tl.ljust(mx) + ' |'))      # lines padded to the same width before the ` |` marker
                else: acc.append((depth + 1, '| ' + tl))
        lines_of(el['kids'], sy, depth + 1, acc)
    return acc


def oracle_C15(case, o):
    from emmet.config import Config
    if o[0] != 'ok': return ['no-output| expand(%r) -> %s %s' % (case['s'], o[0], o[1])]
    if 'expect_lines' in case:
        got = [mk.strip_fields(l).rstrip() for l in o[1].split('\n')]
        return [] if got == case['expect_lines'] else ['lines| expand(%r, %r): lines %r, expected %r' % (case['s'], case['c'], got, case['expect_lines'])]
    opt = Config(mkcfg(case['c'])).options
    sy = case['c']['syntax']; ind = opt.get('output.indent'); nl = opt.get('output.newline')
    forest = mk.unroll(mk.flat(case['seq']))
    if case.get('alias'): forest = mk.apply_alias(forest)
    mk.implicit_names(forest, None, inline_doc(case['c']))
    TAGCASE[0] = opt.get('output.tagCase') or ''
    want = lines_of(forest, sy, 0, [])
    TAGCASE[0] = ''
    got = []
    for line in o[1].split(nl):
        k = 0; body = line
        while ind and body.startswith(ind): body = body[len(ind):]; k += 1
        got.append((k, mk.strip_fields(body).rstrip()))
    want = [(d, t.rstrip()) for d, t in want]
    if got != want:
        i = next((k for k in range(min(len(got), len(want))) if got[k] != want[k]), min(len(got), len(want)))
        return ['lines| expand(%r, %r): line %d is %r, expected %r' % (case['s'], case['c'], i, got[i] if i < len(got) else None, want[i] if i < len(want) else None)]
    return []


ORACLES = {'C01': oracle_C01, 'C02': oracle_C02, 'C03': oracle_C03, 'C04': oracle_C04, 'C14': oracle_C14, 'C12': oracle_C12, 'C15': oracle_C15}


def run(case, prop):
    if prop == 'C13':
        o, calls = run_C13(case)
        viol = oracle_C13(case, o, calls)
        if '&' in case['s']:
            o2, calls2 = run_C13(case, escape=True)
            viol += oracle_C13(case, o2, calls2, escaped=True)
        tags = {'gen:' + case['g']: 1, 'outcome:' + o[0]: 1, 'syntax:' + case['c'].get('syntax', '-'): 1, 'callbacks': len(calls)}
        return line_of(o), viol[:4], tags
    for ab_, cfg_ in case.get('precalls', []): outcome(ab_, mkcfg(cfg_))          # earlier calls in the same process
    o = outcome(case['s'], mkcfg(case['c']), case.get('gc'))
    viol = ORACLES[prop](case, o) if prop in ORACLES else []
    if prop in ORACLES and not case.get('nomodel') and 'gc' not in case:
        # the same call with a `cache` that earlier calls under the same configuration have used: what the statement says of a
        # result it says of this one too
        o2 = outcome_cached(case['s'], mkcfg(case['c']))
        if o2 != o: viol = viol + ['(with a cache shared by earlier calls) ' + v for v in ORACLES[prop](case, o2)]
        o5 = outcome_reordered(case['s'], mkcfg(case['c']))
        if o5 != o: viol = viol + ['(configuration given as an OrderedDict with its keys in the opposite order) ' + v for v in ORACLES[prop](case, o5)]
        o3 = outcome_rerendered(case['s'], mkcfg(case['c']))
        if o3 is not None and o3 != o: viol = viol + ['(the parsed tree rendered a second time, after a rendering in another syntax) ' + v for v in ORACLES[prop](case, o3)]
    tags = {'gen:' + case['g']: 1, 'outcome:' + o[0]: 1, 'syntax:' + case['c'].get('syntax', '-'): 1}
    return line_of(o), viol, tags


def compare(case, line, ml):
    if case.get('nomodel'): return None
    o = case['c'].get('options') or {}
    if o.get('comment.enabled') or o.get('bem.enabled'): return None        # add-ons not modelled: judged by the oracle on the implementation
    return line == ml


def nontrivial(case, line):
    s = case['s']
    return line.startswith('ok') and sum(s.count(ch) for ch in '>+^(*') >= 2


def describe(case):
    return {'abbreviation': case['s'], 'config': case['c']}
