"""Domain: configuration layering (emmet.config.Config / merged_data, observed on the resolved Config and through expand).
Serves C20."""
import random, copy, itertools
from vlib import hx
import cfgcodec

MODE = 'resolve'
MARKUP = ['html', 'xml', 'xsl', 'jsx', 'js', 'pug', 'slim', 'haml', 'vue', 'svelte']
STYLE = ['css', 'sass', 'scss', 'less', 'sss', 'stylus']
# probe keys: (kind, key, values to plant in the caller-controlled layers)
OPT_KEYS = ['output.selfClosingStyle', 'stylesheet.after', 'output.indent', 'markup.attributes', 'jsx.enabled', 'stylesheet.between', 'output.inlineBreak', 'custom.option']
SNIP_KEYS = ['a', 'xx', 'tm', '!!!', 'p', 'bd', 'm']
VAR_KEYS = ['lang', 'myvar', 'charset']


# the documented per-syntax defaults (pinned copy of the option part of SYNTAX_CONFIG: a changed table entry must not move the oracle)
SYNTAX_DOC = {'xhtml': {'output.selfClosingStyle': 'xhtml'}, 'xml': {'output.selfClosingStyle': 'xml'}, 'xsl': {'output.selfClosingStyle': 'xml'},
              'jsx': {'jsx.enabled': True, 'markup.attributes': {'class': 'className', 'class*': 'styleName', 'for': 'htmlFor'}, 'markup.valuePrefix': {'class*': 'styles'}},
              'vue': {'markup.attributes': {'class*': ':class'}}, 'svelte': {'jsx.enabled': True}, 'sass': {'stylesheet.after': ''},
              'stylus': {'stylesheet.between': ' ', 'stylesheet.after': ''}}


def planted(kind, key, layer):
    if kind == 'o':
        if key == 'markup.attributes': return {'class': 'cls-' + layer}
        if key == 'jsx.enabled': return layer in ('gtype', 'user')
        if key == 'output.inlineBreak': return {'gtype': 7, 'gsyntax': 8, 'user': 9}[layer]
        return 'V-' + layer
    if kind == 'sn': return 'planted-%s.%s' % (layer, layer)
    return 'var-' + layer


def cases(tier, seed, prop):
    rnd = random.Random(seed)
    out = []
    syntaxes = [('markup', s) for s in MARKUP + ['unknown-x', 'markup', 'xhtml']] + [('stylesheet', s) for s in STYLE + ['unknown-y', 'stylesheet']] + [(None, None), ('markup', None), ('stylesheet', None), (None, 'pug')] \
        + [('markup', 'php'), ('stylesheet', 'php'), ('stylesheet', 'twig'), ('markup', 'twig'), ('markup', 'css'), ('stylesheet', 'html')]     # one name under both types, in both orders
    for (ty, sy) in syntaxes:
        for subset in itertools.product([False, True], repeat=3):
            probes = [('o', k) for k in OPT_KEYS] + [('sn', k) for k in SNIP_KEYS] + [('vr', k) for k in VAR_KEYS]
            if tier == 'quick': probes = rnd.sample(probes, 8)
            c = {}; gc = {}
            if ty: c['type'] = ty
            if sy: c['syntax'] = sy
            ety = ty or 'markup'; esy = sy or {'markup': 'html', 'stylesheet': 'css'}.get(ety, 'html')
            for kind, key in probes:
                field_ = {'o': 'options', 'sn': 'snippets', 'vr': 'variables'}[kind]
                if subset[0]: gc.setdefault(ety, {}).setdefault(field_, {})[key] = planted(kind, key, 'gtype')
                if subset[1]: gc.setdefault(esy, {}).setdefault(field_, {})[key] = planted(kind, key, 'gsyntax')
                if subset[2]: c.setdefault(field_, {})[key] = planted(kind, key, 'user')
            if sy in ('unknown-x', 'unknown-y') and not subset[1]:
                # a section for the default syntax of the type (html / css) is somebody else's section
                dsy = 'html' if ety == 'markup' else 'css'
                for kind, key in probes:
                    field_ = {'o': 'options', 'sn': 'snippets', 'vr': 'variables'}[kind]
                    gc.setdefault(dsy, {}).setdefault(field_, {})[key] = planted(kind, key, 'gsyntax').replace('gsyntax', 'foreign') if isinstance(planted(kind, key, 'gsyntax'), str) else planted(kind, key, 'gsyntax')
            out.append({'c': c, 'gc': gc, 'probes': probes, 'subset': subset, 'g': 'layers'})
            if subset[0] or subset[1]:
                c5 = copy.deepcopy(c); gc5 = copy.deepcopy(gc)
                top5 = gc5[esy] if subset[1] else gc5[ety]
                for field_ in ('options', 'snippets', 'variables'):
                    for key in list(top5.get(field_, {})): top5[field_][key] = None
                for field_ in ('options', 'snippets', 'variables'): c5.pop(field_, None)
                out.append({'c': c5, 'gc': gc5, 'probes': probes, 'subset': (subset[0], subset[1], False), 'g': 'layers-null', 'nomodel': 1})
            if all(subset):
                # two layers that say the same (whole tables equal by value) with a layer between them that says something else
                for (lo, hi) in ((0, 2), (0, 1), (1, 2)):
                    c4 = copy.deepcopy(c); gc4 = copy.deepcopy(gc)
                    lay = [gc4[ety], gc4[esy], c4]
                    if lay[lo] is lay[hi]: continue
                    for field_ in ('options', 'snippets', 'variables'):
                        if field_ in lay[lo]: lay[hi][field_] = copy.deepcopy(lay[lo][field_])
                    out.append({'c': c4, 'gc': gc4, 'probes': probes, 'subset': subset, 'g': 'layers-equal'})
            if ety == 'markup' and any(subset) and any(k == 'vr' for k, _ in probes):
                # the most specific layer that defines a variable sets it to the empty string
                c3 = copy.deepcopy(c); gc3 = copy.deepcopy(gc)
                top = c3 if subset[2] else (gc3[esy] if subset[1] else gc3[ety])
                for kind, key in probes:
                    if kind == 'vr': top.setdefault('variables', {})[key] = ''
                out.append({'c': c3, 'gc': gc3, 'probes': probes, 'subset': subset, 'g': 'layers-emptyvar', 'emptyvar': 1})
    return out


def req(case):
    if case.get('nomodel'): return ';;ty~sy'
    enc = cfgcodec.encode(case['c'], case['gc'])
    if ';' not in enc: enc += ';'
    return '%s;%s' % (enc, '~'.join('%s:%s' % (k, hx(key)) for k, key in case['probes']) + '~ty~sy')


def expected(case):
    """the statement: most specific layer that defines the key, in the order built-in defaults, defaults of the type, defaults of
    the syntax, global config for the type, global config for the syntax, the call's own config"""
    from emmet import config as C
    c, gc = case['c'], case['gc']
    ty = c.get('type', 'markup'); sy = c.get('syntax', C.DEFAULT_SYNTAXES.get(ty, 'html'))
    res = []
    for kind, key in case['probes']:
        field_ = {'o': 'options', 'sn': 'snippets', 'vr': 'variables'}[kind]
        layers = [C.DEFAULT_CONFIG.get(field_, {}), C.SYNTAX_CONFIG.get(ty, {}).get(field_, {}), C.SYNTAX_CONFIG.get(sy, {}).get(field_, {}),
                  gc.get(ty, {}).get(field_, {}), gc.get(sy, {}).get(field_, {}), c.get(field_, {})]
        val = None
        for l in layers:
            if key in l: val = l[key]
        res.append(val)
    return res, ty, sy


def run(case, prop):
    from emmet.config import Config
    from emmet import config as C, expand
    import emmet.snippets as SN
    viol = []
    snap_builtin = copy.deepcopy((C.DEFAULT_OPTIONS_SNAPSHOT if hasattr(C, 'DEFAULT_OPTIONS_SNAPSHOT') else {k: v for k, v in C.DEFAULT_OPTIONS.items() if not callable(v)}, C.SYNTAX_CONFIG, C.DEFAULT_SYNTAXES, C.SYNTAXES, SN.variables))
    c = copy.deepcopy(case['c']); gc = copy.deepcopy(case['gc'])
    c0 = copy.deepcopy(c); gc0 = copy.deepcopy(gc)
    try:
        cfg = Config(c, gc)
        got = []
        for kind, key in case['probes']:
            d = {'o': cfg.options, 'sn': cfg.snippets, 'vr': cfg.variables}[kind]
            got.append(d.get(key))
        line = ' '.join('None' if v is None else cfgcodec._val(v) for v in got) + ' s%s s%s' % (hx(cfg.type), hx(cfg.syntax))
        want, ty, sy = expected(case)
        for (kind, key), g_, w in zip(case['probes'], got, want):
            if g_ != w: viol.append('layer-order| %s key %r with type %r syntax %r, layers present (global type, global syntax, user) = %r: effective value %r, the most specific layer defining it has %r' % (kind, key, ty, sy, case['subset'], g_, w))
        if case.get('nomodel'): raise StopIteration          # null values: the resolved tables are the whole observation (expanding null snippets / variables is outside the typed fragment)
        # the order in which the caller wrote the sections of its global configuration, and the mapping type it used, mean nothing
        import collections as _co, types as _ty
        gcr = _co.OrderedDict(reversed(list(copy.deepcopy(gc).items())))
        cfgr = Config(copy.deepcopy(c), gcr)
        for kind, key in case['probes']:
            d1 = {'o': cfg.options, 'sn': cfg.snippets, 'vr': cfg.variables}[kind]; d2 = {'o': cfgr.options, 'sn': cfgr.snippets, 'vr': cfgr.variables}[kind]
            if d1.get(key) != d2.get(key): viol.append('layer-order| %s key %r: %r with the global sections written in one order, %r in the other (%r)' % (kind, key, d1.get(key), d2.get(key), gc)); break
        if not case.get('nomodel') and ty == 'markup' and gc:
            pa, pb = expand('ul>li.a*2>img', copy.deepcopy(c), copy.deepcopy(gc)), expand('ul>li.a*2>img', copy.deepcopy(c), _ty.MappingProxyType(copy.deepcopy(gc)))
            if pa != pb: viol.append('layer-order| expand(ul>li.a*2>img, %r, global) = %r with a dict, %r with the same global configuration as a read-only mapping' % (c, pa, pb))
        # the effective jsx.enabled is what the parser obeys (`Foo.Bar` is one component name under JSX, an element with a class otherwise)
        if ('o', 'jsx.enabled') in case['probes'] and ty == 'markup' and sy not in ('pug', 'slim', 'haml'):
            w_ = want[case['probes'].index(('o', 'jsx.enabled'))]
            o_ = expand('Foo.Bar', copy.deepcopy(c), copy.deepcopy(gc))
            if ('<Foo.Bar' in o_) != bool(w_): viol.append('expand-option| expand(Foo.Bar, %r, %r) = %r although the effective jsx.enabled is %r' % (c, gc, o_, w_))
        # observed through expand as well: a user / global snippet must be what expands
        for kind, key in case['probes']:
            if kind == 'sn' and key.isalpha() and got[case['probes'].index((kind, key))] is not None and ty == 'markup' and sy not in ('pug', 'slim', 'haml'):
                body = got[case['probes'].index((kind, key))]
                if body.startswith('planted-'):
                    tag = body.split('.')[0]
                    o = expand(key, copy.deepcopy(c), copy.deepcopy(gc))
                    if ('<' + tag) not in o.lower(): viol.append('expand-layer| expand(%r) = %r does not use the effective snippet %r' % (key, o, body))
            if kind == 'sn' and ty == 'stylesheet' and key.isalpha():
                body = got[case['probes'].index((kind, key))]
                if isinstance(body, str) and body.startswith('planted-'):
                    o = expand(key, copy.deepcopy(c), copy.deepcopy(gc))
                    if body not in o: viol.append('expand-layer| expand(%r, %r, %r) = %r does not use the effective snippet %r' % (key, c, gc, o, body))
            if kind == 'vr' and ty == 'markup':
                val = got[case['probes'].index((kind, key))]
                if isinstance(val, str) and val == '' and case.get('emptyvar'):
                    o = expand('p[title=x${%s}y]' % key, copy.deepcopy(c), copy.deepcopy(gc))
                    if 'title="xy"' not in o: viol.append('expand-variable| expand(p[title=x${%s}y], %r, %r) = %r: the effective value of the variable is the empty string' % (key, c, gc, o))
                if isinstance(val, str) and val:
                    # the effective variable, referenced directly and from inside a snippet body, under a call config whose own
                    # `variables` dictionary exists but need not mention the key
                    o = expand('p[title=${%s}]' % key, copy.deepcopy(c), copy.deepcopy(gc))
                    if val not in o: viol.append('expand-variable| expand(p[title=${%s}], %r, %r) = %r does not use the effective value %r' % (key, c, gc, o, val))
                    c2 = copy.deepcopy(c); c2.setdefault('variables', {}); c2.setdefault('snippets', {})['probevar'] = 'p[title=${%s}]' % key
                    o = expand('probevar', c2, copy.deepcopy(gc))
                    if val not in o: viol.append('expand-variable| expand(probevar) with snippet probevar = p[title=${%s}], config %r, global %r gives %r: the snippet body does not see the effective value %r' % (key, c2, gc, o, val))
        # documented defaults of the syntax: with no more specific layer the resolved option is the documented one
        for k_, dv in SYNTAX_DOC.get(sy, {}).items():
            if k_ not in c.get('options', {}) and k_ not in gc.get(ty, {}).get('options', {}) and k_ not in gc.get(sy, {}).get('options', {}):
                if cfg.options.get(k_) != dv: viol.append('syntax-default| syntax %r: option %r resolves to %r, the documented default of the syntax is %r' % (sy, k_, cfg.options.get(k_), dv))
        # a configuration resolved beforehand (with its global layers) expands like the dictionaries it was resolved from
        if ty == 'markup' and sy not in ('pug', 'slim', 'haml'):
            probe = 'p[title=${myvar}]>em+xx/'
            o1 = expand(probe, copy.deepcopy(c), copy.deepcopy(gc)); o2 = expand(probe, Config(copy.deepcopy(c), copy.deepcopy(gc)))
            if o1 != o2: viol.append('resolved-config| expand(%r, Config(config, global)) = %r, with the dictionaries themselves %r  (config %r, global %r)' % (probe, o2, o1, c, gc))
            # the effective `jsx.enabled` decides how a prefixed value is written, whatever the syntax is called
            c3 = copy.deepcopy(c); c3.setdefault('options', {}); c3['options'].setdefault('markup.valuePrefix', {'class*': 'styles'})
            cfg3 = Config(copy.deepcopy(c3), copy.deepcopy(gc))
            if isinstance(cfg3.options.get('markup.valuePrefix'), dict) and cfg3.options['markup.valuePrefix'].get('class*') == 'styles':
                o3 = expand('div..bar', c3, copy.deepcopy(gc))
                want3 = '{styles.bar}' if cfg3.options.get('jsx.enabled') else '"styles.bar"'
                if want3 not in o3: viol.append('expand-option| expand(div..bar, %r, %r) = %r: the effective jsx.enabled is %r, the prefixed value must be written %s' % (c3, gc, o3, cfg3.options.get('jsx.enabled'), want3))
        expand('a', c, gc)
    except RecursionError: raise
    except StopIteration: pass
    except Exception as e:
        line = 'EXC ' + type(e).__name__; viol.append('raised| Config(%r, %r) / expand raised %s' % (case['c'], case['gc'], type(e).__name__))
    if c != c0 or gc != gc0: viol.append("caller-mutated| the caller's dictionaries were modified: %r -> %r" % ((c0, gc0), (c, gc)))
    after = ({k: v for k, v in C.DEFAULT_OPTIONS.items() if not callable(v)}, C.SYNTAX_CONFIG, C.DEFAULT_SYNTAXES, C.SYNTAXES, SN.variables)
    if after != snap_builtin: viol.append('builtin-mutated| a built-in table was modified by merging')
    tags = {'gen:' + case['g']: 1, 'type:%s' % case['c'].get('type'): 1}
    return line, viol[:4], tags


def compare(case, line, ml):
    if case.get('nomodel'): return None
    return line == ml


def nontrivial(case, line):
    return any(case['subset'])


def describe(case):
    return {'config': case['c'], 'global_config': case['gc'], 'probes': case['probes']}
