"""Domain: HTML matcher (emmet.html_matcher scan / match / balanced_outward / balanced_inward) on arbitrary strings and on
documents rendered from random trees with recorded ground truth. Serves C09 and the HTML half of C16."""
import random
from vlib import hx
import gens

MODE = 'html'
FR = gens.HTML_ALPHA + ['<a>', '</a>', '<b c="d>e">', '</b>', '<br>', '<i/>', '<img x=y>', '<!--', '-->', '<![CDATA[', ']]>', '<?', '?>', '<script>',
                        '</script>', '<script type="text/x">', '<style>', '</style>', '\\', '{', '}', '(', ')', '*x', '#y', ' e=f', "='g'", '<p ', 'é', 'x:y', '</br>', '</img>', '</hr>', '<script/>', '<style/>', '<script src="a.js"/>', '<style type="x"/>', '<br/>', '</script', '<input>']
VOID = ['br', 'img', 'input', 'hr', 'meta', 'link']
# the documented script types whose body is raw text (pinned copy of html_matcher.utils.default_special['script'])
SCRIPT_TYPES = ['', 'text/javascript', 'application/x-javascript', 'javascript', 'typescript', 'ts', 'coffee', 'coffeescript']
PAIRED = ['div', 'p', 'span', 'a', 'ul', 'li', 'b', 'x-y', 'ns:t', 'section', 'h1', 'em', 'table', 'A', 'Br', '\u00d6l', 'a\u036fb']


# ------------------------------------------------------------------------------------------------- documents with ground truth
class Rec:
    __slots__ = ('name', 'open', 'close', 'attrs', 'kids', 'selfc')

    def __init__(self, name): self.name = name; self.open = None; self.close = None; self.attrs = []; self.kids = []; self.selfc = False


HOSTILE_HTML = ['<div><!-- never closed <p>', '<a href="x><b>', '<script>if (a<b) {', '<ul><li><![CDATA[ x', '<?php echo "', "<p title='><em>", '</div></div>', '<style>a{']


def gen_doc(rnd, xml, budget=14, unclosed=0):
    """returns (source, [top-level Rec...]); every Rec knows where its tags and attributes are"""
    buf = []
    pos = [0]

    def emit(s):
        buf.append(s); pos[0] += len(s)

    def junk():
        k = rnd.random()
        if k < .35: emit(rnd.choice(['text', ' ', 'a b', 'x > y', '\n  ', 'é', '1 &lt; 2']))
        elif k < .44: emit('<!-- ' + rnd.choice(['c', '<div>', '</p>', 'a -- b', '<b x="1">']) + ' -->')
        elif k < .5: emit(rnd.choice(['<!-->', '<!--->', '<!---']) + rnd.choice([' <div> ', '</p>', ' x <b> y </i> ', '']) + '-->')      # a comment whose text starts with `>` / `->`
        elif k < .58: emit('<![CDATA[' + rnd.choice(['d', '<i>', ']] >', '</div>']) + ']]>')
        elif k < .7: emit(rnd.choice(['</zz>', '</br>', '</q-x>', '</Zz >'.replace(' ', '')]))      # a stray closing tag: matches nothing that is open, changes nothing
        elif k < .76: emit('<?' + rnd.choice(['php echo "<p>"; ', 'xml version="1.0"', 'x', 'php echo "?><span class=x>"; ', "php $a = '?></div>'; ", 'php echo "a\\"?><b>"; ']) + '?>')

    def attrs(rec):
        n = rnd.choice([0, 0, 1, 1, 2, 3])
        for _ in range(n):
            emit(rnd.choice([' ', '  ', '\n\t', '\r\n', '\r\n  ']))
            name = rnd.choice(['id', 'class', 'href', 'data-x', 'v:on', 'checked', 'x', '[ng]', '(click)', '#ref', '*if', '\u00d6k', 'da\u036fta'])
            ns = pos[0]; emit(name); ne = pos[0]
            k = rnd.random()
            if k < .2:
                rec.attrs.append((name, None, ns, ne, None, None)); continue
            emit('=')
            if k < .5: v = '"' + rnd.choice(['v', 'a b', 'x>y', "it's", '', '</p>', '<b>', 'a/b', '<br/> tag', 'x/>', 'btn btn-x\n\tis-on', 'a\r\n b  c']) + '"'
            elif k < .7: v = "'" + rnd.choice(['v', 'a b', 'x>y', 'say "hi"', '']) + "'"
            elif k < .85: v = rnd.choice(['v', 'a.b', '1', 'x:y', 'foo-bar', 'page?id=7', 'QUJD==', 'a=b'])
            else: v = '{' + rnd.choice(['e', 'a > b', '{x}', 'f("y")', '<Icon/>']) + '}'
            vs = pos[0]; emit(v); ve = pos[0]
            rec.attrs.append((name, v, ns, ne, vs, ve))

    def element(depth):
        k = rnd.random()
        if k < .04 and xml:
            # self-closed special element: its "body" must not be skipped
            name = rnd.choice(['script', 'style'])
            rec = Rec(name); s = pos[0]; emit('<' + name); attrs(rec); emit('/>'); rec.selfc = True; rec.open = (s, pos[0])
            return rec
        if k < .12:
            name = rnd.choice(['script', 'style'])
            rec = Rec(name); s = pos[0]; emit('<' + name); attrs(rec)
            raw = True
            if name == 'script' and rnd.random() < .6:
                # a `type` attribute: the documented script types (quoted or not) keep the body raw text; any other type makes the
                # body ordinary markup
                raw = rnd.random() < .7
                tv = rnd.choice(SCRIPT_TYPES) if raw else rnd.choice(['text/x-template', 'text/html', 'x', 'application/javascript', 'module'])
                emit(' '); ns = pos[0]; emit('type'); ne = pos[0]; emit('=')
                q = rnd.choice(['"', "'", '']) if tv and '/' not in tv else rnd.choice(['"', "'"])
                v = q + tv + q; vs = pos[0]; emit(v); ve = pos[0]
                rec.attrs.append(('type', v, ns, ne, vs, ve))
                if rnd.random() < .3: attrs(rec)
            emit('>'); rec.open = (s, pos[0])
            if raw: emit(rnd.choice(['', 'var a = "<div>";', 'if (a < b && c > d) {}', '</scrip>', '<p>x</p>', 'a{b:c}', 'for (i = 0; i <n; i++) { out += "<li>" + i; }', 'document.write("<em>")']))
            else:
                while budget_[0] > 0 and depth < 5 and rnd.random() < .5:
                    junk(); budget_[0] -= 1; rec.kids.append(element(depth + 1))
                junk()
            s = pos[0]; emit('</' + name + '>'); rec.close = (s, pos[0])
            return rec
        if k < .3:
            name = rnd.choice(VOID if not xml or rnd.random() < .5 else PAIRED)
            rec = Rec(name); s = pos[0]; emit('<' + name); attrs(rec)
            if xml or name not in VOID or rnd.random() < .4:
                emit(rnd.choice(['/', ' /'])); rec.selfc = True
            emit('>'); rec.open = (s, pos[0])
            return rec
        name = rnd.choice(PAIRED)
        rec = Rec(name); s = pos[0]; emit('<' + name); attrs(rec)
        if rnd.random() < .15: emit(rnd.choice([' ', '\r\n', '\r', '\n']))
        emit('>'); rec.open = (s, pos[0])
        while budget_[0] > 0 and depth < 5 and rnd.random() < .6:
            junk()
            budget_[0] -= 1
            rec.kids.append(element(depth + 1))
        junk()
        s = pos[0]; emit('</' + name + '>'); rec.close = (s, pos[0])
        return rec

    budget_ = [budget]
    tops = []
    junk()
    while budget_[0] > 0 and (not tops or rnd.random() < .6):
        budget_[0] -= 1
        tops.append(element(0)); junk()
    if unclosed and rnd.random() < unclosed:
        # the document ends inside a special element that is never closed: nothing after its open tag is markup, and it is no pair
        emit(rnd.choice(['<script>', '<style>', '<script type="text/javascript">']) + rnd.choice(['var a = "<div>";', 'a{b:c} </p>', '', 'x <b> y']))
    return ''.join(buf), tops


shared_opt = {True: {'xml': True}, False: {'xml': False}}      # the caller's own options objects, reused for every call


def rec_to_json(r):
    return {'n': r.name, 'o': r.open, 'c': r.close, 'a': r.attrs, 'k': [rec_to_json(k) for k in r.kids]}


def cases(tier, seed, prop):
    rnd = random.Random(seed)
    out = []
    if prop in ('C16', 'C17x'):
        L = 3 if tier == 'quick' else 4
        out += [{'s': s, 'g': 'exh'} for s in gens.all_strings(gens.HTML_ALPHA, L)]
        n = 3000 if tier == 'quick' else 40000
        out += [{'s': s, 'g': 'frag'} for s in gens.random_strings(rnd, FR, n, 1, 9)]
        # several special (script / style) elements in one document: closed, unclosed up to the end, self-closed, with odd `type` values
        SP = ['<style>', '</style>', '<script>', '</script>', '<style>a{}</style>', '<script>x</script>', 'b{}', '<p>', 'x</p>', '<script/>', '<script type=">', "<script type='>",
              '<script type="', '<script src=a.js type=" >', '<style type=text/css>', '<script type=module>', '<script type=text/x-tpl>', '<i>', '</script >', '<STYLE>', '</Style>']
        out += [{'s': s, 'g': 'special'} for s in gens.random_strings(rnd, SP, n // 5, 2, 6)]
        for _ in range(300 if tier == 'quick' else 4000):
            xml = rnd.random() < .3
            s, _t = gen_doc(rnd, xml, rnd.randint(1, 6))
            for _ in range(rnd.randint(1, 3)): s = gens.mutate(rnd, s, gens.HTML_ALPHA)
            if len(s) <= 160: out.append({'s': s, 'g': 'mutdoc'})
    if prop == 'C09':
        n = 2000 if tier == 'quick' else 12000
        while len(out) < n:
            xml = rnd.random() < .35
            s, tops = gen_doc(rnd, xml, rnd.randint(1, 9), unclosed=.1)
            if len(s) > 220: continue
            out.append({'s': s, 'g': 'doc', 'xml': xml, 'truth': [rec_to_json(t) for t in tops]})
    return out


def req(case):
    return hx(case['s']) if case['s'] else ''


def sm(m):
    return 'None' if m is None else '%s:%d-%d:%s' % (m.name, m.open[0], m.open[1], 'None' if not m.close else '%d-%d' % tuple(m.close))


# ------------------------------------------------------------------------------------------------- oracles
def full(m):
    return (m.open[0], m.close[1] if m.close else m.open[1])


def oracle_C16(s, events, xml, pos, m, ow, iw):
    n = len(s); v = []
    tag = 'xml' if xml else 'html'

    def rng(r, what):
        if not (isinstance(r[0], int) and isinstance(r[1], int) and 0 <= r[0] <= r[1] <= n):
            v.append('bad-range| %s %s range %r outside 0<=start<=end<=%d (pos %d)' % (tag, what, tuple(r), n, pos))
    for x in ([m] if m else []) + list(ow) + list(iw):
        rng(x.open, 'open')
        if x.close: rng(x.close, 'close')
    if (m is None) != (len(ow) == 0) or (m is not None and sm(m) != sm(ow[0])):
        v.append('match-vs-outward| %s match(%d)=%s but first balanced_outward entry is %s' % (tag, pos, sm(m), sm(ow[0]) if ow else None))
    prev = None
    for x in ow:
        a, e = full(x)
        if not (a < pos < e): v.append('outward-not-containing| %s balanced_outward(%d) entry %s does not strictly contain the position' % (tag, pos, sm(x)))
        if prev is not None:
            pa, pe = prev
            if not (a <= pa and pe <= e and (a, e) != (pa, pe)): v.append('outward-not-nested| %s balanced_outward(%d): %s does not strictly contain the previous entry' % (tag, pos, sm(x)))
        prev = (a, e)
    prev = None
    for x in iw:
        a, e = full(x)
        if prev is not None:
            pa, pe = prev
            if not (pa <= a and e <= pe): v.append('inward-not-nested| %s balanced_inward(%d): %s does not lie inside the previous entry' % (tag, pos, sm(x)))
        prev = (a, e)
    return v


def oracle_events(s, events):
    v = []; last = 0; n = len(s)
    for (name, typ, a, e) in events:
        if not (0 <= a < e <= n): v.append('bad-range| scan event %s %r outside the source' % (name, (a, e))); continue
        if s[a] != '<' or s[e - 1] != '>': v.append('tag-shape| scan event %s [%d,%d) = %r does not start with < and end with >' % (name, a, e, s[a:e]))
        off = a + (2 if typ == 2 else 1)
        if s[off:off + len(name)] != name: v.append('tag-name| scan event name %r is not the text right after the bracket in %r' % (name, s[a:e]))
        if a < last: v.append('overlap| scan event %s starts at %d before the previous one ended at %d' % (name, a, last))
        last = e
    return v


def flatten(truth, acc=None, depth=0, parent=None):
    acc = [] if acc is None else acc
    for t in truth:
        acc.append(t); flatten(t['k'], acc)
    return acc


def expect(truth, pos):
    """innermost→outermost list of truth elements strictly containing pos"""
    res = []

    def walk(nodes):
        for t in nodes:
            a = t['o'][0]; e = (t['c'] or t['o'])[1]
            if a < pos < e:
                walk(t['k']); res.append(t); return True
        return False
    walk(truth)
    return res


def expect_inward(truth, pos):
    """first element in post-order that contains pos (a pair: open.start <= pos <= close.end; a void / self-closed element:
    strictly), followed by its chain of first children"""
    def post(nodes):
        for t in nodes:
            r = post(t['k'])
            if r is not None: return r
            if t['c']:
                if t['o'][0] <= pos <= t['c'][1]: return t
            elif t['o'][0] < pos < t['o'][1]: return t
        return None
    t = post(truth)
    if t is None: return []
    out = [t]
    while t['k']:
        t = t['k'][0]; out.append(t)
    return out


def st(t):
    return '%s:%d-%d:%s' % (t['n'], t['o'][0], t['o'][1], 'None' if not t['c'] else '%d-%d' % tuple(t['c']))


def oracle_C09(case, pos, m, ow, iw):
    truth = case['truth']; s = case['s']; v = []
    exp = expect(truth, pos)
    em = st(exp[0]) if exp else 'None'
    if sm(m) != em: v.append('match| match(%d) = %s, the innermost enclosing element is %s' % (pos, sm(m), em))
    if [sm(x) for x in ow] != [st(t) for t in exp]:
        v.append('outward| balanced_outward(%d) = %s, enclosing elements innermost→outermost are %s' % (pos, [sm(x) for x in ow], [st(t) for t in exp]))
    ei = expect_inward(truth, pos)
    if [sm(x) for x in iw] != [st(t) for t in ei]:
        v.append('inward| balanced_inward(%d) = %s, expected %s' % (pos, [sm(x) for x in iw], [st(t) for t in ei]))
    if m is not None and exp:
        t = exp[0]
        if s[m.open[0]:m.open[1]] != s[t['o'][0]:t['o'][1]]: v.append('open-slice| open range does not slice to the tag')
        got = [(a.name, a.value, a.name_start, a.name_end, a.value_start, a.value_end) for a in (m.attributes or [])]
        want = [tuple(x) for x in t['a']]
        if got != want: v.append('attributes| match(%d) attributes %r, written attributes %r' % (pos, got, want))
        for a in (m.attributes or []):
            if s[a.name_start:a.name_end] != a.name: v.append('attr-slice| attribute name range does not slice to %r' % a.name)
            if a.value is not None and s[a.value_start:a.value_end] != a.value: v.append('attr-slice| attribute value range does not slice to %r' % a.value)
    return v


def run(case, prop):
    from emmet.html_matcher import match, balanced_outward, balanced_inward, scan
    from emmet.html_matcher.utils import default_special
    s = case['s']; viol = []; tags = {'gen:' + case['g']: 1}
    ev = []; evl = []
    try:
        # an editor action in XML mode earlier in the same process (legitimate use of a sibling module): the matcher's defaults stay
        from emmet.action_utils import select_item_html
        select_item_html('<feed><entry id="1"><title>t</title></entry></feed>', 0, False, {'xml': True})
    except Exception: pass
    # ... and the matcher itself was used on half-typed documents before (unclosed comment / string / special element): nothing of that
    # may be remembered
    for junk_src in HOSTILE_HTML:
        try: match(junk_src, len(junk_src) // 2); balanced_outward(junk_src, 3); balanced_inward(junk_src, 1)
        except Exception: pass
    try:
        scan(s, lambda n, t, a, e: (ev.append('%s:%d:%d:%d' % (n, t, a, e)), evl.append((n, int(t), a, e)))[0], default_special)
    except RecursionError: raise
    except Exception as e:
        ev = ['EXC ' + type(e).__name__]
        if prop == 'C16': viol.append('raised| scan raised %s' % type(e).__name__)
    out = 'E ' + ' '.join(ev)
    # attributes(src): the string read as a bare attribute list (what the attribute parser does on half-typed tags)
    from emmet.html_matcher.attributes import attributes
    try:
        al = attributes(s)
        out += ' | A ' + ' '.join('%d:%d:%s' % (a.name_start, a.name_end, '-' if a.value is None else '%d:%d' % (a.value_start, a.value_end)) for a in al)
        if prop == 'C16':
            prev_end = 0
            for a in al:
                ok = 0 <= a.name_start < a.name_end <= len(s) and a.name == s[a.name_start:a.name_end] and a.name_start >= prev_end
                prev_end = a.name_end
                if a.value is not None:
                    ok = ok and a.name_end < a.value_start <= a.value_end <= len(s) and a.value == s[a.value_start:a.value_end]
                    prev_end = a.value_end
                if not ok:
                    viol.append('attribute-range| attributes(%r): attribute %r name [%r,%r) value %r [%r,%r) is not an ordered in-range slice' % (s, a.name, a.name_start, a.name_end, a.value, a.value_start, a.value_end)); break
    except RecursionError: raise
    except Exception as e:
        out += ' | A EXC ' + type(e).__name__
        if prop == 'C16': viol.append('raised| attributes(%r) raised %s' % (s, type(e).__name__))
    if prop == 'C16': viol += oracle_events(s, evl)
    tags['events'] = len(evl)
    for xml in (False, True):
        for pos in range(-1, len(s) + 2):
            try:
                try: match(s, pos, {'xml': xml, 'special': {}})          # the same source under another `special` table right before: nothing of it may be remembered
                except Exception: pass
                import types as _ty
                if pos % 3 == 0:
                    ro_ = _ty.MappingProxyType({'xml': xml})          # the options as a read-only mapping: the same answers
                    m_ = match(s, pos, ro_); o_ = balanced_outward(s, pos, ro_)
                m = match(s, pos, shared_opt[xml]); o = balanced_outward(s, pos, shared_opt[xml]); i = balanced_inward(s, pos, shared_opt[xml])
                if pos % 3 == 0 and (sm(m_) != sm(m) or [full(x) for x in o_] != [full(x) for x in o]): viol.append('options-type| match / balanced_outward(%d) answer differently when the options are a read-only mapping' % pos)
                if shared_opt[xml] != {'xml': xml}: viol.append('options-changed| the matcher changed the options dictionary of its caller: %r' % (shared_opt[xml],)); shared_opt[xml] = {'xml': xml}
                out += ' | %s ; %s ; %s' % (sm(m), ' '.join(sm(x) for x in o), ' '.join(sm(x) for x in i))
                if prop == 'C16': viol += oracle_C16(s, evl, xml, pos, m, o, i)
                elif prop == 'C09' and xml == case.get('xml') and 0 <= pos <= len(s): viol += oracle_C09(case, pos, m, o, i)
                if m is not None: tags['matched'] = tags.get('matched', 0) + 1
            except RecursionError: raise
            except Exception as e:
                out += ' | EXC %s' % type(e).__name__
                viol.append('raised| matcher raised %s at position %d (xml=%s)' % (type(e).__name__, pos, xml))
    return out, viol[:6], tags


def compare(case, line, ml):
    import vlib
    if vlib.unmodelled_text(case['s'], case=False): return None
    return line == ml


def nontrivial(case, line):
    return line.count('<') == 0 and ':1:' in line.split(' | ')[0] or ':3:' in line.split(' | ')[0]


def describe(case):
    d = {'source': case['s']}
    if 'xml' in case: d['xml'] = case['xml']
    return d
