"""Domain: histories of expand() calls followed by a probe call (shared Config objects, shared cache dictionaries, failing calls,
differing options). The probe's result after the history is compared with the same probe made in a fresh interpreter, and with
the model (a pure function of the probe's arguments). Serves C08."""
import random, copy, json, subprocess, sys, os
from vlib import hx
import gens, cfgcodec, vlib
from dom_expand import B, field

MODE = 'expandg'

MARKUP_ABBRS = ['ul>li.item$*3', 'a', 'div.b_m>p.-e', 'p{${foo}}', 'ul>li*', '(', 'a{', 'div>p*2>span', 'lorem-', 'x.a.b', '!', 'table>tr>td', '[', 'input:t', 'p{$#}', '.b>.-e_m', 'ul>li[title=$#]*',
                'btn', 'doc', 'v', 'v>em', 'html:xt', 'h$[t=$$]*2', 'em>b', 'div#a.b', 'form:post', 'br', 'img', 'cc:ie', 'p>{a}+{b}', 'lorem-box', 'ul>lorem_item*2', 'lorem5x>b', 'x-badge>.count', 'em>.a', 'div>em>.a', 'my-el>.k+[t]',
                'a[title=$#]*', 'p>{$#}', 'section>p']
CSS_ABBRS = ['p10', 'm10-20', 'foo', 'bar', 'w100p', 'c#f', 'pos:a', 'bd1-s', 'lh1.5', 'foo5', 'z10', '(', 'p$', 'fl', 'd:n', 'op.5', 'lg(to right, #0, #f.5)', 'bar2', 'trf:r', 'trf:s(2)', 'trf:scale', 'trf:s', 'trf:t(1, 2)', 'trf:t', 'p10r', 'w5p', 'm0', 'm-0', 'p0-0', 'm-0-0', 'lh0', 'lh-0']
NESTED_BAD = {'snippets': {'menu': 'nav>item', 'item': 'li[title="]', 'box': 'div>menu'}}          # resolving `item` raises a parse error in the middle of nested resolution
NESTED_OK = {'snippets': {'menu': 'nav>item', 'item': 'li[title=""]', 'box': 'div>menu'}}
CSS_NEST = {'type': 'stylesheet', 'snippets': {'bgz': 'background-zoom:zigzag|zebra', 'posx': 'position-x:stuck|floaty'}}      # user properties that nest under built-in ones
MARKUP_CFGS = [{}, {'syntax': 'jsx'}, {'options': {'bem.enabled': True}}, {'text': ['foo', 'bar']}, {'text': 'wrapped'}, {'syntax': 'pug'}, {'options': {'output.format': False}},
               {'options': {'comment.enabled': True}}, {'snippets': {'x': 'p+q', 'btn': 'button.btn'}}, {'syntax': 'xsl'}, {'maxRepeat': 2}, {'variables': {'foo': 'bar'}},
               {'options': {'bem.enabled': True, 'bem.element': '--'}, 'text': ['l1', 'l2']}, {'text': ['  first line', '      second line', '  third line']},
               {'options': {'inlineElements': ['x-badge', 'my-el', 'a']}}, {'options': {'inlineElements': []}}, {'context': {'name': 'strong'}}, {'context': {'name': 'x-badge'}, 'options': {'inlineElements': ['x-badge']}},
               {'text': []}, {'text': ''}, {'text': ['']}, {'text': ['', '  ']}, {'variables': {'lang': 'fr', 'charset': 'koi8-r'}}, {'variables': {'lang': 'de'}, 'snippets': {'v': 'p[lang=${lang}]{${foo}}'}}, {'snippets': {'v': 'p[lang=${lang}]{${foo}}'}}]
# global configurations (third argument of expand): they are arguments of the call like the others
MARKUP_GLOBS = [{}, {'markup': {'options': {'output.indent': '  '}}}, {'markup': {'snippets': {'x': 'a+b', 'btn': 'button.g'}}}, {'html': {'variables': {'lang': 'fr', 'foo': 'glob'}}},
                {'markup': {'options': {'output.selfClosingStyle': 'xhtml'}}, 'html': {'options': {'output.attributeQuotes': 'single'}}}, {'jsx': {'options': {'output.indent': '    '}}}]
CSS_GLOBS = [{}, {'stylesheet': {'options': {'stylesheet.intUnit': 'pt'}}}, {'css': {'snippets': {'foo': 'foo-glob:1', 'p': 'p-glob:x'}}}, {'stylesheet': {'options': {'stylesheet.between': ' = '}}, 'css': {'options': {'stylesheet.after': ''}}},
             {'sass': {'options': {'stylesheet.intUnit': 'em'}}}]
CSS_CFGS = [{'type': 'stylesheet'}, {'type': 'stylesheet', 'options': {'stylesheet.intUnit': 'pt'}}, {'type': 'stylesheet', 'options': {'stylesheet.intUnit': 'rem', 'stylesheet.floatUnit': '%'}},
            {'type': 'stylesheet', 'syntax': 'sass'}, {'type': 'stylesheet', 'snippets': {'foo': 'foo-prop:10', 'bar': 'bar-prop:1.5|auto'}},
            {'type': 'stylesheet', 'snippets': {'foo': 'foo-prop:10', 'bar': 'bar-prop:1.5|auto'}, 'options': {'stylesheet.intUnit': 'pt', 'stylesheet.floatUnit': 'rem'}},
            {'type': 'stylesheet', 'snippets': {'foo': 'foo-prop:10', 'bar': 'bar-prop:1.5|auto'}, 'options': {'stylesheet.intUnit': 'A'}},
            {'type': 'stylesheet', 'options': {'stylesheet.shortHex': False}}, {'type': 'stylesheet', 'context': {'name': '@@section'}}, {'type': 'stylesheet', 'context': {'name': '@@property'}}]


def cases(tier, seed, prop):
    rnd = random.Random(seed)
    n = 1200 if tier == 'quick' else 5000
    out = []
    for _ in range(n):
        css = rnd.random() < .45
        pool_c = CSS_CFGS if css else MARKUP_CFGS
        pool_a = CSS_ABBRS if css else MARKUP_ABBRS
        k = rnd.randint(1, 3)
        if css and rnd.random() < .5:
            # configurations that share a cache must agree on the snippet table (the cache is keyed by nothing else)
            tbl = rnd.choice([None, {'foo': 'foo-prop:10', 'bar': 'bar-prop:1.5|auto'}])
            cands = [c for c in CSS_CFGS if c.get('snippets') == tbl]      # scope contexts only filter: they share the table, hence may share the cache
            cfgs = [copy.deepcopy(rnd.choice(cands)) for _ in range(k)]
            shared_cache = True
            if tbl: pool_a = ['foo', 'bar', 'foo5', 'bar2', 'p10', 'foo', 'bar']      # the user snippets with numeric defaults
        else:
            cfgs = [copy.deepcopy(rnd.choice(pool_c)) for _ in range(k)]
            # (a markup expansion has no use for the cache: sharing one between any markup configurations changes nothing)
            shared_cache = (css and all(c.get('snippets') == cfgs[0].get('snippets') for c in cfgs) and rnd.random() < .5) or (not css and rnd.random() < .4)
        as_object = [rnd.random() < .4 for _ in cfgs]
        hist = []
        if not css and rnd.random() < .12:
            # BEM-heavy history: many expansions with different block names, then a probe that resolves `-elem` / `_mod` through its parent
            cfgs = [{'options': {'bem.enabled': True}}]; as_object = [rnd.random() < .3]; k = 1
            for i in range(rnd.randint(10, 18)):
                hist.append({'s': 'div.%s%d>p.-item+span._m' % (rnd.choice(['nav', 'blk', 'card', 'x']), i), 'cfg': 0, 'cache': False})
            probe = {'s': rnd.choice(['div.page>div.-head>span._big', 'section.card>h2.-title+p.-text', 'ul.list>li.-it*2>a._on']), 'cfg': 0, 'cache': False}
            out.append({'cfgs': cfgs, 'as_object': as_object, 'hist': hist, 'probe': probe, 'g': 'bem'})
            continue
        r_ = rnd.random()
        if not css and r_ < .08:
            # the caller changes the class of its own context element between calls (same dictionary): BEM names follow the current class
            cfgs = [{'options': {'bem.enabled': True}, 'context': {'name': 'div', 'attributes': {'class': 'card'}}}]; as_object = [False]
            names = ['card', 'panel', 'menu', 'aside', 'hero', 'nav']
            for i in range(rnd.randint(2, 8)):
                hist.append({'s': rnd.choice(['.-title', '.-item>.-link', 'p.-text._big']), 'cfg': 0, 'cache': False, 'ctxclass': rnd.choice(names)})
            probe = {'s': rnd.choice(['.-title', 'span.-x', '.-item._on']), 'cfg': 0, 'cache': False, 'ctxclass': rnd.choice(names)}
            out.append({'cfgs': cfgs, 'as_object': as_object, 'hist': hist, 'probe': probe, 'g': 'bem-context'})
            continue
        if not css and .16 <= r_ < .24:
            # the same parent name judged inline by one call's options and block-level by another's: the implicit name of its child follows
            # the options of the call that is being made
            nm = rnd.choice(['x-badge', 'my-el', 'em', 'strong', 'q'])
            cfgs = [rnd.choice([{}, {'options': {'inlineElements': []}}, {'context': {'name': nm}}]),
                    rnd.choice([{'options': {'inlineElements': ['x-badge', 'my-el', 'a']}}, {'options': {'inlineElements': []}}, {'context': {'name': nm}, 'options': {'inlineElements': [nm]}}])]
            as_object = [rnd.random() < .3, rnd.random() < .3]
            for i in range(rnd.randint(1, 4)):
                hist.append({'s': rnd.choice(['%s>.count' % nm, 'div>%s>.a+[t]' % nm, '.x>.y', '%s>.k' % nm]), 'cfg': rnd.choice([0, 1]), 'cache': False})
            probe = {'s': rnd.choice(['%s>.count' % nm, 'div>%s>.a' % nm, '.z']), 'cfg': rnd.choice([0, 1]), 'cache': False}
            out.append({'cfgs': cfgs, 'as_object': as_object, 'hist': hist, 'probe': probe, 'g': 'inline-table'})
            continue
        if not css and r_ < .16:
            # a call that fails in the middle of nested snippet resolution, then the same aliases with a correct table
            cfgs = [copy.deepcopy(NESTED_BAD), copy.deepcopy(NESTED_OK)]; as_object = [rnd.random() < .3, rnd.random() < .3]
            for i in range(rnd.randint(1, 5)):
                hist.append({'s': rnd.choice(['menu', 'box', 'item', 'ul>menu', 'p']), 'cfg': rnd.choice([0, 0, 1]), 'cache': False})
            probe = {'s': rnd.choice(['menu', 'box', 'ul>menu*2']), 'cfg': 1, 'cache': False}
            out.append({'cfgs': cfgs, 'as_object': as_object, 'hist': hist, 'probe': probe, 'g': 'failing-nested'})
            continue
        if css and r_ < .12:
            # user properties that nest under built-in ones, then the built-in property's keywords under the default table (no cache)
            cfgs = [copy.deepcopy(CSS_NEST), {'type': 'stylesheet'}]; as_object = [rnd.random() < .3, rnd.random() < .3]
            for i in range(rnd.randint(1, 5)):
                hist.append({'s': rnd.choice(['bgz', 'posx', 'bgz:zeb', 'bg:zig', 'pos:st']), 'cfg': 0, 'cache': False})
            probe = {'s': rnd.choice(['bg:zig', 'bg:zeb', 'pos:st', 'pos:fl', 'bg:n']), 'cfg': 1, 'cache': False}
            out.append({'cfgs': cfgs, 'as_object': as_object, 'hist': hist, 'probe': probe, 'g': 'css-nesting'})
            continue
        if css and rnd.random() < .15:
            # stylesheet snippets that arrive through the global configuration in some calls and not in others (no cache, no snippets of the call's own)
            cfgs = [{'type': 'stylesheet'}, {'type': 'stylesheet', 'syntax': 'scss'}]; as_object = [False, False]; k = 2; shared_cache = False
            gl = [{}, {'stylesheet': {'snippets': {'foo': 'foo-glob:1', 'p': 'p-glob:x'}}}, {'css': {'snippets': {'foo': 'foo-css:2', 'zz': 'zz-prop:a|b'}}}]
            hist = [{'s': rnd.choice(['foo', 'p10', 'zz', 'm5', 'foo5', 'p']), 'cfg': rnd.randrange(2), 'cache': False, 'glob': rnd.randrange(3)} for _ in range(rnd.randint(1, 5))]
            probe = {'s': rnd.choice(['foo', 'p10', 'zz', 'p', 'foo5']), 'cfg': rnd.randrange(2), 'cache': False, 'glob': rnd.randrange(3)}
            out.append({'cfgs': cfgs, 'as_object': as_object, 'hist': hist, 'probe': probe, 'globs': gl, 'g': 'css-global-snippets'})
            continue
        if not css and rnd.random() < .12:
            # one cache shared by markup calls whose variables differ, abbreviations whose snippets mention variables
            cfgs = [{'variables': {'lang': 'fr'}}, {'variables': {'lang': 'de', 'charset': 'koi8-r'}}, {}]; as_object = [False, False, False]; k = 3
            hist = [{'s': rnd.choice(['!', 'doc', 'html:xt', 'p{${lang}}', 'html[lang=${lang}]']), 'cfg': rnd.randrange(3), 'cache': True} for _ in range(rnd.randint(1, 5))]
            probe = {'s': rnd.choice(['!', 'doc', 'html:xt', 'p{${lang}}']), 'cfg': rnd.randrange(3), 'cache': True}
            out.append({'cfgs': cfgs, 'as_object': as_object, 'hist': hist, 'probe': probe, 'g': 'markup-cache-variables'})
            continue
        if rnd.random() < .1:
            # the same dictionary passed to consecutive calls, edited by its owner in between
            cfgs = [{'type': 'stylesheet'}] if css else [rnd.choice([{}, {'syntax': 'xml'}, {'options': {'output.indent': '  '}}])]; as_object = [False]; k = 1
            edits = [{'stylesheet.intUnit': 'pt'}, {'stylesheet.between': ' = '}, {'stylesheet.intUnit': 'rem', 'stylesheet.after': ''}] if css else [{'output.indent': '....'}, {'output.selfClosingStyle': 'xhtml'}, {'output.tagCase': 'upper'}, {'output.format': False}]
            abs_ = ['p10', 'm5', 'pos:a'] if css else ['ul>li*2', 'div>br', 'p>img']
            hist = [{'s': rnd.choice(abs_), 'cfg': 0, 'cache': False}]
            for _ in range(rnd.randint(1, 3)): hist.append({'s': rnd.choice(abs_), 'cfg': 0, 'cache': False, 'edit': rnd.choice(edits)})
            probe = {'s': rnd.choice(abs_), 'cfg': 0, 'cache': False, 'edit': rnd.choice(edits)}
            out.append({'cfgs': cfgs, 'as_object': as_object, 'hist': hist, 'probe': probe, 'g': 'edited-between-calls'})
            continue
        globs = None
        if not shared_cache and rnd.random() < .3:
            # calls that differ in their global configuration (plain dictionaries: a resolved Config has its global layers built in)
            globs = [copy.deepcopy(g) for g in rnd.sample(CSS_GLOBS if css else MARKUP_GLOBS, 3)]; as_object = [False for _ in cfgs]
        for _ in range(rnd.randint(2, 10)):
            ab = rnd.choice(pool_a)
            if rnd.random() < .15: ab = gens.mutate(rnd, ab, gens.ABBR_ALPHA)
            hist.append({'s': ab, 'cfg': rnd.randrange(k), 'cache': shared_cache and rnd.random() < .8})
            if globs: hist[-1]['glob'] = rnd.randrange(3)
        probe = {'s': rnd.choice([a for a in pool_a if a not in ('lorem-',)]), 'cfg': rnd.randrange(k), 'cache': shared_cache and rnd.random() < .7}
        if globs: probe['glob'] = rnd.randrange(3)
        case = {'cfgs': cfgs, 'as_object': as_object, 'hist': hist, 'probe': probe, 'g': ('css' if css else 'markup') + ('-globals' if globs else '')}
        if globs: case['globs'] = globs
        out.append(case)
    return out


def mk(c):
    c = copy.deepcopy(c); o = dict(B); o.update(c.get('options', {})); c['options'] = o; return c


def req(case):
    p = case['probe']
    c = copy.deepcopy(case['cfgs'][p['cfg']])
    if 'ctxclass' in p: c['context']['attributes']['class'] = p['ctxclass']
    for st_ in case['hist'] + [p]:
        if 'edit' in st_ and st_['cfg'] == p['cfg']: c.setdefault('options', {}).update(st_['edit'])
    return '%s;%s' % (hx(p['s']), cfgcodec.encode(mk(c), case['globs'][p['glob']] if 'glob' in p else None))


FRESH = '''
import sys, json
sys.path.insert(0, %r)
sys.dont_write_bytecode = True
from emmet import expand
from emmet.scanner import ScannerException
from emmet.token_scanner import TokenScannerException
def field(index, placeholder, **kw): return '${%%d:%%s}' %% (index, placeholder) if placeholder else '${%%d}' %% index
for line in sys.stdin:
    ab, c, use_cache, glob = json.loads(line)
    o = {'markup.href': False, 'output.field': field}; o.update(c.get('options', {})); c['options'] = o
    if use_cache: c['cache'] = {}
    try: r = ['ok', expand(ab, c, glob) if glob is not None else expand(ab, c)]
    except ScannerException as e: r = ['scanner', e.pos]
    except TokenScannerException as e: r = ['token', e.pos]
    except Exception as e: r = ['internal', type(e).__name__]
    print(json.dumps(r)); sys.stdout.flush()
'''
_fresh = {}


def fresh_result(ab, cfg, use_cache, glob=None):
    """the probe in a fresh interpreter (one new process per probe)"""
    key = json.dumps([ab, cfg, use_cache, glob], sort_keys=True)
    if key in _fresh: return _fresh[key]
    try:
        r = subprocess.run([sys.executable, '-B', '-c', FRESH % vlib.REPO], input=json.dumps([ab, cfg, use_cache, glob]) + '\n', capture_output=True, text=True, timeout=25)
        res = tuple(json.loads(r.stdout.strip().splitlines()[-1]))
    except subprocess.TimeoutExpired:
        res = ('no-result', 'the call did not return within 25 s in a fresh interpreter')
    _fresh[key] = res
    return res


def residue():
    """sizes of module-level mutable containers and of mutable default arguments under emmet.* (per-call data kept alive shows up here)"""
    import types, gc
    sizes = {}
    for name, mod in list(sys.modules.items()):
        if not (name == 'emmet' or name.startswith('emmet.')) or mod is None: continue
        for k, v in list(vars(mod).items()):
            if isinstance(v, (dict, list, set)) and not k.startswith('__'): sizes['%s.%s' % (name, k)] = len(v)
            if isinstance(v, types.FunctionType) and v.__module__ == name:
                for i, d in enumerate(v.__defaults__ or ()):
                    if isinstance(d, (dict, list, set)): sizes['%s.%s.__defaults__[%d]' % (name, k, i)] = len(d)
    return sizes


def run(case, prop):
    from emmet import expand
    from emmet.config import Config
    from emmet.scanner import ScannerException
    from emmet.token_scanner import TokenScannerException
    viol = []
    import dom_expand
    dom_expand.hostile_environment()
    cfgs = [mk(c) for c in case['cfgs']]
    snap = copy.deepcopy(case['cfgs'])
    objs = [Config(c) if ob else c for c, ob in zip(cfgs, case['as_object'])]
    cache = {}

    def call(step):
        c = objs[step['cfg']]
        if 'ctxclass' in step: c['context']['attributes']['class'] = step['ctxclass']        # the caller edits its own context element
        if 'edit' in step and not isinstance(c, Config): c.setdefault('options', {}).update(step['edit'])      # ... or its own options, in place
        if step['cache']:
            if isinstance(c, Config): c.cache = cache
            else: c['cache'] = cache
        else:
            if isinstance(c, Config): c.cache = None
            else: c.pop('cache', None)
        g_ = globs[step['glob']] if 'glob' in step else None
        if g_ is not None and len(g_) > 1 and (len(step['s']) % 2):
            import collections as _co
            g_ = _co.OrderedDict(reversed(list(g_.items())))          # the order in which the owner wrote the sections means nothing
        try: return ('ok', expand(step['s'], c, g_) if 'glob' in step else expand(step['s'], c))
        except ScannerException as e: return ('scanner', e.pos)
        except TokenScannerException as e: return ('token', e.pos)
        except RecursionError: raise
        except Exception as e: return ('internal', type(e).__name__)
    globs = copy.deepcopy(case.get('globs'))
    before = residue()
    for step in case['hist']: call(step)
    got = call(case['probe'])
    after = residue()
    p = case['probe']
    pc = copy.deepcopy(case['cfgs'][p['cfg']])
    for st_ in case['hist'] + [p]:
        if 'edit' in st_ and st_['cfg'] == p['cfg'] and not case['as_object'][p['cfg']]:
            pc.setdefault('options', {}).update(st_['edit'])
    if 'ctxclass' in p:
        pc['context']['attributes']['class'] = p['ctxclass']
        for s0 in snap: s0['context']['attributes']['class'] = p['ctxclass']             # the harness's own edit is not a modification by the library
    want = fresh_result(p['s'], pc, bool(p['cache']), case['globs'][p['glob']] if 'glob' in p else None)
    if case.get('globs') and globs != case['globs']: viol.append("config-changed| the caller's global configuration was modified by the calls: %r -> %r" % (case['globs'], globs))
    if got != want:
        viol.append('history-dependent| after %d earlier calls expand(%r, %r%s) = %r, in a fresh interpreter it is %r; history: %r' % (
            len(case['hist']), p['s'], pc, ' + shared cache' if p['cache'] else '', got[1], want[1], [(h['s'], h['cfg'], h['cache']) + ((h['ctxclass'],) if 'ctxclass' in h else ()) + (('global', case['globs'][h['glob']]) if 'glob' in h else ()) for h in case['hist']]))
    # the caller's configuration dictionaries keep their content (apart from the cache entry the harness itself toggles)
    for c, s0 in zip(cfgs, snap):
        if case['g'] == 'edited-between-calls': break          # the owner edited it itself
        c2 = {k: v for k, v in c.items() if k != 'cache'}
        c2['options'] = {k: v for k, v in c2['options'].items() if not callable(v) and k != 'markup.href'}
        s1 = copy.deepcopy(s0); s1.setdefault('options', {})
        if c2 != s1: viol.append("config-changed| the caller's configuration was modified by the calls: %r -> %r" % (s1, c2))
    grown = {k: (before.get(k), v) for k, v in after.items() if v > before.get(k, 0)}
    if grown: viol.append('residue| module-level containers grew during the calls (per-call data kept alive): %r' % grown)
    line = 'ok ' + hx(got[1]) if got[0] == 'ok' else '%s %s' % got
    tags = {'gen:' + case['g']: 1, 'outcome:' + got[0]: 1, 'calls': len(case['hist']) + 1, 'shared_cache': 1 if any(h['cache'] for h in case['hist']) else 0}
    return line, viol[:4], tags


def compare(case, line, ml):
    p = case['probe']; c = case['cfgs'][p['cfg']]
    import re as _re
    if any(_re.fullmatch(r'lorem([a-z]*)(\d*)(-\d*)?', nm) for nm in _re.findall(r'[A-Za-z][\w:-]*', p['s'])): return None      # a lorem generator: random by design
    o = c.get('options') or {}
    if o.get('bem.enabled') or o.get('comment.enabled'): return None         # add-ons not modelled
    ctx = (c.get('context') or {}).get('name')
    if ctx is not None and c.get('type') == 'stylesheet' and ctx not in ('@@global', '@@section', '@@property'): return None
    if ml.startswith('internal unmodelled'): return None
    return line == ml


def nontrivial(case, line):
    return len(case['hist']) >= 2


def describe(case):
    return {'configs': case['cfgs'], 'global_configs': case.get('globs'), 'shared_Config_objects': case['as_object'], 'history': [(h['s'], h['cfg'], h['cache']) + ((h['ctxclass'],) if 'ctxclass' in h else ()) for h in case['hist']], 'probe': case['probe']}
