"""Domain: stylesheet abbreviation tokenizer + parser (emmet.css_abbreviation.tokenize / parse), property and value mode.
Serves C18 (stylesheet half)."""
import random
from fractions import Fraction as F
from vlib import hx, b
import gens

MODE = 'cssabbr'
FR = gens.CSS_ABBR_ALPHA + ['10', '0', '.5', '1.', 'px', 'em', '#fc0', '#f.5', '#t', 'lg(', '${1:x}', '${a}', '--foo', 'scale3d(', '${', '!important',
                            'p10-20', 'm-10--20', 'c#e7bc0b', 'rgb(1, 2, 3)', '"s t"', "'q'", 'bd1-s#f.5', '@m', '$v', '10p', '2e', '-']


def cases(tier, seed, prop):
    rnd = random.Random(seed)
    L = 3 if tier == 'quick' else 4
    out = [{'s': s, 'g': 'exh'} for s in gens.all_strings(gens.CSS_ABBR_ALPHA, L)]
    n = 20000 if tier == 'quick' else 150000
    out += [{'s': s, 'g': 'rand'} for s in gens.random_strings(rnd, FR, n, 1, 7)]
    out.append({'s': 'w' + '1' * 5000, 'g': 'huge-number'}); out.append({'s': 'p' + '9' * 4400 + '-2', 'g': 'huge-number'})
    return out


def req(case):
    return hx(case['s']) if case['s'] else ''


def st(t):
    n = type(t).__name__
    if n == 'Operator': body = 'Op %d' % ord(t.operator)
    elif n == 'Bracket': body = 'Br %s' % b(t.open)
    elif n == 'Literal': body = 'Lit %s' % hx(t.value)
    elif n == 'CustomProperty': body = 'Cus %s' % hx(t.value)
    elif n == 'NumberValue': body = 'Num %s %s' % (hx(t.raw_value), hx(t.unit))
    elif n == 'ColorValue':
        f = F(repr(float(t.a))); body = 'Col %d %d %d %d/%d %s' % (t.r, t.g, t.b, f.numerator, f.denominator, hx(t.raw))
    elif n == 'StringValue': body = 'Str %s %s' % (hx(t.value), b(t.quote == 'single'))
    elif n == 'Field': body = 'Fld %s %s' % (hx(t.name), t.index)
    elif n == 'WhiteSpace': body = 'Ws'
    else: body = '?' + n
    return '%s:%s:%s' % (t.start, t.end, body)


def sv(v):
    from emmet.css_abbreviation.parser import FunctionCall
    if isinstance(v, FunctionCall): return 'FN(%s)[' % hx(v.name) + ' ; '.join(' '.join(sv(x) for x in a.value) for a in v.arguments) + ']'
    return st(v)


def sp(p):
    return 'P<%s %s ' % (hx(p.name) if p.name is not None else 'None', b(p.important)) + ' , '.join(' '.join(sv(x) for x in v.value) for v in p.value) + '>'


def err(e):
    from emmet.scanner import ScannerException
    from emmet.token_scanner import TokenScannerException
    if isinstance(e, ScannerException): return 'scanner %s' % e.pos
    if isinstance(e, TokenScannerException): return 'token %s' % e.pos
    return 'internal %s' % type(e).__name__


def oracle_C18(s, vm, toks, exc):
    from emmet.scanner import ScannerException
    mode = 'value' if vm else 'property'
    if exc is not None:
        if isinstance(exc, ScannerException):
            return [] if isinstance(exc.pos, int) and 0 <= exc.pos <= len(s) else ['error-position| %s mode: scanner error position %r outside 0..%d' % (mode, exc.pos, len(s))]
        return ['internal-error| %s mode: tokenize raised %s' % (mode, type(exc).__name__)]
    pos = 0
    for t in toks:
        if t.start is None or t.end is None: return ['undefined-span| %s mode: token %s has an undefined span' % (mode, type(t).__name__)]
        if t.start != pos: return ['gap| %s mode: token %s starts at %s, previous token ended at %d' % (mode, type(t).__name__, t.start, pos)]
        if t.end <= t.start: return ['empty-span| %s mode: token %s has an empty span at %d' % (mode, type(t).__name__, t.start)]
        pos = t.end
    if pos != len(s): return ['uncovered-tail| %s mode: tokens end at %d, input length %d' % (mode, pos, len(s))]
    return []


def run(case, prop):
    from emmet.css_abbreviation import tokenize, parse
    s = case['s']; out = ''; viol = []; tags = {'gen:' + case['g']: 1}
    for vm in (False, True):
        toks = None; exc = None
        try:
            toks = tokenize(s, vm); t = 'ok ' + ' | '.join(st(x) for x in toks)
        except RecursionError: raise
        except Exception as e:
            exc = e; t = err(e)
        try: p = 'ok ' + ' '.join(sp(x) for x in parse(s, {'value': vm}))
        except RecursionError: raise
        except Exception as e: p = err(e)
        out += t + ' ## ' + p + ' @@ '
        if prop == 'C18': viol += oracle_C18(s, vm, toks, exc)
        tags['tok:' + t.split(' ')[0]] = tags.get('tok:' + t.split(' ')[0], 0) + 1
    return out, viol, tags


def nontrivial(case, line):
    return line.startswith('ok') and line.split(' ## ')[0].count('|') >= 1


def describe(case):
    return {'input': case['s']}
