"""Registry: per property, the Lean targets and theorems (obligations), the domains whose correspondence ties the model to
/repo, and the texts that go into the evidence."""

TRUSTED_BASE = [
    'Lean 4.33 kernel; accepted axioms propext, Classical.choice, Quot.sound (audited per theorem with #print axioms on every run)',
    'no sorry/admit/own axioms/native_decide/bv_decide/implemented_by/unsafe (comment-stripped grep on every run)',
    'tools/translate.py (tables regenerated from /repo by evaluation) and the hand-written model of the control flow under lean/Emmet/',
    'tools/*.py correspondence harness: canonical printing of implementation outcomes, generators; compiled model driver (lean/Main.lean)',
]

PROPS = {}


def thm(name, clause, partial=False):
    return {'name': name, 'clause': clause, 'partial': partial}


PROPS['C18'] = {
    'lean_targets': ['EmmetProps.C18'],
    'lean_imports': ['EmmetProps.C18'],
    'theorems': [
        thm('EmmetProps.C18_markup', 'for every string: the markup tokenizer model returns a scanner error at a position <= |s|, or tokens that tile [0,|s|) (contiguous, non-empty, all spans defined); never runs out of fuel'),
        thm('EmmetProps.C18_css', 'for every string and both modes: the stylesheet tokenizer model returns a scanner error at a position <= |s| or tokens each ending where the next begins, the last at |s|, with every start defined'),
    ],
    'domains': ['dom_tok', 'dom_cssabbr'],
    'rule': 'all strings up to length 3 (quick) / 4 (thorough) over the 26-symbol markup alphabet and the 24-symbol stylesheet alphabet, plus random strings and mutated valid abbreviations (incl. non-ASCII probes); non-trivial = tokenizes successfully into >= 2 tokens; distinct = distinct input string per domain',
    'explanation': 'Theorems are about the hand-written Lean model of both tokenizers; the model is tied to /repo by comparing token kinds, payloads, spans and error positions with the real tokenizers on every generated input, and the tiling predicate is re-evaluated directly on the implementation output.',
    'level_text': 'Machine-checked Lean 4 theorems: both tokenizer models tile every input string (or fail with an in-range scanner error) — all strings, no bound; model tied to /repo by differential testing of tokens, spans and error positions.',
    'level_note': 'Trusted: Lean kernel + standard axioms; the hand-written tokenizer models (validated by correspondence on every run, exhaustive for short strings); non-ASCII digits/spaces are outside the model (counted as unmodelled, oracle still applied).',
    'assumptions': ['strings are sequences of code points without lone surrogates', 'the model agrees with the code outside the generated inputs (control flow is modelled by hand, tied by differential testing)'],
}

NOT_APPLICABLE = {}
