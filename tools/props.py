"""Registry: per property, the Lean targets and theorems (obligations), the domains whose correspondence ties the model to
/repo, and the texts that go into the evidence."""

TRUSTED_BASE = [
    'Lean 4.33 kernel; accepted axioms propext, Classical.choice, Quot.sound (audited per theorem with #print axioms on every run)',
    'no sorry/admit/own axioms/native_decide/bv_decide/implemented_by/unsafe (comment-stripped grep on every run)',
    'tools/translate.py (tables regenerated from /repo by evaluation) and the hand-written model of the control flow under lean/Emmet/',
    'tools/*.py correspondence harness: canonical printing of implementation outcomes, generators; compiled model driver (lean/Main.lean)',
]

PROPS = {}


def thm(name, clause, partial=False):
    return {'name': name, 'clause': clause, 'partial': partial}


PROPS['C18'] = {
    'lean_targets': ['EmmetProps.C18'],
    'lean_imports': ['EmmetProps.C18'],
    'theorems': [
        thm('EmmetProps.C18_markup', 'for every string: the markup tokenizer model returns a scanner error at a position <= |s|, or tokens that tile [0,|s|) (contiguous, non-empty, all spans defined); never runs out of fuel'),
        thm('EmmetProps.C18_css', 'for every string and both modes: the stylesheet tokenizer model returns a scanner error at a position <= |s| or tokens each ending where the next begins, the last at |s|, with every start defined'),
    ],
    'domains': ['dom_tok', 'dom_cssabbr'],
    'rule': 'all strings up to length 3 (quick) / 4 (thorough) over the 26-symbol markup alphabet and the 24-symbol stylesheet alphabet, plus random strings and mutated valid abbreviations (incl. non-ASCII probes); non-trivial = tokenizes successfully into >= 2 tokens; distinct = distinct input string per domain',
    'explanation': 'Theorems are about the hand-written Lean model of both tokenizers; the model is tied to /repo by comparing token kinds, payloads, spans and error positions with the real tokenizers on every generated input, and the tiling predicate is re-evaluated directly on the implementation output.',
    'level_text': 'Machine-checked Lean 4 theorems: both tokenizer models tile every input string (or fail with an in-range scanner error) — all strings, no bound; model tied to /repo by differential testing of tokens, spans and error positions.',
    'level_note': 'Trusted: Lean kernel + standard axioms; the hand-written tokenizer models (validated by correspondence on every run, exhaustive for short strings); non-ASCII digits/spaces are outside the model (counted as unmodelled, oracle still applied).',
    'assumptions': ['strings are sequences of code points without lone surrogates', 'the model agrees with the code outside the generated inputs (control flow is modelled by hand, tied by differential testing)'],
}

CORR = 'the model agrees with the code outside the generated inputs (control flow is modelled by hand and tied by differential testing on every run)'

PROPS['C09'] = {
    'lean_targets': ['EmmetProps.C09', 'EmmetProps.C16'],
    'lean_imports': ['EmmetProps.C09', 'EmmetProps.C16'],
    'theorems': [
        thm('EmmetProps.C09_match', 'layer B, every element tree with arbitrary offsets, every position: match over the event stream = first element in post-order whose range strictly contains the position (the innermost one), with its recorded open/close ranges'),
        thm('EmmetProps.C09_outward', 'layer B: balanced_outward = all strictly containing elements, innermost to outermost'),
        thm('EmmetProps.C09_inward', 'layer B: balanced_inward = first element in post-order containing the position followed by its chain of first children'),
        thm('EmmetProps.C16_html_scan', 'layer A, every string: every tag reported by scan is an in-range slice starting with < and ending with >, tags increasing and non-overlapping'),
    ],
    'domains': ['dom_html'],
    'rule': 'documents rendered from random element trees (paired, void, self-closed; quoted / unquoted / expression attributes containing >; comments, CDATA, PIs, script/style with markup-like bodies; XML mode) with the generator recording where every tag and attribute lies; every position of every document; non-trivial = document with at least one tag event; distinct = distinct source text',
    'explanation': 'Layer B theorems cover the three stack machines for every element tree; the lexical layer (rendered text -> event stream) and attribute ranges are tied by correspondence and by the ground-truth oracle on generated documents; C16_html_scan gives well-formedness of the event stream for all strings.',
    'level_text': 'Lean 4 theorems: match / balanced_outward / balanced_inward over the event stream of ANY element tree equal the declarative innermost / enclosing / first-child-chain specifications (all trees, all positions); scan events well-formed for ALL strings. The lexical layer for generated documents (that scan(render d) = events d, attribute ranges) is checked by correspondence + ground truth, not proved.',
    'level_note': 'Trusted: Lean kernel + standard axioms; hand-written models of scan.py and __init__.py (0 differences with the code on every generated input incl. all strings of length <= 3/4 over the markup alphabet x every position x html/xml); attributes() is not modelled, only checked against ground truth.',
    'assumptions': [CORR, 'the lexical correctness of scan on rendered documents is sampled (generator ground truth), not proved'],
}

PROPS['C10'] = {
    'lean_targets': ['EmmetProps.C10'],
    'lean_imports': ['EmmetProps.C10'],
    'theorems': [
        thm('EmmetProps.C10_match', 'layer B, every stylesheet tree with arbitrary offsets, every position: match = first item in post-order whose span strictly contains the position; rule = [selector, }+1) with the body between the braces, declaration = [name, delimiter+1) with the value as body'),
        thm('EmmetProps.C10_outward', 'layer B, every stylesheet laid out in document order, every position in the file: balanced_outward = value, declaration and every enclosing rule (content then full range), innermost first — including positions after the first top-level rule'),
        thm('EmmetProps.C10_inward', 'layer B, every stylesheet tree whose items start at pairwise different offsets, every position: balanced_inward = ranges of the innermost item containing the position (bounds included), then of its chain of first children'),
    ],
    'domains': ['dom_css'],
    'rule': 'stylesheets rendered from random trees of nested rules and ;-terminated declarations (pseudo-selectors, at-rules with parenthesised conditions, attribute selectors and values with braces/semicolons in strings and parentheses, comments, SCSS variables, custom properties, several top-level rules) with recorded ground truth; every position; non-trivial = sheet with a selector or value event; distinct = distinct source',
    'explanation': 'Layer B theorems (match, balanced_outward, balanced_inward) are about the stack machines over event streams; scan (layer A: text -> events) is tied by correspondence and the ground-truth oracle (its range and order properties are C16 theorems).',
    'level_text': 'Lean 4 theorems: CSS match, balanced_outward and balanced_inward over the event stream of ANY stylesheet tree equal the declarative specifications, for every position in the file (all trees, all offsets). That the scanner turns a document into the event stream of its tree is covered by correspondence + generator ground truth, not proved.',
    'level_note': 'Trusted: Lean kernel + standard axioms; hand-written models of css_matcher/scan.py, __init__.py, parse.py (0 differences on every generated input incl. all strings of length <= 3/4 over the stylesheet alphabet x every position).',
    'assumptions': [CORR, 'C10_outward assumes the tree is laid out in document order (Sheet.Seq), which rendered sheets satisfy'],
}

PROPS['C16'] = {
    'lean_targets': ['EmmetProps.C16', 'EmmetProps.C09', 'EmmetProps.C10'],
    'lean_imports': ['EmmetProps.C16', 'EmmetProps.C09', 'EmmetProps.C10'],
    'theorems': [
        thm('EmmetProps.C16_html_match_is_first_outward', 'HTML: match() equals the first entry of balanced_outward(), for EVERY source, position and mode (any event list)'),
        thm('EmmetProps.C16_html_outward_nested', 'HTML: successive balanced_outward() entries strictly contain each other (innermost first), for EVERY source, position and mode'),
        thm('EmmetProps.C16_html_inward_nested', 'HTML: successive balanced_inward() entries lie strictly inside each other, for EVERY source, position and mode'),
        thm('EmmetProps.C16_html_inward_at_position', 'HTML: the first entry of balanced_inward() contains the position, for EVERY source, position and mode'),
        thm('EmmetProps.C16_html_outward_contains', 'HTML: every entry of balanced_outward() strictly contains the position, for EVERY source, position and mode'),
        thm('EmmetProps.C16_html_scan', 'every string, any special-tag table: the HTML scanner model is total and every reported tag is an in-range slice starting with < and ending with >, in increasing non-overlapping order'),
        thm('EmmetProps.C16_css_scan', 'every source (unbalanced braces, unterminated strings and comments included): the CSS scanner model is total and every reported token has 0 <= start <= end <= len(source), its delimiter is -1 or an index into the source'),
        thm('EmmetProps.C16_split_value', 'every value: split_value reports only non-empty ranges 0 <= start < end <= len(value)'),
        thm('EmmetProps.C16_html_attributes', 'every string: the attributes reported by the HTML attribute parser are ordered, non-overlapping, non-empty in-range slices (name = its range, value right after `=` = its range)'),
        thm('EmmetProps.C16_css_sorted', 'every source: CSS scanner tokens are reported in document order (a later token never starts before an earlier one nor before the position after the brace of an earlier selector)'),
        thm('EmmetProps.C16_css_match', 'every source, every position (also out of range): a CSS match() result has 0 <= start <= end <= len and 0 <= body_start <= body_end <= len'),
        thm('EmmetProps.C16_css_outward', 'every source, every position: every range listed by the CSS balanced_outward() has 0 <= start <= end <= len'),
        thm('EmmetProps.C16_css_inward', 'every source, every position: every range listed by the CSS balanced_inward() has 0 <= start <= end <= len'),
        thm('EmmetProps.C09_match', 'match = innermost enclosing element (used with C09_outward for: match() equals the first entry of balanced_outward())'),
        thm('EmmetProps.C09_outward', 'balanced_outward = all strictly containing elements innermost first (successive entries contain each other and the position)'),
        thm('EmmetProps.C09_inward', 'balanced_inward = element at the position + first-child chain (successive entries lie inside each other)'),
    ],
    'domains': ['dom_html', 'dom_css'],
    'rule': 'all strings up to length 3 (quick) / 4 (thorough) over the markup alphabet `< > / = " \' a b - ! [ ] ? space` and the stylesheet alphabet `{ } : ; ( ) " \' \\ / * a - space newline`, random fragment mixes, mutated generated documents; all positions -1..len+1; html and xml mode; non-trivial = source producing at least one scanner event; distinct = distinct source',
    'explanation': 'Range well-formedness is proved for all strings (and all positions) for the HTML scanner, the HTML attribute parser, the CSS scanner, split_value and the CSS match / balanced_outward / balanced_inward models; the no-exception clause is decided by correspondence with the (total) models plus the oracle on the implementation.',
    'level_text': 'Lean 4 theorems over ALL strings for the HTML scanner (total, in-range, <...> shaped, ordered events), the CSS scanner (total, 0 <= start <= end <= len, delimiter in range) and split_value (non-empty in-range tokens), the CSS match / balanced_outward / balanced_inward models (every reported range, the rule body included, for every position), the HTML attribute parser (ordered in-range slices), plus layer-B nesting theorems for the HTML balance functions; exception-freedom of the Python code is at correspondence level: model = code on every explored input and the range oracle holds on the implementation.',
    'level_note': 'Trusted: Lean kernel + standard axioms; hand-written scanner / matcher models. attributes() is modelled (0 differences with the code on every explored string) and proved; `without raising` is a statement about the Python code and stays at correspondence + oracle level.',
    'assumptions': [CORR],
}

PROPS['C11'] = {
    'lean_targets': ['EmmetProps.C11'],
    'lean_imports': ['EmmetProps.C11'],
    'theorems': [
        thm('EmmetProps.C11_consistent', 'every line, every position (also out of range), every option set: a result satisfies start <= location <= end <= len(line), abbreviation = line[location:end], and does not begin with > + ^ *; independent of the is_html heuristic'),
        thm('EmmetProps.C11_end', 'all inputs: end = the position clamped to the line and moved by look-ahead across at most one quote and then closing brackets'),
        thm('EmmetProps.C11_roundtrip', 'round trip for bracket-free abbreviations: a run of abbreviation characters not beginning with an operator, at the start of the line or after a blank, with no `<` to its left, is returned exactly (abbreviation, location, start, end) for the caret at its end, both syntax types, look-ahead on or off', partial=True),
        thm('EmmetProps.C11_prefix', 'all inputs with a prefix: the prefix is the text at start and the abbreviation lies to its right'),
    ],
    'domains': ['dom_extract'],
    'rule': 'all lines up to length 2 (quick) / 3 (thorough) over a 27-symbol alphabet, random fragment mixes (tags, attributes, abbreviations), and generated valid abbreviations (markup and stylesheet) embedded after 12 left contexts (start of line, whitespace, complete tags) and before 6 right contexts; every position -1..len+1 x 6 option sets (type, lookAhead, two prefixes); non-trivial = some position yields a result; distinct = distinct line',
    'explanation': 'The consistency, end and prefix clauses are theorems for all inputs. The round trip (a valid abbreviation after whitespace / line start / a complete tag is extracted exactly) are decided by correspondence with the model plus the oracle on the implementation; the round trip has no theorem yet.',
    'level_text': 'Lean 4 theorems: result consistency, look-ahead end and prefix placement for ALL lines, positions and options. The round-trip clause is at correspondence + oracle level on generated abbreviations in context.',
    'level_note': 'Trusted: Lean kernel + standard axioms; hand-written model of extract_abbreviation/__init__.py, is_html.py, reader.py (0 differences with the code on all explored lines x positions x option sets). Known finding F21b (backslash-escaped brackets inside text are counted as raw brackets) is excluded from the round trip.',
    'assumptions': [CORR],
}

PROPS['C19'] = {
    'lean_targets': ['EmmetProps.C19'],
    'lean_imports': ['EmmetProps.C19'],
    'theorems': [
        thm('EmmetProps.C19_value', 'every printed expression tree (arbitrary blanks, literals 12 / 1.5 / .5, unary signs, parentheses, five operators) whose grouping is the documented one: evaluate(render e) = value of e in exact arithmetic; ZeroDivisionError is the only error; parity and stack underflow never fire'),
        thm('EmmetProps.C19_total', 'EVERY string: evaluate ends with a value, the parse error or ZeroDivisionError; no other exception (no IndexError from the operand stack), fuel suffices'),
        thm('EmmetProps.C19_extract', 'EVERY text, every position inside it, every option set: extract() returns nothing or a range start <= end <= len ending at the look-ahead adjusted position, made of digits, dots, operators, parentheses and (if allowed) white space only, with balanced parentheses'),
        thm('EmmetProps.C19_arith_add', 'model rationals = Mathlib Q: add'), thm('EmmetProps.C19_arith_sub', 'sub'), thm('EmmetProps.C19_arith_mul', 'mul'),
        thm('EmmetProps.C19_arith_neg', 'neg'), thm('EmmetProps.C19_arith_floor', 'integer division is the floor of the quotient'),
        thm('M.Q.div_toRat', 'div (non-zero divisor)'),
        thm('M.claim', 'pure shunting-yard claim: flushing after the tokens of e = flushing after the postfix form of e was appended'),
    ],
    'domains': ['dom_math'],
    'rule': 'all strings up to length 4 (quick) / 5 (thorough) over `1 2 . + - * / \\ ( ) space`, random longer strings incl. foreign characters (error clause), and expressions generated from the stratified grammar with exact expected values (Fractions; integer division only between integers so that the double floor is exact); extract() at every position of every text; non-trivial = parses into >= 2 tokens; distinct = distinct text',
    'explanation': 'The exact clause is a theorem end to end (lexing, ordering, evaluation) over exact rationals, tied to Mathlib Q. The implementation computes in IEEE doubles: values are compared within 1e-9 relative. The rejection side is a theorem too: for EVERY string the evaluator model ends with a value, the parse error or ZeroDivisionError (the proof attempt exposed the IndexError repaired as F35). extract() is modelled (0 differences with the code on every explored text x position x 4 option sets) and its clause is a theorem for all texts, positions inside the text and options. Integer division between decimal fractions follows IEEE doubles (known finding F32).',
    'level_text': 'Lean 4 theorem: for every well-formed printed expression with the documented grouping the evaluator model returns the exact arithmetic value (proved end to end: lexer, shunting-yard ordering, RPN evaluation; model rationals proved equal to Mathlib Q). Second theorem: for EVERY string the evaluator model raises nothing but the parse error and ZeroDivisionError. Third theorem: the extract() clause for all texts, positions and options. Floating point is partial: correspondence + oracle.',
    'level_note': 'Trusted: Lean kernel + standard axioms; hand-written model of parser.py, evaluate and extract.py (0 differences in RPN token lists, priorities, error classes and positions on every generated input); IEEE rounding is not modelled (values within 1e-9; a floor whose double quotient falls on the other side of an integer is known finding F32).',
    'assumptions': [CORR, 'double arithmetic agrees with exact arithmetic within 1e-9 relative on the generated expressions', 'numbers have at most 15 digits'],
    'trusted_extra': ['Mathlib (Data.Rat.Floor, Algebra.Order.Field.Rat, FieldSimp, Ring) for the Q-equals-rationals lemmas only'],
}

PROPS['C05'] = {
    'lean_targets': ['EmmetProps.C05', 'EmmetProps.C18'],
    'lean_imports': ['EmmetProps.C05', 'EmmetProps.C18'],
    'theorems': [thm('EmmetProps.C05_units', 'unit decision for EVERY option set, property and value list: explicit unit replaced when an alias and kept otherwise; bare 0 and values of unitless properties stay bare; otherwise float unit when written with a dot, integer unit when not; nothing else touched'),
        thm('EmmetProps.C05_default_units', 'documented defaults read off the REGENERATED option table through the configuration model: px / em, aliases e p x r, the eight unitless properties'),
        
        thm('EmmetProps.C05_hex6_roundtrip', 'all 2^24 colours: the six-digit form written by the colour printer reads back as the same (r,g,b) — a colour never changes its value'),
        thm('EmmetProps.C05_hex3_roundtrip', 'all colours whose channels are multiples of 17: the short form reads back as the same (r,g,b)'),
        thm('EmmetProps.C18_css', 'the value language is tokenized losslessly (tiling), property and value mode'),
    ],
    'domains': ['dom_style'],
    'rule': 'value sequences generated from an AST (ints, floats .5 / 1. / 1.25, negatives, every unit alias and explicit units, 1/2/3/6-digit colours with and without .N alpha, !, +-joined parts) on unit-taking, unitless and colour properties, under css/scss/sass/less/stylus and random intUnit/floatUnit/shortHex/unitAliases; expected line computed from the statement; non-trivial = successful expansion; distinct = distinct (abbreviation, config)',
    'explanation': 'The colour round trip is a theorem over all colours; number/unit/dash/important rendering is decided by correspondence (model = code on every generated input, end to end through the Config model) and by the statement-derived oracle on the implementation.',
    'level_text': 'Lean 4 theorems: colour output round-trips for ALL colours (6-digit and short form); tokenizer tiling. Number, unit, dash and !important rendering: correspondence of the full stylesheet model with expand() + oracle computed from the statement (no theorem yet for those clauses).',
    'level_note': 'Trusted: Lean kernel + standard axioms; hand-written model of css_abbreviation and stylesheet/{__init__,color,format,snippets,score}.py; decimals with more than 4 fraction digits are outside the model (unmodelled).',
    'assumptions': [CORR, 'numbers with at most 4 fraction digits and 15 significant digits'],
}

PROPS['C06'] = {
    'lean_targets': ['EmmetProps.C06'],
    'lean_imports': ['EmmetProps.C06'],
    'theorems': [
        thm('EmmetProps.C06_names_distinct', 'whole REGENERATED stylesheet snippet file as written (`k1|k2: body`): no key is claimed by two entries'),
        thm('EmmetProps.C06_names_from_source', 'the keys of the table the matcher model runs on are exactly the written keys, in order'),
        thm('EmmetProps.C06_keys', 'for EVERY key of the generated built-in table (regenerated from emmet/snippets/css.py on every run): the fuzzy matcher run on exactly that key selects that entry and no other (decide +kernel over the whole table)'),
    ],
    'domains': ['dom_style'],
    'selfcheck': ['C06.keyOrderAgrees'],
    'rule': 'exhaustive: every key of the live built-in table x stylesheet syntaxes x scopes (none, @@global, @@section, @@property); every dash-free keyword of every property snippet in lower/upper/capitalised form; random user tables with overriding and new keys; non-trivial = successful expansion; distinct = distinct (abbreviation, config)',
    'explanation': 'Reachability of every key is a kernel-evaluated theorem over the regenerated table; that the table order used by the theorem is the order convert_snippets produces is evaluated by the driver on every run (selfcheck); output shape, keywords, user overrides and scopes are decided by correspondence + oracle.',
    'level_text': 'Lean 4 theorem by kernel evaluation over the whole regenerated snippet table: each key selects its own entry. Output shape (property: first value | tabstop; raw body), keyword resolution, user overrides and scope filtering: exhaustive correspondence over the table + statement-derived oracle.',
    'level_note': 'Trusted: Lean kernel + standard axioms; translator (table by evaluation); model of score.py / snippets.py; the order link is a run-time evaluation, not a theorem. Excluded: key `lg` as a user override (hard-wired gradient shortcut), value scope.',
    'assumptions': [CORR],
}

PROPS['C07'] = {
    'lean_targets': ['EmmetProps.C07'],
    'lean_imports': ['EmmetProps.C07'],
    'theorems': [
        thm('EmmetProps.C07_markup_tokenize_parse', 'every string, both JSX modes: the markup tokenizer + parser model returns a forest, a scanner error with position <= |s| or a token error; never an internal error, never out of fuel', partial=True),
        thm('EmmetProps.C07_css_tokenize', 'every string, both modes: the stylesheet tokenizer model returns tokens or a scanner error with position <= |s|', partial=True),
    ],
    'domains': ['dom_expand', 'dom_style'],
    'rule': 'all strings up to length 2 (quick) / 3 (thorough) over the 26-symbol abbreviation alphabet x 4 configurations, random and mutated abbreviations under random configurations (all markup syntaxes incl. unknown, random output options, wrap text incl. empty / blank, context, user snippets / variables, maxRepeat) and stylesheet abbreviations under random stylesheet configurations; non-trivial = successful expansion longer than a few characters; distinct = distinct (abbreviation, config)',
    'explanation': 'Stage theorems exist for the tokenizers and the markup parser (all strings). The later stages (convert, snippets, transforms, formatters, stylesheet resolver) are covered by correspondence: the model reports the same outcome class and error position as the code on every explored input, and the oracle flags any escaping internal error directly.',
    'level_text': 'Lean 4 theorems for the first stages of both pipelines over ALL strings (no internal error, in-range positions, fuel suffices) — partial: the remaining stages are decided by correspondence (outcome class + position equal to the model on every explored input) and the direct oracle on expand().',
    'level_note': 'Trusted: Lean kernel + standard axioms; hand-written pipeline models. Not modelled: lorem text (random), BEM, comments, JSON mode, value scope — those are exercised by the oracle on the implementation only. Termination of the random lorem generator and CPython recursion limits are outside the technique.',
    'assumptions': [CORR],
}

PROPS['C01'] = {
    'lean_targets': ['EmmetProps.C01'],
    'lean_imports': ['EmmetProps.C01'],
    'theorems': [
        thm('EmmetProps.C01_parse', 'for EVERY operator skeleton (elements, groups, *N, > + ^... at any depth): the parser model on its tokens returns exactly the forest the operators denote (compositional `levels` semantics; ^ stops at the top level and at a group boundary; a group is one unit)'),
        thm('EmmetProps.C01_unroll', 'for EVERY skeleton forest: the converter model yields every written element exactly once per repetition, in document order, groups spliced'),
        thm('EmmetProps.C01_implicit_table', 'the REGENERATED ELEMENT_MAP looked up with ANY parent name is the documented table (li in ul/ol, tr in table/tbody/thead/tfoot, td in tr, option in select/optgroup, span in p; col, source, param, area), and nothing else'),
        thm('EmmetProps.C01_implicit_name', 'for EVERY option set, parent / context name and node written with attributes but no name: implicit_tag gives it the documented name for the lower-cased context (documented table, span inside the configured inline-level elements, div otherwise)'),
        thm('EmmetProps.C01_named_kept', 'an element written with a name keeps its own name'),
        thm('EmmetProps.C01_inline_default', 'the default inline-level elements of the REGENERATED DEFAULT_OPTIONS are the 39 documented ones'),
    ],
    'domains': ['dom_markup'],
    'rule': 'EVERY operator skeleton with up to 4 items over > + ^ ^^ ( ) *2 (exhaustive; 15 822 skeletons) x 1 (quick) / 4 (thorough) configurations, plus random abbreviations from the typed AST generator (elements with implicit names, classes, ids, attributes, text, *N, groups to depth 3, climbs up to ^^^) under html/xml/xhtml self-closing styles, format on/off and parent contexts; expected tag sequence computed from the statement (levels semantics + unrolling + implicit-name table) and compared with the tags read from the output; non-trivial = at least two operators; distinct = distinct (abbreviation, config)',
    'explanation': 'Parser and converter stages are theorems over all skeletons; the implicit-name table, snippet resolution and the formatter stage that prints the tree are decided by correspondence (full pipeline model = expand() on every generated input) and by the statement-derived oracle.',
    'level_text': 'Lean 4 theorems over ALL operator skeletons: parser = denotation, converter = unrolling; implicit names: the regenerated ELEMENT_MAP and implicit_tag model give the documented name for every parent. The printed output carrying that tree (formatter) is at correspondence + oracle level, exhaustive for small skeletons.',
    'level_note': 'Trusted: Lean kernel + standard axioms; hand-written models of tokenizer, parser, convert, snippets, implicit_tag, html formatter (0 differences with expand() on all explored inputs). The lexical step print(skeleton) -> tokens is covered by correspondence, not proved.',
    'assumptions': [CORR],
}

PROPS['C02'] = {
    'lean_targets': ['EmmetProps.C02'],
    'lean_imports': ['EmmetProps.C02'],
    'theorems': [thm('EmmetProps.C02_count', 'for EVERY skeleton forest with *N on elements and groups at any depth: exactly N consecutive copies with repeater values 0..N-1 and count N (what $ numbering reads), as long as the repeat guard exceeds the number of copies'),
                 thm('EmmetProps.C02_numbering', 'every $-run (any width, @M, @-, @-M, no ^): replaced by the documented number of the nearest repeater, zero-padded; state unchanged'),
                 thm('EmmetProps.C02_countdown_last', 'counting down, the last copy gets the start value'),
                 thm('EmmetProps.C02_budget', 'maxRepeat, for EVERY skeleton forest and EVERY budget (also 0 or negative): the converter output is the budgeted unrolling — copies completed in document order, one unit per completed copy, a repeater stops after the copy that brings the budget to 0'),
                 thm('EmmetProps.C02_budget_exhausted', 'a repeater whose first copy leaves at most one unit yields exactly one copy'),
                 thm('EmmetProps.C02_budget_enough', 'with enough budget all copies are made and the budget drops by their number')],
    'domains': ['dom_markup'],
    'rule': 'exhaustive numbering forms ($ widths 1-3 x @M / @- / @-M bases x N up to 5 (quick) / 12 (thorough)) on four carriers (name, attribute value, text, repeated group), plus random abbreviations with nested repeaters and numbering in names / classes / attribute values / text under maxRepeat limits 1,2,3,5,9 and none; expected elements computed from the statement (threaded completion budget); non-trivial = at least two operators; distinct = distinct (abbreviation, config)',
    'explanation': 'The count clause is a theorem for guard > cost; the numbering arithmetic and the maxRepeat pruning are decided by correspondence + oracle (theorem for those clauses is future work).',
    'level_text': 'Lean 4 theorem for the count clause over ALL skeleton forests (partial: guard not exhausted, numbering arithmetic not yet a theorem); numbering forms and maxRepeat limits: exhaustive-by-form correspondence + statement-derived oracle.',
    'level_note': 'Trusted: Lean kernel + standard axioms; converter / stringify models tied by correspondence.',
    'assumptions': [CORR],
}

PROPS['C03'] = {
    'lean_targets': ['EmmetProps.C03'],
    'lean_imports': ['EmmetProps.C03'],
    'theorems': [thm('EmmetProps.C03_merge', 'for ANY attribute type and merge function that keeps the name: the merge loop = declarative group-by-name specification (order of first mention; later mentions folded into the first)'),
                 thm('EmmetProps.C03_merge_model', 'the CONCRETE model of merge_attributes (the function run against the code) = that specification, for every attribute list and option set'),
                 thm('EmmetProps.C03_other_attribute', 'any repeated attribute other than class: name (first position) kept, LAST value wins — the FIRST under reverseAttributes —, boolean / implied flags or-ed over all mentions'),
                 thm('EmmetProps.C03_class_attribute', 'class: the values of all mentions merged in the order written'),
                 thm('EmmetProps.C03_attribute_rendering', 'rendering of one attribute for EVERY option set without name map / value prefix: name in the configured case, value verbatim between the configured quotes (braces for expressions), boolean attribute without value = its own name or bare in compact form, any other empty value = a tabstop'),
        thm('EmmetProps.C03_implied_dropped', 'an attribute is dropped exactly when it is implied (`!name`), not an expression and has no value'),
        thm('EmmetProps.C03_class_words', 'class values that are plain words are joined by single spaces', partial=True)],
    'domains': ['dom_markup'],
    'rule': 'random elements with up to 8 mentions in any order (#id, .class, [name=value] quoted / unquoted / empty / valueless / boolean / implied / expression, repeated names incl. class and id through attribute sets) under 10 attribute-related configurations (quotes, case, compactBoolean, reverseAttributes, jsx, vue, xml, custom booleanAttributes); expected attribute list computed from the statement; non-trivial = at least two operators; distinct = distinct (abbreviation, config)',
    'explanation': 'The merge rules (order of first mention, class joined, last / first value wins, flags or-ed) are theorems about the concrete model of merge_attributes; parsing of attribute sets, flags, quoting and name mapping are decided by correspondence + oracle.',
    'level_text': 'Lean 4 theorems: the concrete merge_attributes model equals the declarative group-by specification for every attribute list, and its merge function joins class values, lets the last (first under reverseAttributes) value win and ors the flags (partial: attribute-set parsing and the rendering table are checked by correspondence + oracle).',
    'level_note': 'Trusted: Lean kernel + standard axioms; models of parser attribute sets, convert_attribute, merge_attributes, push_attribute tied by correspondence.',
    'assumptions': [CORR],
}

PROPS['C04'] = {
    'lean_targets': ['EmmetProps.C04'],
    'lean_imports': ['EmmetProps.C04'],
    'theorems': [thm('EmmetProps.C04_wrap_lines', 'wrap clause on the converter model: `name*` with ANY list of lines (no repeat limit, < 10^6 non-blank lines) yields exactly one copy per non-blank line, in order, each holding that trimmed line as one verbatim string token; blank lines make no copy', partial=True),
                 thm('EmmetProps.C04_wrap_statement', 'the same for convert_statement inside any converter state: copies for the non-blank lines, text marked inserted, one guard unit per copy', partial=True),
                 thm('EmmetProps.C04_text_tokens', 'for ANY run of inert tokens (literals, white space, operators, brackets, quotes): stringify_value returns the single string made of their characters and leaves the converter state unchanged', partial=True),
                 thm('EmmetProps.C04_text_lexing', 'for ANY payload of the text grammar (ordinary characters incl. operators / brackets / quotes / *, \\c escapes, balanced inner braces; no unescaped $) not starting with white space: the tokenizer consumes exactly the payload up to the closing brace as ONE literal whose value is the payload with escapes resolved', partial=True)],
    'domains': ['dom_markup'],
    'rule': 'all well-formed text payloads up to length 2 (quick) / 3 (thorough) over the punctuation alphabet (operators, brackets, quotes, *, escapes) at 2 positions, random longer payloads with nested braces / escapes / unicode at 5 positions, and wrap-text cases: 8 abbreviation templates (with / without implicit repeater, $# in attributes and text) x random line lists drawn from abbreviation look-alikes, blanks, white-space-only lines; expected output computed from the statement; non-trivial = at least two operators; distinct = distinct (abbreviation, config)',
    'explanation': 'Wrap clause for the leaf `name*` (one copy per non-blank line holding the trimmed line) is a theorem on the converter model; lexing (any payload of the text grammar becomes one literal with the escapes resolved and the inner braces kept) and token-level verbatim stringification; placement before children, numbering / tabstops inside text and the wrap-text rules are decided by correspondence + oracle.',
    'level_text': 'Lean 4 theorems: lexing of any text payload (grammar: ordinary characters, escapes, balanced inner braces) into one literal token, and token-level verbatim stringification (text tokens are data; operators inert); placement and wrap-text rules: exhaustive-for-short-payload correspondence + statement-derived oracle (partial).',
    'level_note': 'Trusted: Lean kernel + standard axioms; tokenizer / convert models tied by correspondence.',
    'assumptions': [CORR],
}

PROPS['C12'] = {
    'lean_targets': ['EmmetProps.C12'],
    'lean_imports': ['EmmetProps.C12'],
    'theorems': [
        thm('EmmetProps.C12_weave_sq', 'for EVERY forest, option set and layout (indent, baseIndent, newline, format, formatLeafNode, formatSkip, formatForce, inlineBreak): the two outputs are equal once white space is removed — same tags, attributes, text, tabstop numbers, same order'),
        thm('EmmetProps.C12_level_restored', 'element() returns the stream at the indentation level it was given: children are entered at one level, closing tag at the level of the opening tag', partial=True),
    ],
    'domains': ['dom_markup'],
    'rule': 'random abbreviations from the typed AST generator (block / inline / void names, implicit names, attributes, single- and multi-line text, repeaters, groups) x two independent random assignments of all output.* formatting options, for html / xml / xsl / jsx / vue / svelte; per case also: comments enabled, the three self-closing styles; indentation measured per line against the number of open elements; non-trivial = at least two operators; distinct = distinct (abbreviation, config)',
    'explanation': 'The weave theorem covers every forest / option pair for the white-space-insensitive observation; the level-restoration lemma is the induction step of indentation = depth, whose full line-level statement (and the comment / self-closing clauses; the comment add-on is not modelled) is decided by the oracle on the implementation.',
    'level_text': 'Lean 4 theorem: formatting options change nothing but white space, for ALL forests and option sets (observation: output with white space removed). Indentation = depth: level-restoration lemma proved, line-level statement at oracle level (partial). Comments and self-closing style clauses: oracle on the implementation.',
    'level_note': 'Trusted: Lean kernel + standard axioms; hand-written model of output_stream.py and format/html.py (0 differences with expand() on all explored inputs). Known finding F25 (blank line / mis-indented inline child after multi-line text in an element that has children) is excluded from the indentation clause.',
    'assumptions': [CORR],
}

PROPS['C13'] = {
    'lean_targets': ['EmmetProps.C13'],
    'lean_imports': ['EmmetProps.C13'],
    'theorems': [thm('EmmetProps.C13_offsets', 'for EVERY stream program and ARBITRARY field / text callbacks (text keeping the length of the newline string): offset = |value|, every returned piece sits at the offset it was given, line = number of newline pushes, column = distance to the end of the last newline string', partial=True)],
    'domains': ['dom_markup', 'dom_stream'],
    'rule': 'stream programs: random sequences of up to 14 OutputStream operations (push, push_string with every kind of line break, push_newline(None / True / k), push_indent, push_field, level changes) under 5 newline strings x 5 base indents x 5 indent strings x 4 text callbacks (identity, & -> &amp;, upper case, bracket wrap) x 3 field callbacks, run on the real class and on the model the theorem is about; and random abbreviations with empty attribute values, leaves, explicit ${n} / ${n:placeholder} fields in attribute values and leaf text, multi-line text, in html / xml / jsx / vue / xsl / svelte / haml / pug / slim with random newline (\\n, \\r\\n, \\r), indent and baseIndent; recording callbacks: EVERY invocation of output.field and output.text is re-located in the final string; tabstop indices compared with the running-base rule of the statement; non-trivial = at least two operators; distinct = distinct (abbreviation, config)',
    'explanation': 'Position exactness is a theorem about the model of class OutputStream for arbitrary programs over its operations and arbitrary callbacks; that model is run against the real class on random operation programs (value, final counters and every callback invocation compared); the formatters reach the stream only through these operations. Numbering is decided by correspondence + oracle.',
    'level_text': 'Lean 4 theorem on the OutputStream model: for every program over the stream operations and arbitrary callbacks, offsets / lines / columns handed to callbacks are exact (the stream model is tied to output_stream.py by its own correspondence on operation programs; that the formatters are such programs is by inspection of their code: they use the stream only through its methods). Tabstop numbering: correspondence + statement-derived oracle; positions additionally re-checked on every callback of every run.',
    'level_note': 'Trusted: Lean kernel + standard axioms; models tied by correspondence. Domain of the numbering clause: distinct attribute names per element, explicit fields in text only on leaves.',
    'assumptions': [CORR],
}

PROPS['C14'] = {
    'lean_targets': ['EmmetProps.C14'],
    'lean_imports': ['EmmetProps.C14'],
    'theorems': [thm('EmmetProps.C14_terminates', 'for EVERY snippet table (self-referencing and mutually recursive included), every forest: resolution with nesting counter |table|+1 never runs out — nesting is at most the number of snippets', partial=True),
                 thm('EmmetProps.C14_names_distinct', 'whole REGENERATED html / xsl / pug snippet files as written (`a|b: definition`): no alias name is claimed by two entries, so every written name selects its own entry (kernel evaluation over the tables)'),
        thm('EmmetProps.C14_names_from_source', 'the names of the flattened html table the resolver model uses are exactly the written names, in order'),
        thm('EmmetProps.C14_terminates_model', 'the same on the model of markup/snippets.py (nesting counter |table|+1, structural recursion over the tree): for every option set / merged table and every forest, resolution never exhausts the counter (hypothesis: the abbreviation parser itself does not run out of fuel)')],
    'domains': ['dom_markup'],
    'rule': 'exhaustive: every entry of the live html, xsl and pug snippet tables x both attribute orders: expand(alias) must equal expand(definition); entries whose definition is a single element additionally with added class / id / attribute set / text / *2, chain definitions with added children (alone and inside a larger abbreviation); plus random user tables over 7 names with self-references and cycles; non-trivial = at least two operators; distinct = distinct (abbreviation, config)',
    'explanation': 'Termination is a theorem on an abstract resolver (nesting counter + structural tree recursion); alias = definition and the merge rules are decided exhaustively over the live tables by the oracle on the implementation plus correspondence with the model.',
    'level_text': 'Lean 4 theorems: snippet resolution terminates for every table with nesting bounded by the table size — on an abstract resolver and on the model of markup/snippets.py itself (partial only in that the parser fuel for convert is a hypothesis). Alias = definition and the merge rules: exhaustive over the built-in tables + multi-root user tables on the implementation.',
    'level_note': 'Trusted: Lean kernel + standard axioms; models of snippets.py / attributes.py tied by correspondence.',
    'assumptions': [CORR],
}

PROPS['C15'] = {
    'lean_targets': ['EmmetProps.C15'],
    'lean_imports': ['EmmetProps.C15'],
    'theorems': [thm('EmmetProps.C15_level_restored', 'the indent formatter element() returns the stream at the level it was given, for every node, punctuation set, option set and stream state: a child is written one level deeper than its parent', partial=True)],
    'domains': ['dom_markup'],
    'rule': 'random abbreviations (elements with ids, classes, valued attributes, single- and multi-line text, repeaters, groups, implicit names) for haml / pug / slim with random indent strings; expected line list (depth, header, attribute list, text lines) computed from the statement and the denoted tree; non-trivial = at least two operators; distinct = distinct (abbreviation, config)',
    'explanation': 'Level restoration is the induction step of "indentation = depth"; the full line list is decided by correspondence + the statement-derived oracle.',
    'level_text': 'Lean 4 lemma (level restoration, all nodes / options / syntaxes) + correspondence of the indent formatter model with expand() + statement-derived line oracle (partial: the line-list theorem is future work).',
    'level_note': 'Trusted: Lean kernel + standard axioms; model of indent_format.py tied by correspondence. Domain: text on elements (text-only child nodes excluded), valued attributes.',
    'assumptions': [CORR],
}

PROPS['C20'] = {
    'lean_targets': ['EmmetProps.C20'],
    'lean_imports': ['EmmetProps.C20'],
    'theorems': [
        thm('EmmetProps.C20_lookup', 'arbitrary dictionaries and layer lists: lookup after merging = value in the most specific present layer that mentions the key; other layers leave it untouched'),
        thm('EmmetProps.C20_options', 'every option key, every user / global config: effective value = most specific of the six documented layers (tables regenerated from config.py)'),
        thm('EmmetProps.C20_snippets', 'same for snippets'), thm('EmmetProps.C20_variables', 'same for variables'),
        thm('EmmetProps.C20_defaults', 'Config defaults over the REGENERATED tables: no type = markup, no syntax = the default syntax of the type (html / css), unknown type = html'),
        thm('EmmetProps.C20_silent_layer', 'a layer that is absent or does not mention a key leaves the key untouched, for any layers around it'),
        thm('EmmetProps.C20_unknown_syntax', 'a syntax / type name that is not in SYNTAX_CONFIG contributes an empty built-in layer'),
    ],
    'domains': ['dom_config'],
    'rule': 'exhaustive: every known syntax of both types plus unknown names, a syntax named like a type, and absent type / syntax x all 2^3 subsets of the caller-controlled layers (global type, global syntax, user) x option / snippet / variable probe keys chosen so that the built-in type and syntax layers define some of them and not others; observed on the resolved Config, through expand (planted snippets), with deep snapshots of the built-in tables and of the caller\'s dictionaries before / after; non-trivial = at least one caller layer present; distinct = distinct (config, global config)',
    'explanation': 'The order theorem is proved for the model of merged_data over the regenerated tables; Config.__init__ (type / syntax defaults) and the no-mutation clause are decided by correspondence + oracle.',
    'level_text': 'Lean 4 theorems: dictionary layering = "most specific layer wins" for arbitrary layers, instantiated to the six documented layers over the regenerated tables; unknown names contribute nothing. No-mutation of built-in tables / caller dictionaries: measured on the implementation on every run (the alias-free model cannot mutate).',
    'level_note': 'Trusted: Lean kernel + standard axioms; translator (DEFAULT_OPTIONS, SYNTAX_CONFIG by evaluation); model of Config.__init__ / merged_data tied by correspondence on the resolved values. Option values restricted to bool / int / str / list of str / dict of str.',
    'assumptions': [CORR],
}

PROPS['C08'] = {
    'lean_targets': ['EmmetProps.C08'],
    'lean_imports': ['EmmetProps.C08'],
    'theorems': [
        thm('EmmetProps.C08_result_independent', 'for EVERY history of calls (markup / stylesheet, succeeding / failing, any options, any cache dictionaries) and every probe: outcome after the history = outcome in a fresh state, provided calls sharing a cache dictionary agree on the snippet table'),
        thm('EmmetProps.C08_cache_transparent', 'with and without a cache dictionary a call has the same outcome'),
    ],
    'domains': ['dom_history'],
    'rule': 'histories of 2-10 expand calls over 1-3 configurations (markup and stylesheet; failing abbreviations; wrap text; BEM; comments; user snippets with numeric defaults; differing units) passed as dictionaries or as shared Config objects, with or without one shared cache dictionary, followed by a probe; the probe is repeated in a fresh interpreter process and must give the same outcome; the caller\'s dictionaries and every module-level mutable container / mutable default argument under emmet.* are compared before / after; non-trivial = history of at least 2 calls; distinct = distinct history',
    'explanation': 'The world model states what may survive a call (only cache entries) and the theorem shows results cannot depend on it; that the implementation keeps nothing else is what the correspondence (probe after history = model = fresh interpreter) and the residue measurement check. Object lifetime ("keeps no per-call data alive") is a runtime matter the model can only state: partial.',
    'level_text': 'Lean 4 theorem on the world model (state = cache entries only): results are independent of any history; cache transparency. That the real code has no other surviving state is checked by differential runs against a fresh interpreter and by measuring module-level containers (partial for the "keeps no data alive" clause).',
    'level_note': 'Trusted: Lean kernel + standard axioms; the world model is the claim about what survives a call. Known finding F13 (BEM lookup default dictionary grows) is reported, not repaired.',
    'assumptions': [CORR, 'calls that share a cache dictionary use the same effective stylesheet snippet table (the cache is keyed by nothing else)'],
}

PROPS['C17'] = {
    'lean_targets': ['EmmetProps.C17', 'EmmetProps.C16'],
    'lean_imports': ['EmmetProps.C17', 'EmmetProps.C16'],
    'theorems': [
        thm('EmmetProps.C17_open_tag', 'any event list, any position: a get_open_tag result is a scanned tag whose range strictly contains the position', partial=True),
        thm('EmmetProps.C17_select_next', 'select_item_html next = the FIRST open / self-closing tag ending after the position', partial=True),
        thm('EmmetProps.C17_select_prev', 'select_item_html previous = an open / self-closing tag starting before the position', partial=True),
        thm('EmmetProps.C17_class_tokens', 'all values / offsets: class-token ranges are non-empty and inside the value', partial=True),
        thm('EmmetProps.C16_html_scan', 'the tags those helpers choose from are in-range slices `<…>` of the source, in order'),
        thm('EmmetProps.C17_css_section', 'get_css_section for EVERY source and position: the reported rule contains the position, lies inside the source, body between its braces (0 <= start <= pos <= end <= len, 0 <= body_start <= body_end <= end)', partial=True),
        thm('EmmetProps.C17_css_select_next', 'every source, every position: the item select_item_css (next) returns lies inside the source and its full / value / value-token ranges lie inside the item', partial=True),
        thm('EmmetProps.C17_css_select_prev', 'the same for select_item_css (previous)', partial=True),
    ],
    'domains': ['dom_action'],
    'rule': 'generated HTML documents (as for C09, with recorded tags, attribute name / value ranges) and generated stylesheets (as for C10, plus rules whose last declaration is terminated by the end of the body) x every position: get_open_tag (tag + attributes), select_item_html next / previous (tag, name, attribute, unquoted value, class-token ranges), get_css_section with properties (name, value, value tokens, before, after), select_item_css next / previous (full, value, value-token ranges) against ground truth; plus random HTML / CSS fragment strings for range containment; non-trivial = a result at some position; distinct = distinct source',
    'explanation': 'Selection logic of the HTML helpers and class-token ranges are theorems over all event lists / values; the attribute parser, the CSS helpers and exactness on rendered documents are decided by correspondence (model of the helpers over the scanner models) + ground-truth oracle.',
    'level_text': 'Lean 4 theorems for the HTML helpers over ANY event list (which tag is selected) and for class-token ranges over ALL values (partial: attribute ranges come from html_matcher.attributes, not modelled; CSS helpers modelled, no theorem yet). Everything else: correspondence + ground-truth oracle on every position of generated documents.',
    'level_note': 'Trusted: Lean kernel + standard axioms; models of action_utils/{html,css,utils}.py over the scanner models (0 differences on all explored inputs).',
    'assumptions': [CORR],
}

NOT_APPLICABLE = {}


# ------------------------------------------------------------------------------------------------- tie (a) for character predicates
# EmmetProofs/LeafAgree.lean: every hand-written character predicate of a model = the code's predicate, evaluated by the translator on
# every run, on Gen.Leaf.points. Registered with the properties whose models use them.
LEAF = {
    'T': ['T_isNumber', 'T_isAlpha', 'T_isAlphaWord', 'T_isAlphaNumericWord', 'T_isWhiteSpace', 'T_isSpace', 'T_isQuote', 'T_isDigitPy', 'T_isOpenBracket', 'T_isElementName', 'T_operatorType', 'T_bracketType'],
    'CA': ['CA_isNumber', 'CA_isAlpha', 'CA_isAlphaWord', 'CA_isAlphaNumericWord', 'CA_isQuote', 'CA_isSpace', 'CA_isIdentPrefix', 'CA_isHex', 'CA_isKeyword', 'CA_isLiteralCh'],
    'H': ['H_isAlpha', 'H_isNumber', 'H_isSpace', 'H_isQuote', 'H_nameStartChar', 'H_nameChar', 'H_isTerminator', 'H_isUnquoted'],
    'C': ['C_isSpace', 'C_isQuote', 'C_isOp'],
    'M': ['M_isWhiteSpace', 'M_isSpace', 'M_isNumber', 'M_isSign', 'M_isOperator'],
    'X': ['X_isAlpha', 'X_isNumber', 'X_isQuote', 'X_isAbbreviation', 'X_isIdent', 'X_isWs', 'X_isUnquotedValue', 'X_isOpenBracket', 'X_isCloseBracket'],
}
LEAF_USE = {'C01': 'T', 'C02': 'T', 'C03': 'T', 'C04': 'T', 'C07': 'T CA', 'C18': 'T CA', 'C05': 'CA', 'C06': 'CA', 'C09': 'H', 'C10': 'C', 'C16': 'H C', 'C17': 'H C',
            'C19': 'M', 'C11': 'X', 'C12': 'T', 'C13': 'T', 'C14': 'T', 'C15': 'T', 'C08': 'T CA', 'C20': 'T CA'}
for _p, _use in LEAF_USE.items():
    PROPS[_p]['lean_targets'] = PROPS[_p]['lean_targets'] + ['EmmetProofs.LeafAgree']
    PROPS[_p]['lean_imports'] = PROPS[_p]['lean_imports'] + ['EmmetProofs.LeafAgree']
    for _ns in _use.split():
        for _t in LEAF[_ns]:
            PROPS[_p]['theorems'] = PROPS[_p]['theorems'] + [thm('Leaf.' + _t, 'tie (a): the model\'s character predicate %s = the code\'s predicate (evaluated from /repo on this run) on every code point below 0x180 and on both sides of every place where a predicate of the code changes its value' % _t.replace('_', '.', 1))]
TRUSTED_BASE = TRUSTED_BASE + ['character predicates: the models\' predicates are kernel-checked equal to tables obtained by evaluating the code\'s predicates on every run (Gen.Leaf, 0..0x2FFF; str.isdecimal / str.isdigit beyond ASCII are outside the models)']
