"""Domain: emmet.extract (extract_abbreviation) on arbitrary lines x every position x 6 option sets, and on generated valid
abbreviations embedded in left/right contexts (round trip). Serves C11."""
import random
from vlib import hx
import gens

MODE = 'extract'
FR = gens.EXTRACT_ALPHA + ['<div>', '<a href="x">', '</p>', '<br/>', '<img src=y alt>', 'ul>li', 'li[title=x]*3>a', 'a[h=x].c>b', '{text}', '[a="b c"]', 'em:', '\t',
                           '<', 'x="1"', "y='2'", 'div.cls#id', 'p{a}', '(a+b)*2', '= ', '<a b=c d>']
OPTS = [{}, {'type': 'stylesheet'}, {'lookAhead': False}, {'prefix': '<'}, {'prefix': 'em:', 'lookAhead': False}, {'prefix': '<', 'type': 'stylesheet'}]
LEFT = ['', ' ', 'foo ', '\t', 'a b\t', '<p>', '<div class="x">', '</li>', '<br/>', '<img src=y alt> ', 'x = ', '<a b=c d>']
RIGHT = ['', ' ', ' text', '<b>', '</p>', 'x', '`', '` x', '`]', '\u00b4']
CSS_ABBRS = ['p10', 'm10-20', 'bd1-s#f.5', 'c#f', 'fl', 'pos:a', 'm-10--20', 'w100p', 'lh1.5', 'bg+', 'p10!', 'd:n+m10', 'trf:r', 'op.5', '@m', 'c#e7bc0b', 'z10', 'bdrs5', 'w100%', 'm10%-20%', 'p5%', 'h50%!', 'lh120%+m0']


def rand_tag(rnd):
    """a complete tag as left context: quoted values may contain the other kind of quote, `=`, `/` and blanks; boolean attributes and a
    self-closing slash may follow them"""
    t = '<' + rnd.choice(['a', 'div', 'br', 'img', 'x-y', 'li', 'svg:rect', 'xsl:if', 'a:b-c'])
    for _ in range(rnd.randint(0, 3) if rnd.random() < .9 else rnd.randint(28, 40)):      # now and then a tag of several hundred characters
        t += rnd.choice([' ', '  '])
        t += rnd.choice(['hidden', 'b=c', 'title="it\'s"', "t='say \"hi\"'", 'class="x y"', 'd="a=b"', "e='/'", 'data-x="1/2"', 'q="\'"', "r='\"\"'", 'alt', 'n=1', 'v-on:click=go', 'xlink:href=x', 'a:b=c:d', 'xml:lang="en"'])
    t += rnd.choice(['>', '>', '/>', ' />', '> ', '>\t'])
    return t


def cases(tier, seed, prop):
    rnd = random.Random(seed)
    L = 2 if tier == 'quick' else 3
    out = [{'s': s, 'g': 'exh'} for s in gens.all_strings(gens.EXTRACT_ALPHA, L)]
    n = 2500 if tier == 'quick' else 40000
    out += [{'s': s, 'g': 'frag'} for s in gens.random_strings(rnd, FR, n, 1, 8)]
    m = 7000 if tier == 'quick' else 40000
    k = 0
    while k < m:
        css = rnd.random() < .15
        if css: ab = rnd.choice(CSS_ABBRS)
        else:
            ab = gens.rand_abbr(rnd, [rnd.randint(1, 6)], 2)
            if '\n' in ab or not ab: continue
        left = rnd.choice(LEFT) if rnd.random() < .6 else rand_tag(rnd); right = rnd.choice(RIGHT)
        if not css and rnd.random() < .15:
            # attribute values / text with a parenthesised group that contains non-abbreviation characters
            ab += rnd.choice(['[title="x (y z)"]', '[onclick="go(1, 2)"]', "[d='f(a b)']", '{call (a, b) now}', '[t="(a b) (c, d)"]', '{(x y)}']) + rnd.choice(['', '*2', '>b'])
        if len(left + ab + right) > (90 if len(left) < 200 else 520): continue      # (a tag of several hundred characters as left context is kept)
        out.append({'s': left + ab + right, 'g': 'roundtrip', 'rt': [len(left), len(left) + len(ab), css]})
        k += 1
    return out


def req(case):
    return hx(case['s']) if case['s'] else ''


def lookahead(line, pos, typ):
    if pos < len(line) and line[pos] in '"\'': pos += 1
    closing = ')' if typ == 'stylesheet' else ')]}'
    while pos < len(line) and line[pos] in closing: pos += 1
    return pos


def oracle_consistent(line, pos, o, r, oi):
    if r is None: return []
    v = []; n = len(line)
    tag = 'opts#%d pos %d' % (oi, pos)
    if not (isinstance(r.start, int) and 0 <= r.start <= r.location <= r.end <= n):
        v.append('bounds| %s: start %r, location %r, end %r violate 0<=start<=location<=end<=%d' % (tag, r.start, r.location, r.end, n)); return v
    if r.abbreviation != line[r.location:r.end]: v.append('slice| %s: abbreviation %r is not line[location:end] = %r' % (tag, r.abbreviation, line[r.location:r.end]))
    if r.abbreviation[:1] in ('>', '+', '^', '*'): v.append('dangling-operator| %s: abbreviation %r begins with an operator' % (tag, r.abbreviation))
    p = min(n, max(0, pos))
    exp_end = lookahead(line, p, o.get('type', 'markup')) if o.get('lookAhead', True) else p
    if r.end != exp_end: v.append('end| %s: end %d, expected the look-ahead adjusted position %d' % (tag, r.end, exp_end))
    pre = o.get('prefix', '')
    if pre:
        if line[r.start:r.start + len(pre)] != pre or r.start + len(pre) > r.location:
            v.append('prefix| %s: prefix %r not found at start %d with the abbreviation to its right (location %d)' % (tag, pre, r.start, r.location))
    return v


def run(case, prop):
    from emmet import extract
    s = case['s']; out = ''; viol = []; tags = {'gen:' + case['g']: 1}
    rt = case.get('rt')
    for oi, o in enumerate(OPTS):
        for pos in range(-1, len(s) + 2):
            try:
                r = extract(s, pos, o)
                out += 'N ' if r is None else '[%s]:%d:%d:%d ' % (hx(r.abbreviation) if r.abbreviation else '', r.location, r.start, r.end)
                if r is not None: tags['found'] = tags.get('found', 0) + 1
                viol += oracle_consistent(s, pos, o, r, oi)
                if rt and pos == rt[1] and ((oi == 2 and not rt[2]) or (oi == 1 and rt[2] and s[rt[1]:rt[1] + 1] not in ('"', "'", ')'))):
                    want = s[rt[0]:rt[1]]
                    got = None if r is None else r.abbreviation
                    if got != want or (r is not None and (r.location, r.end) != (rt[0], rt[1])):
                        viol.append('roundtrip| extract(%r, %d, %r) = %r, the abbreviation ending at the caret is %r' % (s, pos, o, got, want))
            except RecursionError: raise
            except Exception as e:
                out += 'EXC%s ' % type(e).__name__
                viol.append('raised| extract raised %s at pos %d opts#%d' % (type(e).__name__, pos, oi))
    return out, viol[:6], tags


def compare(case, line, ml):
    import vlib
    if vlib.unmodelled_text(case['s'], case=False): return None
    return line == ml


def nontrivial(case, line):
    return '[' in line


def describe(case):
    d = {'line': case['s']}
    if 'rt' in case: d['abbreviation_at'] = case['rt'][:2]
    return d
