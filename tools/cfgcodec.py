"""Encodes a py-emmet `config` / `global_config` dictionary (well-typed fragment) for the model driver (mode expandg).
Callbacks are not encoded: the harness always installs the same `output.field` (textmate form) on both sides, and the
model prints fields in that form."""
from vlib import hx


def _val(v):
    if isinstance(v, bool): return 'b1' if v else 'b0'
    if isinstance(v, int): return 'n%d' % v
    if isinstance(v, str): return 's' + hx(v)
    if isinstance(v, (list, tuple)): return 'l' + '|'.join(hx(x) for x in v)
    if isinstance(v, dict): return 'd' + '|'.join('%s:%s' % (hx(k), hx(x)) for k, x in v.items())
    raise TypeError('cannot encode option value %r' % (v,))


def _entries(c, top=True):
    out = []
    if top:
        if 'type' in c: out.append('ty=' + hx(c['type']))
        if 'syntax' in c: out.append('sy=' + hx(c['syntax']))
        if c.get('text') is not None:
            t = c['text']
            out.append('tx=S:' + hx(t) if isinstance(t, str) else 'tx=L:' + '|'.join(hx(x) for x in t))
        if c.get('maxRepeat') is not None: out.append('mr=%d' % c['maxRepeat'])
        if c.get('context') is not None: out.append('cx=' + hx(c['context'].get('name', '')))
    if 'options' in c:
        out.append('o')
        for k, v in c['options'].items():
            if callable(v): continue
            out.append('o:%s=%s' % (hx(k), _val(v)))
    if 'snippets' in c:
        out.append('sn')
        for k, v in c['snippets'].items(): out.append('sn:%s=%s' % (hx(k), hx(v)))
    if 'variables' in c:
        out.append('vr')
        for k, v in c['variables'].items(): out.append('vr:%s=%s' % (hx(k), hx(v)))
    return out


def encode(config, global_config=None):
    s = '&'.join(_entries(config))
    if global_config:
        g = []
        for name, layer in global_config.items():
            for e in _entries(layer, top=False): g.append('%s/%s' % (hx(name), e))
        s += ';' + '&'.join(g)
    return s
