"""Input generators shared by the domains. Every random choice derives from the random.Random handed in."""
import itertools, random


def shift(o, d):
    """add d to every position of a ground-truth structure (all ints except booleans are positions)"""
    if isinstance(o, bool): return o
    if isinstance(o, int): return o + d
    if isinstance(o, list): return [shift(x, d) for x in o]
    if isinstance(o, tuple): return tuple(shift(x, d) for x in o)
    if isinstance(o, dict): return {k: shift(v, d) for k, v in o.items()}
    return o


ABBR_ALPHA = list("aA1$#.[]{}()*>+^=\"'\\ @-/!:")          # 26 symbols: the punctuation alphabet of the abbreviation language
CSS_ABBR_ALPHA = list("ab1.#-+!,:()\"'$@%/ t{}_G")
HTML_ALPHA = list("<>/=\"'a b-![]?")
CSSDOC_ALPHA = list("{}:;()\"'\\/*a- \n")
MATH_ALPHA = list("12.+-*/\\() ")
EXTRACT_ALPHA = list("ab1$#.[]{}()*>+^=\"'\\ @-/!:<")
NONASCII = [' ', 'é', 'İ', '٣', '²', ' ', '\u0085', '\x0b', '\x0c', '\x1c', '中', '\U0001f600']


def all_strings(alpha, L):
    for l in range(0, L + 1):
        for t in itertools.product(alpha, repeat=l):
            yield ''.join(t)


def random_strings(rnd, pieces, n, lo=1, hi=9):
    for _ in range(n):
        yield ''.join(rnd.choice(pieces) for _ in range(rnd.randint(lo, hi)))


def mutate(rnd, s, alpha):
    s = list(s)
    k = rnd.random(); i = rnd.randint(0, len(s))
    if k < .35: s.insert(i, rnd.choice(alpha))
    elif k < .6 and s: del s[min(i, len(s) - 1)]
    elif k < .85 and s: s[min(i, len(s) - 1)] = rnd.choice(alpha)
    elif len(s) > 1:
        j = min(i, len(s) - 2); s[j], s[j + 1] = s[j + 1], s[j]
    return ''.join(s)


NAMES = ['div', 'p', 'span', 'a', 'ul', 'li', 'em', 'img', 'br', 'input', 'label', 'table', 'tr', 'td', 'select', 'html', 'body', 'x', 'b',
         'textarea', 'link:css', 'meta:vp', '!', 'cc:ie', 'c', 'xsl:variable', 'vare', 'tm', 'choose', 'ri:a', 'btn', 'form:post', 'h1',
         'section', 'strong', 'i', 'ol', 'tbody', 'optgroup', 'nav', 'header', 'bq', 'pic', 'video', 'map', 'colgroup', 'object', 'audio']
LOREM = ['lorem', 'lorem5', 'lorem5-3', 'lorem10-2', 'lorem-0', 'lorem3-8', 'loremru4', 'lipsum', 'Lorem2', 'lorem-']
ATTRS = ['[t=v]', '[t="a b"]', '[!u]', '[w.]', '[checked]', '[for]', '[id]', '[select=x name=y]', '[class=z]', '[t={e}]', '[k=${1:q}]',
         "[t='s']", '[disabled.]', '[a=1 a=2]', '[!v=x]', '[title]', '[data-n=$]', "[x='']", '[href=http://x.y]', '[t=v u="w"]']
TEXTS = ['{tx}', '{a $ b}', '{<div>x</div>}', '{l1\nl2}', '{${1} z}', '{$#}', '{a{b}c}', '{\\{x}', '{a>b+c}', '{ $$@3 }', '{item $}', '{*}', '{ x }']


def rand_abbr(rnd, budget, depth, names=NAMES, attrs=ATTRS, texts=TEXTS):
    parts = []
    while budget[0] > 0 and (not parts or rnd.random() < .5):
        budget[0] -= 1
        if rnd.random() < .1:
            parts.append(rnd.choice(['{txt}', '{a ${1} b}', '{l1\nl2}', '{${2:x}}'])); continue
        s = rnd.choice(names) if rnd.random() < .85 else ''
        if rnd.random() < .03: s = rnd.choice(LOREM)
        if not s or rnd.random() < .3: s += '.c%d' % rnd.randint(0, 2)
        if rnd.random() < .15: s += '#i'
        if rnd.random() < .08: s += rnd.choice(['$', '$$@3', '$@-', '$@^', '$@^^', '$@^^^', '$$@^^^^-2', '$@-0'])
        if rnd.random() < .1: s += '..m'
        if rnd.random() < .25: s += rnd.choice(attrs)
        if rnd.random() < .25: s += rnd.choice(texts)
        if rnd.random() < .2: s += '*%d' % rnd.randint(1, 3)
        elif rnd.random() < .05: s += '*'
        if depth > 0 and rnd.random() < .5:
            op = '>' if rnd.random() < .8 else rnd.choice(['>', '+', '^', '^^'])
            if rnd.random() < .5: s = '(' + s + op + rand_abbr(rnd, budget, depth - 1, names, attrs, texts) + ')' + (rnd.choice(['', '', '*2']))
            else: s = s + op + rand_abbr(rnd, budget, depth - 1, names, attrs, texts)
        elif rnd.random() < .1: s += '/'
        parts.append(s)
    return '+'.join(parts)
