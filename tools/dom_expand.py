"""Domain: emmet.expand for markup abbreviations under arbitrary (well-typed) configurations; the raw config dictionary is
shipped to the model driver, which merges the layers itself (lean/Emmet/ConfigModel.lean). Serves C07 and is the base of the
other markup domains."""
import random, copy
from vlib import hx
import gens, cfgcodec

MODE = 'expandg'


def field(index, placeholder, **kw):
    return '${%d:%s}' % (index, placeholder) if placeholder else '${%d}' % index


B = {'markup.href': False, 'output.field': field}
CFGS = [{}, {'options': {'output.format': False}},
        {'options': {'output.selfClosingStyle': 'xhtml', 'output.attributeQuotes': 'single', 'output.tagCase': 'upper'}},
        {'options': {'output.selfClosingStyle': 'xml', 'output.compactBoolean': True, 'output.attributeCase': 'upper'}},
        {'options': {'output.inlineBreak': 0, 'output.formatLeafNode': True, 'output.indent': '  ', 'output.baseIndent': '\t', 'output.newline': '\r\n'}},
        {'options': {'output.reverseAttributes': True}},
        {'syntax': 'jsx'}, {'syntax': 'xsl'}, {'text': ['foo', '', 'bar']}, {'text': 'x\ny'}, {'syntax': 'vue'}, {'maxRepeat': 3},
        {'options': {'output.formatSkip': [], 'output.formatForce': ['div'], 'output.inlineBreak': 1}}, {'context': {'name': 'ul'}},
        {'syntax': 'haml'}, {'syntax': 'pug'}, {'syntax': 'slim'},
        {'syntax': 'pug', 'options': {'output.selfClosingStyle': 'xml', 'output.compactBoolean': True, 'output.indent': '  '}},
        {'syntax': 'haml', 'options': {'output.compactBoolean': True, 'output.attributeQuotes': 'single'}, 'text': ['foo', 'bar']},
        {'syntax': 'slim', 'text': 'l1\nl2', 'options': {'output.attributeCase': 'upper'}}]
HTML_CFGS = [0, 1, 2, 3, 4, 5, 6, 7, 8, 9, 10, 11, 12, 13]
INDENT_CFGS = [14, 15, 16, 17, 18, 19]


def mk(c):
    """the config handed to the implementation: the case's config plus the fixed callbacks"""
    c = copy.deepcopy(CFGS[c] if isinstance(c, int) else c); o = dict(B); o.update(c.get('options', {})); c['options'] = o; return c


OPTION_POOL = {
    'output.indent': ['\t', '  ', '    ', ''], 'output.baseIndent': ['', '  ', '\t'], 'output.newline': ['\n', '\r\n', '\r'],
    'output.tagCase': ['', 'upper', 'lower'], 'output.attributeCase': ['', 'upper', 'lower'], 'output.attributeQuotes': ['double', 'single'],
    'output.format': [True, False], 'output.formatLeafNode': [True, False], 'output.formatSkip': [[], ['html'], ['div', 'ul']],
    'output.formatForce': [[], ['body'], ['span', 'a']], 'output.inlineBreak': [0, 1, 2, 3, 5], 'output.compactBoolean': [True, False],
    'output.reverseAttributes': [True, False], 'output.selfClosingStyle': ['html', 'xhtml', 'xml'], 'jsx.enabled': [True, False],
    'inlineElements': [['a', 'b', 'span', 'em'], []], 'output.booleanAttributes': [['checked', 'disabled'], []],
    # add-ons (not modelled: these cases are judged by the oracle on the implementation only)
    'bem.enabled': [True, True, False], 'bem.element': ['__', '--'], 'bem.modifier': ['_', '--'], 'comment.enabled': [True, True, False],
    'comment.after': ['\n<!-- /[#ID][.CLASS] -->', ' <!-- [#ID] -->'], 'comment.before': ['', '<!-- [#ID] -->\n'], 'markup.href': [True],
}
SYNTAXES = ['html', 'xml', 'xsl', 'jsx', 'js', 'pug', 'slim', 'haml', 'vue', 'svelte', 'xhtml', 'unknown-syntax']


def rand_cfg(rnd, syntaxes=SYNTAXES, p_opt=.5, with_text=True):
    c = {}
    if rnd.random() < .7: c['syntax'] = rnd.choice(syntaxes)
    if rnd.random() < p_opt:
        c['options'] = {k: rnd.choice(OPTION_POOL[k]) for k in rnd.sample(sorted(OPTION_POOL), rnd.randint(1, 4))}
    if with_text and rnd.random() < .15: c['text'] = rnd.choice([['foo', '', 'bar'], 'x\ny', [], ['  '], 'single', ['a>b', '$$', ' *3 '], 'http://emmet.io', 'info@emmet.io', ['www.a.b', 'c@d.e']])
    if rnd.random() < .08: c['maxRepeat'] = rnd.choice([1, 2, 3, 7])
    if rnd.random() < .08: c['context'] = {'name': rnd.choice(['ul', 'p', 'em', 'table', 'div', 'UL'])}
    if 'context' in c and rnd.random() < .4: c['context']['attributes'] = {'class': rnd.choice(['blk', 'a b', '', 'x__y', 'card card--big', None])}
    if rnd.random() < .06: c['variables'] = {'lang': 'ru', 'foo': 'bar'}
    if rnd.random() < .06: c['snippets'] = rnd.choice([{'x': 'p+q'}, {'btn': 'button.btn[type=button]', 'c': '{<!-- ${0} -->}'}, {'a': 'a.x', 'y': 'y>z'}])
    return c


def cases(tier, seed, prop):
    rnd = random.Random(seed)
    out = []
    if prop == 'C07':
        L = 2 if tier == 'quick' else 3
        for s in gens.all_strings(gens.ABBR_ALPHA, L):
            for ci in (0, 6, 8, 15):
                out.append({'s': s, 'c': CFGS[ci], 'g': 'exh'})
        n = 12000 if tier == 'quick' else 150000
    else:
        n = 8000 if tier == 'quick' else 80000
    for _ in range(n):
        ab = gens.rand_abbr(rnd, [rnd.randint(1, 8)], 3)
        if rnd.random() < (.5 if prop == 'C07' else .1): ab = gens.mutate(rnd, ab, gens.ABBR_ALPHA)
        out.append({'s': ab, 'c': CFGS[rnd.randrange(len(CFGS))] if rnd.random() < .4 else rand_cfg(rnd), 'g': 'abbr'})
    if prop == 'C07':
        # BEM names resolved through a context element whose class is missing / empty / None
        for ab in ('.-e', 'p.-x._m', 'ul>li.-item', '.-a>.-b', 'div._m'):
            for v in (None, '', 'blk', 'a b'):
                out.append({'s': ab, 'c': {'options': {'bem.enabled': True}, 'context': {'name': 'div', 'attributes': {'class': v}}}, 'g': 'bem-context'})
                out.append({'s': ab, 'c': {'options': {'bem.enabled': True}, 'context': {'name': 'div', 'attributes': {}}}, 'g': 'bem-context'})
        # wrap text that looks like a link, elements that take an href (markup.href on: judged by the oracle on the implementation only)
        for ab in ('a', 'a["x"]', "a['y' href]", 'a[title="t"]', 'p>a', 'a.b', 'ul>li*>a', 'a[href]', 'a["x" "y"]', 'a[href=""]', 'div>a["z"]{t}'):
            for tx in ('http://emmet.io', 'info@emmet.io', 'www.emmet.io', ['http://a.b', 'c@d.e'], 'plain text'):
                for sy in ('html', 'jsx', 'pug'):
                    out.append({'s': ab, 'c': {'syntax': sy, 'text': tx}, 'g': 'href', 'href': 1})
        for ab in ('div.[class]', 'a.#.', 'p[class class]', '.[class].', 'div#[id]', 'p[id class].', 'p..${1}', '..${2:x}', 'div..a${1}', 'div[class="a ${1}"]', '.x[class="${1} b"]', 'p[id="i${1}"]', 'p.a${1}.b', 'ul>li[class="${1:k}"]*2', '#m${2:x}[class=${1}]', 'p[class="${1}"]{t}'):
            for sy in ('haml', 'pug', 'slim', 'html', 'jsx', 'vue', 'xsl'):
                out.append({'s': ab, 'c': {'syntax': sy}, 'g': 'field-in-class'})
        # half-typed input: every prefix of valid abbreviations (open attribute sets, expressions, quotes, text, groups …)
        seen = set()
        for _ in range(n // 20):
            ab = gens.rand_abbr(rnd, [rnd.randint(1, 5)], 2)
            if rnd.random() < .3: ab += rnd.choice(['[b={c}]', '[b={c} d="e f"]', "[a='b']{t}", '{a {b} c}', '[x=y z.]*2', '[b={}]', '{${1:x}}', '[!k={v}]'])
            if len(ab) > 60: continue
            c = CFGS[rnd.randrange(len(CFGS))] if rnd.random() < .5 else rand_cfg(rnd)
            for i in range(1, len(ab)):
                if ab[:i] not in seen:
                    seen.add(ab[:i]); out.append({'s': ab[:i], 'c': c, 'g': 'prefix'})
    return out


def req(case):
    return '%s;%s' % (hx(case['s']), cfgcodec.encode(mk(case['c'])))


_ENV = {'poisoned': False, 'caches': {}}


def hostile_environment():
    """once per worker process, BEFORE the first expansion: a caller builds configurations of several types / syntaxes and then changes
    its own resolved copies in place (every option / snippet / variable replaced, new keys added). The statements promise that a result
    depends only on the arguments of the call, so nothing of this may show in any later expansion - it does when a resolved
    Config hands out one of the library's own tables instead of a copy."""
    if _ENV['poisoned']: return
    _ENV['poisoned'] = True
    from emmet.config import Config
    for raw in ({}, {'syntax': 'html'}, {'type': 'stylesheet'}, {'type': 'stylesheet', 'syntax': 'scss'}, {'syntax': 'xsl'}, {'syntax': 'pug'}, {'syntax': 'jsx'},
                {'syntax': 'slim'}, {'syntax': 'haml'}, {'syntax': 'xml'}, {'syntax': 'vue'}, {'syntax': 'unknown-syntax'}, {'type': 'stylesheet', 'syntax': 'sass'}):
        for glob in (None, {}):
            try: c = Config(dict(raw), glob) if glob is not None else Config(dict(raw))
            except Exception: continue
            for d in (c.options, c.snippets, c.variables):
                if not isinstance(d, dict): continue
                for k in list(d):
                    v = d[k]
                    if callable(v): continue
                    d[k] = (not v) if isinstance(v, bool) else (v + 7) if isinstance(v, int) else '~poison~' if isinstance(v, str) else ['~poison~'] if isinstance(v, list) else {'~poison~': '~'} if isinstance(v, dict) else v
                d['~poison~'] = '~poison~'
    # ... and it has made calls that override the table-valued options with tables of its own: the library's default tables stay as they are
    from emmet import expand
    for cfg in ({'syntax': 'jsx', 'options': {'markup.attributes': {'for': 'data-for', 'class': 'data-class', 'title': 'data-title'}, 'markup.valuePrefix': {'class': 'zz', 'id': 'yy'}}},
                {'syntax': 'vue', 'options': {'markup.attributes': {'class*': 'klass', 'for': 'data-for'}, 'markup.valuePrefix': {'class*': 'vv'}}},
                {'syntax': 'html', 'options': {'markup.attributes': {'title': 'data-title'}, 'inlineElements': ['div', 'p', 'zz'], 'output.booleanAttributes': ['title', 'zz'], 'output.formatSkip': ['div'], 'output.formatForce': ['span']}},
                {'type': 'stylesheet', 'options': {'stylesheet.unitAliases': {'p': 'pt', 'r': 'rpx', 'q': 'qq'}, 'stylesheet.unitless': ['margin', 'padding'], 'stylesheet.keywords': ['zz']}},
                {'type': 'stylesheet', 'syntax': 'sass', 'options': {'stylesheet.unitAliases': {'e': 'ee'}}}):
        for ab in ('label[for=a].b#c[title=t]..d', 'div>p>span', 'p10p+m5r+w1e', 'trf:s(2)'):
            for cache in (None, {}):
                try: expand(ab, dict(cfg, cache=cache) if cache is not None else dict(cfg))
                except Exception: pass
    # ... and calls that failed half-way (parse errors in the abbreviation, in a nested snippet, in a stylesheet value): nothing of them is kept
    for ab, cfg in (('ul>li[title="', {}), ('(a+b', {}), ('box', {'snippets': {'box': 'div>menu', 'menu': 'nav>item', 'item': 'li[title="]'}}), ('p{${', {}), ('a{b', {'syntax': 'pug'}),
                    ('p10(', {'type': 'stylesheet'}), ('c#zz"', {'type': 'stylesheet'}), ('lg(to right, "', {'type': 'stylesheet', 'cache': {}}), ('ul>li*', {'text': ['a', 'b'], 'maxRepeat': 1, 'options': {'output.field': lambda *a, **k: 1 / 0}}),
                    ('ul>li*3{${n}}', {'variables': {'n': 5}}), ('(a>b*2{x ${n}})*2+c', {'variables': {'n': None}}), ('ul>li[title=${n}]*4>em*2', {'variables': {'n': 7}})):
        try: expand(ab, cfg)
        except Exception: pass


def shared_cache(cfg):
    """one `cache` dictionary per distinct configuration (everything but the wrap text), kept for the whole life of the worker process"""
    import json
    key = json.dumps({k: v for k, v in cfg.items() if k not in ('text', 'cache', 'maxRepeat')}, sort_keys=True, default=lambda f: getattr(f, '__name__', 'callable'))
    return _ENV['caches'].setdefault(key, {})


def outcome_reordered(ab, cfg):
    """the same configuration as an OrderedDict with its keys (and the keys of its options / snippets / variables) in the opposite order"""
    import collections
    import types
    def rev(d): return collections.OrderedDict(reversed(list(d.items())))
    def ro(v): return types.MappingProxyType(dict(v)) if isinstance(v, dict) else tuple(v) if isinstance(v, list) else v          # table-valued options as read-only mappings
    c = rev({k: (rev({k2: ro(v2) for k2, v2 in v.items()}) if k == 'options' and isinstance(v, dict) else rev(v) if k in ('snippets', 'variables') and isinstance(v, dict) else v) for k, v in cfg.items()})
    return outcome(ab, c)


def outcome_cached(ab, cfg):
    """the same call with a `cache` that earlier calls under the same configuration have already used"""
    return outcome(ab, dict(cfg, cache=shared_cache(cfg)))


def outcome_rerendered(ab, cfg):
    """parse once, render the tree under another output syntax first, then under the configuration itself: rendering a tree does not change it, so the
    second rendering is what expand() gives"""
    from emmet import markup_abbreviation, stringify_markup
    from emmet.config import Config
    from emmet.scanner import ScannerException
    from emmet.token_scanner import TokenScannerException
    import copy as _copy
    try:
        c = Config(_copy.deepcopy(cfg))
        if c.type != 'markup': return None
        tree = markup_abbreviation(ab, c)
        other = dict(_copy.deepcopy(cfg)); other['syntax'] = 'pug' if c.syntax not in ('pug', 'haml', 'slim') else 'html'
        try: stringify_markup(tree, Config(other))
        except Exception: pass
        return ('ok', stringify_markup(tree, c))
    except ScannerException as e: return ('scanner', e.pos)
    except TokenScannerException as e: return ('token', e.pos)
    except RecursionError: return ('internal', 'RecursionError')
    except Exception as e: return ('internal', type(e).__name__)


def outcome(ab, cfg, gc=None):
    from emmet import expand
    from emmet.scanner import ScannerException
    from emmet.token_scanner import TokenScannerException
    hostile_environment()
    try: return ('ok', expand(ab, cfg, gc) if gc is not None else expand(ab, cfg))
    except ScannerException as e: return ('scanner', e.pos)
    except TokenScannerException as e: return ('token', e.pos)
    except RecursionError: return ('internal', 'RecursionError')      # generated abbreviations are shallow: running out of stack is non-termination
    except Exception as e: return ('internal', type(e).__name__)


def line_of(o):
    if o[0] == 'ok': return 'ok ' + hx(o[1])
    return '%s %s' % o


def oracle_C07(ab, o):
    if o[0] == 'ok':
        return [] if isinstance(o[1], str) else ['not-a-string| expand returned %r' % type(o[1]).__name__]
    if o[0] == 'internal': return ['internal-error| expand(%r) raised %s' % (ab, o[1])]
    if o[1] is not None and not (isinstance(o[1], int) and 0 <= o[1] <= len(ab)):
        return ['error-position| %s error position %r outside 0..%d' % (o[0], o[1], len(ab))]
    return []


def run(case, prop):
    ab = case['s']; o = outcome(ab, mk(case['c']))
    viol = []
    if prop == 'C07':
        viol = oracle_C07(ab, o)
        o2 = outcome_cached(ab, mk(case['c']))
        if o2 != o: viol += ['(with a cache shared by earlier calls) ' + v for v in oracle_C07(ab, o2)]
        o5 = outcome_reordered(ab, mk(case['c']))
        if o5 != o and o[0] == 'ok' and 'lorem' not in ab.lower().replace('\\', '') and 'lipsum' not in ab.lower().replace('\\', ''): viol += ['order-dependent| expand(%r) depends on the order of the keys of its configuration: %r vs %r' % (ab, o5[1], o[1])]
        if case.get('href'):
            c3 = mk(case['c']); c3['options']['markup.href'] = True
            viol += ['(markup.href on) ' + v for v in oracle_C07(ab, outcome(ab, c3))]
    tags = {'gen:' + case['g']: 1, 'outcome:' + o[0]: 1, 'syntax:' + case['c'].get('syntax', '-'): 1}
    return line_of(o), viol, tags


def compare(case, line, ml):
    import vlib
    if vlib.unmodelled_text(case['s']): return None
    low = case['s'].lower().replace('\\', '')
    if 'lorem' in low or 'lipsum' in low: return None      # random text: not modelled
    o = (case['c'].get('options') or {}) if isinstance(case['c'], dict) else {}
    if o.get('bem.enabled') or o.get('comment.enabled') or o.get('markup.href'): return None                   # add-ons not modelled yet
    return line == ml


def nontrivial(case, line):
    return line.startswith('ok') and len(line) > 40


def describe(case):
    return {'abbreviation': case['s'], 'config': case['c']}
