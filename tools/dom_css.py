"""Domain: CSS matcher (emmet.css_matcher scan / match / balanced_outward / balanced_inward / split_value) on arbitrary
strings and on stylesheets rendered from random trees with recorded ground truth. Serves C10 and the CSS half of C16."""
import random
from vlib import hx
import gens

MODE = 'css'
FR = gens.CSSDOC_ALPHA + ['a{', 'b:c;', 'd: e f;', '}', '/*', '*/', '@media (min-width: 1px){', 'x::before{', '"s;}"', "'{'", 'url(a;b)', '$v:1;',
                          '  ', '--x:y', 'a:hover{', '1px solid', ' - ', ', ']


# declaration values with the tokens they consist of (split at blanks, commas and the operators + / * and ` - ` outside parentheses and
# strings — written down by hand from the statement, not computed by split_value)
VALUES = [('red', ['red']), ('1px', ['1px']), ('10px 20px', ['10px', '20px']), ('#fff', ['#fff']), ('url(a.png)', ['url(a.png)']), ('"a;b"', ['"a;b"']), ("'}'", ["'}'"]), ('"{"', ['"{"']),
          ('rgb(1, 2, 3)', ['rgb(1, 2, 3)']), ('1px solid red', ['1px', 'solid', 'red']), ('a, b', ['a', 'b']), ('10px - 5px', ['10px', '5px']), ('calc(1px + 2px)', ['calc(1px + 2px)']),
          ("'a\\'b'", ["'a\\'b'"]), ('url(a;b)', ['url(a;b)']), ('url(data:image/png;base64,AAA=)', ['url(data:image/png;base64,AAA=)']), ('lighten($c, 10%)', ['lighten($c, 10%)']),
          ('-webkit-box', ['-webkit-box']), ('0', ['0']), ('b c !important', ['b', 'c', '!important']), ('url("a)b")', ['url("a)b")']), ('fn(a (b c))', ['fn(a (b c))']),
          ('translate(calc(1px + 2px), 0) scale(2)', ['translate(calc(1px + 2px), 0)', 'scale(2)']), ('a(b(c) d) e', ['a(b(c) d)', 'e']), ('f(g(h(1, 2) 3), 4), 5', ['f(g(h(1, 2) 3), 4)', '5']),
          ('1px\n  2px', ['1px', '2px']), ('a/b', ['a', 'b']), ('x(y) z(w (v)) u', ['x(y)', 'z(w (v))', 'u']),
          ('"a\\\n;b}"', ['"a\\\n;b}"']), ("'x\\\n{ y: z; }'", ["'x\\\n{ y: z; }'"]), ('"x\\";y" attr(t)', ['"x\\";y"', 'attr(t)']),
          ('variant($bg: darken($c, 5%), $border: $c)', ['variant($bg: darken($c, 5%), $border: $c)']), ('f(a(b), c: d; e)', ['f(a(b), c: d; e)']), ('m((1), x: { y })', ['m((1), x: { y })']),
          ('url( "smile:).png")', ['url( "smile:).png")']), ("URL( 'a(b' ) no-repeat", ["URL( 'a(b' )", 'no-repeat']),
          ('"a\x0c;b}"', ['"a\x0c;b}"']), ("'x\x0c{ y: z; }'", ["'x\x0c{ y: z; }'"]),
          ("f(1 /* don't */)", ["f(1 /* don't */)"]), ('h(/* { */ 3)', ['h(/* { */ 3)']),
          ('"it\'s };"', ['"it\'s };"']), ("'say \"}\" {'", ["'say \"}\" {'"]), ('"a\'" \'b"{\'', ['"a\'"', '\'b"{\''])]


def tok_ranges(val, toks, base):
    out = []; i = 0
    for t in toks:
        j = val.index(t, i); out.append((base + j, base + j + len(t))); i = j + len(t)
    return out


# ------------------------------------------------------------------------------------------------- sheets with ground truth
def gen_sheet(rnd, budget=10, p_nest=.3, max_depth=3, stmts=0):
    """returns (source, items); item = dict(kind='rule'|'decl', start, end, ...) with children for rules.
    rule: start = selector start, brace = index of '{', close = index of '}', end = close+1
    decl: start = name start, nend = name end, colon, vstart, vend, semi = index of ';', end = semi+1"""
    buf = []; pos = [0]

    def emit(s):
        buf.append(s); pos[0] += len(s)

    def ws():
        emit(rnd.choice(['', ' ', '\n', '\n  ', ' ', '\n\t', '\r\n', '\r\n    ', '\xa0', '\n\xa0\xa0', '\r']))

    def comment():
        if rnd.random() < .2:
            emit(rnd.choice(['/* ', '/** ', '/*', '/***']) + rnd.choice(['c', 'a { b: c; }', '}', '{', 'x: y;', '"', "it's", 'a * b', 'n **', '']) + rnd.choice([' */', ' **/', '*/', '***/'])); ws()

    def decl():
        d = {'kind': 'decl'}
        name = rnd.choice(['color', 'margin', 'background', 'font', 'padding-left', '$var', '@v', '--custom', 'content', 'a', 'transition'])
        d['start'] = pos[0]; emit(name); d['nend'] = pos[0]
        d['colon'] = pos[0]; emit(':')
        emit(rnd.choice(['', ' ', ' ', '  ']))
        val, toks = rnd.choice(VALUES)
        d['vstart'] = pos[0]; emit(val); d['vend'] = pos[0]
        d['semi'] = pos[0]; emit(';'); d['end'] = pos[0]
        d['name'] = name; d['value'] = val; d['tokens'] = tok_ranges(val, toks, d['vstart'])
        return d

    def stmt():
        # a value-less statement (`@include foo;`): transparent for match / outward, a first child for inward (its name range)
        d = {'kind': 'stmt'}
        d['start'] = pos[0]; emit(rnd.choice(['@include foo', '@extend .z', '@include bar($x)', '@content'])); d['nend'] = pos[0]
        emit(';'); d['end'] = pos[0]
        return d

    def rule(depth):
        r = {'kind': 'rule', 'kids': []}
        sel = rnd.choice(['a', '.b', '#c', 'a:hover', 'x::before', 'ul > li', '@media (min-width: 100px)', '@media screen and (max-width:100px)', 'a[href="{"]', "a[t=';']",
                          '&:not(.x)', '.a, .b', 'input[type=text]:focus', '@supports (display: grid)', 'h1 + p', '&-suffix', '@include foo',
                          'a:hover, a:focus', 'li:first-child:hover', 'a:not(.x):hover', 'p::first-line', 'a:hover::after', 'x:y:z'])
        r['start'] = pos[0]; emit(sel); r['send'] = pos[0]
        emit(rnd.choice(['', ' ', ' ', '\n']))
        r['brace'] = pos[0]; emit('{')
        ws(); comment()
        while budget_[0] > 0 and rnd.random() < .7:
            budget_[0] -= 1
            if stmts and rnd.random() < stmts: r['kids'].append(stmt())
            elif depth < max_depth and rnd.random() < p_nest: r['kids'].append(rule(depth + 1))
            else: r['kids'].append(decl())
            ws(); comment()
        r['close'] = pos[0]; emit('}'); r['end'] = pos[0]
        r['sel'] = sel
        return r

    budget_ = [budget]
    items = []
    ws(); comment()
    while budget_[0] > 0 and (not items or rnd.random() < .6):
        budget_[0] -= 1
        if rnd.random() < .15: items.append(decl())      # top-level declaration ($var: 1;)
        else: items.append(rule(0))
        ws(); comment()
    return ''.join(buf), items


def cases(tier, seed, prop):
    rnd = random.Random(seed)
    out = []
    if prop in ('C16',):
        L = 3 if tier == 'quick' else 4
        out += [{'s': s, 'g': 'exh'} for s in gens.all_strings(gens.CSSDOC_ALPHA, L)]
        n = 3000 if tier == 'quick' else 40000
        out += [{'s': s, 'g': 'frag'} for s in gens.random_strings(rnd, FR, n, 1, 9)]
        for _ in range(300 if tier == 'quick' else 4000):
            s, _t = gen_sheet(rnd, rnd.randint(1, 5))
            for _ in range(rnd.randint(1, 3)): s = gens.mutate(rnd, s, gens.CSSDOC_ALPHA)
            if len(s) <= 160: out.append({'s': s, 'g': 'mutdoc'})
    if prop == 'C10':
        n = 1800 if tier == 'quick' else 10000
        while len(out) < n:
            if rnd.random() < .25:
                # deep trees: chains of nested rules that are not the first child of their parent, several top-level rules
                s, items = gen_sheet(rnd, rnd.randint(8, 16), p_nest=.55, max_depth=5)
                if len(s) > 420: continue
                out.append({'s': s, 'g': 'deep-sheet', 'truth': items}); continue
            s, items = gen_sheet(rnd, rnd.randint(1, 8), stmts=rnd.choice([0, 0, .3]))
            if len(s) > 240: continue
            if rnd.random() < .06:
                pre_ = '/*' + 'p' * rnd.randint(260, 300) + '*/'; s = pre_ + s; items = gens.shift(items, len(pre_))
            out.append({'s': s, 'g': 'sheet', 'truth': items})
    return out


def req(case):
    return hx(case['s']) if case['s'] else ''


def sr(r):
    return '%d-%d' % (r[0], r[1])


# ------------------------------------------------------------------------------------------------- oracles
def oracle_C16(s, pos, m, ow, iw):
    n = len(s); v = []

    def rng(a, e, what):
        if not (isinstance(a, int) and isinstance(e, int) and 0 <= a <= e <= n):
            v.append('bad-range| css %s range (%r, %r) violates 0<=start<=end<=%d (pos %d)' % (what, a, e, n, pos))
    if m is not None:
        rng(m.start, m.end, 'match'); rng(m.body_start, m.body_end, 'match body')
    for r in ow: rng(r[0], r[1], 'balanced_outward')
    for r in iw: rng(r[0], r[1], 'balanced_inward')
    return v


def is_space(ch):
    return ch in ' \t\xa0\n\r'


def inner(s, a, e):
    while a < e and is_space(s[a]): a += 1
    while e > a and is_space(s[e - 1]): e -= 1
    return (a, e) if a != e else None


def push(res, r):
    if r is None: return
    if (not res or res[-1] != r) and r[0] != r[1]: res.append(r)


def enclosing(items, pos, acc):
    """path of items strictly containing pos, outermost first"""
    for it in items:
        if it['kind'] != 'stmt' and it['start'] < pos < it['end']:
            acc.append(it)
            if it['kind'] == 'rule': enclosing(it['kids'], pos, acc)
            return acc
    return acc


def oracle_C10(case, pos, m, ow, iw):
    s = case['s']; v = []
    path = enclosing(case['truth'], pos, [])
    # ---- match: innermost declaration or rule strictly containing the position
    if path:
        it = path[-1]
        if it['kind'] == 'rule': exp = ('selector', it['start'], it['end'], it['brace'] + 1, it['close'])
        else: exp = ('property', it['start'], it['end'], it['vstart'], it['vend'])
    else: exp = None
    got = None if m is None else (m.type, m.start, m.end, m.body_start, m.body_end)
    if got != exp: v.append('match| match(%d) = %r, innermost enclosing item is %r' % (pos, got, exp))
    # ---- outward: value, declaration, then every enclosing rule (content, full), innermost → outermost
    eo = []
    for it in reversed(path):
        if it['kind'] == 'decl':
            push(eo, (it['vstart'], it['vend'])); push(eo, (it['start'], it['end']))
        else:
            push(eo, inner(s, it['brace'] + 1, it['close'])); push(eo, (it['start'], it['end']))
    if [tuple(r) for r in ow] != eo: v.append('outward| balanced_outward(%d) = %r, expected %r' % (pos, [tuple(r) for r in ow], eo))
    # ---- inward: first item in post-order that contains the position, then its chain of first children
    def post(items):
        for it in items:
            if it['kind'] == 'rule':
                r = post(it['kids'])
                if r is not None: return r
                if it['start'] <= pos <= it['end']: return it
            elif it['kind'] == 'decl' and it['start'] <= pos <= it['vend']: return it
        return None
    it = post(case['truth'])
    ei = []
    if it is not None:
        if it['kind'] == 'decl':
            push(ei, (it['start'], it['end'])); push(ei, (it['vstart'], it['vend']))
        else:
            push(ei, (it['start'], it['end'])); push(ei, inner(s, it['brace'] + 1, it['close']))
            while it['kind'] == 'rule' and it['kids']:
                it = it['kids'][0]
                if it['kind'] == 'stmt': push(ei, (it['start'], it['nend'])); break
                push(ei, (it['start'], it['end']))
                if it['kind'] == 'rule': push(ei, inner(s, it['brace'] + 1, it['close']))
                else: push(ei, inner(s, it['colon'] + 1, it['end'] - 1))
    if [tuple(r) for r in iw] != ei: v.append('inward| balanced_inward(%d) = %r, expected %r' % (pos, [tuple(r) for r in iw], ei))
    return v


HOSTILE_CSS = ['x { width: calc(100% - ', 'a{b:c)}', 'p{q:"never closed', '/* open', 'a{b:url(', 'm{n:o}}}', "t{u:'v\\", 'a{(((']


def run(case, prop):
    from emmet.css_matcher import match, balanced_outward, balanced_inward, scan, split_value
    s = case['s']; viol = []; tags = {'gen:' + case['g']: 1}
    # the matcher was used on half-typed stylesheets before (unbalanced parentheses, open strings / comments): nothing of that may be
    # remembered by later calls
    for junk_src in HOSTILE_CSS:
        try: match(junk_src, len(junk_src) // 2); balanced_outward(junk_src, 3); balanced_inward(junk_src, 1); split_value(junk_src)
        except Exception: pass
    ev = []
    n = len(s)
    try:
        scan(s, lambda t, a, e, d: ev.append((t, a, e, d)))
    except RecursionError: raise
    except Exception as e:
        ev = None; viol.append('raised| scan raised %s' % type(e).__name__)
    if prop == 'C16' and ev is not None:
        for (t, a, e, d) in ev:
            if not (0 <= a <= e <= n): viol.append('bad-range| css scan event %s (%d, %d) violates 0<=start<=end<=%d' % (t, a, e, n))
            if not (d == -1 or 0 <= d < n): viol.append('bad-delimiter| css scan event %s delimiter %d outside {-1} ∪ [0,%d)' % (t, d, n))
    try:
        svr = split_value(s); sv = ' '.join(sr(r) for r in svr)
        if prop == 'C16':
            last = 0
            for r in svr:
                if not (0 <= r[0] < r[1] <= n) or r[0] < last: viol.append('bad-range| split_value token %r not a non-empty in-order range inside 0..%d' % (tuple(r), n))
                last = r[1]
    except RecursionError: raise
    except Exception as e:
        sv = 'EXC ' + type(e).__name__; viol.append('raised| split_value raised %s' % type(e).__name__)
    out = 'E ' + ' '.join('%s:%d:%d:%d' % x for x in (ev or [])) + ' | S ' + sv
    tags['events'] = len(ev or [])
    for pos in range(-1, len(s) + 2):
        try:
            m = match(s, pos); o = balanced_outward(s, pos); i = balanced_inward(s, pos)
            # the lists belong to the caller: it may change them, and asking again gives the same answer
            o_ = [tuple(x) for x in o]; i_ = [tuple(x) for x in i]
            try: o.reverse(); o.append((0, 0)); i.clear()
            except Exception: pass
            o = balanced_outward(s, pos); i = balanced_inward(s, pos)
            if [tuple(x) for x in o] != o_ or [tuple(x) for x in i] != i_: viol.append('repeat| balanced_outward / balanced_inward(%d) answer differently when asked again after the caller changed the first answer' % pos)
            out += ' | %s ; %s ; %s' % ('None' if m is None else '%s:%d:%d:%d:%d' % (m.type, m.start, m.end, m.body_start, m.body_end), ' '.join(sr(x) for x in o), ' '.join(sr(x) for x in i))
            if prop == 'C16': viol += oracle_C16(s, pos, m, o, i)
            elif prop == 'C10' and 0 <= pos <= len(s): viol += oracle_C10(case, pos, m, o, i)
            if m is not None: tags['matched'] = tags.get('matched', 0) + 1
        except RecursionError: raise
        except Exception as e:
            out += ' | EXC %s' % type(e).__name__
            viol.append('raised| css matcher raised %s at position %d' % (type(e).__name__, pos))
    return out, viol[:6], tags


def compare(case, line, ml):
    return line == ml


def nontrivial(case, line):
    return 'selector:' in line.split(' | ')[0] or 'propertyValue:' in line.split(' | ')[0]


def describe(case):
    return {'source': case['s']}
