"""Domain: emmet.math_expression (parse / evaluate / extract). Serves C19."""
import random
from fractions import Fraction as F
from math import floor
from vlib import hx
import gens

MODE = 'math'


# ------------------------------------------------------------------------------------------------- expression trees (spec side)
def gen_expr(rnd, depth, budget):
    """returns (text, value | 'zerodiv', double): value is the exact Fraction ordinary arithmetic assigns on the stratified grammar
    Expr := Term (('+'|'-') Term)*, Term := Fac (('*'|'/') Fac)* | IAtom ('\\' IAtom)*, Fac := sign* Atom, Atom := number | '(' Expr ')';
    double is the same tree evaluated in IEEE doubles (used only to recognise the float-floor gap, known finding F32)"""
    def sp(): return rnd.choice(['', '', '', ' ', '  ', '\t'])

    def number():
        k = rnd.random()
        if k < .55: t = str(rnd.randint(0, 99))
        elif k < .7: t = str(rnd.randint(0, 9999))
        elif k < .85: t = '%d.%d' % (rnd.randint(0, 99), rnd.randint(0, 99))
        else: t = '.%d' % rnd.randint(0, 999)
        return t, F(t if not t.startswith('.') else '0' + t), float(t)

    def atom(d):
        if d > 0 and budget[0] > 0 and rnd.random() < .3:
            budget[0] -= 1
            t, v, f = expr(d - 1)
            return '(' + sp() + t + sp() + ')', v, f
        return number()

    def fac(d):
        signs = ''
        neg = False
        while rnd.random() < .25:
            c = rnd.choice('+-'); signs += c + sp()
            if c == '-': neg = not neg
        t, v, f = atom(d)
        if v != 'zerodiv' and neg: v = -v; f = -f
        return signs + t, v, f

    def intatom(dec):
        if dec and rnd.random() < .6:
            t = rnd.choice(['.1', '.2', '.3', '.5', '.25', '0.1', '0.7', '1.5', '2.5', '.4', '.6', '1.1', '.05', '0.01', '%d.%d' % (rnd.randint(0, 9), rnd.randint(1, 9))])
            return t, F('0' + t if t.startswith('.') else t), float(t)
        n = rnd.randint(0, 50) if rnd.random() < .9 else rnd.randint(0, 100000)
        if rnd.random() < .2: return '-' + sp() + str(n), F(-n), float(-n)
        return str(n), F(n), float(n)

    def term(d):
        if rnd.random() < .25:
            dec = rnd.random() < .4            # integer division between decimal fractions too
            t, v, f = intatom(dec)
            while budget[0] > 0 and rnd.random() < .6:
                budget[0] -= 1
                t2, v2, f2 = intatom(dec)
                t += sp() + '\\' + sp() + t2
                if v != 'zerodiv':
                    if v2 == 0: v = 'zerodiv'
                    else: v = F(floor(v / v2)); f = float(floor(f / f2))
            return t, v, f
        t, v, f = fac(d)
        while budget[0] > 0 and rnd.random() < .45:
            budget[0] -= 1
            op = rnd.choice('*/')
            t2, v2, f2 = fac(d)
            t += sp() + op + sp() + t2
            if v == 'zerodiv' or v2 == 'zerodiv': v = 'zerodiv'
            elif op == '*': v = v * v2; f = f * f2
            elif v2 == 0: v = 'zerodiv'
            else: v = v / v2; f = f / f2
        return t, v, f

    def expr(d):
        t, v, f = term(d)
        while budget[0] > 0 and rnd.random() < .45:
            budget[0] -= 1
            op = rnd.choice('+-')
            t2, v2, f2 = term(d)
            # a binary +/- followed by a Term that starts with a sign is fine: `2--3`
            t += sp() + op + sp() + t2
            if v == 'zerodiv' or v2 == 'zerodiv': v = 'zerodiv'
            else:
                v = v + v2 if op == '+' else v - v2
                f = f + f2 if op == '+' else f - f2
        return t, v, f
    t, v, f = expr(depth)
    return sp() + t, v, f          # no trailing white space: the parser rejects it (as upstream does); the statement does not cover it


def cases(tier, seed, prop):
    rnd = random.Random(seed)
    L = 4 if tier == 'quick' else 5
    out = [{'s': s, 'g': 'exh'} for s in gens.all_strings(gens.MATH_ALPHA, L)]
    n = 16000 if tier == 'quick' else 100000
    for _ in range(n // 2):
        out.append({'s': ''.join(rnd.choice(gens.MATH_ALPHA + ['10', '0', '.5', '(1+2)', '-', 'a', '٣', '()', '(2)', ')(', '(3)(4)', '+()', 'foo', ' = ', 'x', '$', ',', '))', ') )', '1.2.3', '..', '\u00b2', '\u2460', '\u00bd']) for _ in range(rnd.randint(6, 14))), 'g': 'rand'})
    for _ in range(n):
        t, v, f = gen_expr(rnd, 3, [rnd.randint(0, 9)])
        # an evaluation order that divides by zero in a sub-term the spec also flags; mixed outcomes are compared as given
        c = {'s': t, 'g': 'expr', 'val': 'zerodiv' if v == 'zerodiv' else [v.numerator, v.denominator]}
        if v != 'zerodiv' and '\\' in t: c['fval'] = repr(f)
        out.append(c)
    # malformed by construction (the statement: malformed input raises the module's parse error): a valid expression with one defect
    for _ in range(n // 4):
        t, v, f = gen_expr(rnd, 2, [rnd.randint(0, 6)])
        t = t.strip()
        k = rnd.randrange(9)
        nums = list(__import__('re').finditer(r'\d+(?:\.\d+)?|\.\d+', t))
        if k == 0 and nums:
            m = rnd.choice(nums); bad = t[:m.start()] + '()' + t[m.end():]; why = 'an empty pair of parentheses where an operand belongs'
        elif k == 1: bad = t + ')'; why = 'a closing parenthesis that was never opened'
        elif k == 2: bad = '(' + t; why = 'an opening parenthesis that is never closed'
        elif k == 3: bad = t + rnd.choice(['+', '*', '/', ' -', '\\']); why = 'a trailing operator'
        elif k == 4: bad = t + ' ' + rnd.choice(['1', '2.5', '(3)']); why = 'two expressions side by side'
        elif k == 5 and nums:
            m = rnd.choice(nums); bad = t[:m.end()] + rnd.choice([' * /', '/*', ' + *']) + ' 2' + t[m.end():]; why = 'two binary operators in a row'
        elif k == 6: bad = ')' + t + '('; why = 'parentheses the wrong way round'
        elif k == 8:
            t2 = gen_expr(rnd, 1, [rnd.randint(0, 3)])[0].strip(); bad = t + ')' + rnd.choice([' + ', '*', ' - ', '/']) + '(' + t2; why = 'a closing parenthesis before its opening one (totals balanced)'
        else: bad = '(' + t + ')(' + rnd.choice(['2', '1+1']) + ')'; why = 'a group directly after a group'
        if k == 5 and nums and bad.rstrip().endswith(('* / 2', '/* 2', '+ * 2')) is False and False: pass
        out.append({'s': bad, 'g': 'malformed', 'malformed': why})
    for big in ('1' * 400 + '+1', '2*' + '9' * 5000, '1' * 310 + '.5-1'):
        out.append({'s': big, 'g': 'huge-literal', 'nomodel': 1})
    return out


def req(case):
    return hx(case['s']) if case['s'] else ''


def q(v):
    if v != v or v in (float('inf'), float('-inf')): return repr(v)          # a literal beyond the doubles
    f = F(v).limit_denominator(10 ** 9); return '%d/%d' % (f.numerator, f.denominator)


def st(t):
    from emmet.math_expression.parser import TokenType
    if t.type == TokenType.Number: return 'num:%s:%d' % (q(t.value), t.priority)
    if t.type == TokenType.Op1: return 'op1:%d:%d' % (ord(t.value), t.priority)
    if t.type == TokenType.Op2: return 'op2:%d:%d' % (ord(t.value), t.priority)
    return 'null'


def err(e):
    from emmet.math_expression.parser import MathExpressionException
    if isinstance(e, MathExpressionException): return 'math %s' % getattr(e, 'pos', None)
    if isinstance(e, ZeroDivisionError): return 'zerodiv'
    return 'internal %s' % type(e).__name__


ALLOWED = set('0123456789.+-*/\\() \t\xa0\n\r')


def oracle_extract(text, pos, r, la=True, ws=True):
    if r is None: return []
    v = []
    try:
        s, e = r
    except Exception:
        return ['extract-shape| extract returned %r' % (r,)]
    n = len(text)
    if not (isinstance(s, int) and isinstance(e, int) and 0 <= s <= e <= n): return ['extract-range| extract(%r, %d) = %r violates 0<=start<=end<=%d' % (text, pos, r, n)]
    # look-ahead: only when the character at pos is ')': closing parentheses and white space
    exp_end = pos
    if la and pos < n and text[pos] == ')':
        exp_end = pos + 1
        while exp_end < n and (text[exp_end] == ')' or (ws and text[exp_end] in ' \t\xa0\n\r')): exp_end += 1
    if e != exp_end: v.append('extract-end| extract(%r, %d) ends at %d, the look-ahead adjusted position is %d' % (text, pos, e, exp_end))
    seg = text[s:e]
    bad = [c for c in seg if (c not in ALLOWED and not c.isdecimal()) or (not ws and c in ' \t\xa0\n\r')]
    if bad: v.append('extract-chars| extract(%r, %d) = %r contains %r' % (text, pos, seg, bad[0]))
    depth = 0
    for c in seg:
        if c == '(': depth += 1
        elif c == ')':
            depth -= 1
            if depth < 0: break
    if depth != 0: v.append('extract-parens| extract(%r, %d) = %r has unbalanced parentheses' % (text, pos, seg))
    return v


def close(a, b):
    return abs(a - b) <= F(1, 10 ** 9) * max(1, abs(b))


def rpn_values(parse_line):
    """the implementation's RPN evaluated (a) exactly and (b) in IEEE doubles with `\\` = floor of the double quotient, as documented;
    None when it cannot be evaluated (stack underflow, division by zero)"""
    if not parse_line.startswith('ok'): return None
    ex, fl = [], []
    try:
        for tok in parse_line[3:].split():
            k = tok.split(':')
            if k[0] == 'num':
                n, d = k[1].split('/'); q_ = F(int(n), int(d)); ex.append(q_); fl.append(float(q_))
            elif k[0] == 'op1':
                a, b = ex.pop(), fl.pop()
                if int(k[1]) == 45: a, b = -a, -b
                ex.append(a); fl.append(b)
            elif k[0] == 'op2':
                b1, b2 = ex.pop(), fl.pop(); a1, a2 = ex.pop(), fl.pop()
                o = chr(int(k[1]))
                if o == '+': ex.append(a1 + b1); fl.append(a2 + b2)
                elif o == '-': ex.append(a1 - b1); fl.append(a2 - b2)
                elif o == '*': ex.append(a1 * b1); fl.append(a2 * b2)
                elif o == '/': ex.append(a1 / b1); fl.append(a2 / b2)
                elif o == '\\': ex.append(F(floor(a1 / b1))); fl.append(float(floor(a2 / b2)))
                else: return None
            else: return None
        if len(ex) != 1: return None
        return ex[0], F(repr(fl[0]))
    except Exception:
        return None


def run(case, prop):
    from emmet.math_expression import evaluate, extract
    from emmet.math_expression.parser import parse
    s = case['s']; viol = []; tags = {'gen:' + case['g']: 1}
    try: p = 'ok ' + ' '.join(st(t) for t in parse(s))
    except RecursionError: raise
    except Exception as e: p = err(e)
    val = None
    try:
        val = evaluate(s)
        e = 'ok None' if val is None else 'ok ' + repr(float(val))
    except RecursionError: raise
    except Exception as ex:
        e = err(ex)
    if 'malformed' not in case and len(s) < 40:
        import types as _ty
        for pos_ in (len(s), len(s) // 2):
            for opts_ in ({'lookAhead': False}, {'whitespace': False, 'lookAhead': True}):
                try: r1 = extract('a ' + s, pos_ + 2, dict(opts_))
                except Exception as ex1: r1 = 'EXC ' + type(ex1).__name__
                try: r2 = extract('a ' + s, pos_ + 2, _ty.MappingProxyType(dict(opts_)))
                except Exception as ex2: r2 = 'EXC ' + type(ex2).__name__
                if r1 != r2: viol.append('options-type| extract(%r, %d, %r) = %r with a dict, %r with the same options as a read-only mapping' % ('a ' + s, pos_ + 2, opts_, r1, r2)); break
    if e.startswith('ok'):
        try:
            v2 = evaluate(parse(s))
            if v2 != val: viol.append('two-step| evaluate(parse(%r)) = %r, evaluate(%r) = %r' % (s, v2, s, val))
        except RecursionError: raise
        except Exception as ex2: viol.append('two-step| evaluate(parse(%r)) raised %s, evaluate(%r) = %r' % (s, type(ex2).__name__, s, val))
    tags['eval:' + e.split(' ')[0] + ('' if e.startswith('ok') else ' ' + e.split(' ')[0])] = 1
    if e.startswith('internal') or p.startswith('internal'):
        viol.append('internal-error| evaluate/parse raised %s (only the parse error and ZeroDivisionError are allowed)' % (e if e.startswith('internal') else p).split(' ', 1)[1])
    if 'malformed' in case and not e.startswith('math') and not e.startswith('internal'):
        viol.append('accepted-malformed| %r has %s, evaluate gives %s instead of the parse error' % (s, case['malformed'], e))
    if 'val' in case:
        want = case['val']
        if want == 'zerodiv':
            if e != 'zerodiv': viol.append('value| %r: expected ZeroDivisionError, got %s' % (s, e))
        else:
            w = F(want[0], want[1])
            if not e.startswith('ok ') or val is None: viol.append('value| %r: expected %s, got %s' % (s, w, e))
            elif not close(F(repr(float(val))), w):
                fv = F(case['fval']) if case.get('fval') not in (None, 'inf', '-inf', 'nan') else None
                if fv is not None and not close(fv, w) and close(F(repr(float(val))), fv):
                    # the documented tree evaluated in IEEE doubles already differs from exact arithmetic, and that is what came out
                    viol.append('float-floor| %r evaluates to %r, ordinary arithmetic gives %s (the double quotient falls on the other side of an integer)' % (s, val, w))
                else: viol.append('value| %r evaluates to %r, ordinary arithmetic gives %s' % (s, val, w))
    # extract clause: every position of the text
    x = ''
    for la, ws in ((True, True), (True, False), (False, True), (False, False)):
        o = None if (la and ws) else {'lookAhead': la, 'whitespace': ws}
        for pos in range(0, len(s) + 1):
            try:
                r = extract(s, pos, o) if o else extract(s, pos)
                viol += ['%s  [options %r]' % (m, o) if o else m for m in oracle_extract(s, pos, r, la, ws)]
                x += 'N ' if r is None else '%d-%d ' % tuple(r)
                if r is not None: tags['extract:found'] = tags.get('extract:found', 0) + 1
            except RecursionError: raise
            except Exception as ex:
                viol.append('extract-raised| extract(%r, %d, %r) raised %s' % (s, pos, o, type(ex).__name__)); x += 'E '
        x += '/ '
    return p + ' || ' + e + ' || ' + x.rstrip(), viol[:4], tags


def compare(case, line, ml):
    import vlib
    s = case['s']
    if vlib.unmodelled_text(s, case=False): return None
    if any(len(run_) > 15 for run_ in __import__('re').findall(r'[0-9.]+', s)): return None     # beyond exact doubles
    a, b = line.split(' || '), ml.split(' || ')
    if len(a) != 3 or len(b) != 3 or a[0] != b[0] or a[2] != b[2]: return False
    if a[1] == b[1]: return True
    if a[1].startswith('ok ') and b[1].startswith('ok ') and a[1] != 'ok None' and b[1] != 'ok None':
        py = F(a[1][3:]) if a[1][3:] not in ('inf', '-inf', 'nan') else None
        if py is None: return None
        n, d = b[1][3:].split('/'); qv = F(int(n), int(d))
        if close(py, qv): return True
        if '\\' in s:
            # float gap (known finding F32): the implementation's own RPN, evaluated in doubles as documented (floor of the double
            # quotient), already differs from exact arithmetic, and the implementation returned exactly that
            if any(len(run_.split('.')[-1]) > 9 for run_ in __import__('re').findall(r'[0-9]*\.[0-9]+', s)): return None
            rv = rpn_values(a[0])
            if rv is not None and not close(rv[1], rv[0]) and close(py, rv[1]): return None
        return False
    return False


def nontrivial(case, line):
    return line.startswith('ok') and line.count(':') >= 4


def describe(case):
    d = {'expression': case['s']}
    if 'val' in case: d['expected'] = case['val']
    return d
