"""Domain: emmet.math_expression (parse / evaluate / extract). Serves C19."""
import random
from fractions import Fraction as F
from math import floor
from vlib import hx
import gens

MODE = 'math'


# ------------------------------------------------------------------------------------------------- expression trees (spec side)
def gen_expr(rnd, depth, budget):
    """returns (text, value | 'zerodiv'); value is an exact Fraction computed by ordinary arithmetic on the stratified grammar
    Expr := Term (('+'|'-') Term)*, Term := Fac (('*'|'/') Fac)* | Int ('\\' Int)*, Fac := sign* Atom, Atom := number | '(' Expr ')'"""
    def sp(): return rnd.choice(['', '', '', ' ', '  ', '\t'])

    def number():
        k = rnd.random()
        if k < .55: t = str(rnd.randint(0, 99))
        elif k < .7: t = str(rnd.randint(0, 9999))
        elif k < .85: t = '%d.%d' % (rnd.randint(0, 99), rnd.randint(0, 99))
        else: t = '.%d' % rnd.randint(0, 999)
        return t, F(t if not t.startswith('.') else '0' + t)

    def atom(d):
        if d > 0 and budget[0] > 0 and rnd.random() < .3:
            budget[0] -= 1
            t, v = expr(d - 1)
            return '(' + sp() + t + sp() + ')', v
        return number()

    def fac(d):
        signs = ''
        neg = False
        while rnd.random() < .25:
            c = rnd.choice('+-'); signs += c + sp()
            if c == '-': neg = not neg
        t, v = atom(d)
        if v != 'zerodiv' and neg: v = -v
        return signs + t, v

    def intatom():
        n = rnd.randint(0, 50) if rnd.random() < .9 else rnd.randint(0, 100000)
        if rnd.random() < .2: return '-' + sp() + str(n), F(-n)
        return str(n), F(n)

    def term(d):
        if rnd.random() < .2:
            t, v = intatom()
            while budget[0] > 0 and rnd.random() < .6:
                budget[0] -= 1
                t2, v2 = intatom()
                t += sp() + '\\' + sp() + t2
                if v != 'zerodiv': v = 'zerodiv' if v2 == 0 else F(floor(v / v2))
            return t, v
        t, v = fac(d)
        while budget[0] > 0 and rnd.random() < .45:
            budget[0] -= 1
            op = rnd.choice('*/')
            t2, v2 = fac(d)
            t += sp() + op + sp() + t2
            if v == 'zerodiv' or v2 == 'zerodiv': v = 'zerodiv'
            elif op == '*': v = v * v2
            elif v2 == 0: v = 'zerodiv'
            else: v = v / v2
        return t, v

    def expr(d):
        t, v = term(d)
        while budget[0] > 0 and rnd.random() < .45:
            budget[0] -= 1
            op = rnd.choice('+-')
            t2, v2 = term(d)
            # a binary +/- followed by a Term that starts with a sign is fine: `2--3`
            t += sp() + op + sp() + t2
            if v == 'zerodiv' or v2 == 'zerodiv': v = 'zerodiv'
            else: v = v + v2 if op == '+' else v - v2
        return t, v
    t, v = expr(depth)
    return sp() + t, v          # no trailing white space: the parser rejects it (as upstream does); the statement does not cover it


def cases(tier, seed, prop):
    rnd = random.Random(seed)
    L = 4 if tier == 'quick' else 5
    out = [{'s': s, 'g': 'exh'} for s in gens.all_strings(gens.MATH_ALPHA, L)]
    n = 8000 if tier == 'quick' else 100000
    for _ in range(n // 2):
        out.append({'s': ''.join(rnd.choice(gens.MATH_ALPHA + ['10', '0', '.5', '(1+2)', '-', 'a', '٣']) for _ in range(rnd.randint(6, 14))), 'g': 'rand'})
    for _ in range(n):
        t, v = gen_expr(rnd, 3, [rnd.randint(0, 9)])
        # an evaluation order that divides by zero in a sub-term the spec also flags; mixed outcomes are compared as given
        out.append({'s': t, 'g': 'expr', 'val': 'zerodiv' if v == 'zerodiv' else [v.numerator, v.denominator]})
    return out


def req(case):
    return hx(case['s']) if case['s'] else ''


def q(v):
    f = F(v).limit_denominator(10 ** 9); return '%d/%d' % (f.numerator, f.denominator)


def st(t):
    from emmet.math_expression.parser import TokenType
    if t.type == TokenType.Number: return 'num:%s:%d' % (q(t.value), t.priority)
    if t.type == TokenType.Op1: return 'op1:%d:%d' % (ord(t.value), t.priority)
    if t.type == TokenType.Op2: return 'op2:%d:%d' % (ord(t.value), t.priority)
    return 'null'


def err(e):
    from emmet.math_expression.parser import MathExpressionException
    if isinstance(e, MathExpressionException): return 'math %s' % getattr(e, 'pos', None)
    if isinstance(e, ZeroDivisionError): return 'zerodiv'
    return 'internal %s' % type(e).__name__


ALLOWED = set('0123456789.+-*/\\() \t\xa0\n\r')


def oracle_extract(text, pos, r):
    if r is None: return []
    v = []
    try:
        s, e = r
    except Exception:
        return ['extract-shape| extract returned %r' % (r,)]
    n = len(text)
    if not (isinstance(s, int) and isinstance(e, int) and 0 <= s <= e <= n): return ['extract-range| extract(%r, %d) = %r violates 0<=start<=end<=%d' % (text, pos, r, n)]
    # look-ahead: only when the character at pos is ')': closing parentheses and white space
    exp_end = pos
    if pos < n and text[pos] == ')':
        exp_end = pos + 1
        while exp_end < n and (text[exp_end] == ')' or text[exp_end] in ' \t\xa0\n\r'): exp_end += 1
    if e != exp_end: v.append('extract-end| extract(%r, %d) ends at %d, the look-ahead adjusted position is %d' % (text, pos, e, exp_end))
    seg = text[s:e]
    bad = [c for c in seg if c not in ALLOWED and not c.isdecimal()]
    if bad: v.append('extract-chars| extract(%r, %d) = %r contains %r' % (text, pos, seg, bad[0]))
    depth = 0
    for c in seg:
        if c == '(': depth += 1
        elif c == ')':
            depth -= 1
            if depth < 0: break
    if depth != 0: v.append('extract-parens| extract(%r, %d) = %r has unbalanced parentheses' % (text, pos, seg))
    return v


def run(case, prop):
    from emmet.math_expression import evaluate, extract
    from emmet.math_expression.parser import parse
    s = case['s']; viol = []; tags = {'gen:' + case['g']: 1}
    try: p = 'ok ' + ' '.join(st(t) for t in parse(s))
    except RecursionError: raise
    except Exception as e: p = err(e)
    val = None
    try:
        val = evaluate(s)
        e = 'ok None' if val is None else 'ok ' + repr(float(val))
    except RecursionError: raise
    except Exception as ex:
        e = err(ex)
    tags['eval:' + e.split(' ')[0] + ('' if e.startswith('ok') else ' ' + e.split(' ')[0])] = 1
    if e.startswith('internal') or p.startswith('internal'):
        viol.append('internal-error| evaluate/parse raised %s (only the parse error and ZeroDivisionError are allowed)' % (e if e.startswith('internal') else p).split(' ', 1)[1])
    if 'val' in case:
        want = case['val']
        if want == 'zerodiv':
            if e != 'zerodiv': viol.append('value| %r: expected ZeroDivisionError, got %s' % (s, e))
        else:
            w = F(want[0], want[1])
            if not e.startswith('ok ') or val is None: viol.append('value| %r: expected %s, got %s' % (s, w, e))
            elif abs(F(repr(float(val))) - w) > F(1, 10 ** 9) * max(1, abs(w)): viol.append('value| %r evaluates to %r, ordinary arithmetic gives %s' % (s, val, w))
    # extract clause: every position of the text
    for pos in range(0, len(s) + 1):
        try:
            r = extract(s, pos)
            viol += oracle_extract(s, pos, r)
        except RecursionError: raise
        except Exception as ex:
            viol.append('extract-raised| extract(%r, %d) raised %s' % (s, pos, type(ex).__name__))
    return p + ' || ' + e, viol[:4], tags


def compare(case, line, ml):
    import vlib
    s = case['s']
    if vlib.unmodelled_text(s, case=False): return None
    if any(len(run_) > 15 for run_ in __import__('re').findall(r'[0-9.]+', s)): return None     # beyond exact doubles
    a, b = line.split(' || '), ml.split(' || ')
    if len(a) != 2 or len(b) != 2 or a[0] != b[0]: return False
    if a[1] == b[1]: return True
    if a[1].startswith('ok ') and b[1].startswith('ok ') and a[1] != 'ok None' and b[1] != 'ok None':
        py = F(a[1][3:]) if a[1][3:] not in ('inf', '-inf', 'nan') else None
        if py is None: return None
        n, d = b[1][3:].split('/'); qv = F(int(n), int(d))
        if abs(py - qv) <= F(1, 10 ** 9) * max(1, abs(qv)): return True
        if '\\' in s and abs(abs(py - qv) - 1) < F(1, 10 ** 6): return None      # floor of a double quotient just below/above an integer (float gap, DESIGN §8)
        return False
    return False


def nontrivial(case, line):
    return line.startswith('ok') and line.count(':') >= 4


def describe(case):
    d = {'expression': case['s']}
    if 'val' in case: d['expected'] = case['val']
    return d
