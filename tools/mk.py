"""Markup kit: typed abbreviation ASTs with their denotation (spec side, written from the property text), a printer, and a
reader for the HTML the formatter emits.  Used by the markup oracles (C01-C04, C12-C15)."""
import re

VOID = ['br', 'img', 'input', 'hr']                     # names whose built-in snippet ends in `/` (self-closing)
PLAIN = ['div', 'p', 'span', 'ul', 'ol', 'li', 'table', 'tbody', 'thead', 'tr', 'td', 'select', 'optgroup', 'option', 'em', 'strong', 'b', 'i',
         'section', 'h1', 'x', 'nav', 'header', 'article', 'foo-bar', 'ns:tag']
INLINE = None    # filled from the live config by callers that need it
# the documented default list of inline-level elements (pinned copy: a changed DEFAULT table must not move the oracle with it)
INLINE_DOC = ['a', 'abbr', 'acronym', 'applet', 'b', 'basefont', 'bdo', 'big', 'br', 'button', 'cite', 'code', 'del', 'dfn', 'em', 'font', 'i', 'iframe', 'img', 'input', 'ins',
              'kbd', 'label', 'map', 'object', 'q', 's', 'samp', 'select', 'small', 'span', 'strike', 'strong', 'sub', 'sup', 'textarea', 'tt', 'u', 'var']


# ------------------------------------------------------------------------------------------------- generation
def gen_elem(rnd, opt):
    """opt: dict of probabilities / pools: names, p_noname, p_id, p_class, p_attr, p_text, p_rep, attr_pool, text_pool, num (numbering forms)"""
    e = {'k': 'elem', 'name': None, 'mentions': [], 'text': None, 'rep': None, 'slash': False}
    num = opt.get('num', 0)

    def numtok():
        w = rnd.choice([1, 1, 2, 3]); t = '$' * w
        k = rnd.random()
        if k < .5: return t
        if k < .7: return t + '@' + str(rnd.choice([0, 2, 3, 10, 98, 999]))
        if k < .85: return t + '@-'
        return t + '@-' + str(rnd.choice([0, 2, 5]))
    if rnd.random() >= opt.get('p_noname', .1):
        e['name'] = rnd.choice(opt['names'])
        if num and rnd.random() < num * .4 and e['name'] not in VOID: e['name'] = rnd.choice(['h', 'item', 'x-', 'Item', 'Box', 'My-']) + numtok()
    k = rnd.random()
    if e['name'] is None or k < opt.get('p_class', .3):
        for _ in range(rnd.choice([1, 1, 2])):
            c = rnd.choice(['a', 'b', 'c1', 'item', 'x-y'])
            if num and rnd.random() < num: c += numtok()
            e['mentions'].append(('class', c))
    if rnd.random() < opt.get('p_id', .15):
        e['mentions'].append(('id', rnd.choice(['i', 'main', 'n']) + (numtok() if num and rnd.random() < num else '')))
    if rnd.random() < opt.get('p_attr', .2):
        for _ in range(rnd.choice([1, 1, 2, 3])):
            m = list(rnd.choice(opt['attr_pool']))
            if num and m[0] == 'attr' and m[2] is not None and rnd.random() < num: m[2] = m[2] + numtok()
            e['mentions'].append(tuple(m))
        rnd.shuffle(e['mentions'])
    if opt.get('p_class2') and rnd.random() < opt['p_class2']:
        # `..name`: the class attribute in its "multiple" form (styleName={styles.name} in jsx, :class in vue); the only class mention
        e['mentions'] = [m for m in e['mentions'] if not (m[0] == 'class' or (m[0] == 'attr' and m[1] == 'class'))]
        e['mentions'].insert(rnd.randint(0, len(e['mentions'])), ('class2', rnd.choice(['foo', 'a-b', 'x1', 'for'])))
    if rnd.random() < opt.get('p_text', .15) and e['name'] not in VOID:
        t = rnd.choice(opt['text_pool'])
        if num and rnd.random() < num: t = t + ' ' + numtok()
        e['text'] = t
    if rnd.random() < opt.get('p_rep', .2): e['rep'] = rnd.randint(1, opt.get('max_rep', 3))
    return e


def gen_seq(rnd, opt, budget, depth):
    """Seq = list of [item, op]; op in '>', '+', '^', '^^', ... , None for the last"""
    seq = []
    while True:
        budget[0] -= 1
        if depth > 0 and rnd.random() < opt.get('p_group', .2):
            item = {'k': 'group', 'body': gen_seq(rnd, opt, budget, depth - 1), 'rep': rnd.randint(1, opt.get('max_rep', 3)) if rnd.random() < opt.get('p_grep', .4) else None}
        else:
            item = gen_elem(rnd, opt)
        if budget[0] <= 0 or rnd.random() < opt.get('p_stop', .25):
            seq.append([item, None]); return seq
        k = rnd.random()
        if item['k'] == 'elem' and not item['slash'] and k < opt.get('p_child', .45) and (item['name'] not in VOID or rnd.random() < opt.get('p_void_child', 0)): op = '>'
        elif k < .85: op = '+'
        else: op = '^' * rnd.choice([1, 1, 2, 3])
        seq.append([item, op])


# ------------------------------------------------------------------------------------------------- printing
def print_mention(m):
    if m[0] == 'class': return '.' + m[1]
    if m[0] == 'id': return '#' + m[1]
    if m[0] == 'class2': return '..' + m[1]
    return None


SEP = []         # attribute separator used by print_attrset (a one-element list set by the caller; default blank)


def print_attrset(ms):
    parts = []
    for m in ms:
        kind = m[0]
        if kind == 'attr':
            _, n, v, q = m
            if v is None: parts.append(n)
            elif q == 'raw': parts.append('%s=%s' % (n, v))
            elif q == 'dq': parts.append('%s="%s"' % (n, v))
            elif q == 'sq': parts.append("%s='%s'" % (n, v))
            elif q == 'expr': parts.append('%s={%s}' % (n, v))
        elif kind == 'bool': parts.append(m[1] + '.')
        elif kind == 'implied': parts.append('!' + m[1] + ('' if m[2] is None else '=' + m[2]))
        elif kind == 'implbool': parts.append('!' + m[1] + '.' + ('' if m[2] is None else '=' + m[2]))
    return '[' + (SEP[0] if SEP else ' ').join(parts) + ']'


def print_elem(e):
    s = e['name'] or ''
    run = []
    for m in e['mentions']:
        if m[0] in ('class', 'id', 'class2'):
            if run: s += print_attrset(run); run = []
            s += print_mention(m)
        else: run.append(m)
    if run: s += print_attrset(run)
    if e['text'] is not None: s += '{' + e['text'] + '}'
    if e['rep'] is not None: s += '*%d' % e['rep']
    if e['slash']: s += '/'
    return s


def print_seq(seq):
    out = ''
    for item, op in seq:
        if item['k'] == 'group': out += '(' + print_seq(item['body']) + ')' + ('*%d' % item['rep'] if item['rep'] is not None else '')
        else: out += print_elem(item)
        out += op or ''
    return out


# ------------------------------------------------------------------------------------------------- denotation (C01 statement)
def levels(seq, i=0):
    """levels[0] = what lands at the current level, levels[k] = what lands k levels up"""
    item, op = seq[i]
    node = dict(item)
    if node['k'] == 'group': node['content'] = flat(node['body'])
    else: node.setdefault('kids', [])
    if i == len(seq) - 1: return [[node]]
    L = levels(seq, i + 1)
    if op == '>':
        node['kids'] = L[0]
        return [[node] + (L[1] if len(L) > 1 else [])] + L[2:]
    if op == '+': return [[node] + L[0]] + L[1:]
    k = len(op)
    return [[node]] + [[] for _ in range(k - 1)] + L


def flat(seq):
    """at the top level and inside a group `^` stops: everything lands at this level"""
    return [n for lvl in levels(seq) for n in lvl]


NUM_RE = re.compile(r'(\$+)(?![{#$])(?:@(-?)(\d*))?')      # a `$`-run that is not the start of a field `${` or of `$#`


def number(s, counter):
    """replace every $-run by the counter; counter = (i, N) of the nearest repeater (1-based i) or None"""
    if s is None: return None

    def sub(m):
        w = len(m.group(1)); rev = m.group(2) == '-'; base = int(m.group(3)) if m.group(3) else 1
        if counter is None: v = 1
        else:
            i, n = counter
            v = base + n - i if rev else base + i - 1
        return str(v).rjust(w, '0')
    return NUM_RE.sub(sub, s)


def unroll(forest, counter=None, budget=None):
    """N consecutive copies of every repeated element / group; $-runs replaced by the counter of the nearest repeated element or
    group containing the place (the element itself included). `budget` = [remaining maxRepeat] or None: copies are completed in
    document order until the budget is used up; from then on every repeater yields just one copy."""
    out = []
    for node in forest:
        n = node.get('rep')
        copies = n if n else 1
        i = 0
        while i < copies:
            c = (i + 1, copies) if n else counter
            if node['k'] == 'group':
                out += unroll(node['content'], c, budget)
            else:
                el = {'name': number(node['name'], c), 'mentions': [tuple(number(x, c) if isinstance(x, str) and j > 0 else x for j, x in enumerate(m)) for m in node['mentions']],
                      'text': number(node['text'], c), 'slash': node['slash'], 'kids': unroll(node.get('kids', []), c, budget)}
                out.append(el)
            if n and budget is not None:
                budget[0] -= 1
                if budget[0] <= 0: break
            i += 1
    return out


# ------------------------------------------------------------------------------------------------- aliases (user snippets)
# definitions of the user snippets used by the C01 / C02 alias cases, with the tree each one denotes ('K' = where the children written on
# the alias go: the deepest last element)
ALIAS_SNIPPETS = {'card': 'div>section', 'wrap': 'section>article>div', 'pair2': 'dl>dt+dd', 'solo': 'aside', 'note': '{Note:}'}
ALIAS_TREES = {'card': ('div', [('section', ['K'])]), 'wrap': ('section', [('article', [('div', ['K'])])]), 'pair2': ('dl', [('dt', []), ('dd', ['K'])]), 'solo': ('aside', ['K']), 'note': (None, ['K'])}


def apply_alias(forest, table=ALIAS_TREES):
    """an alias expands like its definition: what is written on the alias (attributes, text) goes to the top-level element of the
    definition, its children into the deepest last element"""
    def build(d, el, kids, top):
        name, ch = d
        node = {'name': name, 'mentions': list(el['mentions']) if top else [], 'text': (el['text'] if top else None) if name else 'Note:', 'slash': False, 'kids': []}
        for c in ch:
            if c == 'K': node['kids'] += kids
            else: node['kids'].append(build(c, el, kids, False))
        return node
    out = []
    for el in forest:
        kids = apply_alias(el['kids'], table)
        if el['name'] in table: out.append(build(table[el['name']], el, kids, True))
        else: out.append(dict(el, kids=kids))
    return out


IMPLICIT = {'ul': 'li', 'ol': 'li', 'table': 'tr', 'tbody': 'tr', 'thead': 'tr', 'tfoot': 'tr', 'tr': 'td', 'select': 'option', 'optgroup': 'option'}


def implicit_names(forest, parent, inline):
    """an element written with attributes but no name gets the documented implicit name for its parent"""
    for el in forest:
        if not el['name'] and not el['mentions'] and el['text'] is not None:
            implicit_names(el['kids'], None, inline)      # children of a text node (possible through an alias only): their parent has no name, hence `div`
            continue                                   # a text-only node `{text}` is not an element and gets no name
        if not el['name']:
            p = (parent or '').lower()
            if p in IMPLICIT: el['name'] = IMPLICIT[p]
            elif p == 'p' or p in inline: el['name'] = 'span'
            else: el['name'] = 'div'
        implicit_names(el['kids'], el['name'], inline)
    return forest


def tag_sequence(forest, void=VOID):
    seq = []
    for el in forest:
        if not el['name']:
            seq += tag_sequence(el['kids'], void); continue
        seq.append(('open', el['name'].lower()))
        if (el['name'].lower() in void or el['slash']) and not el['kids']: continue       # a self-closing element that was given children is written as a pair
        seq += tag_sequence(el['kids'], void)
        seq.append(('close', el['name'].lower()))
    return seq


# ------------------------------------------------------------------------------------------------- reading formatter output
TAG_RE = re.compile(r'<(/?)([A-Za-z][^\s/>]*)((?:[^>"\'{}]|"[^"]*"|\'[^\']*\'|\{[^}]*\})*?)(\s*/?)>')
ATTR_RE = re.compile(r'\s+([^\s=/>]+)(?:=("[^"]*"|\'[^\']*\'|\{[^}]*\}|[^\s>]*))?')
FIELD_RE = re.compile(r'\$\{(\d+)(?::([^}]*))?\}')


def strip_fields(s):
    return FIELD_RE.sub(lambda m: m.group(2) or '', s)


def read_html(out):
    """token list of the formatter output: ('open', name, attrs, selfclosed) / ('close', name) / ('text', s)
    attrs = list of (name, quote-kind, value) with quote-kind in dq sq expr none"""
    toks = []; pos = 0
    for m in TAG_RE.finditer(out):
        if m.start() > pos:
            t = out[pos:m.start()]
            if t.strip(): toks.append(('text', t))
        pos = m.end()
        if m.group(1): toks.append(('close', m.group(2)))
        else:
            attrs = []
            for a in ATTR_RE.finditer(m.group(3)):
                v = a.group(2)
                if v is None: attrs.append((a.group(1), 'none', None))
                elif v[:1] == '"': attrs.append((a.group(1), 'dq', v[1:-1]))
                elif v[:1] == "'": attrs.append((a.group(1), 'sq', v[1:-1]))
                elif v[:1] == '{': attrs.append((a.group(1), 'expr', v[1:-1]))
                else: attrs.append((a.group(1), 'raw', v))
            toks.append(('open', m.group(2), attrs, '/' in m.group(4)))
    if pos < len(out) and out[pos:].strip(): toks.append(('text', out[pos:]))
    return toks
