"""debug helper: dbg.py <domain> <prop> <tier> [seed] — runs impl+oracle and correspondence, prints first differences"""
import sys, collections, time
sys.path.insert(0,'/verif/tools')
import vlib, importlib
domname, prop, tier = sys.argv[1:4]; seed=int(sys.argv[4]) if len(sys.argv)>4 else 0
dom=importlib.import_module(domname)
t=time.time(); cases=dom.cases(tier,seed,prop); print(len(cases),'cases gen %.1fs'%(time.time()-t))
t=time.time(); res=vlib.run_impl(domname,prop,cases); print('impl %.1fs'%(time.time()-t))
t=time.time(); ml=vlib.run_driver(dom.MODE,[dom.req(c) for c in cases]); print('model %.1fs'%(time.time()-t))
n=0; vk=collections.Counter(); um=0
for c,r,m in zip(cases,res,ml):
    same = vlib.compare_alternatives(dom, c, r[0], m)
    if same is None: um+=1
    elif not same:
        n+=1
        if n<=int(sys.argv[5]) if len(sys.argv)>5 else n<=5:
            print('MISMATCH',dom.describe(c)); 
            a=r[0]; 
            i=next((k for k in range(min(len(a),len(m))) if a[k]!=m[k]),min(len(a),len(m)))
            print('  py  ...',a[max(0,i-80):i+120]); print('  lean...',m[max(0,i-80):i+120])
    for v in r[1]:
        k=v.split('|')[0]; vk[k]+=1
        if vk[k]<=3: print('VIOL',dom.describe(c),v)
print('mismatches',n,'unmodelled',um,'violations',dict(vk))
tg=collections.Counter()
for r in res:
    for k,v in r[2].items(): tg[k]+=v
print(dict(tg))
