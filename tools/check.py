"""Entry point of every check:  check.py Cxx [--tier quick|thorough] [--replay FILE]

Verdict flow (DESIGN §1.1): regenerate tables from /repo → lake build + axiom audit of the property's theorems →
correspondence (real code vs. model driver on the same inputs) + the property's oracle evaluated on the
implementation's outcome → decision.  Exit 0 = held on everything explored; exit 1 + VIOLATION line; exit 2 =
infrastructure failure (never a VIOLATION)."""
import os, sys, json, time, random, importlib, collections, traceback
sys.path.insert(0, os.path.dirname(os.path.abspath(__file__)))
sys.dont_write_bytecode = True
import vlib
from vlib import Infra
import props as PROPS
import findings as FINDINGS

MAX_REPORT = 5


def log(*a):
    print(*a, flush=True)


def shrink(dom, domname, prop, case, viol_key):
    """greedy character-level minimisation for cases with a string payload under key 's'"""
    if 's' not in case or not isinstance(case['s'], str) or not set(case) <= {'s', 'g', 'c'} or viol_key == 'no-result':
        return case          # cases that carry an expectation derived from the input (ground truth, expected value) are not shrunk
    cur = dict(case)
    for _ in range(12):
        s = cur['s']
        cands = []
        for n in (max(1, len(s) // 2), max(1, len(s) // 4), 1):
            for i in range(0, len(s), n):
                t = s[:i] + s[i + n:]
                if t != s: cands.append(dict(cur, s=t))
        if not cands: break
        cands = cands[:400]
        res = vlib.run_impl(domname, prop, cands)
        better = None
        for c, (line, viol, tags) in zip(cands, res):
            if any(FINDINGS.key_of(v) == viol_key for v in viol):
                if better is None or len(c['s']) < len(better['s']): better = c
        if better is None: break
        cur = better
    return cur


def main():
    args = sys.argv[1:]
    if not args or args[0] not in PROPS.PROPS:
        print('usage: check.py Cxx [--tier quick|thorough] [--replay FILE]'); return 2
    prop = args[0]
    tier = os.environ.get('VERIF_TIER', 'quick')
    replay = None
    i = 1
    while i < len(args):
        if args[i] == '--tier': tier = args[i + 1]; i += 2
        elif args[i] == '--replay': replay = args[i + 1]; i += 2
        else: print('unknown argument', args[i]); return 2
    if tier not in ('quick', 'thorough'): print('bad tier'); return 2
    seed = int(os.environ.get('VERIF_SEED', '0'))
    P = PROPS.PROPS[prop]
    t0 = time.time()
    broken = []          # things that no longer check: theorem names, translator items, 'correspondence:<domain>'
    notes = []

    # ---- 1. regenerate + 2. build + audit ------------------------------------------------------------------
    lock = vlib._lock()
    try:
        ok, msg = vlib.translate()
        log('[%s] %s' % (prop, msg.splitlines()[-1] if msg else 'translate: (no output)'))
        if not ok:
            broken.append({'kind': 'translator', 'detail': msg[-2000:]})
        targets = ['driver'] + P['lean_targets']
        try:
            okb, failing, blog = vlib.lake_build(targets)
        except FileNotFoundError:
            raise Infra('lake not found')
        if not okb:
            log('[%s] lake build failed for: %s' % (prop, ', '.join(failing) or '?'))
            errs = [l for l in blog.splitlines() if l.startswith('error')][:20]
            broken.append({'kind': 'build', 'modules': failing, 'detail': errs})
        names = [t['name'] for t in P['theorems']]
        ax, alog = vlib.audit(names, P['lean_imports']) if okb else ({n: None for n in names}, '')
        if not okb:
            # theorems in modules that still build are still audited individually
            good_imports = [m for m in P['lean_imports'] if m not in failing]
            if good_imports:
                try: ax, alog = vlib.audit(names, good_imports)
                except Exception: pass
        bad_words = vlib.forbidden_grep()
    finally:
        lock.close()
    # run-time evaluated links between theorem statements and the model (driver mode `selfcheck`)
    if P.get('selfcheck'):
        import subprocess
        try:
            r = subprocess.run([vlib.DRIVER, 'selfcheck'], capture_output=True, text=True, timeout=600)
            got = dict(l.split(' ', 1) for l in r.stdout.strip().splitlines() if ' ' in l)
        except Exception as e:
            got = {}
        for name in P['selfcheck']:
            if got.get(name) != 'true':
                broken.append({'kind': 'selfcheck', 'name': name, 'value': got.get(name)})
    discharged = 0
    thm_report = []
    for t in P['theorems']:
        a = ax.get(t['name'])
        good = a is not None and set(a) <= vlib.ACCEPTED_AXIOMS
        thm_report.append({'theorem': t['name'], 'clause': t['clause'], 'partial': t.get('partial', False), 'axioms': a, 'checked': good})
        if good: discharged += 1
        else: broken.append({'kind': 'theorem', 'name': t['name'], 'axioms': a})
    if bad_words:
        broken.append({'kind': 'forbidden-construct', 'detail': bad_words[:20]})
    log('[%s] theorems: %d/%d checked, axioms within %s' % (prop, discharged, len(names), sorted(vlib.ACCEPTED_AXIOMS)))

    # ---- replay mode ---------------------------------------------------------------------------------------
    if replay:
        R = json.load(open(replay))
        if R.get('kind') != 'concrete':
            log('replay names what no longer checks: %s' % json.dumps(R.get('broken'))[:2000])
            return 1 if broken else 0
        domname = R['domain']; dom = importlib.import_module(domname)
        res = vlib.run_impl(domname, prop, [R['case']])
        line, viol, tags = res[0]
        ml = vlib.run_driver(dom.MODE, [dom.req(R['case'])], shards=1)[0] if os.path.exists(vlib.DRIVER) else None
        log('case: %s' % json.dumps(dom.describe(R['case']), ensure_ascii=True))
        log('implementation: %s' % line[:2000]); log('model:          %s' % (ml[:2000] if ml is not None else '(driver not built)'))
        log('oracle: %s' % (viol or 'holds'))
        if viol:
            log('VIOLATION property=%s replay=%s' % (prop, replay)); return 1
        return 0

    # ---- 3. correspondence + oracle on the implementation -------------------------------------------------------
    have_driver = os.path.exists(vlib.DRIVER) and not any(b_['kind'] == 'build' and ('driver' in b_['modules'] or any(m.startswith('Emmet.') or m == 'Main' for m in b_['modules'])) for b_ in broken)
    known = [f for f in vlib.load_findings() if f['property'] == prop and f['status'] == 'known']
    totals = collections.Counter(); tags_total = collections.Counter()
    samples = []; mismatches = []; violations = []   # violations: (domname, case, [msgs])
    nontrivial_seen = set()
    per_domain = {}

    def explore(domname, tier_, seed_, extra_cases=None):
        dom = importlib.import_module(domname)
        cases = extra_cases if extra_cases is not None else dom.cases(tier_, seed_, prop)
        corpus = FINDINGS.corpus_cases(prop, domname) if extra_cases is None else []
        cases = corpus + cases
        t1 = time.time()
        res = vlib.run_impl(domname, prop, cases)
        t2 = time.time()
        harness_exc = [r[0] for r in res if r[0].startswith('HARNESS-EXC')]
        if harness_exc: raise Infra('harness exception in %s: %s' % (domname, harness_exc[0]))
        mlines = None
        if have_driver:
            mlines = vlib.run_driver(dom.MODE, [dom.req(c) for c in cases])
        t3 = time.time()
        st = per_domain.setdefault(domname, collections.Counter())
        st['impl_s'] += round(t2 - t1, 1); st['model_s'] += round(t3 - t2, 1)
        for k, (c, (line, viol, tags)) in enumerate(zip(cases, res)):
            st['evaluations'] += 1; totals['evaluations'] += 1
            for tg, n in tags.items(): tags_total[domname + ':' + tg] += n
            if line == 'RECURSION':
                st['recursion_skipped'] += 1; continue
            if mlines is not None:
                ml = mlines[k]
                same = vlib.compare_alternatives(dom, c, line, ml)
                if ' ~~ ' in ml: st['tied_fuzzy_scores'] = st.get('tied_fuzzy_scores', 0) + 1
                if same is None:
                    st['unmodelled'] += 1
                elif not same:
                    st['mismatch'] += 1
                    if len(mismatches) < 50: mismatches.append((domname, c, line, ml))
                else:
                    st['agree'] += 1
            if viol:
                st['oracle_fail'] += 1
                violations.append((domname, c, viol))
            try:
                if dom.nontrivial(c, line):
                    nontrivial_seen.add((domname, dom.req(c)))
            except Exception:
                pass
            if len(samples) < 6 and k % max(1, len(cases) // 6) == 0:
                samples.append({'domain': domname, 'case': dom.describe(c), 'implementation': line[:300]})
        return cases

    for domname in P['domains']:
        explore(domname, tier, seed)
    log('[%s] explored %d cases; per domain: %s' % (prop, totals['evaluations'], {d: dict(c) for d, c in per_domain.items()}))

    if mismatches:
        broken.append({'kind': 'correspondence', 'count': sum(c['mismatch'] for c in per_domain.values()),
                       'first': [{'domain': d, 'case': importlib.import_module(d).describe(c), 'implementation': l[:1500], 'model': m[:1500]} for d, c, l, m in mismatches[:3]]})

    # ---- 4. decision --------------------------------------------------------------------------------------------
    def attribute(violations):
        new = []; known_hits = collections.OrderedDict()
        for domname, c, viol in violations:
            dom = importlib.import_module(domname)
            for v in viol:
                f = FINDINGS.attribute(known, prop, domname, dom, c, v)
                if f is None: new.append((domname, c, v))
                else: known_hits.setdefault(f['id'], []).append((domname, c, v))
        return new, known_hits

    new, known_hits = attribute(violations)

    if broken and not new:
        # failing-input search: the proof no longer covers the code; look harder for a concrete failure
        log('[%s] proof/tie broken (%s): searching for a failing input with an enlarged budget' % (prop, ', '.join(sorted({b_['kind'] for b_ in broken}))))
        mult = 8 if tier == 'quick' else 4
        have_driver_saved = have_driver
        for r in range(mult):
            if new or time.time() - t0 > (900 if tier == 'quick' else 3000): break
            violations2_start = len(violations)
            for domname in P['domains']:
                dom = importlib.import_module(domname)
                extra = None
                mm = [c for d, c, l, m in mismatches if d == domname]
                if mm and hasattr(dom, 'neighbours'):
                    rnd = random.Random(seed * 1000 + r)
                    extra = [n for c in mm for n in dom.neighbours(rnd, c, 200)]
                    explore(domname, tier, seed, extra_cases=extra)
                explore(domname, 'thorough' if r == 0 and tier == 'quick' else tier, seed + 7919 * (r + 1))
            n2, k2 = attribute(violations[violations2_start:])
            new += n2
            for k, v in k2.items(): known_hits.setdefault(k, []).extend(v)

    for fid, hits in known_hits.items():
        f = [x for x in known if x['id'] == fid][0]
        log('KNOWN-FINDING: property=%s %s [%s; %d case(s) this run]' % (prop, f['what'], fid, len(hits)))

    rc = 0
    replay_files = []
    if new:
        # group by violation key, minimise one representative of each group
        groups = collections.OrderedDict()
        for domname, c, v in new:
            groups.setdefault((domname, FINDINGS.key_of(v)), []).append((c, v))
        for (domname, key), lst in list(groups.items())[:MAX_REPORT]:
            dom = importlib.import_module(domname)
            c, v = min(lst, key=lambda cv: len(json.dumps(cv[0], default=str)))
            try: c2 = shrink(dom, domname, prop, c, key)
            except Exception: c2 = c
            r_ = vlib.run_impl(domname, prop, [c2])[0]
            payload = {'property': prop, 'kind': 'concrete', 'domain': domname, 'case': c2, 'input': dom.describe(c2), 'violation': [x for x in r_[1]] or [v],
                       'implementation': r_[0][:4000], 'cases_in_group': len(lst), 'seed': seed, 'tier': tier,
                       'broken': broken}
            path = vlib.replay_path(prop, {'d': domname, 'c': c2})
            vlib.write_json(path, payload); replay_files.append(path)
            log('[%s] %s: %s  (%d cases)  input=%s' % (prop, domname, v, len(lst), json.dumps(dom.describe(c2), ensure_ascii=True)[:300]))
            log('VIOLATION property=%s replay=%s' % (prop, path))
        rc = 1
    elif broken:
        payload = {'property': prop, 'kind': 'no-failing-input-found', 'broken': broken, 'seed': seed, 'tier': tier,
                   'explored': totals['evaluations'], 'note': 'the named theorem(s) / translator item(s) / correspondence no longer check against the current /repo; no concrete input violating the property was found in the enlarged search'}
        path = vlib.replay_path(prop, {'b': broken})
        vlib.write_json(path, payload); replay_files.append(path)
        for b_ in broken: log('[%s] broken: %s' % (prop, json.dumps(b_, ensure_ascii=True)[:1200]))
        log('VIOLATION property=%s replay=%s no-failing-input-found' % (prop, path))
        rc = 1

    # ---- 5. evidence --------------------------------------------------------------------------------------------
    wall = round(time.time() - t0, 1)
    ev = {
        'property_id': prop, 'tier': tier, 'seed': seed, 'level': 'proof',
        'coverage': {
            'obligations': len(names), 'discharged': discharged,
            'checker_cmd': 'cd /verif/lean && lake build %s && lake env lean <audit file with #print axioms for each registered theorem>' % ' '.join(P['lean_targets']),
            'trusted_base': PROPS.TRUSTED_BASE + P.get('trusted_extra', []),
            'theorems': thm_report,
            'evaluations': totals['evaluations'],
            'distinct_nontrivial': len(nontrivial_seen),
            'rule': P['rule'],
            'samples': samples,
            'correspondence': {d: dict(c) for d, c in per_domain.items()},
            'distribution': dict(sorted(tags_total.items())),
            'known_findings_hit': {k: len(v) for k, v in known_hits.items()},
            'broken': broken,
            'exhaustive': False,
            'explanation': P['explanation'],
        },
        'assumptions': P['assumptions'],
        'wall_s': wall,
        'violations': len(new),
    }
    vlib.validate_evidence(ev)
    vlib.write_json(os.path.join(vlib.ROOT, 'evidence', prop + '.json'), ev)
    log('[%s] %s in %.1fs (evidence/%s.json)' % (prop, 'OK' if rc == 0 else 'VIOLATION', wall, prop))
    return rc


if __name__ == '__main__':
    try:
        sys.exit(main())
    except Infra as e:
        print('INFRASTRUCTURE: %s' % e); sys.exit(2)
    except Exception:
        traceback.print_exc(); print('INFRASTRUCTURE: unexpected harness error'); sys.exit(2)
