"""Domain: editor action helpers (emmet.action_utils: get_open_tag, select_item_html, get_css_section, select_item_css) on the
generated HTML / CSS documents with recorded ground truth, and on arbitrary strings for range containment. Serves C17."""
import random
from vlib import hx
import gens, dom_html, dom_css

MODE = 'action'


def cases(tier, seed, prop):
    rnd = random.Random(seed)
    out = []
    n = 1500 if tier == 'quick' else 8000
    while len(out) < n:
        s, tops = dom_html.gen_doc(rnd, False, rnd.randint(1, 7))
        if len(s) > 200: continue
        tr_ = [dom_html.rec_to_json(t) for t in tops]
        if rnd.random() < .08:
            pre_ = '<!--' + 'p' * rnd.randint(260, 300) + '-->'; s = pre_ + s; tr_ = gens.shift(tr_, len(pre_))
        out.append({'k': 'h', 's': s, 'g': 'htmldoc', 'truth': tr_})
    m = 0
    while m < n:
        s, items = dom_css.gen_sheet(rnd, rnd.randint(1, 7))
        if len(s) > 220: continue
        if rnd.random() < .3 and s.rstrip().endswith('}'):
            # last declaration of a body terminated by the end of the body instead of `;`
            i = s.rfind(';')
            j = s.rfind('}')
            if 0 <= i < j and not s[i + 1:j].strip() and '"' not in s[i:] and "'" not in s[i:]:
                pass
        if rnd.random() < .08:
            pre_ = '/*' + 'p' * rnd.randint(260, 300) + '*/'; s = pre_ + s; items = gens.shift(items, len(pre_))
        out.append({'k': 'c', 's': s, 'g': 'cssdoc', 'truth': items}); m += 1
    for _ in range(n // 2):
        s, items = gen_rule_nosemi(rnd)
        out.append({'k': 'c', 's': s, 'g': 'css-nosemi', 'truth': items})
    L = 3 if tier == 'quick' else 4
    out += [{'k': 'h', 's': s, 'g': 'hstr'} for s in gens.random_strings(rnd, dom_html.FR, 600 if tier == 'quick' else 8000, 1, 8)]
    out += [{'k': 'c', 's': s, 'g': 'cstr'} for s in gens.random_strings(rnd, dom_css.FR, 600 if tier == 'quick' else 8000, 1, 8)]
    for s in ['a b  c', ' x ', '', 'one', 'a\tb\n c ', '  ', 'btn btn-x\n\tis-on\r\n js', 'a\xa0b', '\na\n']: out.append({'k': 't', 's': s, 'g': 'tokens'})
    return out


def gen_rule_nosemi(rnd):
    """one flat rule whose last declaration is terminated by the end of the body instead of `;`"""
    buf = ''; sel = rnd.choice(['a', '.b', 'ul > li', 'a:hover'])
    r = {'kind': 'rule', 'kids': [], 'start': 0, 'send': len(sel), 'sel': sel}
    buf += sel + rnd.choice(['', ' ']); r['brace'] = len(buf); buf += '{' + rnd.choice(['', ' ', '\n  '])
    k = rnd.randint(1, 3)
    for i in range(k):
        name = rnd.choice(['color', 'margin', 'a', 'font']); val, toks = rnd.choice([('red', ['red']), ('1px 2px', ['1px', '2px']), ('10px', ['10px']), ('a, b', ['a', 'b']), ('url(x;y)', ['url(x;y)']),
                                                                                      ('t(c(1px + 2px), 0) s(2)', ['t(c(1px + 2px), 0)', 's(2)'])])
        d = {'kind': 'decl', 'name': name, 'value': val, 'start': len(buf)}
        buf += name; d['nend'] = len(buf); d['colon'] = len(buf); buf += ':' + rnd.choice(['', ' '])
        d['vstart'] = len(buf); buf += val; d['vend'] = len(buf); d['tokens'] = dom_css.tok_ranges(val, toks, d['vstart'])
        if i < k - 1:
            d['semi'] = len(buf); buf += ';'; d['end'] = len(buf); buf += rnd.choice(['', ' ', '\n  '])
        else:
            d['semi'] = None; d['end'] = d['vend']; buf += rnd.choice(['', ' ', '\n'])
        r['kids'].append(d)
    r['close'] = len(buf); buf += '}'; r['end'] = len(buf)
    return buf + rnd.choice(['', '\n']), [r]


def req(case):
    return '%s;%s' % (case['k'], hx(case['s']))


# ------------------------------------------------------------------------------------------------- HTML
def flatten(truth, acc):
    for t in truth:
        acc.append(t); flatten(t['k'], acc)
    return acc


def tag_events(truth):
    """(kind, name, start, end, rec) in document order; kind open / close / selfclose (void elements in HTML mode count as open tags for the scanner)"""
    ev = []

    def walk(nodes):
        for t in nodes:
            ev.append(('open', t['n'], t['o'][0], t['o'][1], t))
            walk(t['k'])
            if t['c']: ev.append(('close', t['n'], t['c'][0], t['c'][1], t))
    walk(truth)
    return ev


def unq(v, vs, ve):
    if v[:1] in '"\'': return (vs + 1, ve - (1 if v[-1:] == v[:1] else 0))
    if v[:1] == '{' and v[-1:] == '}': return (vs + 1, ve - 1)
    return (vs, ve)


def tag_ranges(s, t):
    """name range, then per attribute: full range, unquoted value range, class tokens (what select_item_html must report)"""
    a, e = t['o']
    rs = [(a + 1, a + 1 + len(t['n']))]

    def push(r):
        if r[0] != r[1] and (not rs or rs[-1] != r): rs.append(r)
    for (name, val, ns, ne, vs, ve) in t['a']:
        if val is None: push((ns, ne)); continue
        push((ns, ve))
        u = unq(val, vs, ve)
        if u[0] != u[1]:
            push(u)
            if name == 'class':
                txt = s[u[0]:u[1]]; i = 0
                while i < len(txt):
                    if txt[i] in ' \t\xa0\n\r': i += 1; continue
                    j = i
                    while j < len(txt) and txt[j] not in ' \t\xa0\n\r': j += 1
                    push((u[0] + i, u[0] + j)); i = j
    return rs


def oracle_html(case, pos, tag, nxt, prv):
    s = case['s']; v = []
    ev = tag_events(case['truth'])
    # get_open_tag: the open or self-closing tag strictly containing the position
    want = next((e for e in ev if e[0] == 'open' and e[2] < pos < e[3]), None)
    if want is not None:
        if tag is None or (tag.start, tag.end, tag.name) != (want[2], want[3], want[1]):
            v.append('open-tag| get_open_tag(%d) = %r, the tag strictly containing the position is %s [%d,%d)' % (pos, None if tag is None else (tag.name, tag.start, tag.end), want[1], want[2], want[3]))
        else:
            got = [(a.name, a.value, a.name_start, a.name_end, a.value_start, a.value_end) for a in (tag.attributes or [])]
            if got != [tuple(x) for x in want[4]['a']]: v.append('open-tag-attrs| get_open_tag(%d) attributes %r, written %r' % (pos, got, want[4]['a']))
    elif tag is not None:
        if not (tag.start < pos < tag.end) or s[tag.start:tag.end][:1] != '<' or tag.name not in s[tag.start:tag.end]:
            v.append('open-tag| get_open_tag(%d) = (%r, %d, %d) does not strictly contain the position / slice to a tag' % (pos, tag.name, tag.start, tag.end))
    # select next / previous
    wn = next((e for e in ev if e[0] == 'open' and e[3] > pos), None)
    wp = None
    for e in ev:
        if e[2] >= pos: break
        if e[0] == 'open': wp = e
    for what, got, w in (('next', nxt, wn), ('previous', prv, wp)):
        if (got is None) != (w is None): v.append('select-%s| select_item_html(%d): %r, expected tag %r' % (what, pos, None if got is None else (got.start, got.end), None if w is None else (w[1], w[2], w[3]))); continue
        if got is None: continue
        if (got.start, got.end) != (w[2], w[3]): v.append('select-%s| select_item_html(%d) selects [%d,%d), the %s tag is %s [%d,%d)' % (what, pos, got.start, got.end, what, w[1], w[2], w[3])); continue
        wr = tag_ranges(s, w[4])
        if [tuple(r) for r in got.ranges] != wr: v.append('select-ranges| select_item_html(%d, %s): ranges %r, expected name / attribute / unquoted value / class token ranges %r' % (pos, what, got.ranges, wr))
        for r in got.ranges:
            if not (got.start <= r[0] <= r[1] <= got.end): v.append('range-outside| select_item_html(%d): range %r outside the tag [%d,%d)' % (pos, r, got.start, got.end))
    return v


# ------------------------------------------------------------------------------------------------- CSS
def decl_tokens(s, d):
    if d.get('tokens') is not None: return [tuple(t) for t in d['tokens']]       # recorded by the generator
    from emmet.css_matcher import split_value
    return [(r[0] + d['vstart'], r[1] + d['vstart']) for r in split_value(d['value'])]


def oracle_css(case, pos, sec, nxt, prv):
    s = case['s']; v = []
    # innermost rule containing the position (start <= pos <= end)
    def inner(items):
        best = None
        for it in items:
            if it['kind'] == 'rule' and it['start'] <= pos <= it['end']:
                best = inner(it['kids']) or it
                break
        return best
    # the helper returns the FIRST rule in post-order containing pos (non-strict), i.e. at a shared boundary the earlier one
    def post(items):
        for it in items:
            if it['kind'] != 'rule': continue
            r = post(it['kids'])
            if r is not None: return r
            if it['start'] <= pos <= it['end']: return it
        return None
    w = post(case['truth'])
    if (sec is None) != (w is None): v.append('section| get_css_section(%d) = %r, expected %r' % (pos, None if sec is None else (sec.start, sec.end), None if w is None else (w['start'], w['end'])))
    elif w is not None:
        if (sec.start, sec.end, sec.body_start, sec.body_end) != (w['start'], w['end'], w['brace'] + 1, w['close']):
            v.append('section| get_css_section(%d) = %r, innermost rule is %r' % (pos, (sec.start, sec.end, sec.body_start, sec.body_end), (w['start'], w['end'], w['brace'] + 1, w['close'])))
        else:
            decls = [d for d in w['kids'] if d['kind'] == 'decl']
            got = [(p.name, p.value, [tuple(t) for t in p.value_tokens], p.before, p.after) for p in (sec.properties or [])]
            want = []
            before = w['brace'] + 1
            for it in w['kids']:
                if it['kind'] == 'decl':
                    want.append(((it['start'], it['nend']), (it['vstart'], it['vend']), decl_tokens(s, it), before, it['end'])); before = it['end']
                else: before = it['end']
            if got != want: v.append('section-properties| get_css_section(%d, properties): %r, direct declarations are %r' % (pos, got, want))
    # next / previous item: selectors and declarations in document order
    flat = []

    def walk(items):
        for it in items:
            if it['kind'] == 'rule':
                flat.append(('sel', it['start'], it['send'], it)); walk(it['kids'])
            else: flat.append(('decl', it['start'], it['end'], it))
    walk(case['truth'])

    def model(e):
        if e[0] == 'sel': return (e[1], e[2], [(e[1], e[2])])
        d = e[3]; rs = []

        def push(r):
            if r[0] != r[1] and (not rs or rs[-1] != r): rs.append(r)
        push((d['start'], d['end'])); push((d['vstart'], d['vend']))
        for t in decl_tokens(s, d): push(t)
        return (d['start'], d['end'], rs)
    def value_model(d):
        rs = []
        for r in [(d['vstart'], d['vend'])] + decl_tokens(s, d):
            if r[0] != r[1] and (not rs or rs[-1] != r): rs.append(r)
        return (d['vstart'], d['end'], rs)
    # next: the first selector / declaration name / declaration value that starts at or after the position (from inside a
    # declaration's name the next item is that declaration's value)
    toks = []
    for e in flat:
        toks.append((e[1], e))
        if e[0] == 'decl': toks.append((e[3]['vstart'], ('value', e[3])))
    toks.sort(key=lambda t: t[0])
    mn = None
    for st, e in toks:
        if st >= pos:
            mn = value_model(e[1]) if e[0] == 'value' else model(e); break
    wp = None
    for e in flat:
        if e[1] >= pos: break
        wp = e
    for what, got, m in (('next', nxt, mn), ('previous', prv, None if wp is None else model(wp))):
        g = None if got is None else (got.start, got.end, [tuple(r) for r in got.ranges])
        if g != m: v.append('css-select-%s| select_item_css(%d) = %r, expected %r' % (what, pos, g, m))
    return v


def run(case, prop):
    from emmet.action_utils import get_open_tag, select_item_html, get_css_section, select_item_css
    from emmet.action_utils.utils import token_list
    s = case['s']; viol = []; tags = {'gen:' + case['g']: 1}
    out = ''
    if case['k'] == 't':
        got = [tuple(r) for r in token_list(s, 7)]
        # class tokens = the maximal runs of non-blank characters (space, tab, no-break space, line breaks separate), offset by 7
        want = []; i = 0
        while i < len(s):
            if s[i] in ' \t\xa0\n\r': i += 1; continue
            j = i
            while j < len(s) and s[j] not in ' \t\xa0\n\r': j += 1
            want.append((7 + i, 7 + j)); i = j
        if got != want: viol.append('class-tokens| token_list(%r, 7) = %r, the blank-separated tokens are %r' % (s, got, want))
        return ' '.join('%d-%d' % r for r in got), viol, tags
    for pos in range(-1, len(s) + 2):
        try:
            if case['k'] == 'h':
                t = get_open_tag(s, pos); nx = select_item_html(s, pos); pv = select_item_html(s, pos, True)
                out += '%s ; %s ; %s | ' % ('None' if t is None else '%s:%d:%d:%d' % (t.name, t.type, t.start, t.end),
                                          'None' if nx is None else '%d:%d:%d-%d' % (nx.start, nx.end, nx.ranges[0][0], nx.ranges[0][1]),
                                          'None' if pv is None else '%d:%d:%d-%d' % (pv.start, pv.end, pv.ranges[0][0], pv.ranges[0][1]))
                if 'truth' in case and 0 <= pos <= len(s): viol += oracle_html(case, pos, t, nx, pv)
                for m in (nx, pv):
                    if m is not None:
                        for r in m.ranges:
                            if not (0 <= m.start <= r[0] <= r[1] <= m.end <= len(s)): viol.append('range-outside| select_item_html(%d): range %r outside the tag [%d,%d) / the source' % (pos, r, m.start, m.end))
            else:
                sec = get_css_section(s, pos, True); nx = select_item_css(s, pos); pv = select_item_css(s, pos, True)
                sr = lambda m: 'None' if m is None else '%d:%d:%s' % (m.start, m.end, ','.join('%d-%d' % tuple(r) for r in m.ranges))
                out += '%s ; %s ; %s | ' % ('None' if sec is None else '%d:%d:%d:%d' % (sec.start, sec.end, sec.body_start, sec.body_end), sr(nx), sr(pv))
                if 'truth' in case and 0 <= pos <= len(s): viol += oracle_css(case, pos, sec, nx, pv)
                for m in (nx, pv):
                    if m is not None:
                        for r in [(m.start, m.end)] + list(m.ranges):
                            if not (0 <= r[0] <= r[1] <= len(s)): viol.append('css-range-outside| select_item_css(%d): range %r outside the source (len %d)' % (pos, tuple(r), len(s)))
                if sec is not None:
                    for p in (sec.properties or []):
                        for r in [p.name, p.value] + list(p.value_tokens):
                            if not (sec.start <= r[0] <= r[1] <= sec.end): viol.append('css-range-outside| get_css_section(%d): property range %r outside the section [%d,%d)' % (pos, tuple(r), sec.start, sec.end))
        except RecursionError: raise
        except Exception as e:
            out += 'EXC %s | ' % type(e).__name__; viol.append('raised| action helper raised %s at position %d' % (type(e).__name__, pos))
    return out, viol[:5], tags


def compare(case, line, ml):
    import vlib
    if vlib.unmodelled_text(case['s'], case=False): return None
    return line == ml


def nontrivial(case, line):
    return ':' in line


def describe(case):
    return {'kind': {'h': 'html', 'c': 'css', 't': 'token_list'}[case['k']], 'source': case['s']}
