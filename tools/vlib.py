"""Shared machinery of the checks: build + audit of the Lean side, the model driver, sharded execution of the
implementation side, verdict flow, replay / evidence writers.  Run with /venv/bin/python (stdlib only)."""
import os, sys, json, time, hashlib, subprocess, random, fcntl, re, tempfile, shutil, itertools, traceback
import multiprocessing as mp

ROOT = os.path.dirname(os.path.dirname(os.path.abspath(__file__)))
REPO = os.environ.get('VERIF_REPO', '/repo')
LEAN = os.path.join(ROOT, 'lean')
DRIVER = os.path.join(LEAN, '.lake', 'build', 'bin', 'driver')
NPROC = int(os.environ.get('VERIF_JOBS', '16'))
ACCEPTED_AXIOMS = {'propext', 'Classical.choice', 'Quot.sound'}
GUARD = 'EMMETIO_PY_EMMET_VERIF'


class Infra(Exception):
    """infrastructure failure: exit 2, never a VIOLATION"""


def hx(s):
    return ','.join('%x' % ord(ch) for ch in s) if s else '_'


def unhx(h):
    return '' if h in ('', '_') else ''.join(chr(int(x, 16)) for x in h.split(','))


def b(x):
    return 'true' if x else 'false'


# ---------------------------------------------------------------------------------------------------------------
# Lean side

def _lock():
    os.makedirs(os.path.join(LEAN, '.lake'), exist_ok=True)
    f = open(os.path.join(LEAN, '.lake', 'verif.lock'), 'w')
    fcntl.flock(f, fcntl.LOCK_EX)
    return f


def translate():
    """regenerate lean/Emmet/Generated/*.lean from the current /repo working tree (tie (a)).
    Returns (ok, message)."""
    r = subprocess.run([sys.executable, '-B', os.path.join(ROOT, 'tools', 'translate.py')], capture_output=True, text=True,
                       env=dict(os.environ, VERIF_REPO=REPO, **{GUARD: '1'}))
    return r.returncode == 0, (r.stdout + r.stderr).strip()


def lake_build(targets, timeout=3000):
    """lake build of the given targets. Returns (ok, failing_modules, log)"""
    t0 = time.time()
    r = subprocess.run(['lake', 'build'] + list(targets), cwd=LEAN, capture_output=True, text=True, timeout=timeout)
    log = r.stdout + r.stderr
    failing = re.findall(r'^- (\S+)$', log, re.M)
    return r.returncode == 0, failing, log


def audit(theorems, imports):
    """#print axioms for every registered theorem; returns {name: sorted axiom list or None when the theorem does not
    exist / does not check}."""
    os.makedirs(os.path.join(LEAN, '.audit'), exist_ok=True)
    res = {}
    src = ''.join('import %s\n' % m for m in imports)
    for t in theorems:
        src += '#print axioms %s\n' % t
    fd, path = tempfile.mkstemp(suffix='.lean', dir=os.path.join(LEAN, '.audit'))
    os.write(fd, src.encode()); os.close(fd)
    try:
        r = subprocess.run(['lake', 'env', 'lean', path], cwd=LEAN, capture_output=True, text=True, timeout=1800)
    finally:
        os.unlink(path)
    out = r.stdout + r.stderr
    for t in theorems:
        m = re.search(r"'%s' depends on axioms: \[([^\]]*)\]" % re.escape(t), out, re.S)
        if m:
            res[t] = sorted(x.strip() for x in m.group(1).replace('\n', ' ').split(',') if x.strip())
        elif re.search(r"'%s' does not depend on any axioms" % re.escape(t), out):
            res[t] = []
        else:
            res[t] = None
    return res, out


FORBIDDEN = re.compile(r'\bsorry\b|\badmit\b|^\s*axiom\s|native_decide|bv_decide|implemented_by|\bunsafe\s|maxHeartbeats\s+0\b', re.M)


def strip_comments(src):
    out = []; i = 0; depth = 0; n = len(src)
    while i < n:
        if src.startswith('/-', i):
            depth += 1; i += 2; continue
        if depth and src.startswith('-/', i):
            depth -= 1; i += 2; continue
        if depth:
            if src[i] == '\n': out.append('\n')
            i += 1; continue
        if src.startswith('--', i):
            j = src.find('\n', i)
            i = n if j < 0 else j
            continue
        if src[i] == '"':
            j = i + 1
            while j < n and src[j] != '"':
                j += 2 if src[j] == '\\' else 1
            out.append('""'); i = j + 1; continue
        out.append(src[i]); i += 1
    return ''.join(out)


def forbidden_grep():
    hits = []
    for d in ('Emmet', 'EmmetProofs', 'EmmetProps'):
        for dp, _, fs in os.walk(os.path.join(LEAN, d)):
            for f in fs:
                if f.endswith('.lean'):
                    p = os.path.join(dp, f)
                    for m in FORBIDDEN.finditer(strip_comments(open(p).read())):
                        hits.append('%s: %s' % (os.path.relpath(p, LEAN), m.group(0).strip()))
    return hits


DRIVER_TIMEOUT = 1500      # seconds per shard; a hanging driver is an infrastructure failure (exit 2), never a verdict


def run_driver(mode, lines, shards=None):
    """answers of the model driver for the request lines (sharded over processes; order preserved)"""
    if not lines:
        return []
    if not os.path.exists(DRIVER):
        raise Infra('driver executable missing: ' + DRIVER)
    shards = shards or min(NPROC, max(1, len(lines) // 200))
    chunks = [lines[i::shards] for i in range(shards)]
    procs = []
    for ch in chunks:
        p = subprocess.Popen([DRIVER, mode], stdin=subprocess.PIPE, stdout=subprocess.PIPE, stderr=subprocess.PIPE)
        procs.append(p)
    outs = []
    # feed via threads-free approach: communicate sequentially is fine because each driver buffers its whole output
    import threading
    results = [None] * shards

    def work(i):
        data = ('\n'.join(chunks[i]) + '\n').encode()
        try:
            o, e = procs[i].communicate(data, timeout=DRIVER_TIMEOUT)
        except subprocess.TimeoutExpired:
            procs[i].kill(); o, e = procs[i].communicate(); e = (e or b'') + b' [driver killed after timeout]'
        results[i] = (o.decode('utf-8', 'replace').split('\n'), e.decode('utf-8', 'replace'), procs[i].returncode)
    ths = [threading.Thread(target=work, args=(i,)) for i in range(shards)]
    for t in ths: t.start()
    for t in ths: t.join()
    res = [None] * len(lines)
    for i in range(shards):
        o, e, rc = results[i]
        if o and o[-1] == '': o = o[:-1]
        if rc != 0 or len(o) != len(chunks[i]):
            raise Infra('driver %s failed (rc=%s, %d answers for %d requests): %s' % (mode, rc, len(o), len(chunks[i]), e[:500]))
        for k, ans in enumerate(o):
            res[i + k * shards] = ans
    return res


# ---------------------------------------------------------------------------------------------------------------
# implementation side (worker processes import the real package from REPO)

_WORKER = {}


def _worker_init(domain_mod, prop, tcount=None):
    _WORKER['tcount'] = tcount
    os.environ[GUARD] = '1'
    sys.path.insert(0, REPO)
    sys.dont_write_bytecode = True
    sys.setrecursionlimit(20000)
    import importlib
    _WORKER['dom'] = importlib.import_module(domain_mod)
    _WORKER['prop'] = prop
    if hasattr(_WORKER['dom'], 'worker_init'):
        _WORKER['dom'].worker_init()


CASE_TIMEOUT = 30       # seconds of wall clock for ONE case on the implementation (the slowest clean case, a 120 001-line wrap text, takes ~2 s)


class CaseTimeout(BaseException):
    pass


def _alarm(signum, frame):
    raise CaseTimeout()


def _worker_run(chunk):
    import signal
    dom = _WORKER['dom']; prop = _WORKER['prop']
    out = []
    signal.signal(signal.SIGALRM, _alarm)
    timeouts = 0
    tcount = _WORKER.get('tcount')
    for case in chunk:
        if timeouts >= 3 or (tcount is not None and tcount.value >= 24):          # the non-termination has been shown often enough (per chunk / per run): do not spend the run on waiting
            out.append(('RECURSION', [], {'skipped-after-timeouts': 1})); continue
        try:
            signal.alarm(CASE_TIMEOUT)
            try:
                r = dom.run(case, prop)
            finally:
                signal.alarm(0)
            out.append(r)
        except CaseTimeout:
            timeouts += 1
            if tcount is not None:
                with tcount.get_lock(): tcount.value += 1
            # the implementation did not return: whatever the property says about the result of this call cannot hold
            out.append(('TIMEOUT', ['no-result| the implementation did not return within %d s on this case (non-termination)' % CASE_TIMEOUT], {'outcome:timeout': 1}))
        except RecursionError:
            out.append(('RECURSION', [], {}))
        except Exception as e:  # harness bug: report as infra, never as a verdict
            out.append(('HARNESS-EXC %s' % ''.join(traceback.format_exception_only(type(e), e)).strip(), [], {}))
    return out


def run_impl(domain_mod, prop, cases, chunk=64):
    """run the real code on every case. Each result is (impl_line, violations, tags):
    impl_line = canonical outcome to be compared with the model's line, violations = oracle failures of `prop`
    on the implementation's outcome (list of short strings), tags = counters for the evidence."""
    if not cases:
        return []
    chunks = [cases[i:i + chunk] for i in range(0, len(cases), chunk)]
    ctx = mp.get_context('fork')
    tcount = ctx.Value('i', 0)
    with ctx.Pool(min(NPROC, len(chunks)), initializer=_worker_init, initargs=(domain_mod, prop, tcount)) as pool:
        parts = pool.map(_worker_run, chunks)
    return [x for p in parts for x in p]


# ---------------------------------------------------------------------------------------------------------------
# findings, replays, evidence

def load_findings():
    p = os.path.join(ROOT, 'known_findings.json')
    return json.load(open(p)) if os.path.exists(p) else []


def write_json(path, obj):
    os.makedirs(os.path.dirname(path), exist_ok=True)
    tmp = path + '.tmp%d' % os.getpid()
    with open(tmp, 'w') as f:
        json.dump(obj, f, indent=1, ensure_ascii=True, sort_keys=False, default=str)
        f.write('\n')
    os.replace(tmp, path)


def replay_path(prop, payload):
    h = hashlib.sha1(json.dumps(payload, sort_keys=True, default=str).encode()).hexdigest()[:12]
    return os.path.join(ROOT, 'replays', '%s-%s.json' % (prop, h))


def validate_evidence(ev):
    """light structural validation against EVIDENCE.schema.json (jsonschema is not in /venv)"""
    for k in ('property_id', 'tier', 'seed', 'level', 'coverage', 'wall_s'):
        if k not in ev: raise Infra('evidence lacks ' + k)
    c = ev['coverage']
    if ev['level'] == 'proof':
        for k in ('obligations', 'discharged', 'checker_cmd', 'trusted_base'):
            if k not in c: raise Infra('proof evidence lacks ' + k)
        if c['obligations'] < 1: raise Infra('proof evidence with zero obligations')
    if not isinstance(c.get('samples', []), list): raise Infra('samples must be a list')


# ---------------------------------------------------------------------------------------------------------------
# inputs outside the model (DESIGN §4.6): the model gives str.isdecimal/isdigit/isspace/splitlines/lower/upper their ASCII
# meaning (plus NBSP, U+0085, \x1c-\x1f where the code depends on them); a non-ASCII code point on which one of those
# methods answers differently from "ordinary character" is *unmodelled*: counted, excluded from correspondence, still
# checked by the oracle on the implementation.
_LINEBREAKS = set('  ')   # \n \r \x0b \x0c \x1c \x1d \x1e \x85 are modelled


def unmodelled_char(ch, case=True):
    o = ord(ch)
    if o < 128: return False
    if 0xD800 <= o <= 0xDFFF: return True
    if ch in ('\xa0', '\x85'): return False
    return ch.isdecimal() or ch.isdigit() or ch.isnumeric() or ch.isspace() or ch in _LINEBREAKS or (case and (ch.lower() != ch or ch.upper() != ch))


def unmodelled_text(*texts, case=True):
    return any(unmodelled_char(ch, case) for t in texts if t for ch in t)


def compare_alternatives(dom, c, line, ml):
    """the model may report two outcomes `A ~~ B` when the code's result depends on the rounding of two exactly tied double scores
    (stylesheet fuzzy matching, see CA.findBest): the implementation must agree with one of them"""
    def one(m):
        if hasattr(dom, 'compare'): return dom.compare(c, line, m)
        if isinstance(c.get('s'), str) and unmodelled_text(c['s']): return None
        return line == m
    if ' ~~ ' not in ml: return one(ml)
    rs = [one(m) for m in ml.split(' ~~ ')]
    if any(r is True for r in rs): return True
    if any(r is None for r in rs): return None
    return False
