"""Domain: markup abbreviation tokenizer (emmet.abbreviation.tokenizer.tokenize). Serves C18 (markup half)."""
import random
from vlib import hx, b
import gens

MODE = 'tok'
EXTRA = ['${1:a{b}c}', '[${12:x}]', '{${a}}', '[a=${1}', '{${1:{}', 'a1/2.3/4', 'a{b{c}d}e', '[a="b c" d=\'e\']', 'x$$@^^-12*3', '{\\}}',
         'a\\', '[${', 'ul>li.item$*3{x ${1:y}}', 'a{*b}', '$#', '{$#}', 'a*', 'a*12', '$@-', '$$@-3', '$@^', "[a='b\\'c']", '{a\\}b}']


def cases(tier, seed, prop):
    rnd = random.Random(seed)
    L = 3 if tier == 'quick' else 4
    out = [{'s': s, 'g': 'exh'} for s in gens.all_strings(gens.ABBR_ALPHA, L)]
    out += [{'s': s, 'g': 'extra'} for s in EXTRA]
    n = 20000 if tier == 'quick' else 150000
    for _ in range(n // 2):
        out.append({'s': ''.join(rnd.choice(gens.ABBR_ALPHA) for _ in range(rnd.randint(5, 24))), 'g': 'rand'})
    for _ in range(n // 2):
        s = gens.rand_abbr(rnd, [rnd.randint(1, 8)], 3)
        for _ in range(rnd.randint(0, 2)): s = gens.mutate(rnd, s, gens.ABBR_ALPHA + gens.NONASCII)
        out.append({'s': s, 'g': 'abbr'})
    for zw in ('a\u200bb', '\ufeffdiv', 'ul>li\u200b*2', 'p{x\u200by}', 'a[t=\ufeff]'):
        out.append({'s': zw, 'g': 'zero-width'})
    for depth in (2000, 30000):
        out.append({'s': 'a{${1:' + '{' * depth + 'x' + '}' * depth + '}}', 'g': 'deep-braces', 'deep': 1})
        out.append({'s': 'a[b=${1:' + '{' * depth + '}' * depth + '}]', 'g': 'deep-braces', 'deep': 1})
    return out


def req(case):
    if case.get('deep'): return hx('a')
    return hx(case['s']) if case['s'] else ''


def show(t):
    n = t.type
    if n == 'Repeater': body = 'Repeater %d %s' % (t.count, b(t.implicit))
    elif n == 'RepeaterNumber': body = 'RepeaterNumber %d %s %d %d' % (t.size, b(t.reverse), t.base, t.parent)
    elif n == 'RepeaterPlaceholder': body = 'RepeaterPlaceholder'
    elif n == 'Field': body = 'Field [%s] %s' % (hx(t.name) if t.name else '', t.index)
    elif n == 'Operator': body = 'Operator %s' % t.operator
    elif n == 'Bracket': body = 'Bracket %s %s' % (b(t.open), t.context)
    elif n == 'Quote': body = 'Quote %s' % b(t.single)
    elif n == 'Literal': body = 'Literal [%s]' % (hx(t.value) if t.value else '')
    elif n == 'WhiteSpace': body = 'WhiteSpace [%s]' % (hx(t.value) if t.value else '')
    else: body = '?' + n
    return '%s:%s:%s' % (t.start, t.end, body)


def oracle_C18(s, outcome):
    """C18: scanner error with a position inside the input, or tokens whose [start,end) spans are defined, non-empty,
    contiguous and cover 0..len."""
    kind, val = outcome
    if kind == 'scanner':
        return [] if isinstance(val, int) and 0 <= val <= len(s) else ['error-position| scanner error position %r outside 0..%d' % (val, len(s))]
    if kind == 'exc':
        return ['internal-error| tokenize raised %s' % val]
    pos = 0
    for t in val:
        if t.start is None or t.end is None: return ['undefined-span| token %s has an undefined span' % t.type]
        if t.start != pos: return ['gap| token %s starts at %s, previous token ended at %d' % (t.type, t.start, pos)]
        if t.end <= t.start: return ['empty-span| token %s has an empty span at %d' % (t.type, t.start)]
        pos = t.end
    if pos != len(s): return ['uncovered-tail| tokens end at %d, input length %d' % (pos, len(s))]
    return []


def run(case, prop):
    from emmet.abbreviation.tokenizer import tokenize
    from emmet.scanner import ScannerException
    s = case['s']
    try:
        toks = tokenize(s); outcome = ('ok', toks); line = 'ok ' + ' | '.join(show(t) for t in toks)
    except ScannerException as e:
        outcome = ('scanner', e.pos); line = 'err %s' % e.pos
    except RecursionError:
        if not case.get('deep'): raise
        outcome = ('exc', 'RecursionError'); line = 'EXC RecursionError'
    except Exception as e:
        outcome = ('exc', type(e).__name__); line = 'EXC %s' % type(e).__name__
    viol = oracle_C18(s, outcome) if prop == 'C18' else []
    tags = {'outcome:' + outcome[0]: 1, 'gen:' + case['g']: 1}
    return line, viol, tags


def compare(case, line, ml):
    if case.get('deep'): return None          # far beyond the model's fuel budget: judged on the implementation only
    import vlib
    if vlib.unmodelled_text(case['s']): return None
    return line == ml


def nontrivial(case, line):
    return line.startswith('ok') and line.count('|') >= 1


def describe(case):
    return {'input': case['s']}
