"""writes /verif/MANIFEST.json from the registry in props.py"""
import json, os, sys
sys.path.insert(0, os.path.dirname(os.path.abspath(__file__)))
import props
ROOT = os.path.dirname(os.path.dirname(os.path.abspath(__file__)))
ALL = ['C%02d' % i for i in range(1, 21)]
checks = []
for pid in ALL:
    if pid not in props.PROPS: continue
    P = props.PROPS[pid]
    checks.append({
        'property_id': pid,
        'quick_cmd': './check %s --tier quick' % pid,
        'thorough_cmd': './check %s --tier thorough' % pid,
        'evidence_file': 'evidence/%s.json' % pid,
        'replay_cmd_template': './check %s --replay {path}' % pid,
        'engine': 'lean4-model+correspondence',
        'level_claimed': {'category': 'proof', 'text': P['level_text'], 'design_ref': P.get('design_ref', 'DESIGN.md §6 ' + pid)},
        'level_note': P['level_note'],
        'technique': P.get('technique', 'Lean 4 theorems about a hand-written executable model (tables regenerated from /repo) + differential correspondence check model vs. implementation'),
    })
na = [{'property_id': pid, 'reason': props.NOT_APPLICABLE.get(pid, 'check not built yet in this session; no claim is made')} for pid in ALL if pid not in props.PROPS]
M = {
    'version': 1,
    'setup_cmd': 'cd /verif && ./setup.sh',
    'hooks': {'guard': 'EMMETIO_PY_EMMET_VERIF', 'enable': 'no source hooks are needed: every observation is a return value, an exception, a callback argument or introspectable module state; checks export EMMETIO_PY_EMMET_VERIF=1 for uniformity',
              'baseline_off_cmd': 'cd /repo && /venv/bin/python -m pytest -ra -q -p no:cacheprovider --timeout=900 --continue-on-collection-errors', 'source_commits': [], 'add_only': True},
    'engines': [{'name': 'lean4-model+correspondence', 'path': 'lean/', 'serves_properties': [c['property_id'] for c in checks],
                 'kind_free_text': 'Lean 4.33 library (model Emmet/, lemmas EmmetProofs/, property theorems EmmetProps/), compiled Mathlib-free model driver, python harness tools/check.py'}],
    'checks': checks,
    'not_applicable': na,
    'notes': 'Every check: regenerate tables from /repo (tools/translate.py) -> lake build + #print axioms audit -> correspondence of the model driver with the real code + property oracle on the implementation -> verdict. Known findings: known_findings.json. See DESIGN.md.',
}
json.dump(M, open(os.path.join(ROOT, 'MANIFEST.json'), 'w'), indent=1)
print('MANIFEST.json: %d checks, %d not_applicable' % (len(checks), len(na)))
