"""Domain: emmet.expand for stylesheet abbreviations (type 'stylesheet'). Serves C05 and C06 (and the stylesheet half of C07)."""
import random, copy, re
from fractions import Fraction as F
from vlib import hx
import gens, cfgcodec

MODE = 'expandg'
FIELD_RE = re.compile(r'\$\{(\d+)(?::([^${}]*))?\}')


def field(index, placeholder, **kw):
    return '${%d:%s}' % (index, placeholder) if placeholder else '${%d}' % index


def mk(c):
    c = copy.deepcopy(c); o = {'output.field': field}; o.update(c.get('options', {})); c['options'] = o; c['type'] = 'stylesheet'; return c


def strip_fields(s):
    for _ in range(6):          # innermost first: `${1:'${0}'}`
        t = FIELD_RE.sub(lambda m: m.group(2) or '', s)
        if t == s: break
        s = t
    return s


SYNTAX = {'css': (': ', ';'), 'scss': (': ', ';'), 'less': (': ', ';'), 'sass': (': ', ''), 'stylus': (' ', ''), 'sss': (': ', ';')}
NUM_KEYS = ['p', 'm', 'w', 'h', 't', 'l', 'r', 'b', 'fsz', 'mt', 'pl', 'z', 'lh', 'fw', 'op', 'zom', 'fx', 'fxg', 'fxsh', 'mah', 'miw', 'ti', 'bdrs']
COLOR_KEYS = ['c', 'bgc', 'bdc', 'olc']
VALS = ['10', '-10', '0', '.5', '1.', '1.25', '10p', '2e', '3x', '1r', '10px', '#f', '#fc0', '#e7bc1b', '#0a0b0c', '#f.5', '#t', '#', '!', '-', '+', '--x', 'a', 'auto', 'block', 'ib', 'n',
        '(1, 2)', '"s"', "'q'", '${1:x}', ':', ' ', 'sol', 'das', 'lg(to right, #000, #fff)', 'b', 'bold', 'bo', 'url(x)', 'repeat(2)', '%', '/', '10-20', 'c', 'h', 'r', 'nw', ':a(1)', ':n(1)', ':b(2)', 'i(1)', ':s(1, 2)', '-a(x, y)', ':r(1)', 'rgb(0,0,0)', 'calc(10px)']


def rand_cfg(rnd):
    c = {}
    if rnd.random() < .6: c['syntax'] = rnd.choice(['css', 'scss', 'sass', 'less', 'stylus'])
    o = {}
    if rnd.random() < .3: o['stylesheet.intUnit'] = rnd.choice(['px', 'pt', 'rem', ''])
    if rnd.random() < .3: o['stylesheet.floatUnit'] = rnd.choice(['em', 'rem', '%'])
    if rnd.random() < .3: o['stylesheet.shortHex'] = rnd.random() < .5
    if rnd.random() < .15: o['stylesheet.unitAliases'] = rnd.choice([{'e': 'em', 'p': '%', 'x': 'ex', 'r': 'rem'}, {'p': 'pt', 'v': 'vh'}, {}, {'e': 'em', 'p': '%', 'n': '', 'q': 'Q'}, {'n': ''}])
    if o: c['options'] = o
    return c


# ------------------------------------------------------------------------------------------------- C05: value sequences
def gen_values(rnd, key_is_color):
    """returns (abbreviation suffix, list of ('num', sign, text, unit) / ('color', digits, alpha)); separators chosen so that the
    statement's dash rule applies"""
    items = []
    if key_is_color:
        d = rnd.choice([1, 2, 3, 3, 6, 6])
        digits = ''.join(rnd.choice('0123456789abcdef') for _ in range(d))
        if d == 6 and rnd.random() < .4: digits = ''.join(ch * 2 for ch in digits[:3])
        alpha = rnd.choice([None, None, None, None, '.5', '.25', '.1', '.75', '.9', '.0', '.00', '.05', '.125', '.005', '.9999', '.0625', '.333', '.1234567', '.00001', '.12345', '.123456789'])
        # hex digits may be typed in either letter case (the value is the same colour)
        typed = digits if rnd.random() < .65 else (digits.upper() if rnd.random() < .5 else ''.join(ch.upper() if rnd.random() < .5 else ch for ch in digits))
        return '#' + typed + (alpha or ''), [('color', digits, alpha)]
    n = rnd.choice([1, 1, 2, 3, 4])
    s = ''
    for i in range(n):
        neg = rnd.random() < .25
        prev_unit = items[-1][3] if items else None
        k = rnd.random()
        if k < .5: txt = str(rnd.choice([0, 1, 2, 5, 10, 12, 100, 1000, 10001, 65535, 123456, 2147483647]))
        elif k < .7: txt = '%d.%d' % (rnd.choice([0, 1, 2, 10, 123, 1024, 99999]), rnd.choice([5, 25, 75, 1, 125, 0o5]))
        elif k < .85 and (i == 0 or not prev_unit or neg): txt = '.%d' % rnd.choice([5, 25, 75])
        else: txt = str(rnd.choice([1, 2, 10]))
        if neg and F(txt if not txt.startswith('.') else '0' + txt) == 0: neg = False
        unit = rnd.choice(['', '', '', 'p', 'e', 'x', 'r', 'px', 'vh', 'pt', '%', 'n', 'q'])
        if i > 0:
            if neg:
                # `-` right after a unit-less number is a separator, so a negative value then needs `--`
                s += '--' if not prev_unit else '-'
            elif not prev_unit: s += '-'          # after an explicit unit the next number simply follows
        elif neg: s += '-'
        s += txt + unit
        items.append(('num', neg, txt, unit))
    if rnd.random() < .1 and not items[-1][3] and '.' not in items[-1][2]:
        s += '.'; items[-1] = ('num', items[-1][1], items[-1][2] + '.', '')     # `1.` float form, last value only
    return s, items


# documented defaults of the options the C05 statement names (pinned copies: a changed DEFAULT table must not move the oracle with it)
PINNED = {'stylesheet.unitless': ['z-index', 'line-height', 'opacity', 'font-weight', 'zoom', 'flex', 'flex-grow', 'flex-shrink'],
          'stylesheet.unitAliases': {'e': 'em', 'p': '%', 'x': 'ex', 'r': 'rem'}, 'stylesheet.intUnit': 'px', 'stylesheet.floatUnit': 'em', 'stylesheet.shortHex': True}


def pinned_options(case, opt):
    """documented defaults, then the layers of the case in the documented order: global config for the type, for the syntax, the call's own"""
    opt = dict(opt); uo = (case['c'].get('options') or {})
    gc = case.get('gc') or {}
    sy = case['c'].get('syntax', 'css')
    for k, dv in PINNED.items():
        val = dv
        for layer in (gc.get('stylesheet', {}).get('options', {}), gc.get(sy, {}).get('options', {}), uo):
            if k in layer: val = layer[k]
        opt[k] = val
    return opt


def render_number(neg, txt, unit, prop, opt):
    v = F(txt if not txt.startswith('.') else '0' + txt) if not txt.endswith('.') else F(txt[:-1])
    if neg: v = -v
    is_float = '.' in txt
    aliases = opt.get('stylesheet.unitAliases', {'e': 'em', 'p': '%', 'x': 'ex', 'r': 'rem'})
    if unit: u = aliases.get(unit, unit)
    elif v == 0 or prop in opt.get('stylesheet.unitless', ['z-index', 'line-height', 'opacity', 'font-weight', 'zoom', 'flex', 'flex-grow', 'flex-shrink']): u = ''
    else: u = opt.get('stylesheet.floatUnit', 'em') if is_float else opt.get('stylesheet.intUnit', 'px')
    if v.denominator == 1: t = str(v.numerator)
    else:
        t = ('%.4f' % float(v)).rstrip('0').rstrip('.')
    return t + u


def render_color(digits, alpha, opt):
    d = digits
    if len(d) == 1: h = d * 6
    elif len(d) == 2: h = d * 3
    elif len(d) == 3: h = ''.join(ch * 2 for ch in d)
    else: h = d
    r, g, b = int(h[0:2], 16), int(h[2:4], 16), int(h[4:6], 16)
    if alpha is not None:
        a = F(alpha if not alpha.startswith('.') else '0' + alpha)
        if a == 0 and r == g == b == 0: return 'transparent'         # rgba(0, 0, 0, 0): the same colour under its keyword
        if a != 1: return 'rgba(%d, %d, %d, %s)' % (r, g, b, ('%.8f' % float(a)).rstrip('0').rstrip('.'))
    if opt.get('stylesheet.shortHex', True) and all(x % 17 == 0 for x in (r, g, b)): return '#' + h[0] + h[2] + h[4]
    return '#' + h


def cases(tier, seed, prop):
    rnd = random.Random(seed)
    out = []
    if prop == 'C05':
        n = 10000 if tier == 'quick' else 40000
        for _ in range(n):
            parts = []; spec = []
            for _ in range(rnd.choice([1, 1, 1, 2, 3])):
                iscol = rnd.random() < .3
                key = rnd.choice(COLOR_KEYS if iscol else NUM_KEYS)
                sfx, items = gen_values(rnd, iscol)
                imp = rnd.random() < .2
                parts.append(key + sfx + ('!' if imp else '')); spec.append([key, items, imp])
            case = {'s': '+'.join(parts), 'c': rand_cfg(rnd), 'g': 'values', 'spec': spec}
            if rnd.random() < .15:
                sy_ = case['c'].get('syntax', 'css')
                case['gc'] = rnd.choice([{sy_: {'options': {'stylesheet.intUnit': 'rem', 'stylesheet.floatUnit': '%'}}}, {'stylesheet': {'options': {'stylesheet.intUnit': 'pt'}}, sy_: {'options': {'stylesheet.intUnit': 'Q', 'stylesheet.shortHex': False}}},
                                         {sy_: {'options': {'stylesheet.unitAliases': {'p': 'pc', 'n': ''}, 'stylesheet.unitless': ['padding', 'margin']}}}, {'stylesheet': {'options': {'stylesheet.floatUnit': 'vw'}}}])
                case['g'] = 'values-global'
            out.append(case)
    elif prop == 'C06':
        out = expand_cases_C06(tier, seed)
    else:   # correspondence / totality mixes (C07)
        n = 3000 if tier == 'quick' else 30000
        for _ in range(n):
            r = rnd.random()
            if r < .4: ab = gens.mutate(rnd, rnd.choice(NUM_KEYS + COLOR_KEYS + ['pos', 'd', 'bd', 'trf', 'anim', '@kf', 'lg']), list('abcdefghijklmnopqrstuvwxyz-:0')) + rnd.choice([''] + VALS)
            elif r < .8: ab = rnd.choice(NUM_KEYS + COLOR_KEYS + ['pos', 'd', 'bd', 'trf', 'bg', 'ff']) + ''.join(rnd.choice(VALS) for _ in range(rnd.randint(1, 3)))
            else: ab = '+'.join(rnd.choice(NUM_KEYS + ['d', 'pos']) + rnd.choice([''] + VALS) for _ in range(rnd.randint(2, 3)))
            out.append({'s': ab, 'c': rand_cfg(rnd), 'g': 'mix'})
        # half-typed input: every prefix of valid abbreviations (a sign or a dot without its digits, an open parenthesis, a quote …)
        seen = set()
        for _ in range(n // 10):
            parts = []
            for _ in range(rnd.choice([1, 1, 2])):
                iscol = rnd.random() < .3
                parts.append(rnd.choice(COLOR_KEYS if iscol else NUM_KEYS + ['pos', 'd', 'trf', 'lg', 'bd']) + gen_values(rnd, iscol)[0] + ('!' if rnd.random() < .2 else ''))
            ab = '+'.join(parts) if rnd.random() < .8 else rnd.choice(['lg(to right, #0, #f.5 10%)', 'trf:r(-.5deg)', 'bg:url("a b")', "ff:'A B'", 'm-.5--1.25p', 'p$-.5', '@kf', 'bd1-s#f.5!'])
            c = rand_cfg(rnd)
            for i in range(1, len(ab)):
                if ab[:i] not in seen:
                    seen.add(ab[:i]); out.append({'s': ab[:i], 'c': c, 'g': 'prefix'})
    return out


def expand_cases_C06(tier, seed):
    """C06 needs the live snippet table: built in the parent from /repo (import is side-effect free)"""
    import sys, vlib
    if vlib.REPO not in sys.path: sys.path.insert(0, vlib.REPO)
    from emmet.snippets import stylesheet_snippets
    rnd = random.Random(seed)
    out = []
    keys = list(stylesheet_snippets)
    for k in keys:
        for sy in (['css'] if tier == 'quick' else ['css', 'scss', 'sass', 'less', 'stylus']) + [rnd.choice(['scss', 'sass', 'less', 'stylus'])] + ([rnd.choice(['postcss', 'styl', 'pcss'])] if rnd.random() < .15 else []):
            for scope in (None, '@@global', '@@section', '@@property'):
                if tier == 'quick' and scope in ('@@global',) and rnd.random() < .7: continue
                c = {'syntax': sy}
                if scope: c['context'] = {'name': scope}
                out.append({'s': k, 'c': c, 'g': 'key', 'key': k})
    # keywords
    for k in keys:
        v = stylesheet_snippets[k]
        if ':' not in v or v.startswith('@') or '\n' in v: continue
        prop, vals = v.split(':', 1)
        # keywords: the `|` alternatives and the words offered as tabstop placeholders (`${1:inset }`: padding is not part of the keyword)
        words = vals.split('|') + [m.group(1).strip() for m in re.finditer(r'\$\{\d+:([^}]+)\}', re.sub(r'\([^)]*\)', '', vals))]     # placeholders inside function arguments are not keywords
        for w in dict.fromkeys(words):
            if re.fullmatch(r'[a-z]+', w):
                forms = [w, w.upper(), w.capitalize()]
                for f in (forms if tier != 'quick' else [rnd.choice(forms)]):
                    out.append({'s': '%s:%s' % (k, f), 'c': {}, 'g': 'keyword', 'key': k, 'kw': w})
    # function keywords (the listed signature when typed without arguments), also right after the same keyword typed WITH arguments
    for ab, exp in [('trf:scale', 'transform: scale(x, y);'), ('trf:s', 'transform: scale(x, y);'), ('trf:scale(5)+trf:scale', 'transform: scale(5, y);\ntransform: scale(x, y);'), ('trf:t', 'transform: translate(x, y);'), ('trf:r', 'transform: rotate(angle);'), ('trf:r(9)+trf:r', 'transform: rotate(9);\ntransform: rotate(angle);')]:
        out.append({'s': ab, 'c': {}, 'g': 'fn-keyword', 'key': 'trf', 'expect': exp})
    # user snippets: override and new key
    for _ in range(250 if tier == 'quick' else 800):
        k = rnd.choice([x for x in keys if x != 'lg']) if rnd.random() < .5 else rnd.choice(['zzq', 'myprop', 'xx', 'qq', 'foo', 'myPad', 'Zx', 'qW'])     # `lg` is the hard-wired gradient shortcut, resolved before any snippet lookup
        body = rnd.choice(['my-prop:${1:v}', 'other:a|b', 'raw ${1} text', 'foo-bar', 'grid-x:auto|none'])
        out.append({'s': k, 'c': {'snippets': {k: body}}, 'g': 'user', 'key': k, 'body': body})
        # the same user snippet supplied through the global configuration (for the type, or for the syntax)
        body2 = rnd.choice(['raw ${color} and ${gap}px', 'my-prop:${1:v}', 'other:a|b', 'raw ${1} text', 'grid-x:auto|none', 'grid-q:image-set(url(${1:file}) 1x)|none', 'w-x:f(g(h(${1:deep})))|auto', 'width:100%;height:100%', 'margin:0 auto;padding:0 ${1}'])
        layer = rnd.choice(['stylesheet', 'css'])
        out.append({'s': k, 'c': {}, 'gc': {layer: {'snippets': {k: body2}}}, 'g': 'user', 'key': k, 'body': body2})
        # a raw snippet may hold several declarations on one line
        out.append({'s': k, 'c': {'snippets': {k: body2}}, 'g': 'user', 'key': k, 'body': body2})
    return out


def req(case):
    return '%s;%s' % (hx(case['s']), cfgcodec.encode(mk(case['c']), case.get('gc')))


def outcome(ab, cfg, gc=None):
    from emmet import expand
    from emmet.scanner import ScannerException
    from emmet.token_scanner import TokenScannerException
    import dom_expand
    dom_expand.hostile_environment()
    try: return ('ok', expand(ab, cfg, gc) if gc is not None else expand(ab, cfg))
    except ScannerException as e: return ('scanner', e.pos)
    except TokenScannerException as e: return ('token', e.pos)
    except RecursionError: raise
    except Exception as e: return ('internal', type(e).__name__)


def line_of(o):
    return 'ok ' + hx(o[1]) if o[0] == 'ok' else '%s %s' % o


def effective_options(c):
    from emmet.config import Config
    return Config(mk(c)).options          # (C05 / C06 read only between / after from here; everything the statements name is pinned)


def oracle_C05(case, o):
    from emmet.snippets import stylesheet_snippets
    if o[0] != 'ok': return ['no-output| expand(%r) -> %s %s' % (case['s'], o[0], o[1])]
    opt = pinned_options(case, effective_options(case['c']))
    between, after = opt.get('stylesheet.between'), opt.get('stylesheet.after')
    lines = []
    for key, items, imp in case['spec']:
        prop = stylesheet_snippets[key].split(':')[0]
        vals = []
        for it in items:
            if it[0] == 'num': vals.append(render_number(it[1], it[2], it[3], prop, opt))
            else: vals.append(render_color(it[1], it[2], opt))
        lines.append(prop + between + ' '.join(vals) + (' !important' if imp else '') + after)
    want = '\n'.join(lines)
    if o[1] != want: return ['line| expand(%r) = %r, expected %r' % (case['s'], o[1], want)]
    return []


def oracle_C06(case, o):
    from emmet.snippets import stylesheet_snippets
    if o[0] != 'ok': return ['no-output| expand(%r) -> %s %s' % (case['s'], o[0], o[1])]
    if 'expect' in case:
        return [] if strip_fields(o[1]) == case['expect'] else ['keyword| expand(%r) = %r, expected %r' % (case['s'], o[1], case['expect'])]
    opt = pinned_options(case, effective_options(case['c']))
    between, after = opt.get('stylesheet.between'), opt.get('stylesheet.after')
    got = strip_fields(o[1])
    g = case['g']
    body = case.get('body') if g == 'user' else stylesheet_snippets[case['key']]
    is_prop = re.match(r'^[\w-]+(?::|$)', body) is not None and ';' not in body and not body.startswith('@') and '\n' not in body and '{' not in body.split(':')[0] and ' ' not in body.split(':')[0]
    scope = (case['c'].get('context') or {}).get('name')
    if g in ('key', 'user'):
        if (scope == '@@section' and is_prop) or (scope == '@@property' and not is_prop):
            # the snippet is not of the permitted kind: whatever comes out must not be this snippet's own expansion ... unless another
            # snippet of the permitted kind legitimately produces the same text; we only require that no exception escaped
            return []
        if is_prop:
            prop, _, vals = body.partition(':')
            first = vals.split('|')[0] if vals else ''
            want = prop + between + strip_fields(first) + after
        else: want = strip_fields(body)
        if got != want: return ['own-key| expand(%r, %r) = %r, the snippet %r should give %r' % (case['s'], case['c'], o[1], body, want)]
    elif g == 'keyword':
        prop = body.split(':')[0]
        want = prop + between + case['kw'] + after
        if got != want: return ['keyword| expand(%r) = %r, expected %r' % (case['s'], o[1], want)]
    return []


SECTION_CACHE = {}      # a cache first used by a call under the @@section scope
EDIT_DONE = []
SHARED_CACHE = {}      # one dictionary per worker process, shared by every C06 case that process runs (varying scopes / syntaxes)


def run(case, prop):
    ab = case['s']; o = outcome(ab, mk(case['c']), case.get('gc'))
    viol = []
    if prop == 'C05' and 'spec' in case:
        viol = oracle_C05(case, o)
        if 'gc' not in case:
            if not SECTION_CACHE: outcome('p10', dict(mk({'context': {'name': '@@section'}}), cache=SECTION_CACHE)); SECTION_CACHE.setdefault('~used~', 1) if False else None
            o2 = outcome(ab, dict(mk(case['c']), cache=SECTION_CACHE))
            # a text callback that uses the library itself (another stylesheet expansion with other punctuation) while this one is being written
            def reentrant(text, **kw):
                try: outcome('m10+c#f', mk({'syntax': 'sass', 'options': {'stylesheet.between': ' = ', 'stylesheet.after': '', 'stylesheet.shortHex': False}}))
                except Exception: pass
                return text
            c4 = mk(case['c']); c4['options']['output.text'] = reentrant
            o4 = outcome(ab, c4)
            if o4 != o: viol = viol + ['(with an output.text callback that calls expand itself) ' + v for v in oracle_C05(case, o4)]
            if o2 != o: viol = viol + ['(with a cache first used under the @@section scope) ' + v for v in oracle_C05(case, o2)]
    elif prop == 'C06' and 'key' in case:
        viol = oracle_C06(case, o)
        if not EDIT_DONE:
            EDIT_DONE.append(1)
            outcome('trf:scale(5)+trf:s(2)+trf:t(1, 2)+trf:r(9)', dict(mk({}), cache=SHARED_CACHE))      # function keywords typed with arguments, earlier, under the shared cache
        if case['g'] == 'user' and 'snippets' in case['c']:
            # the caller reuses ONE dictionary: first with another snippet table, then - edited in place - with this one
            c0 = mk(dict(case['c'], snippets={'zzother': 'x-y:z'})); outcome('zzother', c0)
            c0['snippets'] = copy.deepcopy(case['c']['snippets'])
            o3 = outcome(ab, c0)
            if o3 != o: viol = viol + ['(the same dictionary, edited in place after an earlier call) ' + v for v in oracle_C06(case, o3)]
        if 'snippets' not in case['c'] and 'gc' not in case:
            # the same call with a cache dictionary shared with earlier calls (other scopes / syntaxes) must select the same snippet
            c2 = mk(case['c']); c2['cache'] = SHARED_CACHE
            o2 = outcome(ab, c2)
            if o2 != o: viol.append('shared-cache| expand(%r, %r) = %r with a cache shared with earlier calls, %r without' % (ab, case['c'], o2[1], o[1]))
    elif prop == 'C07':
        import dom_expand
        viol = dom_expand.oracle_C07(ab, o)
    tags = {'gen:' + case['g']: 1, 'outcome:' + o[0]: 1, 'syntax:' + case['c'].get('syntax', '-'): 1}
    return line_of(o), viol, tags


def compare(case, line, ml):
    import vlib
    if vlib.unmodelled_text(case['s']): return None
    if ml.startswith('internal unmodelled'): return None          # decimals outside the exact fragment (> 4 fraction digits)
    ctx = (case['c'].get('context') or {}).get('name')
    if ctx is not None and ctx not in ('@@global', '@@section', '@@property'): return None   # value scope is not modelled
    return line == ml


def nontrivial(case, line):
    return line.startswith('ok') and len(line) > 12


def describe(case):
    return {'abbreviation': case['s'], 'config': dict(case['c'], type='stylesheet')}
