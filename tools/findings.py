"""Known findings (committed file /verif/known_findings.json, never written at run time) and the corpus of past failures.

A violation is attributed to a listed finding only when the failing case equals the finding's witness or satisfies the
finding's *family* predicate below (a decidable predicate on the case and the violation); anything else is a new
violation.  Entries with status "fixed" match nothing."""
import os, json, glob
import vlib


def key_of(v):
    """violation strings have the form '<key>| details'; the key groups violations of one kind"""
    return v.split('|', 1)[0].strip()


FAMILIES = {}


def family(name):
    def deco(f):
        FAMILIES[name] = f; return f
    return deco


@family('C11_escaped_bracket')
def _c11_escaped(case, v):
    """round trip fails and the generated abbreviation contains a backslash-escaped bracket or quote: extract counts raw
    brackets and knows nothing about escapes"""
    import re
    if 'rt' not in case: return False
    ab = case['s'][case['rt'][0]:case['rt'][1]]
    return re.search(r'\\[{}\[\]()"\']', ab) is not None


@family('C12_inner_text_with_children')
def _c12_inner(case, v):
    """an element whose text is laid out on lines of its own (it contains a line break) AND that has children: the line break that
    is pushed after such text puts what follows (a white-space-only line, an inline child, a text-only child) at the element's own
    indentation instead of one level deeper"""
    def has(seq):
        for item, op in seq:
            if item['k'] == 'group':
                if has(item['body']): return True
            elif item.get('text') and ('\n' in item['text'] or '\r' in item['text']) and op == '>': return True
        return False
    return 'seq' in case and has(case['seq'])


@family('C08_bem_lookup_default')
def _c08_bem(case, v):
    """the only container that grew is the mutable default argument `lookup` of emmet.markup.addon.bem.get_block_name"""
    import re
    keys = re.findall(r"'(emmet[^']*)': \(", v)
    return bool(keys) and all(k == 'emmet.markup.addon.bem.get_block_name.__defaults__[2]' for k in keys)


@family('C15_text_only_child')
def _c15_text_only(case, v):
    """the abbreviation contains a text-only node `{text}`: the indent formatter does not start a line for it"""
    def has(seq):
        for item, op in seq:
            if item['k'] == 'group':
                if has(item['body']): return True
            elif not item.get('name') and not item.get('mentions') and item.get('text') is not None: return True
        return False
    return 'seq' in case and has(case['seq'])


@family('C12_align_own_content')
def _c12_align_own(case, v):
    """the oracle classified the misaligned closing tag from the denoted tree: its element has multi-line own text, or is an empty leaf
    under formatLeafNode / formatForce (key align-own-content); any other misaligned closing tag has key `align` and is not covered"""
    return key_of(v) == 'align-own-content'


@family('C19_float_floor')
def _c19_float_floor(case, v):
    """the documented expression tree, evaluated in IEEE doubles by the generator (independently of the implementation), already
    differs from its exact value: a `\\` whose double quotient falls on the other side of an integer"""
    from fractions import Fraction as F
    if case.get('fval') in (None, 'inf', '-inf', 'nan') or not isinstance(case.get('val'), list): return False
    w = F(case['val'][0], case['val'][1]); f = F(case['fval'])
    return abs(f - w) > F(1, 10 ** 9) * max(1, abs(w))


@family('css_brace_in_parens')
def _css_brace_in_parens(case, v):
    """the stylesheet has a `{` or `}` between parentheses, outside strings and comments"""
    s = case.get('s') or case.get('source') or ''
    if not isinstance(s, str): return False
    i = 0; depth = 0; n = len(s)
    while i < n:
        ch = s[i]
        if s.startswith('/*', i):
            j = s.find('*/', i + 2); i = n if j < 0 else j + 2; continue
        if ch in '"\'':
            j = i + 1
            while j < n and s[j] != ch:
                j += 2 if s[j] == '\\' else 1
            i = j + 1; continue
        if ch == '(': depth += 1
        elif ch == ')': depth = max(0, depth - 1)
        elif ch in '{}' and depth > 0: return True
        i += 1
    return False


def attribute(known, prop, domname, dom, case, v):
    for f in known:
        if f.get('domain') and f['domain'] != domname: continue
        if f.get('key') and f['key'] != key_of(v): continue
        if f.get('keys') and key_of(v) not in f['keys']: continue
        w = f.get('witness')
        if w is not None and all(case.get(k) == val for k, val in w.items()):
            return f
        fam = f.get('family')
        if fam and fam in FAMILIES:
            try:
                if FAMILIES[fam](case, v): return f
            except Exception:
                pass
    return None


def corpus_cases(prop, domname):
    out = []
    for p in sorted(glob.glob(os.path.join(vlib.ROOT, 'corpus', prop, '*.json'))):
        try:
            j = json.load(open(p))
        except Exception:
            continue
        if j.get('domain') == domname:
            c = dict(j['case']); c.setdefault('g', 'corpus'); out.append(c)
    return out
