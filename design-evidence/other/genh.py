import sys, itertools, random
sys.path.insert(0,'/repo')
from emmet.html_matcher import match, balanced_outward, balanced_inward, scan
from emmet.html_matcher.utils import default_special
random.seed(5)
A=list("<>/=\"'a b-![]?")
FR=A+['<a>','</a>','<b c="d>e">','</b>','<br>','<i/>','<img x=y>','<!--','-->','<![CDATA[',']]>','<?','?>','<script>','</script>','<script type="text/x">','<style>','</style>','\\','{','}','(',')','*x','#y',' e=f',"='g'",'<p ','é','x:y']
def hx(s): return ','.join('%x'%ord(ch) for ch in s)
def sm(m): return 'None' if m is None else '%s:%d-%d:%s'%(m.name,m.open[0],m.open[1],'None' if not m.close else '%d-%d'%tuple(m.close))
L=int(sys.argv[1]); NR=int(sys.argv[2])
def cases():
    for l in range(0,L+1):
        for t in itertools.product(A,repeat=l): yield ''.join(t)
    for _ in range(NR): yield ''.join(random.choice(FR) for _ in range(random.randint(1,9)))
with open('inh.txt','w') as fi, open('pyh.txt','w') as fo:
    for s in cases():
        fi.write(hx(s)+'\n')
        ev=[]
        scan(s, lambda n,t,a,b: ev.append('%s:%d:%d:%d'%(n,t,a,b)), default_special)
        out='E '+' '.join(ev)
        for xml in (False,True):
            for pos in range(-1,len(s)+2):
                try:
                    m=match(s,pos,{'xml':xml}); o=balanced_outward(s,pos,{'xml':xml}); i=balanced_inward(s,pos,{'xml':xml})
                    out+=' | %s ; %s ; %s'%(sm(m),' '.join(sm(x) for x in o),' '.join(sm(x) for x in i))
                except Exception as e: out+=' | EXC %s'%type(e).__name__
        fo.write(out+'\n')
