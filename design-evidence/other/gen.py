import sys, itertools, random
sys.path.insert(0,'/repo')
from fractions import Fraction as F
from emmet.math_expression import evaluate
from emmet.math_expression.parser import parse, MathExpressionException, TokenType
random.seed(3)
A=list("12.+-*/\\() ")
def hx(s): return ','.join('%x'%ord(ch) for ch in s)
def q(v):
    f=F(v).limit_denominator(10**9); return '%d/%d'%(f.numerator,f.denominator)
def st(t):
    if t.type==TokenType.Number: return 'num:%s:%d'%(q(t.value),t.priority)
    if t.type==TokenType.Op1: return 'op1:%d:%d'%(ord(t.value),t.priority)
    if t.type==TokenType.Op2: return 'op2:%d:%d'%(ord(t.value),t.priority)
    return 'null'
def err(e):
    if isinstance(e,MathExpressionException): return 'math %s'%getattr(e,'pos',None)
    if isinstance(e,ZeroDivisionError): return 'zerodiv'
    return 'internal %s'%type(e).__name__
L=int(sys.argv[1])
def cases():
    for l in range(0,L+1):
        for t in itertools.product(A,repeat=l): yield ''.join(t)
    for _ in range(100000): yield ''.join(random.choice(A+['10','0','.5','(1+2)','-']) for _ in range(random.randint(6,14)))
with open('in.txt','w') as fi, open('py.txt','w') as fo, open('pyval.txt','w') as fv:
    for s in cases():
        fi.write(hx(s)+'\n')
        try: p='ok '+' '.join(st(t) for t in parse(s))
        except Exception as e: p=err(e)
        try:
            v=evaluate(s); e='ok None' if v is None else 'ok'; fv.write(repr(float(v)) +'\n' if v is not None else 'None\n')
        except Exception as ex: e=err(ex); fv.write('-\n')
        fo.write(p+' || '+e+'\n')
