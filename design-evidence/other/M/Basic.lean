def hello := "world"
