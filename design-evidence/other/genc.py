import sys, itertools, random
sys.path.insert(0,'/repo')
from emmet.css_matcher import match, balanced_outward, balanced_inward, scan, split_value
random.seed(6)
A=list("{}:;()\"'\\/*a- \n")
FR=A+['a{','b:c;','d: e f;','}','/*','*/','@media (min-width: 1px){','x::before{','"s;}"',"'{'",'url(a;b)','$v:1;','  ','--x:y','a:hover{','1px solid',' - ',', ']
def hx(s): return ','.join('%x'%ord(ch) for ch in s)
L=int(sys.argv[1]); NR=int(sys.argv[2])
def cases():
    for l in range(0,L+1):
        for t in itertools.product(A,repeat=l): yield ''.join(t)
    for _ in range(NR): yield ''.join(random.choice(FR) for _ in range(random.randint(1,9)))
def sr(r): return '%d-%d'%(r[0],r[1])
with open('inc.txt','w') as fi, open('pyc.txt','w') as fo:
    for s in cases():
        fi.write(hx(s)+'\n')
        ev=[]
        scan(s, lambda t,a,b,d: ev.append('%s:%d:%d:%d'%(t,a,b,d)))
        try: sv=' '.join(sr(r) for r in split_value(s))
        except Exception as e: sv='EXC '+type(e).__name__
        out='E '+' '.join(ev)+' | S '+sv
        for pos in range(-1,len(s)+2):
            try:
                m=match(s,pos); o=balanced_outward(s,pos); i=balanced_inward(s,pos)
                out+=' | %s ; %s ; %s'%('None' if m is None else '%s:%d:%d:%d:%d'%(m.type,m.start,m.end,m.body_start,m.body_end),' '.join(sr(x) for x in o),' '.join(sr(x) for x in i))
            except Exception as e: out+=' | EXC %s'%type(e).__name__
        fo.write(out+'\n')
