import sys, itertools, random
sys.path.insert(0,'/repo')
from fractions import Fraction as F
from emmet.css_abbreviation import tokenize, parse
from emmet.css_abbreviation.tokenizer import tokens as T
from emmet.css_abbreviation.parser import FunctionCall
from emmet.scanner import ScannerException
from emmet.token_scanner import TokenScannerException
random.seed(8)
A=list("ab1.#-+!,:()\"'$@%/ t{}_")
FR=A+['10','0','.5','1.','px','em','#fc0','#f.5','#t','lg(','${1:x}','${a}','--foo','scale3d(','${','!important','p10-20','m-10--20','c#e7bc0b','rgb(1, 2, 3)','"s t"',"'q'",'bd1-s#f.5','@m','$v','10p','2e','-']
def hx(s): return ','.join('%x'%ord(ch) for ch in s) if s else '_'
def b(x): return 'true' if x else 'false'
def st(t):
    n=type(t).__name__
    if n=='Operator': body='Op %d'%ord(t.operator)
    elif n=='Bracket': body='Br %s'%b(t.open)
    elif n=='Literal': body='Lit %s'%hx(t.value)
    elif n=='CustomProperty': body='Cus %s'%hx(t.value)
    elif n=='NumberValue': body='Num %s %s'%(hx(t.raw_value),hx(t.unit))
    elif n=='ColorValue':
        f=F(repr(float(t.a))); body='Col %d %d %d %d/%d %s'%(t.r,t.g,t.b,f.numerator,f.denominator,hx(t.raw))
    elif n=='StringValue': body='Str %s %s'%(hx(t.value),b(t.quote=='single'))
    elif n=='Field': body='Fld %s %s'%(hx(t.name),t.index)
    elif n=='WhiteSpace': body='Ws'
    return '%s:%d:%s'%(t.start,t.end,body)
def sv(v):
    if isinstance(v,FunctionCall): return 'FN(%s)['%hx(v.name)+' ; '.join(' '.join(sv(x) for x in a.value) for a in v.arguments)+']'
    return st(v)
def sp(p): return 'P<%s %s '%(hx(p.name) if p.name is not None else 'None', b(p.important))+' , '.join(' '.join(sv(x) for x in v.value) for v in p.value)+'>'
def err(e):
    if isinstance(e,ScannerException): return 'scanner %d'%e.pos
    if isinstance(e,TokenScannerException): return 'token %s'%e.pos
    return 'internal %s'%type(e).__name__
L=int(sys.argv[1]); NR=int(sys.argv[2])
def cases():
    for l in range(0,L+1):
        for t in itertools.product(A,repeat=l): yield ''.join(t)
    for _ in range(NR): yield ''.join(random.choice(FR) for _ in range(random.randint(1,7)))
with open('ina.txt','w') as fi, open('pya.txt','w') as fo:
    for s in cases():
        fi.write((hx(s) if s else '')+'\n'); out=''
        for vm in (False,True):
            try: t='ok '+' | '.join(st(x) for x in tokenize(s,vm))
            except Exception as e: t=err(e)
            try: p='ok '+' '.join(sp(x) for x in parse(s,{'value':vm}))
            except Exception as e: p=err(e)
            out+=t+' ## '+p+' @@ '
        fo.write(out+'\n')
