import sys, random
sys.path.insert(0,'/repo')
from emmet import expand
from emmet.snippets import stylesheet_snippets
from emmet.scanner import ScannerException
from emmet.token_scanner import TokenScannerException
random.seed(11)
def field(index, placeholder, **kw): return '${%d:%s}'%(index,placeholder) if placeholder else '${%d}'%index
CFGS=[{}, {'options':{'stylesheet.intUnit':'pt','stylesheet.floatUnit':'rem','stylesheet.shortHex':False}}, {'syntax':'stylus'}, {'syntax':'sass'}, {'options':{'stylesheet.skipUnmatched':False,'output.format':False}}]
CACHE=[{} for _ in CFGS]
def mk(i):
    c=dict(CFGS[i]); o={'output.field':field}; o.update(c.get('options',{})); c['options']=o; c['type']='stylesheet'; c['cache']=CACHE[i]; return c
def hx(s): return ','.join('%x'%ord(ch) for ch in s) if s else '_'
KEYS=list(stylesheet_snippets)
VALS=['10','-10','0','.5','1.','1.25','10p','2e','3x','1r','10px','#f','#fc0','#e7bc1b','#0a0b0c','#f.5','#t','#','!','-','+','--x','a','auto','block','ib','n','(1, 2)','"s"',"'q'",'${1:x}',':',' ','sol','das','lg(to right, #000, #fff)','b','bold','bo','url(x)','repeat(2)','%','/','10-20','c','h','r','nw']
def mutate(s):
    s=list(s)
    k=random.random(); i=random.randint(0,len(s))
    if k<.4: s.insert(i,random.choice('abcdefghijklmnopqrstuvwxyz-:0'))
    elif k<.8 and len(s)>1: del s[min(i,len(s)-1)]
    elif s: s[min(i,len(s)-1)]=random.choice('abcdefghijklmnopqrstuvwxyz')
    return ''.join(s)
def cases():
    for k in KEYS:
        for ci in range(len(CFGS)): yield k,ci
    for k in KEYS:
        for v in VALS: yield k+v, random.randrange(len(CFGS))
        for v in [':','-']:
            for w in ['auto','none','block','relative','red','left','inherit','NONE','Block']: yield k+v+w, 0
    for _ in range(30000):
        r=random.random()
        if r<.4: ab=mutate(random.choice(KEYS))+random.choice(['']+VALS)
        elif r<.8: ab=random.choice(KEYS)+''.join(random.choice(VALS) for _ in range(random.randint(1,3)))
        else: ab='+'.join(random.choice(KEYS)+random.choice(['']+VALS) for _ in range(random.randint(2,3)))
        yield ab, random.randrange(len(CFGS))
with open('ins.txt','w') as fi, open('pys.txt','w') as fo:
    for ab,ci in cases():
        fi.write('%s;%d\n'%(hx(ab) if ab else '',ci))
        try: fo.write('ok '+hx(expand(ab, mk(ci)))+'\n')
        except ScannerException as e: fo.write('scanner %d\n'%e.pos)
        except TokenScannerException as e: fo.write('token %s\n'%e.pos)
        except Exception as e: fo.write('internal %s\n'%type(e).__name__)
