import M.ExtractProof
#print axioms X.extract_consistent
