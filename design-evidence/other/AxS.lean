import M.HtmlScanProof
#print axioms H.scan_good
#check @H.scan_good
