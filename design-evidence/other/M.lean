import M.CssAbbr
import M.CssTiles
