import M.CssTiles
#print axioms CA.tokenize_tiles
