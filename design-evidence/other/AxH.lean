import M.HtmlProof
#print axioms H.C09_match
#print axioms H.C09_outward
