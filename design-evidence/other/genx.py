import sys, itertools, random
sys.path.insert(0,'/repo')
from emmet import extract
random.seed(7)
A=list("ab1$#.[]{}()*>+^=\"'\\ @-/!:<")
FR=A+['<div>','<a href="x">','</p>','<br/>','<img src=y alt>','ul>li','li[title=x]*3>a','a[h=x].c>b','{text}','[a="b c"]','em:','\t','<','x="1"',"y='2'",'div.cls#id','p{a}','(a+b)*2','= ','<a b=c d>']
def hx(s): return ','.join('%x'%ord(ch) for ch in s)
OPTS=[{}, {'type':'stylesheet'}, {'lookAhead':False}, {'prefix':'<'}, {'prefix':'em:','lookAhead':False}, {'prefix':'<','type':'stylesheet'}]
L=int(sys.argv[1]); NR=int(sys.argv[2])
def cases():
    for l in range(0,L+1):
        for t in itertools.product(A,repeat=l): yield ''.join(t)
    for _ in range(NR): yield ''.join(random.choice(FR) for _ in range(random.randint(1,8)))
with open('inx.txt','w') as fi, open('pyx.txt','w') as fo:
    for s in cases():
        fi.write(hx(s)+'\n'); out=''
        for o in OPTS:
            for pos in range(-1,len(s)+2):
                try:
                    r=extract(s,pos,o)
                    out+= 'N ' if r is None else '[%s]:%d:%d:%d '%(hx(r.abbreviation),r.location,r.start,r.end)
                except Exception as e: out+='EXC%s '%type(e).__name__
        fo.write(out+'\n')
