import T.Main
#print axioms T.tokenize_tiles
example : (match T.tokenize ("ul>li.item$*3{x ${1:y}}".toList.map Char.toNat) with | .ok ts => ts.length | _ => 0) = 14 := by decide +kernel
