import sys, itertools
sys.path.insert(0,'/repo')
from emmet.abbreviation.tokenizer import tokenize
from emmet.scanner import ScannerException
A = list("aA1$#.[]{}()*>+^=\"'\\ @-/!:")
def hx(s): return ','.join('%x'%ord(ch) for ch in s)
def b(x): return 'true' if x else 'false'
def show(t):
    n=t.type
    if n=='Repeater': body='Repeater %d %s'%(t.count,b(t.implicit))
    elif n=='RepeaterNumber': body='RepeaterNumber %d %s %d %d'%(t.size,b(t.reverse),t.base,t.parent)
    elif n=='RepeaterPlaceholder': body='RepeaterPlaceholder'
    elif n=='Field': body='Field [%s] %s'%(hx(t.name), t.index)
    elif n=='Operator': body='Operator %s'%t.operator
    elif n=='Bracket': body='Bracket %s %s'%(b(t.open),t.context)
    elif n=='Quote': body='Quote %s'%b(t.single)
    elif n=='Literal': body='Literal [%s]'%hx(t.value)
    elif n=='WhiteSpace': body='WhiteSpace [%s]'%hx(t.value)
    return '%d:%d:%s'%(t.start,t.end,body)
L=int(sys.argv[1])
with open('in.txt','w') as fi, open('py.txt','w') as fo:
    extra=['${1:a{b}c}','[${12:x}]','{${a}}','[a=${1}','{${1:{}','a1/2.3/4','a{b{c}d}e','[a="b c" d=\'e\']','x$$@^^-12*3','{\\}}','a\\','[${']
    def cases():
        for l in range(0,L+1):
            for t in itertools.product(A, repeat=l): yield ''.join(t)
        for e in extra: yield e
    for s in cases():
        fi.write(hx(s)+'\n')
        try: fo.write('ok '+' | '.join(show(t) for t in tokenize(s))+'\n')
        except ScannerException as e: fo.write('err %d\n'%e.pos)
        except Exception as e: fo.write('EXC %s\n'%type(e).__name__)
