def hello := "world"
