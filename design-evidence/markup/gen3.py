import sys, itertools, random, copy
sys.path.insert(0,'/repo')
from emmet import expand
from emmet.scanner import ScannerException
from emmet.token_scanner import TokenScannerException
random.seed(int(sys.argv[2]) if len(sys.argv)>2 else 1)
def field(index, placeholder, **kw): return '${%d:%s}'%(index,placeholder) if placeholder else '${%d}'%index
B={'markup.href':False,'output.field':field}
CFGS=[{}, {'options':{'output.format':False}},
 {'options':{'output.selfClosingStyle':'xhtml','output.attributeQuotes':'single','output.tagCase':'upper'}},
 {'options':{'output.selfClosingStyle':'xml','output.compactBoolean':True,'output.attributeCase':'upper'}},
 {'options':{'output.inlineBreak':0,'output.formatLeafNode':True,'output.indent':'  ','output.baseIndent':'\t','output.newline':'\r\n'}},
 {'options':{'output.reverseAttributes':True}},
 {'syntax':'jsx'}, {'syntax':'xsl'}, {'text':['foo','','bar']}, {'text':'x\ny'}, {'syntax':'vue'}, {'maxRepeat':3},
 {'options':{'output.formatSkip':[],'output.formatForce':['div'],'output.inlineBreak':1}}, {'context':{'name':'ul'}},
 {'syntax':'haml'}, {'syntax':'pug'}, {'syntax':'slim'},
 {'syntax':'pug','options':{'output.selfClosingStyle':'xml','output.compactBoolean':True,'output.indent':'  '}},
 {'syntax':'haml','options':{'output.compactBoolean':True,'output.attributeQuotes':'single'},'text':['foo','bar']},
 {'syntax':'slim','text':'l1\nl2','options':{'output.attributeCase':'upper'}}]
ONLY=[int(x) for x in sys.argv[3].split(',')] if len(sys.argv)>3 else None
def mk(i):
    c=copy.deepcopy(CFGS[i]); o=dict(B); o.update(c.get('options',{})); c['options']=o; return c
A = list("aA1$#.[]{}()*>+^=\"'\\ @-/!:")
def hx(s): return ','.join('%x'%ord(ch) for ch in s) if s else '_'
NAMES=['div','p','span','a','ul','li','em','img','br','input','label','table','tr','td','select','html','body','x','b','textarea','link:css','meta:vp','!','cc:ie','c','xsl:variable','vare','tm','choose','ri:a','btn','form:post','h1','section','strong','i']
def rand_abbr(budget, depth):
    parts=[]
    while budget[0]>0 and (not parts or random.random()<.5):
        budget[0]-=1
        if random.random()<.1:
            parts.append(random.choice(['{txt}','{a ${1} b}','{l1\nl2}','{${2:x}}'])); continue
        s=random.choice(NAMES) if random.random()<.85 else ''
        if not s or random.random()<.3: s+='.c%d'%random.randint(0,2)
        if random.random()<.15: s+='#i'
        if random.random()<.1: s+='..m'
        if random.random()<.25: s+=random.choice(['[t=v]','[t="a b"]','[!u]','[w.]','[checked]','[for]','[id]','[select=x name=y]','[class=z]','[t={e}]','[k=${1:q}]',"[t='s']",'[disabled.]'])
        if random.random()<.25: s+=random.choice(['{tx}','{a $ b}','{<div>x</div>}','{l1\nl2}','{${1} z}','{$#}'])
        if random.random()<.2: s+='*%d'%random.randint(1,3)
        elif random.random()<.05: s+='*'
        if depth>0 and random.random()<.5: s='('+s+'>'+rand_abbr(budget,depth-1)+')'
        elif random.random()<.1: s+='/'
        parts.append(s)
    return random.choice(['+','+','+','']).join(parts) if False else '+'.join(parts)
def mutate(s):
    s=list(s)
    k=random.random(); i=random.randint(0,len(s))
    if k<.4: s.insert(i,random.choice(A))
    elif k<.7 and s: del s[min(i,len(s)-1)]
    elif s: s[min(i,len(s)-1)]=random.choice(A)
    return ''.join(s)
N=int(sys.argv[1])
with open('in3.txt','w') as fi, open('py3.txt','w') as fo:
    for n in range(N):
        ab=rand_abbr([random.randint(1,8)],3)
        if random.random()<.15: ab=mutate(ab)
        ci=random.choice(ONLY) if ONLY else random.randrange(len(CFGS))
        fi.write('%s;%d\n'%(hx(ab) if ab else '',ci))
        try: fo.write('ok '+hx(expand(ab, mk(ci)))+'\n')
        except ScannerException as e: fo.write('scanner %d\n'%e.pos)
        except TokenScannerException as e: fo.write('token %s\n'%e.pos)
        except RecursionError: fo.write('RECURSION\n')
        except Exception as e: fo.write('internal %s\n'%type(e).__name__)
