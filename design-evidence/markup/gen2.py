import sys, itertools, random
sys.path.insert(0,'/repo')
from emmet.abbreviation import parse
from emmet.scanner import ScannerException
from emmet.token_scanner import TokenScannerException
random.seed(int(sys.argv[2]) if len(sys.argv)>2 else 1)
A = list("aA1$#.[]{}()*>+^=\"'\\ @-/!:")
def hx(s): return ','.join('%x'%ord(ch) for ch in s) if s else '_'
def b(x): return 'true' if x else 'false'
def sv(v):
    if v is None: return 'None'
    return '['+' '.join('S(%s)'%hx(t) if isinstance(t,str) else 'F(%s,%d)'%(hx(t.name),t.index) for t in v)+']'
def sa(a): return '<%s %s %s %s %s %s>'%(hx(a.name) if a.name is not None else 'None', sv(a.value), a.value_type, b(a.boolean), b(a.implied), b(a.multiple))
def sr(r): return 'None' if r is None else '%d/%d/%s'%(r.count,r.value,b(r.implicit))
def sn(n):
    a='None' if n.attributes is None else '['+' '.join(sa(x) for x in n.attributes)+']'
    return '(%s %s %s %s %s [%s])'%(hx(n.name) if n.name is not None else 'None', sv(n.value), a, sr(n.repeat), b(n.self_closing), ' '.join(sn(c) for c in n.children))
TEXTS=[None,None,None,'foo',' a b ','', ['x','y'], ['a','',' b '], [], ['',' '], ['$#','*2']]
VALID=['ul>li.item$*3>a{Item $}','div#a.b[c=d e="f g"]>p{x}+span','(a>b)*2+c^d','ul>li*','ul>li[t=$#]*>b{$#}','a$$@-3*2','(x$+y)*3>z$@^','p{${1:x} ${a}}','Foo.Bar.Baz','.{a.b}','a[!b c. d={e} "f"]','a{b{c}d}','x*2>y*3>z$@^^','a[b=(c)]','a/+b/*2','{t}>c','{t ${1}}>c','a*0','(a+b)*>c{$#}','[a=b][a=c].d.e']
def mutate(s):
    s=list(s)
    for _ in range(random.randint(1,2)):
        k=random.random(); i=random.randint(0,len(s))
        if k<.4: s.insert(i,random.choice(A))
        elif k<.7 and s: del s[min(i,len(s)-1)]
        elif s: s[min(i,len(s)-1)]=random.choice(A)
    return ''.join(s)
L=int(sys.argv[1]); NR=int(sys.argv[3]) if len(sys.argv)>3 else 100000
def cases():
    for l in range(0,L+1):
        for t in itertools.product(A, repeat=l): yield ''.join(t), {}
    for _ in range(NR):
        r=random.random()
        s = ''.join(random.choice(A) for _ in range(random.randint(0,9))) if r<.3 else mutate(random.choice(VALID)) if r<.8 else random.choice(VALID)
        o={}
        if random.random()<.3: o['jsx']=True
        t=random.choice(TEXTS)
        if t is not None: o['text']=t
        if random.random()<.3: o['max_repeat']=random.choice([0,1,2,3,5,-1])
        v=random.choice([None,None,{}, {'a':'AA','lang':'en'}])
        if v is not None: o['variables']=v
        yield s,o
with open('in2.txt','w') as fi, open('py2.txt','w') as fo:
    for s,o in cases():
        t=o.get('text')
        ts='N' if t is None else ('S:'+hx(t) if isinstance(t,str) else 'L:'+'|'.join(hx(x) for x in t))
        m=o.get('max_repeat'); v=o.get('variables')
        vs='N' if v is None else ('E' if not v else 'D:'+'&'.join('%s=%s'%(hx(k),hx(x)) for k,x in v.items()))
        fi.write('%s;%d;%s;%s;%s\n'%(hx(s) if s else '', 1 if o.get('jsx') else 0, ts, 'N' if m is None else m, vs))
        try: fo.write('ok '+' '.join(sn(c) for c in parse(s, dict(o)).children)+'\n')
        except ScannerException as e: fo.write('scanner %d\n'%e.pos)
        except TokenScannerException as e: fo.write('token %s\n'%e.pos)
        except RecursionError: fo.write('RECURSION\n')
        except Exception as e: fo.write('internal %s\n'%type(e).__name__)
