import T.ConvProof
#print axioms T.listOK
#check @T.listOK
