import T.Indent
import T.ParseProof
import T.ConvProof
