import T.ParseProof
#print axioms T.statements_den
#print axioms T.parseTokens_den
