inductive ANode | mk (name : Option Nat) (children : List ANode)
  -- `deriving DecidableEq` is rejected for this nested inductive (checked); compare through a hand-written BEq

mutual
def walkNode (r : Nat → Except String (Option (List ANode))) : ANode → Except String (List ANode)
  | .mk name kids => do
    let kids' ← walkList r kids
    match name with
    | none => .ok [.mk name kids']
    | some k =>
      match ← r k with
      | some res => .ok (res ++ kids')
      | none => .ok [.mk name kids']
def walkList (r : Nat → Except String (Option (List ANode))) : List ANode → Except String (List ANode)
  | [] => .ok []
  | c :: cs => do
    let h ← walkNode r c
    let t ← walkList r cs
    .ok (h ++ t)
end

def resolveN (tbl : Nat → Option (List ANode)) : Nat → Nat → Except String (Option (List ANode))
  | 0, _ => .error "fuel"
  | n+1, k => match tbl k with
    | none => .ok none
    | some f => do let inner ← walkList (resolveN tbl n) f; .ok (some inner)

#print axioms walkNode
theorem t : walkList (fun _ => .ok none) [] = .ok [] := by simp [walkList]
theorem t2 (r) (n k) : walkNode r (.mk n k) = (do
    let kids' ← walkList r k
    match n with
    | none => .ok [.mk n kids']
    | some k =>
      match ← r k with
      | some res => .ok (res ++ kids')
      | none => .ok [.mk n kids']) := by rw [walkNode]
