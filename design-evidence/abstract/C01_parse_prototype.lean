namespace P

inductive Tok | name (n : Nat) | rep (k : Nat) | gopen | gclose | child | sib | climb
  deriving Repr, DecidableEq

inductive Node
  | elem (n : Nat) (rep : Option Nat) (kids : List Node)
  | group (rep : Option Nat) (kids : List Node)
  deriving Repr

inductive Hdr | root | elem (n : Nat) (rep : Option Nat) | grp (rep : Option Nat)
  deriving Repr

structure Frame where
  hdr : Hdr
  kids : List Node
  deriving Repr

def Frame.push (f : Frame) (n : Node) : Frame := { f with kids := f.kids ++ [n] }
def Frame.append (f : Frame) (ns : List Node) : Frame := { f with kids := f.kids ++ ns }

def close (f : Frame) : Node :=
  match f.hdr with
  | .elem n r => .elem n r f.kids
  | .grp r => .group r f.kids
  | .root => .group none f.kids   -- never used for the root in well-formed runs

def frameOf : Node → Frame
  | .elem n r ks => ⟨.elem n r, ks⟩
  | .group r ks => ⟨.grp r, ks⟩

/-- close all open frames, return the root's children -/
def closeAll : Frame → List Frame → List Node
  | cur, [] => cur.kids
  | cur, p :: above => closeAll (p.push (close cur)) above

def optRep : List Tok → Option Nat × List Tok
  | .rep k :: ts => (some k, ts)
  | ts => (none, ts)

/-- `while consume(climb): if stack: ctx = stack.pop()` -/
def climbs : List Tok → Frame → List Frame → Frame × List Frame × List Tok
  | .climb :: ts, cur, p :: above => climbs ts (p.push (close cur)) above
  | .climb :: ts, cur, [] => climbs ts cur []
  | ts, cur, above => (cur, above, ts)

mutual
/-- element(scanner) or group(scanner) -/
def parseItem : Nat → List Tok → Option (Node × List Tok)
  | 0, _ => none
  | _+1, .name n :: ts =>
      let (r, ts') := optRep ts
      some (.elem n r [], ts')
  | fuel+1, .gopen :: ts =>
      let (kids, ts1) := stmts fuel ts ⟨.root, []⟩ []
      -- token = scanner.next(): consumes one token whatever it is
      match ts1 with
      | .gclose :: ts2 =>
          let (r, ts3) := optRep ts2
          some (.group r kids, ts3)
      | _ :: ts2 => some (.group none kids, ts2)
      | [] => some (.group none kids, [])
  | _+1, _ => none

def stmts : Nat → List Tok → Frame → List Frame → List Node × List Tok
  | 0, ts, cur, above => (closeAll cur above, ts)
  | fuel+1, ts, cur, above =>
      match parseItem fuel ts with
      | none => (closeAll cur above, ts)
      | some (node, ts1) =>
        match ts1 with
        | .child :: ts2 => stmts fuel ts2 (frameOf node) (cur :: above)
        | .sib :: ts2 => stmts fuel ts2 (cur.push node) above
        | .climb :: ts2 =>
            let (cur', above', ts3) := climbs (.climb :: ts2) (cur.push node) above
            stmts fuel ts3 cur' above'
        | _ => stmts fuel ts1 (cur.push node) above
end

/-! ### Spec side: right-nested syntax and the `levels` denotation -/

mutual
inductive Item
  | elem (n : Nat) (rep : Option Nat)
  | group (body : Seq) (rep : Option Nat)
inductive Seq
  | last (i : Item)
  | child (n : Nat) (rep : Option Nat) (rest : Seq)
  | sib (i : Item) (rest : Seq)
  | climb (i : Item) (k : Nat) (rest : Seq)     -- k+1 climb operators
end

def repToks : Option Nat → List Tok
  | none => []
  | some k => [.rep k]

mutual
def Item.toks : Item → List Tok
  | .elem n r => .name n :: repToks r
  | .group b r => .gopen :: (b.toks ++ .gclose :: repToks r)
def Seq.toks : Seq → List Tok
  | .last i => i.toks
  | .child n r rest => .name n :: (repToks r ++ .child :: rest.toks)
  | .sib i rest => i.toks ++ .sib :: rest.toks
  | .climb i k rest => i.toks ++ (List.replicate (k+1) .climb ++ rest.toks)
end

def hd (L : List (List Node)) : List Node := L.headD []

mutual
def Item.node : Item → Node
  | .elem n r => .elem n r []
  | .group b r => .group r (b.levels.flatten)
def Seq.levels : Seq → List (List Node)
  | .last i => [[i.node]]
  | .child n r rest =>
      let L := rest.levels
      ((Node.elem n r (hd L)) :: hd L.tail) :: L.tail.tail
  | .sib i rest =>
      let L := rest.levels
      (i.node :: hd L) :: L.tail
  | .climb i k rest => [i.node] :: (List.replicate k [] ++ rest.levels)
end

def Seq.den (s : Seq) : List Node := s.levels.flatten

end P
namespace P

def plug : Frame → List Frame → List (List Node) → Frame × List Frame
  | cur, above, [] => (cur, above)
  | cur, above, [l] => (cur.append l, above)
  | cur, above, l :: l2 :: ls =>
      match above with
      | p :: ab => plug (p.push (close (cur.append l))) ab (l2 :: ls)
      | [] => plug (cur.append l) [] (l2 :: ls)

def finish (cur : Frame) (above : List Frame) (L : List (List Node)) : List Node :=
  closeAll (plug cur above L).1 (plug cur above L).2

mutual
def Item.size : Item → Nat
  | .elem _ _ => 1
  | .group b _ => b.size + 1
def Seq.size : Seq → Nat
  | .last i => i.size + 1
  | .child _ _ rest => rest.size + 1
  | .sib i rest => i.size + rest.size
  | .climb i _ rest => i.size + rest.size
end

theorem Item.size_pos (i : Item) : 0 < i.size := by cases i <;> simp [Item.size]

/-- tokens after which `parseItem` fails and `stmts` stops: end of input or `)` -/
def Stops : List Tok → Prop
  | [] => True
  | .gclose :: _ => True
  | _ => False

def NoRep : List Tok → Prop
  | .rep _ :: _ => False
  | _ => True

@[simp] theorem optRep_repToks (r : Option Nat) (rest : List Tok) (h : NoRep rest) :
    optRep (repToks r ++ rest) = (r, rest) := by
  cases r with
  | none =>
    simp only [repToks, List.nil_append]
    cases rest with
    | nil => rfl
    | cons t ts => cases t <;> first | rfl | exact absurd h (by simp [NoRep])
  | some k => rfl

theorem parseItem_stops (fuel : Nat) (rest : List Tok) (h : Stops rest) : parseItem fuel rest = none := by
  cases fuel with
  | zero => simp [parseItem]
  | succ n =>
    cases rest with
    | nil => simp [parseItem]
    | cons t ts => cases t <;> simp_all [parseItem, Stops]

theorem stmts_stops (fuel : Nat) (rest : List Tok) (cur above) (h : Stops rest) :
    stmts fuel rest cur above = (closeAll cur above, rest) := by
  cases fuel with
  | zero => simp [stmts]
  | succ n => simp [stmts, parseItem_stops n rest h]

/-! zipper algebra -/

theorem closeAll_append_root (cur : Frame) (l : List Node) :
    closeAll (cur.append l) [] = cur.kids ++ l := by simp [closeAll, Frame.append]

theorem finish_nil (cur above) : finish cur above [] = closeAll cur above := rfl

theorem finish_single (cur above l) : finish cur above [l] = closeAll (cur.append l) above := rfl

theorem finish_cons_cons_above (cur p ab l l2 ls) :
    finish cur (p :: ab) (l :: l2 :: ls) = finish (p.push (close (cur.append l))) ab (l2 :: ls) := rfl

theorem finish_cons_cons_root (cur l l2 ls) :
    finish cur [] (l :: l2 :: ls) = finish (cur.append l) [] (l2 :: ls) := rfl

@[simp] theorem Frame.append_nil (f : Frame) : f.append [] = f := by simp [Frame.append]
@[simp] theorem Frame.append_append (f : Frame) (a b) : (f.append a).append b = f.append (a ++ b) := by
  simp [Frame.append]
theorem Frame.push_eq_append (f : Frame) (n) : f.push n = f.append [n] := rfl

@[simp] theorem close_elem (n r ks) : close ⟨.elem n r, ks⟩ = .elem n r ks := rfl

/-- pushing an element frame and plugging `L` = plugging the assembled element into the parent -/
theorem finish_child (n r) (cur : Frame) (above : List Frame) (L : List (List Node)) (hL : L ≠ []) :
    finish ⟨.elem n r, []⟩ (cur :: above) L =
    finish cur above (((Node.elem n r (hd L)) :: hd L.tail) :: L.tail.tail) := by
  match L, hL with
  | [l], _ =>
    simp [finish_single, hd, closeAll, Frame.append, Frame.push]
  | [l, l2], _ =>
    simp [finish_cons_cons_above, finish_single, hd, Frame.append, Frame.push]
  | l :: l2 :: l3 :: ls, _ =>
    rw [finish_cons_cons_above]
    cases above with
    | nil =>
      rw [finish_cons_cons_root]
      simp only [hd, List.tail_cons, List.headD_cons]
      rw [finish_cons_cons_root]
      simp [Frame.append, Frame.push]
    | cons p ab =>
      rw [finish_cons_cons_above]
      simp only [hd, List.tail_cons, List.headD_cons]
      rw [finish_cons_cons_above]
      simp [Frame.append, Frame.push]

theorem finish_sib (node : Node) (cur : Frame) (above) (L : List (List Node)) (hL : L ≠ []) :
    finish (cur.push node) above L = finish cur above ((node :: hd L) :: L.tail) := by
  match L, hL with
  | [l], _ => simp [finish_single, hd, Frame.push_eq_append]
  | l :: l2 :: ls, _ =>
    cases above with
    | nil => simp [finish_cons_cons_root, hd, Frame.push_eq_append]
    | cons p ab => simp [finish_cons_cons_above, hd, Frame.push_eq_append]

/-- `k+1` climb operators after pushing `node`, then plugging `L` -/
theorem climbs_spec (k : Nat) (rest : List Tok) (cur : Frame) (above : List Frame) (hrest : ∀ t ts, rest = t :: ts → t ≠ .climb) :
    ∀ (L : List (List Node)), L ≠ [] →
    let r := climbs (List.replicate k .climb ++ rest) cur above
    r.2.2 = rest ∧ finish r.1 r.2.1 L = finish cur above (List.replicate k [] ++ L) := by
  induction k generalizing cur above with
  | zero =>
    intro L hL
    simp only [List.replicate, List.nil_append]
    cases rest with
    | nil => simp [climbs]
    | cons t ts =>
      have := hrest t ts rfl
      cases t <;> simp_all [climbs]
  | succ k ih =>
    intro L hL
    simp only [List.replicate_succ, List.cons_append]
    cases above with
    | nil =>
      simp only [climbs]
      have := ih cur [] L hL
      refine ⟨this.1, ?_⟩
      rw [this.2]
      cases hk : (List.replicate k ([] : List Node) ++ L) with
      | nil => simp_all
      | cons a as => rw [finish_cons_cons_root]; simp
    | cons p ab =>
      simp only [climbs]
      have := ih (p.push (close cur)) ab L hL
      refine ⟨this.1, ?_⟩
      rw [this.2]
      cases hk : (List.replicate k ([] : List Node) ++ L) with
      | nil => simp_all
      | cons a as => rw [finish_cons_cons_above]; simp

theorem levels_ne_nil (s : Seq) : s.levels ≠ [] := by
  cases s <;> simp [Seq.levels]

end P
namespace P

theorem finish_root (ks : List Node) (L : List (List Node)) :
    finish ⟨.root, ks⟩ [] L = ks ++ L.flatten := by
  induction L generalizing ks with
  | nil => simp [finish_nil, closeAll]
  | cons l ls ih =>
    cases ls with
    | nil => simp [finish_single, closeAll, Frame.append]
    | cons l2 ls2 =>
      rw [finish_cons_cons_root]
      have := ih (ks ++ l)
      simp only [Frame.append] at this ⊢
      rw [this]; simp

theorem Stops.noRep {rest} (h : Stops rest) : NoRep rest := by
  cases rest with
  | nil => trivial
  | cons t ts => cases t <;> simp_all [Stops, NoRep]

theorem Item.toks_head (i : Item) : ∃ t ts, i.toks = t :: ts ∧ (t = .gopen ∨ ∃ n, t = .name n) := by
  cases i with
  | elem n r => exact ⟨.name n, repToks r, by simp [Item.toks], Or.inr ⟨n, rfl⟩⟩
  | group b r => exact ⟨.gopen, b.toks ++ .gclose :: repToks r, by simp [Item.toks], Or.inl rfl⟩

theorem Seq.toks_head (s : Seq) : ∃ t ts, s.toks = t :: ts ∧ (t = .gopen ∨ ∃ n, t = .name n) := by
  cases s with
  | last i => simpa [Seq.toks] using i.toks_head
  | child n r rest => exact ⟨.name n, repToks r ++ .child :: rest.toks, by simp [Seq.toks], Or.inr ⟨n, rfl⟩⟩
  | sib i rest =>
    obtain ⟨t, ts, h, ht⟩ := i.toks_head
    exact ⟨t, ts ++ .sib :: rest.toks, by simp [Seq.toks, h], ht⟩
  | climb i k rest =>
    obtain ⟨t, ts, h, ht⟩ := i.toks_head
    exact ⟨t, ts ++ (List.replicate (k+1) .climb ++ rest.toks), by simp [Seq.toks, h], ht⟩

theorem Seq.size_pos (s : Seq) : 0 < s.size := by
  cases s with
  | last i => simp [Seq.size]
  | child n r rest => simp [Seq.size]
  | sib i rest => have := i.size_pos; simp [Seq.size]; omega
  | climb i k rest => have := i.size_pos; simp [Seq.size]; omega

theorem elem_ok (n : Nat) (r : Option Nat) (fuel : Nat) (h : 1 ≤ fuel) (rest : List Tok) (hr : NoRep rest) :
    parseItem fuel (.name n :: (repToks r ++ rest)) = some (.elem n r [], rest) := by
  cases fuel with
  | zero => omega
  | succ f => simp [parseItem, optRep_repToks r rest hr]

mutual
theorem item_ok (i : Item) : ∀ fuel, i.size ≤ fuel → ∀ rest, NoRep rest →
    parseItem fuel (i.toks ++ rest) = some (i.node, rest) := by
  intro fuel hf rest hr
  cases i with
  | elem n r =>
    cases fuel with
    | zero => simp [Item.size] at hf
    | succ f => simp [Item.toks, parseItem, optRep_repToks r rest hr, Item.node]
  | group b r =>
    cases fuel with
    | zero => simp [Item.size] at hf
    | succ f =>
      have hb : b.size ≤ f := by simp [Item.size] at hf; omega
      have := seq_ok b f hb (.gclose :: (repToks r ++ rest)) (by simp [Stops]) ⟨.root, []⟩ []
      simp only [Item.toks, List.cons_append, List.append_assoc, parseItem]
      rw [this]
      simp [optRep_repToks r rest hr, Item.node, finish_root]

theorem seq_ok (s : Seq) : ∀ fuel, s.size ≤ fuel → ∀ rest, Stops rest → ∀ cur above,
    stmts fuel (s.toks ++ rest) cur above = (finish cur above s.levels, rest) := by
  intro fuel hf rest hs cur above
  cases s with
  | last i =>
    cases fuel with
    | zero => simp [Seq.size] at hf
    | succ f =>
      have hi : i.size ≤ f := by simp [Seq.size] at hf; omega
      simp only [Seq.toks, stmts, item_ok i f hi rest hs.noRep]
      have hstop := stmts_stops f rest (cur.push i.node) above hs
      cases rest with
      | nil => simp [hstop, Seq.levels, finish_single, ← Frame.push_eq_append]
      | cons t ts =>
        cases t <;> simp_all [Stops, Seq.levels, finish_single, ← Frame.push_eq_append]
  | child n r rest' =>
    cases fuel with
    | zero => simp [Seq.size] at hf
    | succ f =>
      have hpos' := rest'.size_pos
      have hr : rest'.size ≤ f := by simp [Seq.size] at hf; omega
      have ih := seq_ok rest' f hr rest hs ⟨.elem n r, []⟩ (cur :: above)
      simp only [Seq.toks, List.cons_append, List.append_assoc, stmts]
      rw [elem_ok n r f (by omega) _ (by simp [NoRep])]
      simp only [frameOf]
      rw [ih, finish_child _ _ _ _ _ (levels_ne_nil rest')]
      simp [Seq.levels]
  | sib i rest' =>
    cases fuel with
    | zero => have := i.size_pos; simp [Seq.size] at hf; omega
    | succ f =>
      have hpos := i.size_pos
      have hpos' := rest'.size_pos
      have hi : i.size ≤ f := by simp [Seq.size] at hf; omega
      have hr : rest'.size ≤ f := by simp [Seq.size] at hf; omega
      have ih := seq_ok rest' f hr rest hs (cur.push i.node) above
      simp only [Seq.toks, List.append_assoc, List.cons_append, stmts]
      rw [item_ok i f hi _ (by simp [NoRep])]
      simp only
      rw [ih, finish_sib _ _ _ _ (levels_ne_nil rest')]
      simp [Seq.levels]
  | climb i k rest' =>
    cases fuel with
    | zero => have := i.size_pos; simp [Seq.size] at hf; omega
    | succ f =>
      have hpos := i.size_pos
      have hpos' := rest'.size_pos
      have hi : i.size ≤ f := by simp [Seq.size] at hf; omega
      have hr : rest'.size ≤ f := by simp [Seq.size] at hf; omega
      simp only [Seq.toks, List.append_assoc, stmts]
      rw [item_ok i f hi _ (by simp [NoRep, List.replicate_succ])]
      simp only [List.replicate_succ, List.cons_append]
      have hhead : ∀ t ts, rest'.toks ++ rest = t :: ts → t ≠ .climb := by
        intro t ts h
        obtain ⟨t', ts', h', ht'⟩ := rest'.toks_head
        rw [h'] at h; simp at h
        rcases ht' with rfl | ⟨n, rfl⟩ <;> (rw [← h.1]; simp)
      have hc := climbs_spec (k+1) (rest'.toks ++ rest) (cur.push i.node) above hhead rest'.levels (levels_ne_nil rest')
      simp only [List.replicate_succ, List.cons_append] at hc
      obtain ⟨hc1, hc2⟩ := hc
      generalize hcl : climbs (Tok.climb :: (List.replicate k Tok.climb ++ (rest'.toks ++ rest))) (cur.push i.node) above = res at hc1 hc2
      obtain ⟨cur', above', ts3⟩ := res
      simp only at hc1 hc2 ⊢
      subst hc1
      rw [seq_ok rest' f hr rest hs cur' above', hc2]
      have := finish_sib i.node cur above ([] :: (List.replicate k [] ++ rest'.levels)) (by simp)
      simp only [hd, List.headD_cons, List.tail_cons] at this
      rw [this]
      simp [Seq.levels]
end

/-- C01_parse (prototype): the parser on the tokens of `s` yields exactly the denotation of `s`. -/
theorem parse_den (s : Seq) :
    stmts (s.size) s.toks ⟨.root, []⟩ [] = (s.den, []) := by
  have := seq_ok s s.size (Nat.le_refl _) [] trivial ⟨.root, []⟩ []
  simpa [finish_root, Seq.den] using this

end P
