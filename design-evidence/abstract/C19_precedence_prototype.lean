namespace Sy
variable {α : Type} (neg : α → α) (f : Nat → α → α → α)   -- f c : binary operator number c

inductive OpTok | un (p : Nat) | bin (c : Nat) (p : Nat)
  deriving Repr
def OpTok.prio : OpTok → Nat | .un p => p | .bin _ p => p

inductive Tok (α : Type) | num (v : α) | op (o : OpTok)

abbrev St (α : Type) := List α × List OpTok

/-- apply the operator on top of the operator stack to the value stack (Python: pop / IndexError) -/
def apply1 (o : OpTok) : List α → Option (List α)
  | vs => match o, vs with
    | .un _, v :: vs => some (neg v :: vs)
    | .bin c _, v2 :: v1 :: vs => some (f c v1 v2 :: vs)
    | _, _ => none

/-- pop and apply while the top operator has priority ≥ p -/
def reduce (p : Nat) : List OpTok → List α → Option (St α)
  | [], vs => some (vs, [])
  | o :: os, vs =>
    if p ≤ o.prio then
      match apply1 neg f o vs with
      | some vs' => reduce p os vs'
      | none => none
    else some (vs, o :: os)

/-- fused `order_tokens` + `evaluate` (repaired: a prefix operator never pops) -/
def run : List (Tok α) → St α → Option (St α)
  | [], st => some st
  | .num v :: ts, (vs, os) => run ts (v :: vs, os)
  | .op (.un p) :: ts, (vs, os) => run ts (vs, .un p :: os)
  | .op (.bin c p) :: ts, (vs, os) =>
    match reduce neg f p os vs with
    | some (vs', os') => run ts (vs', .bin c p :: os')
    | none => none

def evaluate (ts : List (Tok α)) : Option (List α) :=
  match run neg f ts ([], []) with
  | some (vs, os) => (reduce neg f 0 os vs).map (·.1)
  | none => none

/-! ### expressions as the code's priorities group them -/
inductive Ex (α : Type)
  | num (v : α)
  | paren (e : Ex α)
  | neg (e : Ex α)
  | bin (k : Nat) (c : Nat) (l r : Ex α)     -- k = priority offset of operator c (0,1,2)

def Ex.lo : Ex α → Nat | .bin k _ _ _ => k | _ => 3
def Ex.hi : Ex α → Nat | .bin k _ _ _ => k | .neg _ => 2 | _ => 3

def Ex.WF : Ex α → Prop
  | .num _ => True
  | .paren e => e.WF
  | .neg e => e.WF ∧ 3 ≤ e.lo
  | .bin k _ l r => l.WF ∧ r.WF ∧ k ≤ 2 ∧ k ≤ l.hi ∧ k < r.lo ∧ k ≤ r.hi

def Ex.val : Ex α → α
  | .num v => v
  | .paren e => e.val
  | .neg e => neg e.val
  | .bin _ c l r => f c l.val r.val

def Ex.toks (d : Nat) : Ex α → List (Tok α)
  | .num v => [.num v]
  | .paren e => e.toks (d+1)
  | .neg e => .op (.un (10*d+2)) :: e.toks d
  | .bin k c l r => l.toks d ++ .op (.bin c (10*d+k)) :: r.toks d

theorem Ex.hi_le_lo (e : Ex α) : e.hi ≤ e.lo := by cases e <;> simp [Ex.hi, Ex.lo]
theorem Ex.lo_le (e : Ex α) : e.lo ≤ 3 ∨ True := Or.inr trivial

theorem run_append (a b : List (Tok α)) (st : St α) :
    run neg f (a ++ b) st = (run neg f a st).bind (run neg f b) := by
  induction a generalizing st with
  | nil => simp [run]
  | cons t ts ih =>
    obtain ⟨vs, os⟩ := st
    cases t with
    | num v => simp [run, ih]
    | op o =>
      cases o with
      | un p => simp [run, ih]
      | bin c p =>
        simp only [List.cons_append, run]
        cases reduce neg f p os vs with
        | none => simp
        | some r => obtain ⟨vs', os'⟩ := r; simp [ih]

theorem reduce_noop (p : Nat) (os : List OpTok) (vs : List α) (h : ∀ o ∈ os, o.prio < p) :
    reduce neg f p os vs = some (vs, os) := by
  cases os with
  | nil => simp [reduce]
  | cons o os =>
    have := h o (by simp)
    simp [reduce]; omega

/-- The claim: after the tokens of `e`, flushing at any `p ≤ 10d + hi e` is the same as
    flushing after simply pushing the value of `e`. -/
theorem claim (e : Ex α) : ∀ (d : Nat) (vs : List α) (os : List OpTok), e.WF →
    (∀ o ∈ os, o.prio < 10*d + e.lo) → ∀ p, p ≤ 10*d + e.hi →
    (run neg f (e.toks d) (vs, os)).bind (fun st => reduce neg f p st.2 st.1)
      = reduce neg f p os (e.val neg f :: vs) := by
  induction e with
  | num v => intro d vs os _ _ p _; simp [Ex.toks, run, Ex.val]
  | paren e ih =>
    intro d vs os hwf hos p hp
    simp only [Ex.toks, Ex.val]
    apply ih (d+1) vs os hwf
    · intro o ho; have := hos o ho; simp [Ex.lo] at this; omega
    · simp [Ex.hi] at hp; omega
  | neg e ih =>
    intro d vs os hwf hos p hp
    simp only [Ex.toks, run, Ex.val]
    obtain ⟨hwf', hlo⟩ := hwf
    have hhi : 2 ≤ e.hi := by
      cases e <;> simp [Ex.hi, Ex.lo] at hlo ⊢ <;> omega
    rw [ih d vs (.un (10*d+2) :: os) hwf' _ p _]
    · simp [Ex.hi] at hp
      simp [reduce, OpTok.prio, hp, apply1]
    · intro o ho
      simp at ho
      rcases ho with rfl | ho
      · simp [OpTok.prio]; omega
      · have := hos o ho; simp [Ex.lo] at this; omega
    · simp [Ex.hi] at hp; omega
  | bin k c l r ihl ihr =>
    intro d vs os hwf hos p hp
    obtain ⟨hl, hr, hk, hlhi, hrlo, hrhi⟩ := hwf
    simp only [Ex.lo] at hos
    simp only [Ex.hi] at hp
    simp only [Ex.toks, Ex.val, run_append, run]
    -- left operand, flushed at the operator's own priority: nothing pending is popped
    have h1 := ihl d vs os hl (by intro o ho; have := hos o ho; have := l.hi_le_lo; omega) (10*d+k) (by omega)
    rw [reduce_noop neg f (10*d+k) os _ hos] at h1
    -- unfold the bind chain
    cases hrun : run neg f (l.toks d) (vs, os) with
    | none => simp [hrun] at h1
    | some st =>
      obtain ⟨vs1, os1⟩ := st
      simp only [hrun, Option.bind_some] at h1 ⊢
      rw [h1]
      simp only [Option.bind_some]
      rw [ihr d (l.val neg f :: vs) (.bin c (10*d+k) :: os) hr _ p (by omega)]
      · simp [reduce, OpTok.prio, hp, apply1]
      · intro o ho
        simp at ho
        rcases ho with rfl | ho
        · simp [OpTok.prio]; omega
        · have := hos o ho; omega

theorem evaluate_val (e : Ex α) (h : e.WF) : evaluate neg f (e.toks 0) = some [e.val neg f] := by
  have := claim neg f e 0 [] [] h (by simp) 0 (by omega)
  simp only [reduce] at this
  unfold evaluate
  cases hrun : run neg f (e.toks 0) ([], []) with
  | none => simp [hrun] at this
  | some st =>
    obtain ⟨vs, os⟩ := st
    simp only [hrun, Option.bind_some] at this
    simp [this]

end Sy
