import EmmetProofs.TokTilesMain
import EmmetProofs.CssTiles
/-! # C18 — tokenizers are lossless: token spans tile the abbreviation

Property theorems only; the lemmas are in `EmmetProofs/TokTiles*.lean` and `EmmetProofs/CssTiles.lean`. -/
namespace EmmetProps

/-- Markup tokenizer, every string: a scanner error inside the input, or tokens whose spans are non-empty, contiguous and
cover `[0, |s|)`. `Tiles ts a b`: the tokens `ts` start at `a`, each starts where the previous one stopped, each is
non-empty, the last stops at `b`. Running out of fuel is impossible. -/
theorem C18_markup (s : T.Str) :
    match T.tokenize s with
    | .ok ts => T.Tiles ts 0 s.length
    | .error (.scanner p) => p ≤ s.length
    | .error .fuel => False :=
  T.tokenize_tiles s

/-- non-vacuity: a real abbreviation tokenizes into 11 tokens -/
example : (match T.tokenize ("ul>li.item$*3{x ${1:y}}".toList.map Char.toNat) with | .ok ts => ts.length | _ => 0) = 11 := by
  decide +kernel

/-- Stylesheet tokenizer, every string, property and value mode. `GoodAcc ts.reverse |s|`: the last token stops at `|s|`,
every token stops where the next one starts and is non-empty, the first starts at 0. -/
theorem C18_css (s : CA.Str) (isValue : Bool) :
    match CA.tokenize s isValue with
    | .ok ts => CA.GoodAcc ts.reverse s.length
    | .error (.scanner p) => p ≤ s.length
    | .error _ => False :=
  CA.tokenize_tiles s isValue

end EmmetProps
