import EmmetProofs.WorldPure
/-! # C08 — expansion is a pure function of its arguments

`W.World` is everything that survives a call in the model: the entries stored in caller-supplied cache dictionaries.
`W.step w c` is one call to `expand` (markup or stylesheet, succeeding or failing, with or without a cache dictionary). -/
namespace EmmetProps
open W

/-- for EVERY history and probe: the probe's outcome after the history equals its outcome in a fresh state, provided the calls
that share a cache dictionary agree on the effective stylesheet snippet table (the cache is keyed by nothing else) -/
theorem C08_result_independent (tab : Nat → List (T.Str × T.Str)) (h : List Call) (c : Call)
    (hh : ∀ x ∈ h, Agrees tab x) (hc : Agrees tab c) : (step (run h []) c).2 = (step [] c).2 :=
  W.result_independent tab h c hh hc

/-- a cache never changes a result -/
theorem C08_cache_transparent (c : Call) : (step [] c).2 = (step [] { c with cache := none }).2 := W.cache_transparent c

/-- non-vacuity: the hypotheses are satisfiable by a non-trivial history — two stylesheet calls that pass the same cache
dictionary with the same (default) configuration agree on their table, and a markup call agrees with anything -/
example : let c : Call := { abbr := T.lit "p10", cfg := { type := some (T.lit "stylesheet") }, cache := some 0 }
    ∃ tab, Agrees tab c ∧ Agrees tab { c with abbr := T.lit "m5" } ∧ Agrees tab { abbr := T.lit "ul>li", cfg := {}, cache := some 0 } := by
  refine ⟨fun _ => Cfg.mergedSnippets { type := some (T.lit "stylesheet") } [], ?_, ?_, ?_⟩
  · intro id _ _; rfl
  · intro id _ _; rfl
  · intro id _ h; exact absurd h (by decide)

end EmmetProps
