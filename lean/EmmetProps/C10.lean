import EmmetProofs.CssMatchB
import EmmetProofs.CssInwardB
/-! # C10 — CSS matcher returns the innermost rule or declaration (layer B: over event streams of stylesheet trees)

`Sheet` ranges over all trees of rules (selector, body, closing brace) and declarations (name, value) with arbitrary
offsets. `findPost`: first item in post-order whose span strictly contains the position — a rule spans
`[selector start, '}' + 1)` with the body between the braces, a declaration `[name start, delimiter + 1)` with the value as
body. `allPost`: value, declaration and every enclosing rule (content range, then full range), innermost first. -/
namespace EmmetProps
open C

theorem C10_match (pos : Int) (sh : Sheet) (h : sh.WF) : matchLoop pos sh.events [] none = sh.findPost pos :=
  C.C10_match pos sh h

/-- wherever in the file the position is: `Seq` only says that top-level items are laid out in document order (every item of
a rule's body ends before the rule ends, everything after an item starts at or after its end) -/
theorem C10_outward (src : Array Ch) (pos : Int) (sh : Sheet) (h : sh.WF) (hs : sh.Seq) :
    outwardLoop src pos sh.events [] none [] = (sh.allPost src pos []).reverse :=
  C.C10_outward src pos sh h hs

/-- `balanced_inward` descends through first children: for every tree whose items start at pairwise different offsets (`starts`
pairwise different — offsets of distinct items of a document always are) and every position, the result is `findIn`: the ranges of
the first item in post-order (the innermost one) that contains the position, bounds included — full range then trimmed content /
value range —, followed by the same for its first child, that one's first child, … (`Sheet.chain`); nothing when no item contains it. -/
theorem C10_inward (src : Array Ch) (pos : Int) (sh : Sheet) (h : sh.WF) (hd : sh.starts.Pairwise (· ≠ ·)) :
    inwardLoop src pos sh.events [] none = (sh.findIn src pos).getD [] := C.C10_inward src pos sh h hd

/-- non-vacuity: `a{b:c;}d{e:f;}` — the second rule is found although it comes after the first top-level rule -/
def exSheet : Sheet := .rule ⟨.selector, 0, 1, 1⟩ (.decl ⟨.propertyName, 2, 3, 3⟩ ⟨.propertyValue, 4, 5, 5⟩ .nil) ⟨.blockEnd, 6, 7, 6⟩
      (.rule ⟨.selector, 7, 8, 8⟩ (.decl ⟨.propertyName, 9, 10, 10⟩ ⟨.propertyValue, 11, 12, 12⟩ .nil) ⟨.blockEnd, 13, 14, 13⟩ .nil)
example : exSheet.WF ∧ exSheet.Seq := by
  simp only [exSheet, Sheet.WF, Sheet.Seq, Sheet.Before, Sheet.After, propEnd]; decide
example : (exSheet.findPost 11).map (·.start) = some 9 ∧ (exSheet.findPost 8).map (·.start) = some 7 := by
  decide +kernel

example : exSheet.starts.Pairwise (· ≠ ·) := by simp only [exSheet, Sheet.starts]; decide
example : (exSheet.findIn #[] 7).map (·.length) = some 3 := by decide +kernel

end EmmetProps
