import EmmetProofs.HtmlScan
/-! # C16 — scanners are total and report only well-formed ranges (HTML scanner; all strings) -/
namespace EmmetProps
open H

/-- For every string and every table of special tags, the tags reported by `scan` are well formed
(`WFEv`: `start < stop ≤ |s|`, `s[start] = '<'`, `s[stop-1] = '>'`), increasing and non-overlapping (`GoodRev`: each event
ends at or before the start of the next one). The model's `scan` is a total function (structural recursion on fuel
`|s| + 1`), and the statement includes that the fuel suffices: the result is the complete event list. -/
theorem C16_html_scan (s : Str) (special : List (Str × Option (List Str))) :
    ∃ acc', scan s special = acc'.reverse ∧ GoodRev s acc' s.length := H.scan_good s special

end EmmetProps
