import EmmetProofs.HtmlScan
import EmmetProofs.SplitValueRanges
import EmmetProofs.CssMatchRanges
import EmmetProofs.HtmlAttrs
import EmmetProofs.HtmlMatchHead
import EmmetProofs.HtmlOutwardNested
import EmmetProofs.HtmlInwardNested
/-! # C16 — scanners are total and report only well-formed ranges (HTML scanner, CSS scanner, split_value; all strings) -/
namespace EmmetProps
open H

/-- For every string and every table of special tags, the tags reported by `scan` are well formed
(`WFEv`: `start < stop ≤ |s|`, `s[start] = '<'`, `s[stop-1] = '>'`), increasing and non-overlapping (`GoodRev`: each event
ends at or before the start of the next one). The model's `scan` is a total function (structural recursion on fuel
`|s| + 1`), and the statement includes that the fuel suffices: the result is the complete event list. -/
theorem C16_html_scan (s : Str) (special : List (Str × Option (List Str))) :
    ∃ acc', scan s special = acc'.reverse ∧ GoodRev s acc' s.length := H.scan_good s special

/-- CSS scanner: for EVERY source (arbitrary, unbalanced, unterminated), every token the scanner reports satisfies
`0 ≤ start ≤ end ≤ |source|`, and its delimiter is `-1` or an index into the source. `C.scan` is total (structural recursion on
fuel `|s| + 1`). -/
theorem C16_css_scan (s : C.Str) : ∀ e ∈ C.scan s, C.EvOK s.length e := C.scan_ranges s

/-- `split_value`: for EVERY value, each reported token range is non-empty and inside the value: `0 ≤ start < end ≤ |value|`. -/
theorem C16_split_value (s : C.Str) : ∀ r ∈ C.splitValue s, C.RngOK s.length r := C.splitValue_ranges s

/-- CSS scanner order: tokens are reported in document order — a later token never starts before an earlier one, nor before
the position after the brace of an earlier selector. -/
theorem C16_css_sorted (s : C.Str) : (C.scan s).Pairwise (fun a b => C.Le a b.start) := C.scan_sorted s

/-- CSS `match`: for EVERY source and EVERY position (also out of range) a reported match satisfies
`0 ≤ start ≤ end ≤ |source|` and `0 ≤ body_start ≤ body_end ≤ |source|`. -/
theorem C16_css_match (s : C.Str) (pos : Int) :
    ∀ m, C.matchLoop pos (C.scan s) [] none = some m → C.MROK s.length m := C.match_ranges s pos

/-- CSS `balanced_outward` / `balanced_inward`: for EVERY source and position every listed range is `0 ≤ start ≤ end ≤ |source|`. -/
theorem C16_css_outward (s : C.Str) (pos : Int) :
    ∀ x ∈ C.outwardLoop s.toArray pos (C.scan s) [] none [], C.ROK s.length x := C.outward_ranges s pos
theorem C16_css_inward (s : C.Str) (pos : Int) :
    ∀ x ∈ C.inwardLoop s.toArray pos (C.scan s) [] none, C.ROK s.length x := C.inward_ranges s pos

/-- HTML attribute parser: for EVERY string, the attributes `attributes()` reports are ordered, non-overlapping, in-range slices:
each name range is non-empty and is exactly the name's text, a value starts right after the `=` that follows the name, is non-empty
and is exactly the value's text (`H.Ordered`, `H.AttrOK`). -/
theorem C16_html_attributes (src : H.Str) : H.Ordered src (H.attributesLoop (src.length + 1) src 0 []) := H.attributes_ranges src

example : (H.attributesLoop 100 ("a=\"b c\" *d {e}=f".toList.map Char.toNat) 0 []).map (fun a => (a.nameStart, a.nameEnd, a.value.map (·.2)))
    = [(0, 1, some (2, 7)), (8, 10, none), (11, 14, some (15, 16))] := by decide +kernel

-- non-vacuity: a source with a selector, two properties, a comment, an unterminated string and an unbalanced brace
example : (C.scan (("a{b:c;/*x*/d:'e}".toList).map Char.toNat)).length = 5 := by decide +kernel
example : (C.splitValue (("1px -a (b c) 'd".toList).map Char.toNat)) = [(0, 3), (4, 6), (7, 12), (13, 15)] := by decide +kernel

example : (C.matchLoop 3 (C.scan (("a{b:c;}".toList).map Char.toNat)) [] none).isSome = true := by decide +kernel
example : (C.inwardLoop (("a{b:c;}".toList).map Char.toNat).toArray 0 (C.scan (("a{b:c;}".toList).map Char.toNat)) [] none) = [(0, 7), (2, 6), (4, 5)] := by decide +kernel

/-- HTML: `match()` equals the first entry of `balanced_outward()` — for EVERY source, position and mode (the two callbacks run over
the same scanner events: ANY event list, any stack of open tags) -/
theorem C16_html_match_is_first_outward (xml : Bool) (pos : Int) (s : Str) (special : List (Str × Option (List Str))) :
    matchLoop xml pos (scan s special) [] = (outwardLoop xml pos (scan s special) [] []).head? :=
  H.match_eq_outward_head xml pos (scan s special) []

/-- HTML: every entry of `balanced_outward()` strictly contains the position (open tag start < pos < end of the close tag, or of the tag
itself when self-closed) — for EVERY source, position and mode -/
theorem C16_html_outward_contains (xml : Bool) (pos : Int) (s : Str) (special : List (Str × Option (List Str))) :
    ∀ m ∈ outwardLoop xml pos (scan s special) [] [], m.Contains pos := H.outward_contains xml pos (scan s special)

/-- HTML: successive `balanced_outward()` entries strictly contain each other (innermost first) — for EVERY source, position and mode;
rests on the order theorem of the scanner (`C16_html_scan`) and the stack discipline of the callback -/
theorem C16_html_outward_nested (xml : Bool) (pos : Int) (s : Str) (special : List (Str × Option (List Str))) :
    (outwardLoop xml pos (scan s special) [] []).Pairwise (fun inner outer => inner.Inside outer) := H.outward_nested xml pos s special

/-- HTML: successive `balanced_inward()` entries lie strictly inside each other (the element, then its chain of first children) — for
EVERY source, position and mode -/
theorem C16_html_inward_nested (xml : Bool) (pos : Int) (s : Str) (special : List (Str × Option (List Str))) :
    ChainOK (inwardLoop xml pos (scan s special) []) := H.inward_nested xml pos s special

/-- HTML: the first entry of `balanced_inward()` is the element AT the position (its range contains the position), for every source -/
theorem C16_html_inward_at_position (xml : Bool) (pos : Int) (s : Str) (special : List (Str × Option (List Str))) (m : Matched)
    (h : (inwardLoop xml pos (scan s special) []).head? = some m) : (m.start : Int) ≤ pos ∧ pos ≤ (m.stop : Int) :=
  H.inward_head_contains xml pos (scan s special) [] m h

example : (outwardLoop false 8 (scan ("<div><p>x</p></div>".toList.map Char.toNat)) [] []).length = 2 := by decide +kernel

end EmmetProps
