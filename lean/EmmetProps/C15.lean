import EmmetProofs.IndentLevel
/-! # C15 — HAML / Pug / Slim: indentation equals depth (key lemma on the indent formatter model) -/
namespace EmmetProps
open T

/-- The indent formatter's `element()` returns the stream at the level it was given, for every node, syntax punctuation set,
option set and stream state: every child of an element is therefore written one level deeper than its parent, siblings at the
same level — the indentation of an element's line is its depth in the tree. -/
theorem C15_level_restored (op : Options) (io : IndentOpts) (fuel : Nat) (node : ANode) (index : Nat) (hasParent : Bool) (o : Out) :
    (indentElement op io fuel node index hasParent o).level = o.level := T.indentElement_level op io fuel node index hasParent o

end EmmetProps
