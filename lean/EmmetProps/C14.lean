import EmmetProofs.SnipTermination
/-! # C14 — snippet resolution ends for every table (abstract resolver: nesting counter + structural recursion over the forest)

`resolveN tbl parse n` resolves a node through the table with at most `n` nested snippets; `walkWith` applies it over a
forest. The stack of definitions being resolved is duplicate-free and drawn from the table's values, so by pigeonhole nesting
never exceeds the number of snippets: the counter `|tbl| + 1` is never exhausted, for ANY table (self-referencing and
mutually recursive ones included), any forest and any parser that itself terminates. -/
namespace EmmetProps

theorem C14_terminates (tbl : List (Sn.Key × Sn.Val)) (parse : Sn.Val → Except Sn.Err Sn.F)
    (hp : ∀ v, parse v ≠ .error .fuel) (f : Sn.F) :
    Sn.walkWith (Sn.resolveN tbl parse (tbl.length + 1)) f [] ≠ .error .fuel := Sn.C14_terminates tbl parse hp f

end EmmetProps
