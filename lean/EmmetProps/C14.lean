import EmmetProofs.SnipTermination
import EmmetProofs.ResolveTerminates
import EmmetProofs.Written
/-! # C14 — snippet resolution ends for every table (abstract resolver: nesting counter + structural recursion over the forest)

`resolveN tbl parse n` resolves a node through the table with at most `n` nested snippets; `walkWith` applies it over a
forest. The stack of definitions being resolved is duplicate-free and drawn from the table's values, so by pigeonhole nesting
never exceeds the number of snippets: the counter `|tbl| + 1` is never exhausted, for ANY table (self-referencing and
mutually recursive ones included), any forest and any parser that itself terminates. -/
namespace EmmetProps

theorem C14_terminates (tbl : List (Sn.Key × Sn.Val)) (parse : Sn.Val → Except Sn.Err Sn.F)
    (hp : ∀ v, parse v ≠ .error .fuel) (f : Sn.F) :
    Sn.walkWith (Sn.resolveN tbl parse (tbl.length + 1)) f [] ≠ .error .fuel := Sn.C14_terminates tbl parse hp f

/-- the same on the MODEL of `markup/snippets.py` (`T.resolveSnippets`: nesting counter `|table| + 1`, structural recursion over the
abbreviation tree): for every option set (hence every merged snippet table) and every forest, resolution never exhausts the
counter. The abbreviation parser's own fuel is a hypothesis here; for tokenizer and parser it is discharged by C18 / C07. -/
theorem C14_terminates_model (o : T.Options)
    (hp : ∀ sn, T.parseAbbr sn false { text := .none, variables := some o.variables, maxRepeat := o.maxRepeatSnake } ≠ .error .fuel)
    (nodes : List T.ANode) : T.resolveSnippets o nodes ≠ .error .fuel := T.resolve_terminates o hp nodes

/-- no alias name is claimed by two entries of the REGENERATED html / xsl / pug snippet files as written (`a|b: definition`): every
written name selects its own entry's definition — the flattened table hides nothing -/
theorem C14_names_distinct :
    ((Snip.flatten T.Gen.markupWritten).map (·.1)).Nodup ∧ ((Snip.flatten T.Gen.xslWritten).map (·.1)).Nodup
      ∧ ((Snip.flatten T.Gen.pugWritten).map (·.1)).Nodup :=
  ⟨Snip.distinct_spec _ Snip.markup_distinct, Snip.distinct_spec _ Snip.xsl_distinct, Snip.distinct_spec _ Snip.pug_distinct⟩

/-- the names of the table the model resolves through are exactly the written names, in order -/
theorem C14_names_from_source : (Snip.flatten T.Gen.markupWritten).map (·.1) = T.Gen.markupSnippets.map (·.1) := Snip.markup_names

end EmmetProps
