import EmmetProofs.TokLits
import EmmetProofs.CssTiles
/-! # C07 — expand fails only with its parse errors (stage theorems proved so far: tokenizer and parser of the markup path,
tokenizer of the stylesheet path; for ALL strings) -/
namespace EmmetProps
open T

/-- markup path, stages 1–2, every string, both JSX modes: a scanner error at a position inside the input, or a token list on
which the parser returns a forest or a token error — never an internal error (`IndexError`, …), never out of fuel.
`Res x P` = "`x` is `ok a` with `P a`, or a token error". -/
theorem C07_markup_tokenize_parse (jsx : Bool) (s : Str) :
    match tokenize s with
    | .ok ts => Res (parseTokens jsx ts) (fun _ => True)
    | .error (.scanner p) => p ≤ s.length
    | .error .fuel => False := T.tokenize_parse_total jsx s

/-- stylesheet path, stage 1, every string, both modes: tokens or a scanner error inside the input -/
theorem C07_css_tokenize (s : CA.Str) (isValue : Bool) :
    match CA.tokenize s isValue with
    | .ok _ => True
    | .error (.scanner p) => p ≤ s.length
    | .error _ => False := by
  have := CA.tokenize_tiles s isValue
  cases h : CA.tokenize s isValue with
  | ok ts => trivial
  | error e => rw [h] at this; cases e <;> simp_all

/-- non-vacuity: the input that raised IndexError under JSX before the repair (a lone backslash) now parses -/
example : (match tokenize [92] with | .ok ts => (match parseTokens true ts with | .ok _ => true | _ => false) | _ => false) = true := by
  decide +kernel

end EmmetProps
