import EmmetProofs.CssSectionRanges
import EmmetProofs.ActionRanges
import EmmetProofs.CssActionRanges
/-! # C17 — editor action helpers select exactly the tag they should (HTML helpers, over ANY event list) -/
namespace EmmetProps
open H

/-- `get_open_tag`: a result is a tag of the scan whose range strictly contains the position -/
theorem C17_open_tag (pos : Int) (evs : List Ev) (e : Ev) (h : getOpenTag pos evs = some e) :
    e ∈ evs ∧ (e.start : Int) < pos ∧ pos < e.stop := H.getOpenTag_spec pos evs e h

/-- `select_item_html` (next): the FIRST open / self-closing tag that ends after the position -/
theorem C17_select_next (pos : Int) (evs : List Ev) (e : Ev) (h : selectNext pos evs = some e) :
    ∃ pre post, evs = pre ++ e :: post ∧ isOpenish e = true ∧ (e.stop : Int) > pos ∧
      ∀ x ∈ pre, ¬ (isOpenish x = true ∧ (x.stop : Int) > pos) := H.selectNext_spec pos evs e h

/-- `select_item_html` (previous): an open / self-closing tag of the scan that starts before the position -/
theorem C17_select_prev (pos : Int) (evs : List Ev) (e : Ev) (h : selectPrev pos evs none = some e) :
    e ∈ evs ∧ isOpenish e = true ∧ (e.start : Int) < pos := by
  rcases H.selectPrev_spec pos evs none e h with h1 | h1
  · cases h1
  · exact h1

/-- class tokens: every range is non-empty and inside the value it was cut from, for ALL values and offsets -/
theorem C17_class_tokens (value : List Ch) (offset : Nat) :
    ∀ r ∈ tokenList value offset, offset ≤ r.1 ∧ r.1 < r.2 ∧ r.2 ≤ offset + value.length := H.tokenList_ranges value offset

/-- non-vacuity: `a  bc` at offset 7 has the tokens [7,8) and [10,12) -/
example : tokenList [97, 32, 32, 98, 99] 7 = [(7, 8), (10, 12)] := by decide

/-- `select_item_css`, next and previous, for EVERY source and EVERY position: the selected selector / declaration lies inside the
source (`0 ≤ start ≤ end ≤ |source|`), and every range it lists — the full range, the value range and each value-token range (cut by
`split_value` from the value's text) — lies inside the item. (`C.ItemOK`.) -/
theorem C17_css_select_next (src : C.Str) (pos : Int) :
    ∀ it, C.nextLoop src pos (C.scan src) none = some it → C.ItemOK src.length it := C.selectNextCss_ranges src pos
theorem C17_css_select_prev (src : C.Str) (pos : Int) :
    ∀ it, C.selectPrevCss src pos (C.scan src) = some it → C.ItemOK src.length it := C.selectPrevCss_ranges src pos

example : (C.nextLoop ("a{b: c d;}".toList.map Char.toNat) 2 (C.scan ("a{b: c d;}".toList.map Char.toNat)) none).map (·.ranges)
    = some [(2, 9), (5, 8), (5, 6), (7, 8)] := by decide +kernel

/-- `get_css_section`, for EVERY source and EVERY position: the reported rule contains the position, lies inside the source, and its body
lies between its braces (`0 ≤ start ≤ pos ≤ end ≤ |source|`, `0 ≤ body_start ≤ body_end ≤ end`) -/
theorem C17_css_section (src : C.Str) (pos : Int) :
    ∀ s, C.sectionLoop pos (C.scan src) [] = some s → C.SecOK src.length pos s := C.getCssSection_ranges src pos

example : (C.sectionLoop 5 (C.scan ("a{b{c:d}}".toList.map Char.toNat)) []).map (fun s => (s.start, s.stop, s.bodyStart, s.bodyEnd))
    = some (2, 8, 4, 7) := by decide +kernel

end EmmetProps
