import EmmetProofs.MathLex
import EmmetProofs.QRat
import EmmetProofs.MathTotal
import EmmetProofs.MathExtractSpec
/-! # C19 — math expressions evaluate to their arithmetic value (exact clause)

`Sx` = syntax trees of the expression language *with their blanks*: literals `12`, `1.5`, `.5`, parentheses, unary minus and
plus, the five binary operators; `Sx.render` prints one, `Sx.SWF` says the blanks are blanks and the literals are digits.
`Sx.toEx` forgets the layout; `Ex.WF` says the tree is grouped the way the evaluator's priorities group it (`+ -` below `*`
below `/ \` = unary minus, equal levels to the left); `Ex.val` is ordinary arithmetic on exact rationals with
`ZeroDivisionError` for a zero divisor. -/
namespace EmmetProps
open M

/-- end to end: every printed well-formed expression evaluates to the value of its tree; division by zero is the only
error, and neither the parity check nor a stack underflow (`IndexError`) can fire. -/
theorem C19_value (s : Sx) (hs : s.SWF) (hw : s.toEx.WF) :
    evaluate s.render = (s.toEx.val >>= fun v => .ok (some v)) :=
  M.evaluateF_render s hs hw

/-- the model's exact arithmetic is arithmetic in ℚ (Mathlib's rationals): every operation of the evaluator commutes with
`Q.toRat`, integer division being `⌊a / b⌋`. -/
theorem C19_arith_add (a b : Q) (ha : a.OK) (hb : b.OK) : (a.add b).toRat = a.toRat + b.toRat ∧ (a.add b).OK := Q.add_toRat a b ha hb
theorem C19_arith_sub (a b : Q) (ha : a.OK) (hb : b.OK) : (a.sub b).toRat = a.toRat - b.toRat ∧ (a.sub b).OK := Q.sub_toRat a b ha hb
theorem C19_arith_mul (a b : Q) (ha : a.OK) (hb : b.OK) : (a.mul b).toRat = a.toRat * b.toRat ∧ (a.mul b).OK := Q.mul_toRat a b ha hb
theorem C19_arith_neg (a : Q) (ha : a.OK) : a.neg.toRat = - a.toRat ∧ a.neg.OK := Q.neg_toRat a ha
theorem C19_arith_floor (a : Q) (ha : a.OK) : a.floor.toRat = (⌊a.toRat⌋ : ℚ) ∧ a.floor.OK := Q.floor_toRat a ha

/-- rejection side, for EVERY string (digits, operators, parentheses, blanks or anything else, in any order): `evaluate` ends with a
value (nothing for an empty token list), the module's parse error (`MathExpressionException`, with or without a position) or
`ZeroDivisionError` — never with another exception (`IndexError` from the operand stack) and never out of fuel. The proof found
the defect repaired as F35: before it, `1+()(2)(3)` passed the parity test and popped an empty stack. -/
theorem C19_total (s : Str) : match evaluate s with | .ok _ => True | .error e => e.documented := M.evaluate_total s

example : (match evaluate ("1+()(2)(3)".toList.map Char.toNat) with | .error (.math p) => p | _ => 0) = 5 := by decide +kernel
example : (match evaluate ("1/(2-2)".toList.map Char.toNat) with | .error .zeroDiv => true | _ => false) = true := by decide +kernel

/-- `extract()`, for EVERY text, EVERY position inside it and every option set (look-ahead on / off, white space allowed or not):
the result is nothing, or a range `start ≤ end ≤ |text|` that ends at the look-ahead adjusted position (`lookEnd`: the position,
moved across `)` and white space when the character at the position is `)`), whose characters are digits, dots, the five
operators, parentheses and — only when allowed — white space, and whose parentheses are balanced (`Balanced`: as many `(` as
`)`, no prefix closes more than it opened). -/
theorem C19_extract (text : Str) (pos : Nat) (la ws : Bool) (hpos : pos ≤ text.length) :
    match extract text pos la ws with
    | none => True
    | some (s, e) => s ≤ e ∧ e ≤ text.length ∧ e = lookEnd text pos la ws ∧
        (∀ c ∈ (text.drop s).take (e - s), exAllowed ws c = true) ∧ Balanced ((text.drop s).take (e - s)) :=
  M.extract_spec text pos la ws hpos

example : extract ("a = (1+2) * 3".toList.map Char.toNat) 13 true true = some (4, 13) := by decide +kernel
example : extract ("x (1 + 2".toList.map Char.toNat) 8 true true = some (3, 8) := by decide +kernel
example : extract ("f(2*(3".toList.map Char.toNat) 6 true true = some (5, 6) := by decide +kernel

/-- non-vacuity: six divided by minus two (the input that raised IndexError before the repair) is a well-formed, well-grouped tree and evaluates to -3 -/
def ex1 : Sx := .bin 47 [] (.num [] [54] []) (.neg [] (.num [] [50] []))
example : ex1.render = "6/-2".toList.map Char.toNat := by decide +kernel
example : (match evaluate ex1.render with | .ok (some q) => (q.norm.num, q.norm.den) | _ => (0, 0)) = (-3, 1) := by decide +kernel

end EmmetProps
