import EmmetProofs.Color
import EmmetProofs.Units
/-! # C05 — colours never change their value (hex round trip), for all 2^24 colours -/
namespace EmmetProps
open CA

/-- six-digit output form: reading back what `as_hex` writes gives the same channels, for every colour -/
theorem C05_hex6_roundtrip (r g b : Nat) (hr : r < 256) (hg : g < 256) (hb : b < 256) :
    parseColorRgb (toHex r ++ toHex g ++ toHex b) = (r, g, b) := S.hex6_roundtrip r g b hr hg hb

/-- short form (used only when every channel is a multiple of 17): same colour -/
theorem C05_hex3_roundtrip (r g b : Nat) (hr : r < 256) (hg : g < 256) (hb : b < 256)
    (mr : r % 17 = 0) (mg : g % 17 = 0) (mb : b % 17 = 0) :
    parseColorRgb (hexLower (r / 16) ++ hexLower (g / 16) ++ hexLower (b / 16)) = (r, g, b) :=
  S.hex3_roundtrip r g b hr hg hb mr mg mb

/-- non-vacuity / regression: channel 0x0e is written `0e` (it was `e0` before the repair) -/
example : toHex 14 = [48, 101] := by decide +kernel

/-- the unit decision, for EVERY option set, property name and value list: an explicit unit is replaced when it is an alias and kept
otherwise; a bare number keeps no unit when it is 0 or the property is unitless, and otherwise gets the float unit when written with a
dot and the integer unit when not; everything that is not a number is untouched and nothing is added, dropped or reordered -/
theorem C05_units (o : SOpts) (name : Option Str) (vals : List (List VItem)) :
    resolveNumeric o name vals = vals.map (·.map (numericItem o name)) := CA.resolveNumeric_spec o name vals

/-- the documented defaults, read off the REGENERATED option table through the configuration model: integers `px`, floats `em`,
aliases e/p/x/r = em/%/ex/rem, the eight unitless properties -/
theorem C05_default_units :
    (Cfg.stylesheetOptions cssCfg []).intUnit = lit "px" ∧ (Cfg.stylesheetOptions cssCfg []).floatUnit = lit "em"
    ∧ (Cfg.stylesheetOptions cssCfg []).unitAliases = [(lit "e", lit "em"), (lit "p", lit "%"), (lit "x", lit "ex"), (lit "r", lit "rem")]
    ∧ (Cfg.stylesheetOptions cssCfg []).unitless
        = ["z-index", "line-height", "opacity", "font-weight", "zoom", "flex", "flex-grow", "flex-shrink"].map lit := CA.default_units

/-- non-vacuity: `10` → px, `1.5` → em, `0` bare, `10p` → %, `2` on `z-index` bare, `3q` keeps `q` -/
example : unitSpec {} (some (lit "margin")) (lit "10") [] = lit "px" ∧ unitSpec {} (some (lit "margin")) (lit "1.5") [] = lit "em"
    ∧ unitSpec {} (some (lit "margin")) (lit "0") [] = [] ∧ unitSpec {} (some (lit "margin")) (lit "10") (lit "p") = lit "%"
    ∧ unitSpec {} (some (lit "z-index")) (lit "2") [] = [] ∧ unitSpec {} (some (lit "margin")) (lit "3") (lit "q") = lit "q" := by
  decide +kernel

end EmmetProps
