import EmmetProofs.Color
/-! # C05 — colours never change their value (hex round trip), for all 2^24 colours -/
namespace EmmetProps
open CA

/-- six-digit output form: reading back what `as_hex` writes gives the same channels, for every colour -/
theorem C05_hex6_roundtrip (r g b : Nat) (hr : r < 256) (hg : g < 256) (hb : b < 256) :
    parseColorRgb (toHex r ++ toHex g ++ toHex b) = (r, g, b) := S.hex6_roundtrip r g b hr hg hb

/-- short form (used only when every channel is a multiple of 17): same colour -/
theorem C05_hex3_roundtrip (r g b : Nat) (hr : r < 256) (hg : g < 256) (hb : b < 256)
    (mr : r % 17 = 0) (mg : g % 17 = 0) (mb : b % 17 = 0) :
    parseColorRgb (hexLower (r / 16) ++ hexLower (g / 16) ++ hexLower (b / 16)) = (r, g, b) :=
  S.hex3_roundtrip r g b hr hg hb mr mg mb

/-- non-vacuity / regression: channel 0x0e is written `0e` (it was `e0` before the repair) -/
example : toHex 14 = [48, 101] := by decide +kernel

end EmmetProps
