import EmmetProofs.ExtractRoundTrip
import EmmetProofs.ExtractConsistent
import EmmetProofs.ExtractMore
/-! # C11 — extract returns a result consistent with the line (all lines, all positions incl. out of range, all options) -/
namespace EmmetProps
open X

/-- Whenever the model of `extract_abbreviation` returns a result: `end ≤ |line|`, `location ≤ end`, `start ≤ location`,
the abbreviation is exactly `line[location:end]`, and it does not begin with `>`, `+`, `^` or `*`. The HTML heuristic
(`is_html`) plays no role in this proof: it holds whatever that heuristic answers. -/
theorem C11_consistent (line : Str) (pos : Int) (o : Opts) (r : Result) (h : extract line pos o = some r) :
    r.stop ≤ line.length ∧ r.location ≤ r.stop ∧ r.start ≤ r.location ∧
    r.abbreviation = (line.take r.stop).drop r.location ∧
    (∀ x xs, r.abbreviation = x :: xs → isLeadOp x = false) :=
  X.extract_consistent line pos o r h

/-- the end of a result is the look-ahead adjusted caret position: the position clamped to the line, moved across at most one
quote and then closing brackets when look-ahead is on (`X.lookPos`, `X.offsetPast`) -/
theorem C11_end (line : Str) (pos : Int) (o : Opts) (r : Result) (h : extract line pos o = some r) :
    r.stop = lookPos line pos o := X.extract_stop line pos o r h

/-- with a configured prefix: the prefix is the text found at `start`, and the abbreviation lies to its right -/
theorem C11_prefix (line : Str) (pos : Int) (o : Opts) (r : Result) (h : extract line pos o = some r) (hp : o.pfx ≠ []) :
    (line.drop r.start).take o.pfx.length = o.pfx ∧ r.start + o.pfx.length ≤ r.location := X.extract_prefix line pos o r h hp

/-- non-vacuity for the prefix clause: `a <ul>li` with prefix `<` at its end -/
example : (extract ("a <ul>li".toList.map Char.toNat) 8 { pfx := [60] }).map (fun r => (r.start, r.location)) = some (2, 3) := by
  decide +kernel

/-- non-vacuity: `<p>ul>li` at its end extracts `ul>li` at location 3 -/
example : (extract ("<p>ul>li".toList.map Char.toNat) 8 {}).map (fun r => (r.abbreviation, r.location, r.stop))
    = some ("ul>li".toList.map Char.toNat, 3, 8) := by decide +kernel

/-- round trip (partial: bracket-free abbreviations): a run of abbreviation characters — names, numbers and `# . * : $ - _ ! @ % ^ + > /` —
that does not begin with a dangling operator, standing at the start of the line or right after a blank, with no `<` anywhere to its left,
is returned EXACTLY when the caret is at its end: `abbreviation` is the run, `location` / `start` its first column, `end` the caret — for
both syntax types, look-ahead on or off. (Abbreviations with attribute sets / text / groups, and the "after a complete tag" case, are
decided by correspondence + oracle.) -/
theorem C11_roundtrip (pre abbr : X.Str) (a0 : X.Ch) (as : X.Str) (ha : abbr = a0 :: as)
    (hab : ∀ c ∈ abbr, X.isAbbreviation c = true) (hop : a0 ≠ 42 ∧ a0 ≠ 43 ∧ a0 ≠ 62 ∧ a0 ≠ 94)
    (hpre : pre = [] ∨ ∃ ps b, pre = ps ++ [b] ∧ X.isWs b = true) (hlt : 60 ∉ pre) (markup lookAhead : Bool) :
    X.extract (pre ++ abbr) ((pre ++ abbr).length : Int) { markup := markup, lookAhead := lookAhead, pfx := [] }
      = some ⟨abbr, pre.length, pre.length, (pre ++ abbr).length⟩ :=
  X.extract_roundtrip pre abbr a0 as ha hab hop hpre hlt markup lookAhead

/-- non-vacuity: `foo ul>li.item$*3` -/
example : (X.extract ("foo ul>li.item$*3".toList.map Char.toNat) 17 {}).map (fun r => (r.abbreviation.length, r.location)) = some (13, 4) := by
  decide +kernel

end EmmetProps
