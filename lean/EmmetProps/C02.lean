import EmmetProofs.ConvCount
import EmmetProofs.Numbering
/-! # C02 — `X*N` makes exactly N copies (count clause; theorem on the converter model) -/
namespace EmmetProps
open T

/-- for ANY skeleton forest (elements and groups with `*N` at any depth): the converter returns `SK.unroll` — for `*N` exactly
`cnt N` consecutive copies carrying repeater values `0 … N-1` and count `N` (what `$` numbering reads), groups spliced with the
repeater attached to their items — provided the repeat guard exceeds the number of repeater-made copies (`SK.cost`). The guard
is decreased by exactly that number and nothing else in the state changes. -/
theorem C02_count (sk : SK) (fuel : Nat) (st : CState) (hf : sk.need ≤ fuel) (ht : st.text = .none)
    (hg : (sk.cost : Int) < st.guard) :
    convertList fuel sk.toT st = .ok (sk.unroll, withGuard st (st.guard - sk.cost)) := T.listOK sk fuel st hf ht hg

/-- numbering: a `$`-run of width `size` (with `@base` / `@-base`, no `^`) is replaced by the documented number of the nearest
repeater — `base + i` for copy `i` (0-based; the statement's `i` is 1-based), `base + N - 1 - i` when counting down so that the
last copy gets `base`, and 1 outside every repeater — zero-padded to `size` digits. Together with `C02_count` (copy `i` carries
value `i` and count `N`) this is the numbering clause. -/
theorem C02_numbering (t : Tok) (st : CState) (size : Nat) (reverse : Bool) (base : Nat)
    (h : t.tok = .repeaterNumber size reverse base 0) :
    stringifyTok t st = .ok (some (padded size (documentedNumber (counterOf st) reverse base)), st) :=
  T.stringify_number t st size reverse base h

theorem C02_countdown_last (r : Rep) (base : Nat) (h : r.value + 1 = r.count) :
    documentedNumber (some r) true base = base := T.documentedNumber_last_reverse r base h

/-- non-vacuity: `x*3` unrolls to three copies -/
example : (SK.elem [120] (some 3) .nil .nil).unroll.length = 3 ∧ (SK.elem [120] (some 3) .nil .nil).cost = 3 := by decide

end EmmetProps
