import EmmetProofs.ConvCount
/-! # C02 — `X*N` makes exactly N copies (count clause; theorem on the converter model) -/
namespace EmmetProps
open T

/-- for ANY skeleton forest (elements and groups with `*N` at any depth): the converter returns `SK.unroll` — for `*N` exactly
`cnt N` consecutive copies carrying repeater values `0 … N-1` and count `N` (what `$` numbering reads), groups spliced with the
repeater attached to their items — provided the repeat guard exceeds the number of repeater-made copies (`SK.cost`). The guard
is decreased by exactly that number and nothing else in the state changes. -/
theorem C02_count (sk : SK) (fuel : Nat) (st : CState) (hf : sk.need ≤ fuel) (ht : st.text = .none)
    (hg : (sk.cost : Int) < st.guard) :
    convertList fuel sk.toT st = .ok (sk.unroll, withGuard st (st.guard - sk.cost)) := T.listOK sk fuel st hf ht hg

/-- non-vacuity: `x*3` unrolls to three copies -/
example : (SK.elem [120] (some 3) .nil .nil).unroll.length = 3 ∧ (SK.elem [120] (some 3) .nil .nil).cost = 3 := by decide

end EmmetProps
