import EmmetProofs.ConvCount
import EmmetProofs.Numbering
import EmmetProofs.ConvBudget
/-! # C02 — `X*N` makes exactly N copies (count clause; theorem on the converter model) -/
namespace EmmetProps
open T

/-- for ANY skeleton forest (elements and groups with `*N` at any depth): the converter returns `SK.unroll` — for `*N` exactly
`cnt N` consecutive copies carrying repeater values `0 … N-1` and count `N` (what `$` numbering reads), groups spliced with the
repeater attached to their items — provided the repeat guard exceeds the number of repeater-made copies (`SK.cost`). The guard
is decreased by exactly that number and nothing else in the state changes. -/
theorem C02_count (sk : SK) (fuel : Nat) (st : CState) (hf : sk.need ≤ fuel) (ht : st.text = .none)
    (hg : (sk.cost : Int) < st.guard) :
    convertList fuel sk.toT st = .ok (sk.unroll, withGuard st (st.guard - sk.cost)) := T.listOK sk fuel st hf ht hg

/-- numbering: a `$`-run of width `size` (with `@base` / `@-base`, no `^`) is replaced by the documented number of the nearest
repeater — `base + i` for copy `i` (0-based; the statement's `i` is 1-based), `base + N - 1 - i` when counting down so that the
last copy gets `base`, and 1 outside every repeater — zero-padded to `size` digits. Together with `C02_count` (copy `i` carries
value `i` and count `N`) this is the numbering clause. -/
theorem C02_numbering (t : Tok) (st : CState) (size : Nat) (reverse : Bool) (base : Nat)
    (h : t.tok = .repeaterNumber size reverse base 0) :
    stringifyTok t st = .ok (some (padded size (documentedNumber (counterOf st) reverse base)), st) :=
  T.stringify_number t st size reverse base h

theorem C02_countdown_last (r : Rep) (base : Nat) (h : r.value + 1 = r.count) :
    documentedNumber (some r) true base = base := T.documentedNumber_last_reverse r base h

/-- the `maxRepeat` clause, for ANY skeleton forest and ANY budget (also 0 or negative): the converter returns the budgeted unrolling
`SK.unrollB` — copies are completed in document order (a copy's descendants are made with the budget its predecessors left), every
completed copy costs one unit, the loop of a repeater ends after the copy that brings the budget to zero (`loopB`), and the budget
left is what the state carries on. -/
theorem C02_budget (sk : SK) (fuel : Nat) (st : CState) (hf : sk.need ≤ fuel) (ht : st.text = .none) :
    convertList fuel sk.toT st = .ok ((sk.unrollB st.guard).1, withGuard st (sk.unrollB st.guard).2) := T.listB sk fuel st hf ht

/-- … from then on every repeater still running or met later yields just one copy: a repeater whose first copy leaves at most one
unit makes exactly that copy -/
theorem C02_budget_exhausted (copyF : Nat → Int → List ANode × Int) (m i : Nat) (g : Int) (h : (copyF i g).2 ≤ 1) :
    loopB copyF (m + 1) i g = ((copyF i g).1, (copyF i g).2 - 1) := T.loopB_exhausted copyF m i g h

/-- … and with enough budget all `m` copies are made and the budget drops by the number of copies (each with its `kc` descendants) -/
theorem C02_budget_enough (copy : Nat → List ANode) (kc m i : Nat) (g : Int) (h : ((m * (kc + 1) : Nat) : Int) < g) :
    loopB (fun j b => (copy j, b - kc)) m i g = ((List.range' i m).flatMap copy, g - ((m * (kc + 1) : Nat) : Int)) :=
  T.loopB_enough copy kc m i g h

/-- non-vacuity: `x*5+y*3` with a budget of 2: two copies of x, then one of y -/
example : (((SK.elem [120] (some 5) .nil (.elem [121] (some 3) .nil .nil)).unrollB 2).1.length, ((SK.elem [120] (some 5) .nil (.elem [121] (some 3) .nil .nil)).unrollB 2).2) = (3, -1) := by
  decide +kernel

/-- non-vacuity: `x*3` unrolls to three copies -/
example : (SK.elem [120] (some 3) .nil .nil).unroll.length = 3 ∧ (SK.elem [120] (some 3) .nil .nil).cost = 3 := by decide

end EmmetProps
