import EmmetProofs.MergeAbstract
/-! # C03 — attribute merging is "group by name, first mention keeps its place" (abstract attribute type)

For ANY attribute type `A` with a name projection `key : A → Option K` (`none` = no name / empty name) and ANY merge function
`m prev next` that keeps the name of `prev`: the loop of `merge_attributes` (look the name up among the results so far, merge
into it in place, else append) equals the declarative specification `specL`: names in order of first mention, each first
mention replaced by the left fold of `m` over the later mentions of that name, name-less attributes untouched. The per-field
readings of the statement (class values joined, last / first value wins, flags or-ed) are properties of `m` alone. -/
namespace EmmetProps

theorem C03_merge {A K : Type} [DecidableEq K] (key : A → Option K) (m : A → A → A)
    (hm : ∀ a b, key (m a b) = key a) (attrs : List A) :
    Mg.go key m attrs [] = Mg.specL key m attrs := Mg.merge_eq_spec key m hm attrs

end EmmetProps
