import EmmetProofs.MergeAbstract
import EmmetProofs.MergeModel
import EmmetProofs.AttrRender
/-! # C03 — attribute merging is "group by name, first mention keeps its place" (abstract attribute type)

For ANY attribute type `A` with a name projection `key : A → Option K` (`none` = no name / empty name) and ANY merge function
`m prev next` that keeps the name of `prev`: the loop of `merge_attributes` (look the name up among the results so far, merge
into it in place, else append) equals the declarative specification `specL`: names in order of first mention, each first
mention replaced by the left fold of `m` over the later mentions of that name, name-less attributes untouched. The per-field
readings of the statement (class values joined, last / first value wins, flags or-ed) are properties of `m` alone. -/
namespace EmmetProps

theorem C03_merge {A K : Type} [DecidableEq K] (key : A → Option K) (m : A → A → A)
    (hm : ∀ a b, key (m a b) = key a) (attrs : List A) :
    Mg.go key m attrs [] = Mg.specL key m attrs := Mg.merge_eq_spec key m hm attrs

/-- The same for the CONCRETE model of `merge_attributes` (`T.mergeAttributes`, the function the correspondence check runs against the
code): its result is the declarative group-by-name with `T.keyA` (name, `none` when missing or empty) and the model's merge
function `T.mA`. -/
theorem C03_merge_model (o : T.Options) (attrs : List T.AAttr) :
    T.mergeAttributes o attrs = Mg.specL T.keyA (T.mA o) attrs := T.mergeAttributes_spec o attrs

/-- any repeated attribute other than `class`: the merged attribute keeps its name (hence its first position), takes the LAST
mentioned value — the FIRST one under `output.reverseAttributes` — and the boolean / implied flags of all mentions are or-ed. -/
theorem C03_other_attribute (o : T.Options) (a : T.AAttr) (later : List T.AAttr) (hc : T.isClass a = false) :
    let ms := later.filter (Mg.same T.keyA a)
    let r := Mg.absorb T.keyA (T.mA o) a later
    r.name = a.name ∧
    r.value = (if o.reverseAttributes then a.value else ((ms.getLast?.map (·.value)).getD a.value)) ∧
    r.implied = (a.implied || ms.any (·.implied)) ∧ r.boolean = (a.boolean || ms.any (·.boolean)) :=
  T.absorb_other o a later hc

/-- `class`: the values of all mentions are merged in the order written, and plain words are joined by single spaces. -/
theorem C03_class_attribute (o : T.Options) (a : T.AAttr) (later : List T.AAttr) (hc : T.isClass a = true) :
    let ms := later.filter (Mg.same T.keyA a)
    let r := Mg.absorb T.keyA (T.mA o) a later
    r.name = a.name ∧ r.value = ms.foldl (fun v b => T.mergeValue v b.value) a.value := T.absorb_class o a later hc
theorem C03_class_words (x : T.Str) (ys : List T.Str) :
    ys.foldl (fun v y => T.mergeValue v (some [.str y])) (some [.str x]) = some [.str (ys.foldl (fun acc y => acc ++ [32] ++ y) x)] :=
  T.class_words x ys

-- non-vacuity: `.a[t=1].b[t=2]` — class first, `t` second; class = "a b", t = "2"
example : (T.mergeAttributes {} [⟨some (T.lit "class"), some [.str (T.lit "a")], .raw, false, false, false⟩, ⟨some (T.lit "t"), some [.str (T.lit "1")], .raw, false, false, false⟩,
      ⟨some (T.lit "class"), some [.str (T.lit "b")], .raw, false, false, false⟩, ⟨some (T.lit "t"), some [.str (T.lit "2")], .raw, false, false, false⟩]).map (fun a => match a.value with | some [.str s] => s | _ => [])
    = [T.lit "a b", T.lit "2"] := by decide +kernel

/-- rendering of one attribute, for EVERY option set without a name map / value prefix (html, xml, xsl …) and every attribute with a
name: the name in the configured case; the value verbatim between the configured quotes (braces for an expression); a boolean attribute
(`name.` or listed in output.booleanAttributes, any letter case) without value gets its own name as value, or stays bare in the compact
form; any other attribute without value gets an empty value (a tabstop) -/
theorem C03_attribute_rendering (op : T.Options) (a : T.AAttr) (n0 : T.Ch) (ns : T.Str) (hn : a.name = some (n0 :: ns))
    (hm : op.markupAttributes = []) (hp : op.valuePrefix = []) :
    T.attrParts op a = some (T.attrNameCase op (n0 :: ns),
      (if (a.boolean || op.booleanAttributes.contains (T.lower (n0 :: ns))) && !T.valTruthy a.value then
          (if !op.compactBoolean then some [.str (T.attrNameCase op (n0 :: ns))] else a.value)
        else if !T.valTruthy a.value then some T.caret else a.value),
      (T.quotesOf op a).1, (T.quotesOf op a).2) := T.attrParts_plain op a n0 ns hn hm hp

/-- implied attributes (`!name`) without value are dropped — and only those -/
theorem C03_implied_dropped (a : T.AAttr) :
    T.shouldOutputAttribute a = false ↔ (a.implied = true ∧ a.valueType = .raw ∧ T.valTruthy a.value = false) :=
  T.shouldOutput_spec a

end EmmetProps
