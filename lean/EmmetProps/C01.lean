import EmmetProofs.ParseDen
import EmmetProofs.ConvCount
import EmmetProofs.ImplicitName
/-! # C01 — the parser returns the element tree the operators denote; the converter unrolls it

`Seq` / `Item` range over ALL operator skeletons: elements and groups (each optionally `*N`) joined by `>` (child, elements
only), `+` (sibling) and one or more `^` (climb), at any nesting depth. `Seq.levels` is the specification, written as a
compositional right fold that never mentions the parser's stack: `levels[0]` is what lands at the current level, `levels[k]`
what lands `k` levels up; at the top level and inside a group everything that climbed too far lands at that level
(`flatten`: "`^` stops at the top level"). `Seq.toks` are the tokens the tokenizer produces for the printed skeleton. -/
namespace EmmetProps
open T

/-- the parser model on the tokens of ANY skeleton returns exactly the denoted forest (fuel linear in the token count) -/
theorem C01_parse (s : Seq) :
    pStatements false (3 * s.toks.length + 2) s.toks ⟨.root, []⟩ [] = .ok (s.levels.flatten, []) := T.statements_den s

/-- the converter model on ANY skeleton forest makes exactly N copies of every `*N` element / group (groups spliced, the
repeater attached), in document order, and restores every other state component — when no wrap text is supplied and the
repeat guard (maxRepeat, default 10^6) is larger than the number of repeater-made copies -/
theorem C01_unroll (sk : SK) (fuel : Nat) (st : CState) (hf : sk.need ≤ fuel) (ht : st.text = .none)
    (hg : (sk.cost : Int) < st.guard) :
    convertList fuel sk.toT st = .ok (sk.unroll, withGuard st (st.guard - sk.cost)) := T.listOK sk fuel st hf ht hg

/-- non-vacuity: `a>b^^c+(d>e)*2` is a skeleton; it prints to 13 tokens -/
example :
    let s : Seq := .child [97] none (.climb (.elem [98] none) 1 (.sib (.elem [99] none)
      (.last (.group (.child [100] none (.last (.elem [101] none))) (some 2)))))
    s.toks.length = 13 := by decide

/-- the REGENERATED `ELEMENT_MAP`, looked up with ANY parent name, is the documented table: li in ul/ol, tr in table/tbody/thead/tfoot,
td in tr, option in select/optgroup, span in p (and col in colgroup, source in audio/video, param in object, area in map), nothing else -/
theorem C01_implicit_table (pn : Str) : lookup Gen.elementMap pn = documentedMap pn := T.lookup_elementMap pn

/-- an element written with attributes but no name receives the documented implicit name for its context (the parent element, or the
configured context name at the top level): the documented table first, `span` inside inline-level parents, `div` otherwise — for every
option set, parent and node -/
theorem C01_implicit_name (o : Options) (parentName : Option Str) (hasParent : Bool)
    (name : Option Str) (v : Option (List VTok)) (a0 : AAttr) (as : List AAttr) (c : List ANode) (r : Option Rep) (s : Bool)
    (hn : name = none ∨ name = some []) :
    (implicitTag o parentName hasParent (.mk name v (some (a0 :: as)) c r s)).name
      = some (documentedImplicit o.inlineElements (implicitCtx o parentName hasParent)) :=
  T.implicitTag_name o parentName hasParent name v a0 as c r s hn

/-- an element with a name keeps it ("with its own name") -/
theorem C01_named_kept (o : Options) (parentName : Option Str) (hasParent : Bool)
    (x : Ch) (xs : Str) (v : Option (List VTok)) (a : Option (List AAttr)) (c : List ANode) (r : Option Rep) (s : Bool) :
    implicitTag o parentName hasParent (.mk (some (x :: xs)) v a c r s) = .mk (some (x :: xs)) v a c r s :=
  T.implicitTag_named o parentName hasParent x xs v a c r s

/-- the default inline-level elements of the REGENERATED `DEFAULT_OPTIONS` are the documented 39 -/
theorem C01_inline_default : Gen.inlineElements = ["a", "abbr", "acronym", "applet", "b", "basefont", "bdo", "big", "br", "button", "cite",
    "code", "del", "dfn", "em", "font", "i", "iframe", "img", "input", "ins", "kbd", "label", "map", "object", "q", "s", "samp", "select",
    "small", "span", "strike", "strong", "sub", "sup", "textarea", "tt", "u", "var"].map lit := by decide +kernel

/-- non-vacuity: `.x` under `UL` (any letter case) is `li`; under `em` (inline by default) `span`; under `section` `div` -/
example : documentedImplicit Gen.inlineElements (implicitCtx {} (some (lit "UL")) true) = lit "li" := by decide +kernel
example : documentedImplicit Gen.inlineElements (implicitCtx {} (some (lit "em")) true) = lit "span" := by decide +kernel
example : documentedImplicit Gen.inlineElements (implicitCtx {} (some (lit "section")) true) = lit "div" := by decide +kernel

end EmmetProps
