import EmmetProofs.ParseDen
import EmmetProofs.ConvCount
/-! # C01 — the parser returns the element tree the operators denote; the converter unrolls it

`Seq` / `Item` range over ALL operator skeletons: elements and groups (each optionally `*N`) joined by `>` (child, elements
only), `+` (sibling) and one or more `^` (climb), at any nesting depth. `Seq.levels` is the specification, written as a
compositional right fold that never mentions the parser's stack: `levels[0]` is what lands at the current level, `levels[k]`
what lands `k` levels up; at the top level and inside a group everything that climbed too far lands at that level
(`flatten`: "`^` stops at the top level"). `Seq.toks` are the tokens the tokenizer produces for the printed skeleton. -/
namespace EmmetProps
open T

/-- the parser model on the tokens of ANY skeleton returns exactly the denoted forest (fuel linear in the token count) -/
theorem C01_parse (s : Seq) :
    pStatements false (3 * s.toks.length + 2) s.toks ⟨.root, []⟩ [] = .ok (s.levels.flatten, []) := T.statements_den s

/-- the converter model on ANY skeleton forest makes exactly N copies of every `*N` element / group (groups spliced, the
repeater attached), in document order, and restores every other state component — when no wrap text is supplied and the
repeat guard (maxRepeat, default 10^6) is larger than the number of repeater-made copies -/
theorem C01_unroll (sk : SK) (fuel : Nat) (st : CState) (hf : sk.need ≤ fuel) (ht : st.text = .none)
    (hg : (sk.cost : Int) < st.guard) :
    convertList fuel sk.toT st = .ok (sk.unroll, withGuard st (st.guard - sk.cost)) := T.listOK sk fuel st hf ht hg

/-- non-vacuity: `a>b^^c+(d>e)*2` is a skeleton; it prints to 13 tokens -/
example :
    let s : Seq := .child [97] none (.climb (.elem [98] none) 1 (.sib (.elem [99] none)
      (.last (.group (.child [100] none (.last (.elem [101] none))) (some 2)))))
    s.toks.length = 13 := by decide

end EmmetProps
