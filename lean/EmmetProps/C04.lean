import EmmetProofs.TextVerbatim
/-! # C04 — text is data (token level) -/
namespace EmmetProps
open T

/-- For ANY non-empty run of inert tokens (literals, white space, operators, brackets, quotes — everything the tokenizer
produces inside `{…}` except `$` forms and fields): `stringify_value` returns exactly one string, the concatenation of the
characters the tokens stand for, and the converter state is unchanged: operator characters inside text have no effect. -/
theorem C04_text_tokens (ts : List Tok) (st : CState) (tx : List Str) (h : texts ts = some tx) (hne : ts ≠ []) :
    stringifyValueLoop ts st [] [] = .ok ([VTok.str tx.flatten], st) := T.stringifyValue_plain ts st tx h hne

/-- non-vacuity: the tokens of `a>b` inside text -/
example : texts [⟨.literal [97], 0, 1⟩, ⟨.operator .child, 1, 2⟩, ⟨.literal [98], 2, 3⟩] = some [[97], [62], [98]] := by decide

end EmmetProps
