import EmmetProofs.WrapLines
import EmmetProofs.TextVerbatim
import EmmetProofs.TextLex
/-! # C04 — text is data (token level) -/
namespace EmmetProps
open T

/-- For ANY non-empty run of inert tokens (literals, white space, operators, brackets, quotes — everything the tokenizer
produces inside `{…}` except `$` forms and fields): `stringify_value` returns exactly one string, the concatenation of the
characters the tokens stand for, and the converter state is unchanged: operator characters inside text have no effect. -/
theorem C04_text_tokens (ts : List Tok) (st : CState) (tx : List Str) (h : texts ts = some tx) (hne : ts ≠ []) :
    stringifyValueLoop ts st [] [] = .ok ([VTok.str tx.flatten], st) := T.stringifyValue_plain ts st tx h hne

/-- non-vacuity: the tokens of `a>b` inside text -/
example : texts [⟨.literal [97], 0, 1⟩, ⟨.operator .child, 1, 2⟩, ⟨.literal [98], 2, 3⟩] = some [[97], [62], [98]] := by decide

/-- Lexing of text, for ANY payload of the text grammar `Txt` (ordinary characters — operators, brackets, quotes, `*`, `#` … all
included —, `\c` escapes, balanced inner braces; everything but an unescaped `$`) that does not begin with white space: right after
the opening brace, one iteration of the tokenizer's main loop consumes exactly the payload, stops at the closing brace and yields
ONE literal token whose value is the payload character for character, with each `\c` read as `c` and the inner braces kept. -/
theorem C04_text_lexing {w d : Str} (h : Txt w d) (hne : w ≠ []) (hsp : ∀ c r, w = c :: r → isSpace c = false)
    (post : Str) (pos : Nat) (prev : Option Ch) (cg ca : Int) :
    step (w ++ 125 :: post) pos prev (tctx cg ca 1) = .ok (some (⟨.literal d, w, 125 :: post⟩, tctx cg ca 1)) :=
  T.step_text h hne hsp post pos prev cg ca

/-- non-vacuity: the payload `*>{x}\}` denotes `*>{x}}` -/
example : Txt [42, 62, 123, 120, 125, 92, 125] [42, 62, 123, 120, 125, 125] :=
  .chr 42 _ _ (by decide) (by decide) (by decide) (by decide)
    (.chr 62 _ _ (by decide) (by decide) (by decide) (by decide)
      (.nest [120] [120] [92, 125] [125] (.chr 120 [] [] (by decide) (by decide) (by decide) (by decide) .nil) (.esc 125 [] [] .nil)))

/-- wrap clause on the converter model, `name*` with ANY list of lines (no repeat limit, fewer than 10^6 non-blank lines): exactly one copy
per non-blank line, in order; copy `i` is the element whose only content is line `i` trimmed, taken verbatim (one string token: nothing in
it is read as abbreviation syntax or numbering); blank lines make no copy -/
theorem C04_wrap_lines (v : T.Str) (c fuel : Nat) (ls : List T.Str) (vars : Option (List (T.Str × T.Str)))
    (hn : (T.nonBlank ls).length < 1000000) (hf : (T.nonBlank ls).length + 5 ≤ fuel) :
    T.convert [T.wrapLeaf v c] { text := .lines ls, variables := vars, maxRepeat := none } fuel = .ok (T.wrapCopies v (T.nonBlank ls)) :=
  T.convert_wrap v c fuel ls vars hn hf

/-- the same inside any converter state (the element may stand anywhere in an abbreviation): `convert_statement` on `name*` makes the copies
for the state's non-blank lines, marks the text as inserted and pays one unit of the repeat guard per copy -/
theorem C04_wrap_statement (v : T.Str) (c fuel : Nat) (st : T.CState) (ls : List T.Str)
    (ht : st.text = .lines ls) (hins : st.inserted = false) (hg : (st.cleanText.length : Int) < st.guard)
    (hf : st.cleanText.length + 3 ≤ fuel) :
    T.convertStatement (fuel + 1) (T.wrapLeaf v c) st =
      .ok (T.wrapCopies v st.cleanText,
           { st with inserted := true, textInserted := st.textInserted || decide (0 < st.cleanText.length),
                     guard := st.guard - st.cleanText.length }) := T.convertStatement_wrap v c fuel st ls ht hins hg hf

/-- non-vacuity: `li*` with the lines "a", "  ", " b " makes two copies holding `a` and `b` -/
example : T.wrapCopies [108, 105] (T.nonBlank [[97], [32, 32], [32, 98, 32]])
    = [T.lineCopy [108, 105] 2 0 [97], T.lineCopy [108, 105] 2 1 [32, 98, 32]] := by rfl
example : T.lineCopy [108, 105] 2 1 [32, 98, 32] = .mk (some [108, 105]) (some [.str [98]]) none [] (some ⟨2, 1, true⟩) false := by rfl

end EmmetProps
