import EmmetProofs.StreamOffsets
/-! # C13 — reported positions are exact (model of `OutputStream` with ARBITRARY callbacks and a ghost log of calls)

`Prog` ranges over all stream programs: any composition of push, push_string, push_field, push_newline, push_indent and level
changes, with control flow that may inspect the stream state (the formatters are such programs). `NLKeep`: the text callback
keeps the length of the newline string (push_newline sets the column to `len(baseIndent)` whatever the callback returned). -/
namespace EmmetProps
open St

/-- after any program: `offset = |value|`; every piece a callback returned sits in the final value exactly at the offset the
callback was given; the line is the number of newline pushes so far and the column the distance to the end of the last one -/
theorem C13_offsets (o : Opts) (hk : NLKeep o) (p : Prog) :
    let s := p.run o {}
    s.offset = s.value.length ∧ (∀ c ∈ s.log, Located s.value c) ∧ s.line = s.nls ∧ s.column = s.offset - s.lastNL :=
  St.C13_offsets o hk p

end EmmetProps
