import EmmetProofs.ConfigLookup
import Emmet.ConfigModel
/-! # C20 — configuration layers override each other in the documented order

`Cfg.mergeLayers` is the model of `merged_data` (a fold of Python `dict.update` over the layers that are present);
`firstDefined layers k` is the specification: the value of `k` in the most specific (= last) present layer that mentions it.
`optionLayers / snippetLayers / variableLayers` list the six layers in the documented order, built from the tables that are
regenerated from `emmet/config.py` on every run. -/
namespace EmmetProps
open Cfg

/-- arbitrary dictionaries, arbitrary number of layers: lookup after merging = most specific layer that defines the key;
layers that do not mention a key leave it untouched -/
theorem C20_lookup {κ ν : Type} [DecidableEq κ] (layers : List (Option (Dict κ ν))) (k : κ) :
    get? (mergeLayers layers) k = firstDefined layers k := Cfg.get?_mergeLayers layers k

/-- the effective value of every option is taken from the most specific of: built-in defaults, defaults of the type, defaults
of the syntax, global config for the type, global config for the syntax, the call's own config -/
theorem C20_options (u : RawConfig) (g : GlobalConfig) (k : String) :
    get? (mergedOptions u g) k = firstDefined (optionLayers u g) k := Cfg.get?_mergeLayers _ k
theorem C20_snippets (u : RawConfig) (g : GlobalConfig) (k : T.Str) :
    get? (mergedSnippets u g) k = firstDefined (snippetLayers u g) k := Cfg.get?_mergeLayers _ k
theorem C20_variables (u : RawConfig) (g : GlobalConfig) (k : T.Str) :
    get? (mergedVariables u g) k = firstDefined (variableLayers u g) k := Cfg.get?_mergeLayers _ k

/-- an unknown syntax (or type) name contributes an empty built-in layer: resolution falls back to the other layers -/
theorem C20_unknown_syntax (name : T.Str) (h : Gen.syntaxConfig.find? (fun e => e.1 == strOf name) = none) :
    (builtinLayer name).options = none ∧ (builtinLayer name).snippets = none ∧ (builtinLayer name).variables = none := by
  unfold builtinLayer; rw [h]; exact ⟨rfl, rfl, rfl⟩

/-- non-vacuity on the generated tables: for syntax `xsl` the syntax layer sets the self-closing style to `xml`, and a user
layer overrides it -/
example : get? (mergedOptions { syn := some (T.lit "xsl") } []) "output.selfClosingStyle" = some (.s (T.lit "xml")) := by decide +kernel
example : get? (mergedOptions { syn := some (T.lit "xsl"), options := some [("output.selfClosingStyle", .s (T.lit "html"))] } [])
    "output.selfClosingStyle" = some (.s (T.lit "html")) := by decide +kernel

open T (lit)
/-- `Config.__init__` defaults over the REGENERATED tables: no type means markup; no syntax means the default syntax of the type (html / css); an
unknown type falls back to html -/
theorem C20_defaults :
    typeOf {} = lit "markup" ∧ syntaxOf {} = lit "html" ∧ syntaxOf { type := some (lit "stylesheet") } = lit "css"
    ∧ syntaxOf { type := some (lit "markup") } = lit "html" ∧ syntaxOf { type := some (lit "nonsense") } = lit "html" := by decide +kernel

/-- a layer that is absent, or that does not mention the key, leaves the key untouched (any layers around it, any key) -/
theorem C20_silent_layer {κ ν : Type} [DecidableEq κ] (pre post : List (Option (Dict κ ν))) (l : Option (Dict κ ν)) (k : κ)
    (h : match l with | some e => lastIn e k = none | none => True) :
    firstDefined (pre ++ l :: post) k = firstDefined (pre ++ post) k := by
  induction pre with
  | nil =>
    simp only [List.nil_append, firstDefined]
    cases hp : firstDefined post k with
    | some v => rfl
    | none => cases l with
      | none => rfl
      | some e => simpa using h
  | cons x xs ih => simp only [List.cons_append, firstDefined, ih]

end EmmetProps
