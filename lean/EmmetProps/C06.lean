import Emmet.Spec.C06
import EmmetProofs.Written
/-! # C06 — every built-in stylesheet snippet is reachable by its own key (whole generated table, re-checked whenever
`emmet/snippets/css.py` changes) -/
namespace EmmetProps
open CA

set_option maxRecDepth 100000 in
/-- for every key of the generated table: the fuzzy matcher, run on exactly that key against the whole table, returns that
    entry and no other -/
theorem C06_keys : keysReachable (sortedKeys Gen.cssSnippets) = true := by decide +kernel

/-- the table is not empty (230 keys on the pinned tree) -/
example : 200 < (sortedKeys Gen.cssSnippets).length := by decide +kernel

/-- no key is claimed by two entries of the REGENERATED stylesheet snippet file as written (`k1|k2: body`): a key selects "that snippet
and no other" already at the level of the source table -/
theorem C06_names_distinct : ((Snip.flatten Gen.cssWritten).map (·.1)).Nodup := Snip.distinct_spec _ Snip.css_distinct

/-- the keys of the table the matcher runs on are exactly the written keys, in order -/
theorem C06_names_from_source : (Snip.flatten Gen.cssWritten).map (·.1) = Gen.cssSnippets.map (·.1) := Snip.css_names

end EmmetProps
