import Emmet.Spec.C06
/-! # C06 — every built-in stylesheet snippet is reachable by its own key (whole generated table, re-checked whenever
`emmet/snippets/css.py` changes) -/
namespace EmmetProps
open CA

set_option maxRecDepth 100000 in
/-- for every key of the generated table: the fuzzy matcher, run on exactly that key against the whole table, returns that
    entry and no other -/
theorem C06_keys : keysReachable (sortedKeys Gen.cssSnippets) = true := by decide +kernel

/-- the table is not empty (230 keys on the pinned tree) -/
example : 200 < (sortedKeys Gen.cssSnippets).length := by decide +kernel

end EmmetProps
