import EmmetProofs.HtmlMatchB
import EmmetProofs.HtmlInward
/-! # C09 — HTML matcher returns the innermost enclosing tag pair (layer B: over event streams of element trees)

`Forest` (first-child / next-sibling form) ranges over *all* trees of paired elements and self-closed / void leaves with
arbitrary offsets; `Forest.WF xml` says that paired names are not void in the current mode and leaves are void or
self-closed. `findPost` / `allPost` / `findIn` are the specification side: first / all elements in post-order whose range
strictly contains the position (= innermost first), and the first element in post-order that contains it (pairs
non-strictly, leaves strictly) followed by its chain of first children. -/
namespace EmmetProps
open H

theorem C09_match (xml : Bool) (pos : Int) (f : Forest) (hwf : f.WF xml) :
    matchLoop xml pos f.events [] = f.findPost pos := H.C09_match xml pos f hwf

theorem C09_outward (xml : Bool) (pos : Int) (f : Forest) (hwf : f.WF xml) :
    outwardLoop xml pos f.events [] [] = f.allPost pos := H.C09_outward xml pos f hwf

theorem C09_inward (xml : Bool) (pos : Int) (f : Forest) (hwf : f.WF xml) :
    inwardLoop xml pos f.events [] = (f.findIn pos).getD [] := H.C09_inward xml pos f hwf

/-- non-vacuity: `<a><b/></a>` as a forest is well formed and position 4 (inside `<b/>`) finds `b`, enclosed by `a` -/
def exForest : Forest := .pair [97] (0, 3) (7, 11) (.leaf ⟨[98], .selfClose, 3, 7⟩ .nil) .nil
example : exForest.WF false := by
  simp only [exForest, Forest.WF]; refine ⟨by decide +kernel, ⟨by decide +kernel, trivial⟩, trivial⟩
example : (exForest.findPost 4).map (·.name) = some [98] ∧ (exForest.allPost 4).map (·.name) = [[98], [97]] := by
  decide +kernel

end EmmetProps
