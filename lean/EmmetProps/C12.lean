import EmmetProofs.WeaveElem
import EmmetProofs.HtmlLevel
/-! # C12 — formatting options are cosmetic; indentation follows nesting (HTML formatter model) -/
namespace EmmetProps
open T

/-- For EVERY forest, every option set `op` and every layout `L` (indent, baseIndent, newline — white space only —, format,
formatLeafNode, formatSkip, formatForce, inlineBreak): the formatter's outputs under `op` and under `relayout op L` are equal
once white space is deleted (`sq`): the same tags, attributes, text and tabstop numbers in the same order. -/
theorem C12_weave_sq (op : Options) (L : Layout) (hw : WsOnly op) (hw' : WsOnly (relayout op L)) (nodes : List ANode) :
    sq (htmlFormat op nodes) = sq (htmlFormat (relayout op L) nodes) := T.C12_weave_sq op L hw hw' nodes

/-- Key lemma of "indentation = depth": the formatter's `element()` returns the stream at the indentation level it was given,
for every node, sibling list, parent, option set and stream state — so all children of an element are entered at one and the
same level (one above their parent's unless exempted), and a closing tag is written at the level of its opening tag. -/
theorem C12_level_restored (op : Options) (fuel : Nat) (node : ANode) (index : Nat) (items : List ANode) (parent : Option ANode)
    (o : Out) : (htmlElement op fuel node index items parent o).level = o.level :=
  T.htmlElement_level op fuel node index items parent o

end EmmetProps
