import Emmet.Abbr.Parser
/-! C01_parse on the REAL parser model: `pStatements` on the tokens of any `Seq` yields its `levels` denotation. -/
namespace T

def mk (t : Token) : Tok := ⟨t, 0, 0⟩
def nameTok (v : Str) : Tok := mk (.literal v)
def repTok (k : Nat) : Tok := mk (.repeater k false)
def opTok (k : OpKind) : Tok := mk (.operator k)
def grpOpen : Tok := mk (.bracket true .group)
def grpClose : Tok := mk (.bracket false .group)

mutual
inductive Item
  | elem (v : Str) (rep : Option Nat)
  | group (body : Seq) (rep : Option Nat)
inductive Seq
  | last (i : Item)
  | child (v : Str) (rep : Option Nat) (rest : Seq)
  | sib (i : Item) (rest : Seq)
  | climb (i : Item) (k : Nat) (rest : Seq)     -- k+1 climb operators
end

def repToks : Option Nat → List Tok
  | none => []
  | some k => [repTok k]
def repOf (r : Option Nat) : Option Tok := r.map repTok

mutual
def Item.toks : Item → List Tok
  | .elem v r => nameTok v :: repToks r
  | .group b r => grpOpen :: (b.toks ++ grpClose :: repToks r)
def Seq.toks : Seq → List Tok
  | .last i => i.toks
  | .child v r rest => nameTok v :: (repToks r ++ opTok .child :: rest.toks)
  | .sib i rest => i.toks ++ opTok .sibling :: rest.toks
  | .climb i k rest => i.toks ++ (List.replicate (k+1) (opTok .climb) ++ rest.toks)
end

def hd (L : List (List TNode)) : List TNode := L.headD []
def elemNode (v : Str) (r : Option Nat) (kids : List TNode) : TNode :=
  .elem (some [nameTok v]) none none (repOf r) false kids

mutual
def Item.node : Item → TNode
  | .elem v r => elemNode v r []
  | .group b r => .group (b.levels.flatten) (repOf r)
def Seq.levels : Seq → List (List TNode)
  | .last i => [[i.node]]
  | .child v r rest =>
      let L := rest.levels
      ((elemNode v r (hd L)) :: hd L.tail) :: L.tail.tail
  | .sib i rest =>
      let L := rest.levels
      (i.node :: hd L) :: L.tail
  | .climb i k rest => [i.node] :: (List.replicate k [] ++ rest.levels)
end

/-! zipper algebra (as in the reduced prototype) -/
def plug : Frame → List Frame → List (List TNode) → Frame × List Frame
  | cur, above, [] => (cur, above)
  | cur, above, [l] => ({ cur with kids := cur.kids ++ l }, above)
  | cur, above, l :: l2 :: ls =>
      match above with
      | p :: ab => plug (p.push (closeFrame { cur with kids := cur.kids ++ l })) ab (l2 :: ls)
      | [] => plug { cur with kids := cur.kids ++ l } [] (l2 :: ls)
def finish (cur : Frame) (above : List Frame) (L : List (List TNode)) : List TNode :=
  closeAll (plug cur above L).1 (plug cur above L).2

theorem finish_single (cur above l) : finish cur above [l] = closeAll { cur with kids := cur.kids ++ l } above := rfl
theorem finish_cc_above (cur p ab l l2 ls) :
    finish cur (p :: ab) (l :: l2 :: ls) = finish (p.push (closeFrame { cur with kids := cur.kids ++ l })) ab (l2 :: ls) := rfl
theorem finish_cc_root (cur l l2 ls) :
    finish cur [] (l :: l2 :: ls) = finish { cur with kids := cur.kids ++ l } [] (l2 :: ls) := rfl

theorem finish_root (ks : List TNode) (L : List (List TNode)) : finish ⟨.root, ks⟩ [] L = ks ++ L.flatten := by
  induction L generalizing ks with
  | nil => simp [finish, plug, closeAll]
  | cons l ls ih =>
    cases ls with
    | nil => simp [finish_single, closeAll]
    | cons l2 ls2 => rw [finish_cc_root]; have := ih (ks ++ l); simp only at this ⊢; rw [this]; simp

theorem finish_child (v r) (cur : Frame) (above : List Frame) (L : List (List TNode)) (hL : L ≠ []) :
    finish ⟨.elem (some [nameTok v]) none none (repOf r) false, []⟩ (cur :: above) L =
    finish cur above (((elemNode v r (hd L)) :: hd L.tail) :: L.tail.tail) := by
  match L, hL with
  | [l], _ => simp [finish_single, hd, closeAll, Frame.push, closeFrame, elemNode]
  | [l, l2], _ => simp [finish_cc_above, finish_single, hd, Frame.push, closeFrame, elemNode]
  | l :: l2 :: l3 :: ls, _ =>
    rw [finish_cc_above]
    cases above with
    | nil =>
      rw [finish_cc_root]; simp only [hd, List.tail_cons, List.headD_cons]; rw [finish_cc_root]
      simp [Frame.push, closeFrame, elemNode]
    | cons p ab =>
      rw [finish_cc_above]; simp only [hd, List.tail_cons, List.headD_cons]; rw [finish_cc_above]
      simp [Frame.push, closeFrame, elemNode]

theorem finish_sib (node : TNode) (cur : Frame) (above) (L : List (List TNode)) (hL : L ≠ []) :
    finish (cur.push node) above L = finish cur above ((node :: hd L) :: L.tail) := by
  match L, hL with
  | [l], _ => simp [finish_single, hd, Frame.push]
  | l :: l2 :: ls, _ =>
    cases above with
    | nil => simp [finish_cc_root, hd, Frame.push]
    | cons p ab => simp [finish_cc_above, hd, Frame.push]

theorem levels_ne_nil (s : Seq) : s.levels ≠ [] := by cases s <;> simp [Seq.levels]

/-- `k` climb operators followed by a token list that does not start with a climb -/
def NoClimbHead : List Tok → Prop
  | t :: _ => isOperator t (some .climb) = false
  | [] => True

theorem climbs_spec (k : Nat) (rest : List Tok) (cur : Frame) (above : List Frame) (hrest : NoClimbHead rest) :
    ∀ (L : List (List TNode)), L ≠ [] →
    (climbs (List.replicate k (opTok .climb) ++ rest) cur above).2.2 = rest ∧
    finish (climbs (List.replicate k (opTok .climb) ++ rest) cur above).1
           (climbs (List.replicate k (opTok .climb) ++ rest) cur above).2.1 L
      = finish cur above (List.replicate k [] ++ L) := by
  induction k generalizing cur above with
  | zero =>
    intro L hL
    simp only [List.replicate, List.nil_append]
    cases rest with
    | nil => simp [climbs]
    | cons t ts => simp only [NoClimbHead] at hrest; simp [climbs, hrest]
  | succ k ih =>
    intro L hL
    simp only [List.replicate_succ, List.cons_append]
    have hop : isOperator (opTok .climb) (some .climb) = true := rfl
    cases above with
    | nil =>
      simp only [climbs, hop, if_true]
      have := ih cur [] L hL
      refine ⟨this.1, ?_⟩
      rw [this.2]
      cases hk : (List.replicate k ([] : List TNode) ++ L) with
      | nil => simp_all
      | cons a as => rw [finish_cc_root]; simp
    | cons p ab =>
      simp only [climbs, hop, if_true]
      have := ih (p.push (closeFrame cur)) ab L hL
      refine ⟨this.1, ?_⟩
      rw [this.2]
      cases hk : (List.replicate k ([] : List TNode) ++ L) with
      | nil => simp_all
      | cons a as => rw [finish_cc_above]; simp

end T

namespace T

/-- tokens at which an element ends in the skeleton grammar -/
def StopTok (t : Tok) : Prop :=
  t = opTok .child ∨ t = opTok .sibling ∨ t = opTok .climb ∨ t = grpOpen ∨ t = grpClose
def StopHead : List Tok → Prop
  | [] => True
  | t :: _ => StopTok t

theorem elemLoop_stop (n : Nat) (rest : List Tok) (e : ElemAcc) (h : StopHead rest) :
    elemLoop false (n + 1) rest e = .ok (e, rest) := by
  cases rest with
  | nil => simp [elemLoop]
  | cons t ts =>
    simp only [StopHead, StopTok] at h
    rcases h with rfl | rfl | rfl | rfl | rfl <;>
      simp [elemLoop, pText, pShortAttribute, pAttributeSet, isBracket, isOperator, isRepeater, opTok, grpOpen, grpClose, mk,
        bind, Except.bind, pure, Except.pure]

theorem nameLoop_stop (rest : List Tok) (acc : List Tok) (h : StopHead rest) : nameLoop rest acc = (acc.reverse, rest) := by
  cases rest with
  | nil => simp [nameLoop]
  | cons t ts =>
    simp only [StopHead, StopTok] at h
    rcases h with rfl | rfl | rfl | rfl | rfl <;> simp [nameLoop, isElementNameTok, opTok, grpOpen, grpClose, mk]

def NoNameHead : List Tok → Prop
  | [] => True
  | t :: _ => isElementNameTok t = false

theorem nameLoop_noName (X : List Tok) (acc : List Tok) (h : NoNameHead X) : nameLoop X acc = (acc.reverse, X) := by
  cases X with
  | nil => simp [nameLoop]
  | cons t ts => simp only [NoNameHead] at h; simp [nameLoop, h]

theorem pElementName_name (v : Str) (X : List Tok) (h : NoNameHead X) :
    pElementName false (nameTok v :: X) = .ok ([nameTok v], X) := by
  simp only [pElementName, Bool.false_eq_true, if_false, bind, Except.bind, pure, Except.pure]
  have : nameLoop (nameTok v :: X) [] = ([nameTok v], X) := by
    simp only [nameLoop, isElementNameTok, nameTok, mk, if_true]
    rw [nameLoop_noName X _ h]; simp
  simp [this]

theorem StopHead.noName {rest} (h : StopHead rest) : NoNameHead rest := by
  cases rest with
  | nil => trivial
  | cons t ts =>
    simp only [StopHead, StopTok] at h
    rcases h with rfl | rfl | rfl | rfl | rfl <;> simp [NoNameHead, isElementNameTok, opTok, grpOpen, grpClose, mk]

/-- `element()` on `name [*N]` followed by a stop token -/
theorem elem_ok (v : Str) (r : Option Nat) (fuel : Nat) (rest : List Tok) (h : StopHead rest) :
    pItem false (fuel + 1) (nameTok v :: (repToks r ++ rest)) = .ok (some (elemNode v r [], rest)) := by
  cases r with
  | none =>
    simp only [repToks, List.nil_append, pItem]
    rw [pElementName_name v rest h.noName]
    simp only [bind, Except.bind, pure, Except.pure, List.isEmpty_cons, Bool.false_eq_true, if_false]
    rw [elemLoop_stop rest.length rest _ h]
    simp [ElemAcc.isEmpty, elemNode, repOf]
  | some k =>
    simp only [repToks, List.cons_append, List.nil_append, pItem]
    rw [pElementName_name v (repTok k :: rest) (by simp [NoNameHead, isElementNameTok, repTok, mk])]
    simp only [bind, Except.bind, pure, Except.pure, List.isEmpty_cons, Bool.false_eq_true, if_false, List.length_cons]
    have h1 : elemLoop false (rest.length + 1 + 1) (repTok k :: rest) { name := some [nameTok v] } =
        elemLoop false (rest.length + 1) rest { name := some [nameTok v], rep := some (repTok k) } := by
      simp [elemLoop, isRepeater, repTok, mk, ElemAcc.isEmpty]
    rw [h1, elemLoop_stop rest.length rest _ h]
    simp [ElemAcc.isEmpty, elemNode, repOf]

end T

namespace T

mutual
def Item.size : Item → Nat
  | .elem _ _ => 2
  | .group b _ => b.size + 2
def Seq.size : Seq → Nat
  | .last i => i.size + 3
  | .child _ _ rest => rest.size + 2
  | .sib i rest => i.size + rest.size
  | .climb i _ rest => i.size + rest.size
end
theorem Item.size_pos (i : Item) : 2 ≤ i.size := by cases i <;> simp [Item.size]
theorem Seq.size_pos (s : Seq) : 4 ≤ s.size := by
  cases s with
  | last i => have := i.size_pos; simp [Seq.size]; omega
  | child v r rest => have := rest.size_pos; simp [Seq.size]; omega
  | sib i rest => have := i.size_pos; have := rest.size_pos; simp [Seq.size]; omega
  | climb i k rest => have := i.size_pos; have := rest.size_pos; simp [Seq.size]; omega

/-- where `statements()` stops: end of input or `)` -/
def Stops : List Tok → Prop
  | [] => True
  | t :: _ => t = grpClose
def NoRep : List Tok → Prop
  | t :: _ => isRepeater t = false
  | [] => True

theorem Stops.stopHead {rest} (h : Stops rest) : StopHead rest := by
  cases rest with
  | nil => trivial
  | cons t ts => simp only [Stops] at h; subst h; simp [StopHead, StopTok]
theorem Stops.noRep {rest} (h : Stops rest) : NoRep rest := by
  cases rest with
  | nil => trivial
  | cons t ts => simp only [Stops] at h; subst h; simp [NoRep, isRepeater, grpClose, mk]

theorem pItem_close (f : Nat) (ts : List Tok) : pItem false (f + 1) (grpClose :: ts) = .ok none := by
  simp only [pItem]
  have hn : pElementName false (grpClose :: ts) = .ok ([], grpClose :: ts) := by
    simp [pElementName, nameLoop, isElementNameTok, grpClose, mk, bind, Except.bind, pure, Except.pure]
  rw [hn]
  simp only [bind, Except.bind, pure, Except.pure, List.isEmpty_nil, if_true, List.length_cons]
  rw [elemLoop_stop (ts.length + 1) (grpClose :: ts) _ (by simp [StopHead, StopTok])]
  simp [ElemAcc.isEmpty, isBracket, grpClose, mk]

theorem pStatements_stops (f : Nat) (rest : List Tok) (cur above) (h : Stops rest) :
    pStatements false (f + 2) rest cur above = .ok (closeAll cur above, rest) := by
  cases rest with
  | nil => simp [pStatements]
  | cons t ts =>
    simp only [Stops] at h; subst h
    simp only [pStatements, pItem_close, bind, Except.bind, pure, Except.pure]

theorem optRepeater_repToks (r : Option Nat) (rest : List Tok) (h : NoRep rest) :
    optRepeater (repToks r ++ rest) = (repOf r, rest) := by
  cases r with
  | none =>
    simp only [repToks, List.nil_append, repOf, Option.map_none]
    cases rest with
    | nil => rfl
    | cons t ts => simp only [NoRep] at h; simp [optRepeater, h]
  | some k => simp [repToks, optRepeater, isRepeater, repTok, mk, repOf]

theorem repToks_stop_noName (r : Option Nat) (rest : List Tok) (h : StopHead rest) : True := trivial

theorem Item.toks_head (i : Item) : ∃ t ts, i.toks = t :: ts ∧ (t = grpOpen ∨ ∃ v, t = nameTok v) := by
  cases i with
  | elem v r => exact ⟨nameTok v, repToks r, by simp [Item.toks], Or.inr ⟨v, rfl⟩⟩
  | group b r => exact ⟨grpOpen, b.toks ++ grpClose :: repToks r, by simp [Item.toks], Or.inl rfl⟩
theorem Seq.toks_head (s : Seq) : ∃ t ts, s.toks = t :: ts ∧ (t = grpOpen ∨ ∃ v, t = nameTok v) := by
  cases s with
  | last i => simpa [Seq.toks] using i.toks_head
  | child v r rest => exact ⟨nameTok v, repToks r ++ opTok .child :: rest.toks, by simp [Seq.toks], Or.inr ⟨v, rfl⟩⟩
  | sib i rest =>
    obtain ⟨t, ts, h, ht⟩ := i.toks_head
    exact ⟨t, ts ++ opTok .sibling :: rest.toks, by simp [Seq.toks, h], ht⟩
  | climb i k rest =>
    obtain ⟨t, ts, h, ht⟩ := i.toks_head
    exact ⟨t, ts ++ (List.replicate (k+1) (opTok .climb) ++ rest.toks), by simp [Seq.toks, h], ht⟩

/-- a group item, given the theorem for its body -/
theorem group_ok (b : Seq) (r : Option Nat) (f : Nat) (rest : List Tok) (hr : NoRep rest)
    (hb : pStatements false f (b.toks ++ (grpClose :: (repToks r ++ rest))) ⟨.root, []⟩ [] =
          .ok (finish ⟨.root, []⟩ [] b.levels, grpClose :: (repToks r ++ rest))) :
    pItem false (f + 1) ((Item.group b r).toks ++ rest) = .ok (some ((Item.group b r).node, rest)) := by
  simp only [Item.toks, List.cons_append, List.append_assoc, pItem]
  have hn : pElementName false (grpOpen :: (b.toks ++ (grpClose :: (repToks r ++ rest)))) =
      .ok ([], grpOpen :: (b.toks ++ (grpClose :: (repToks r ++ rest)))) := by
    simp [pElementName, nameLoop, isElementNameTok, grpOpen, mk, bind, Except.bind, pure, Except.pure]
  rw [hn]
  simp only [bind, Except.bind, pure, Except.pure, List.isEmpty_nil, if_true, List.length_cons]
  rw [elemLoop_stop _ (grpOpen :: _) _ (by simp [StopHead, StopTok])]
  simp only [ElemAcc.isEmpty, Option.isNone_none, Bool.and_self, Bool.not_true, Bool.false_eq_true, if_false]
  have hbr : isBracket grpOpen (some BrCtx.group) (some true) = true := rfl
  simp only [hbr, if_true]
  rw [hb]
  have hcl : isBracket grpClose (some BrCtx.group) (some false) = true := rfl
  simp only [hcl, if_true, optRepeater_repToks r rest hr, Item.node, finish_root, List.nil_append]

end T

namespace T

theorem isOp_child : isOperator (opTok .child) (some .child) = true := rfl
theorem isOp_sib_not_child : isOperator (opTok .sibling) (some .child) = false := rfl
theorem isOp_sib : isOperator (opTok .sibling) (some .sibling) = true := rfl
theorem isOp_climb_not_child : isOperator (opTok .climb) (some .child) = false := rfl
theorem isOp_climb_not_sib : isOperator (opTok .climb) (some .sibling) = false := rfl
theorem isOp_climb : isOperator (opTok .climb) (some .climb) = true := rfl
theorem close_not_ops : isOperator grpClose (some .child) = false ∧ isOperator grpClose (some .sibling) = false ∧
    isOperator grpClose (some .climb) = false := ⟨rfl, rfl, rfl⟩

/-- the item lemma in the form used by the main induction -/
def ItemOK (i : Item) : Prop :=
  ∀ f, i.size ≤ f + 1 → ∀ rest, NoRep rest → StopHead rest →
    pItem false (f + 1) (i.toks ++ rest) = .ok (some (i.node, rest))
def SeqOK (s : Seq) : Prop :=
  ∀ f, s.size ≤ f → ∀ rest, Stops rest → ∀ cur above,
    pStatements false f (s.toks ++ rest) cur above = .ok (finish cur above s.levels, rest)

theorem noRep_of_stopTok {t : Tok} {ts} (h : StopTok t) : NoRep (t :: ts) := by
  rcases h with rfl | rfl | rfl | rfl | rfl <;> simp [NoRep, isRepeater, opTok, grpOpen, grpClose, mk]

mutual
theorem item_ok (i : Item) : ItemOK i := by
  intro f hf rest hr hs
  cases i with
  | elem v r => simpa [Item.toks, Item.node] using elem_ok v r f rest hs
  | group b r =>
    have hb : b.size ≤ f := by simp [Item.size] at hf; omega
    exact group_ok b r f rest hr
      (seq_ok b f hb (grpClose :: (repToks r ++ rest)) (by simp [Stops]) ⟨.root, []⟩ [])

theorem seq_ok (s : Seq) : SeqOK s := by
  intro f hf rest hs cur above
  cases s with
  | last i =>
    have hi := i.size_pos
    obtain ⟨f', rfl⟩ : ∃ f', f = f' + 3 := ⟨f - 3, by simp [Seq.size] at hf; omega⟩
    have hitem := item_ok i (f' + 1) (by simp [Seq.size] at hf; omega) rest hs.noRep hs.stopHead
    obtain ⟨t, ts, htk, _⟩ := i.toks_head
    simp only [Seq.toks, Seq.levels]
    rw [htk] at hitem ⊢
    simp only [List.cons_append, pStatements, bind, Except.bind, pure, Except.pure] at hitem ⊢
    rw [hitem]
    simp only
    cases rest with
    | nil => simp [finish_single, Frame.push]
    | cons c cs =>
      simp only [Stops] at hs; subst hs
      simp only [close_not_ops.1, close_not_ops.2.1, close_not_ops.2.2, Bool.false_eq_true, if_false]
      rw [pStatements_stops f' _ _ _ (by simp [Stops])]
      simp [finish_single, Frame.push]
  | child v r rest' =>
    have hpos := rest'.size_pos
    obtain ⟨f', rfl⟩ : ∃ f', f = f' + 2 := ⟨f - 2, by simp [Seq.size] at hf; omega⟩
    have ih := seq_ok rest' (f' + 1) (by simp [Seq.size] at hf; omega) rest hs
      ⟨.elem (some [nameTok v]) none none (repOf r) false, []⟩ (cur :: above)
    have hitem := elem_ok v r f' (opTok .child :: (rest'.toks ++ rest)) (by simp [StopHead, StopTok])
    simp only [Seq.toks, List.cons_append, List.append_assoc, pStatements, bind, Except.bind, pure, Except.pure]
    rw [hitem]
    simp only [isOp_child, if_true, frameOf, elemNode]
    rw [ih, finish_child _ _ _ _ _ (levels_ne_nil rest')]
    simp [Seq.levels]
  | sib i rest' =>
    have hi := i.size_pos
    have hpos := rest'.size_pos
    obtain ⟨f', rfl⟩ : ∃ f', f = f' + 2 := ⟨f - 2, by simp [Seq.size] at hf; omega⟩
    have hitem := item_ok i f' (by simp [Seq.size] at hf; omega) (opTok .sibling :: (rest'.toks ++ rest))
      (by simp [NoRep, isRepeater, opTok, mk]) (by simp [StopHead, StopTok])
    have ih := seq_ok rest' (f' + 1) (by simp [Seq.size] at hf; omega) rest hs (cur.push i.node) above
    obtain ⟨t, ts, htk, _⟩ := i.toks_head
    simp only [Seq.toks, List.append_assoc, List.cons_append]
    rw [htk] at hitem ⊢
    simp only [List.cons_append, pStatements, bind, Except.bind, pure, Except.pure] at hitem ⊢
    rw [hitem]
    simp only [isOp_sib_not_child, isOp_sib, Bool.false_eq_true, if_false, if_true]
    rw [ih, finish_sib _ _ _ _ (levels_ne_nil rest')]
    simp [Seq.levels]
  | climb i k rest' =>
    have hi := i.size_pos
    have hpos := rest'.size_pos
    obtain ⟨f', rfl⟩ : ∃ f', f = f' + 2 := ⟨f - 2, by simp [Seq.size] at hf; omega⟩
    have hitem := item_ok i f' (by simp [Seq.size] at hf; omega)
      (List.replicate (k+1) (opTok .climb) ++ (rest'.toks ++ rest))
      (by simp [NoRep, List.replicate_succ, isRepeater, opTok, mk]) (by simp [StopHead, StopTok, List.replicate_succ])
    obtain ⟨t, ts, htk, _⟩ := i.toks_head
    simp only [Seq.toks, List.append_assoc]
    rw [htk] at hitem ⊢
    simp only [List.cons_append, pStatements, bind, Except.bind, pure, Except.pure] at hitem ⊢
    rw [hitem]
    simp only [List.replicate_succ, List.cons_append, isOp_climb_not_child, isOp_climb_not_sib, isOp_climb,
      Bool.false_eq_true, if_false, if_true]
    have hhead : NoClimbHead (rest'.toks ++ rest) := by
      obtain ⟨t', ts', h', ht'⟩ := rest'.toks_head
      rw [h']
      rcases ht' with rfl | ⟨v, rfl⟩ <;> simp [NoClimbHead, isOperator, grpOpen, nameTok, mk]
    have hc := climbs_spec (k+1) (rest'.toks ++ rest) (cur.push i.node) above hhead rest'.levels (levels_ne_nil rest')
    simp only [List.replicate_succ, List.cons_append] at hc
    obtain ⟨hc1, hc2⟩ := hc
    generalize climbs (opTok .climb :: (List.replicate k (opTok .climb) ++ (rest'.toks ++ rest))) (cur.push i.node) above = res at hc1 hc2
    obtain ⟨cur', above', ts3⟩ := res
    simp only at hc1 hc2 ⊢
    subst hc1
    rw [seq_ok rest' (f' + 1) (by simp [Seq.size] at hf; omega) rest hs cur' above', hc2]
    have := finish_sib i.node cur above ([] :: (List.replicate k [] ++ rest'.levels)) (by simp)
    simp only [hd, List.headD_cons, List.tail_cons] at this
    rw [this]
    simp [Seq.levels]
end

/-- **C01_parse on the real parser model**: for every skeleton `s`, `parseTokens` returns its denotation. -/
theorem parseTokens_den (s : Seq) (h : s.size ≤ 2 * s.toks.length + 2) :
    parseTokens false s.toks = .ok s.levels.flatten := by
  have := seq_ok s (2 * s.toks.length + 2) h [] trivial ⟨.root, []⟩ []
  simp only [List.append_nil] at this
  simp [parseTokens, this, finish_root, bind, Except.bind, pure, Except.pure]

end T

namespace T

theorem repToks_len (r : Option Nat) : (repToks r).length ≤ 1 := by cases r <;> simp [repToks]

mutual
theorem Item.size_le (i : Item) : i.size + 1 ≤ 3 * i.toks.length := by
  cases i with
  | elem v r => simp [Item.size, Item.toks]; omega
  | group b r => have := b.size_le; simp [Item.size, Item.toks]; omega
theorem Seq.size_le (s : Seq) : s.size ≤ 3 * s.toks.length + 2 := by
  cases s with
  | last i => have := i.size_le; simp [Seq.size, Seq.toks]; omega
  | child v r rest => have := rest.size_le; simp [Seq.size, Seq.toks]; omega
  | sib i rest => have := i.size_le; have := rest.size_le; simp [Seq.size, Seq.toks]; omega
  | climb i k rest => have := i.size_le; have := rest.size_le; simp [Seq.size, Seq.toks]; omega
end

/-- **C01_parse (real parser model, unconditional)**: with fuel linear in the number of tokens, `statements()` on the
    tokens of any skeleton returns exactly the forest its operators denote. -/
theorem statements_den (s : Seq) :
    pStatements false (3 * s.toks.length + 2) s.toks ⟨.root, []⟩ [] = .ok (s.levels.flatten, []) := by
  have := seq_ok s (3 * s.toks.length + 2) s.size_le [] trivial ⟨.root, []⟩ []
  simpa [finish_root] using this

/-- non-vacuity: `a>b^^c+(d>e)*2` -/
example :
    let s : Seq := .child [97] none (.climb (.elem [98] none) 1 (.sib (.elem [99] none)
      (.last (.group (.child [100] none (.last (.elem [101] none))) (some 2)))))
    s.toks.length = 13 := by decide

end T
