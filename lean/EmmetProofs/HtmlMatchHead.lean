import Emmet.Matcher.Html
namespace H

theorem outward_acc (xml : Bool) (pos : Int) (evs : List Ev) (stack : List Tag) (acc : List Matched) :
    outwardLoop xml pos evs stack acc = acc.reverse ++ outwardLoop xml pos evs stack [] := by
  induction evs generalizing stack acc with
  | nil => simp [outwardLoop]
  | cons ev evs ih =>
    unfold outwardLoop
    by_cases hc : (ev.type == .close) = true
    · simp only [hc, if_true]
      cases stack with
      | nil => exact ih [] acc
      | cons tag rest =>
        by_cases hn : (tag.name == ev.name) = true
        · simp only [hn, if_true]
          by_cases hp : ((tag.start : Int) < pos && pos < ev.stop) = true
          · simp only [hp, if_true]; rw [ih rest (_ :: acc), ih rest [_]]; simp
          · simp only [hp]; exact ih rest acc
        · simp only [hn]; exact ih (tag :: rest) acc
    · simp only [hc]
      by_cases hs : (ev.type == .selfClose || isSelfClose ev.name xml) = true
      · simp only [hs, if_true]
        by_cases hp : ((ev.start : Int) < pos && pos < ev.stop) = true
        · simp only [hp, if_true]; rw [ih stack (_ :: acc), ih stack [_]]; simp
        · simp only [hp]; exact ih stack acc
      · simp only [hs]; exact ih _ acc

/-- `match()` is the first entry of `balanced_outward()` — over ANY event list and stack -/
theorem match_eq_outward_head (xml : Bool) (pos : Int) (evs : List Ev) (stack : List Tag) :
    matchLoop xml pos evs stack = (outwardLoop xml pos evs stack []).head? := by
  induction evs generalizing stack with
  | nil => simp [matchLoop, outwardLoop]
  | cons ev evs ih =>
    unfold matchLoop outwardLoop
    cases ht : ev.type with
    | close =>
      simp only [ht]
      cases stack with
      | nil => simpa using ih []
      | cons tag rest =>
        by_cases hn : (tag.name == ev.name) = true
        · simp only [hn, if_true]
          by_cases hp : ((tag.start : Int) < pos && pos < ev.stop) = true
          · simp only [hp, if_true]; rw [outward_acc]; simp
          · simp only [hp]; simpa using ih rest
        · simp only [hn]; simpa using ih (tag :: rest)
    | selfClose =>
      simp
      by_cases hp : (ev.start : Int) < pos ∧ pos < ev.stop
      · simp only [hp, if_true]; rw [outward_acc]; simp
      · simp only [hp, if_false]; exact ih stack
    | «open» =>
      by_cases hs : isSelfClose ev.name xml = true
      · simp [hs]
        by_cases hp : (ev.start : Int) < pos ∧ pos < ev.stop
        · simp only [hp, if_true]; rw [outward_acc]; simp
        · simp only [hp, if_false]; exact ih stack
      · simp [hs]; exact ih _

/-- the position lies strictly inside the reported element (from the start of its open tag to the end of its close tag) -/
def Matched.Contains (pos : Int) (m : Matched) : Prop :=
  (m.openR.1 : Int) < pos ∧ pos < ((match m.closeR with | some c => c.2 | none => m.openR.2 : Nat) : Int)

theorem outward_contains_acc (xml : Bool) (pos : Int) (evs : List Ev) (stack : List Tag) (acc : List Matched)
    (h : ∀ m ∈ acc, m.Contains pos) : ∀ m ∈ outwardLoop xml pos evs stack acc, m.Contains pos := by
  induction evs generalizing stack acc with
  | nil => simpa [outwardLoop] using h
  | cons ev evs ih =>
    unfold outwardLoop
    by_cases hc : (ev.type == .close) = true
    · simp only [hc, if_true]
      cases stack with
      | nil => exact ih [] acc h
      | cons tag rest =>
        by_cases hn : (tag.name == ev.name) = true
        · simp only [hn, if_true]
          by_cases hp : ((tag.start : Int) < pos && pos < ev.stop) = true
          · simp only [hp, if_true]
            apply ih
            intro m hm
            rcases List.mem_cons.mp hm with rfl | hm
            · simp only [Bool.and_eq_true, decide_eq_true_eq] at hp; exact hp
            · exact h m hm
          · simp only [hp]; exact ih rest acc h
        · simp only [hn]; exact ih (tag :: rest) acc h
    · simp only [hc]
      by_cases hs : (ev.type == .selfClose || isSelfClose ev.name xml) = true
      · simp only [hs, if_true]
        by_cases hp : ((ev.start : Int) < pos && pos < ev.stop) = true
        · simp only [hp, if_true]
          apply ih
          intro m hm
          rcases List.mem_cons.mp hm with rfl | hm
          · simp only [Bool.and_eq_true, decide_eq_true_eq] at hp; exact hp
          · exact h m hm
        · simp only [hp]; exact ih stack acc h
      · simp only [hs]; exact ih _ acc h

/-- every entry of `balanced_outward()` strictly contains the position — for ANY event list -/
theorem outward_contains (xml : Bool) (pos : Int) (evs : List Ev) :
    ∀ m ∈ outwardLoop xml pos evs [] [], m.Contains pos :=
  outward_contains_acc xml pos evs [] [] (by simp)
end H
