import Batteries.Data.List.Perm
import Emmet.Markup.Back
/-! C14 on the model of `markup/snippets.py`: resolution never exhausts its nesting counter, for every snippet table. -/
namespace T

def snippetVals (o : Options) : List Str := o.snippets.map (·.2)

theorem lookup_mem_vals (o : Options) (k v : Str) (h : lookup o.snippets k = some v) : v ∈ snippetVals o := by
  unfold lookup at h
  cases hf : o.snippets.find? (·.1 == k) with
  | none => simp [hf] at h
  | some kv =>
    simp [hf] at h
    have := List.mem_of_find?_eq_some hf
    subst h
    exact List.mem_map_of_mem this

mutual
/-- walking a tree does not run out of fuel if the resolver does not -/
theorem walkNode_noFuel (r : ANode → List Str → PM (Option (List ANode))) (stack : List Str)
    (hr : ∀ c, r c stack ≠ .error .fuel) : ∀ (nd : ANode), walkNode r nd stack ≠ .error .fuel
  | .mk n v a c rep s => by
    unfold walkNode
    have ih := walkList_noFuel r stack hr c
    cases hrr : r (.mk n v a c rep s) stack with
    | error e => simp only; intro h; cases h; exact hr _ hrr
    | ok res =>
      cases res with
      | some resolved =>
        simp only
        cases hw : walkList r c stack with
        | error e => simp only; intro h; cases h; exact ih hw
        | ok kids => simp
      | none =>
        simp only
        cases hw : walkList r c stack with
        | error e => simp only; intro h; cases h; exact ih hw
        | ok kids => simp
theorem walkList_noFuel (r : ANode → List Str → PM (Option (List ANode))) (stack : List Str)
    (hr : ∀ c, r c stack ≠ .error .fuel) : ∀ (f : List ANode), walkList r f stack ≠ .error .fuel
  | [] => by simp [walkList]
  | child :: rest => by
    unfold walkList
    have ih1 := walkNode_noFuel r stack hr child
    have ih2 := walkList_noFuel r stack hr rest
    cases h1 : walkNode r child stack with
    | error e => simp only; intro h; cases h; exact ih1 h1
    | ok head =>
      simp only
      cases h2 : walkList r rest stack with
      | error e => simp only; intro h; cases h; exact ih2 h2
      | ok tail => simp
end

/-- with a counter larger than the number of snippet texts not yet on the stack, `resolve` never reports exhaustion. Invariant:
    the stack of texts being resolved is duplicate-free and drawn from the table (pigeonhole). -/
theorem resolveN_noFuel (o : Options)
    (hp : ∀ sn, parseAbbr sn false { text := .none, variables := some o.variables, maxRepeat := o.maxRepeatSnake } ≠ .error .fuel) :
    ∀ (n : Nat) (stack : List Str), stack.Nodup → stack ⊆ snippetVals o → (snippetVals o).length < n + stack.length →
    ∀ c, resolveN o n c stack ≠ .error .fuel := by
  intro n
  induction n with
  | zero =>
    intro stack hnd hsub hlt c
    have := (List.subperm_of_subset hnd hsub).length_le
    omega
  | succ n ih =>
    intro stack hnd hsub hlt c
    unfold resolveN
    cases hname : c.name with
    | none => simp
    | some nm =>
      simp only
      cases hl : lookup o.snippets nm with
      | none => simp
      | some v =>
        simp only
        split
        · simp
        · rename_i hc
          have hv : v ∉ stack := by
            intro hmem; apply hc; simp; exact Or.inr hmem
          have hmem := lookup_mem_vals o nm v hl
          cases hpv : parseAbbr v false { text := .none, variables := some o.variables, maxRepeat := o.maxRepeatSnake } with
          | error e => simp only; intro h; cases h; exact hp v hpv
          | ok parsed =>
            simp only
            have hnd' : (stack ++ [v]).Nodup := by
              rw [List.nodup_append]; refine ⟨hnd, by simp, ?_⟩
              intro a ha b hb; simp at hb; subst hb; intro h; subst h; exact hv ha
            have hsub' : stack ++ [v] ⊆ snippetVals o := by
              intro x hx; simp at hx; rcases hx with hx | rfl
              · exact hsub hx
              · exact hmem
            have := walkList_noFuel (resolveN o n) (stack ++ [v]) (ih (stack ++ [v]) hnd' hsub' (by simp; omega)) parsed
            cases hw : walkList (resolveN o n) parsed (stack ++ [v]) with
            | error e => simp only; intro h; cases h; exact this hw
            | ok _ => simp

/-- **C14 (termination) on the snippet-resolution model**: for EVERY snippet table — self-referencing and mutually recursive
    entries included — and every forest, `resolve_snippets` never exhausts the nesting counter `|table| + 1`: nesting of
    snippets is at most the number of snippets. (The abbreviation parser is a parameter here: its own fuel is discharged by the
    C07 / C18 theorems for tokenizer and parser.) -/
theorem resolve_terminates (o : Options)
    (hp : ∀ sn, parseAbbr sn false { text := .none, variables := some o.variables, maxRepeat := o.maxRepeatSnake } ≠ .error .fuel)
    (nodes : List ANode) : resolveSnippets o nodes ≠ .error .fuel := by
  unfold resolveSnippets
  apply walkList_noFuel
  intro c
  exact resolveN_noFuel o hp (o.snippets.length + 1) [] List.nodup_nil (by simp) (by simp [snippetVals]) c

end T
