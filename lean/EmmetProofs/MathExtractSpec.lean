import Emmet.MathExtract
import EmmetProofs.MathTotal
/-! C19, `extract()`: for EVERY text, every position inside it and every option set, the result is nothing or a range
    `start ≤ end ≤ |text|` that ends at the look-ahead adjusted position, consists of digits, dots, operators, parentheses and (when
    allowed) white space only, and has balanced parentheses. -/
namespace M

def exAllowed (ws : Bool) (c : Ch) : Bool :=
  isNumber c || c == 46 || c == 40 || c == 41 || (ws && isSpace c) || isOperator c

/-- excess of `(` over `)` -/
def ex : Str → Int
  | [] => 0
  | c :: r => (if c == 40 then 1 else if c == 41 then -1 else 0) + ex r

/-- balanced parentheses: as many `(` as `)`, and no prefix closes more than it opened -/
def Balanced (seg : Str) : Prop := ex seg = 0 ∧ ∀ k, 0 ≤ ex (seg.take k)

def Neutral (c : Ch) : Prop := c ≠ 40 ∧ c ≠ 41

theorem ex_append (a b : Str) : ex (a ++ b) = ex a + ex b := by
  induction a with
  | nil => simp [ex]
  | cons c r ih => simp only [List.cons_append, ex, ih]; omega

theorem ex_reverse (a : Str) : ex a.reverse = ex a := by
  induction a with
  | nil => rfl
  | cons c r ih => simp only [List.reverse_cons, ex_append, ih, ex]; omega

theorem ex_neutral (a : Str) (h : ∀ c ∈ a, Neutral c) : ex a = 0 := by
  induction a with
  | nil => rfl
  | cons c r ih =>
    have hc := h c (by simp)
    have h40 : (c == 40) = false := by simpa using hc.1
    have h41 : (c == 41) = false := by simpa using hc.2
    simp only [ex, h40, h41, Bool.false_eq_true, if_false]
    rw [ih (fun x hx => h x (by simp [hx]))]; rfl

theorem prefix_block (B seg : Str) (b : Int) (hB : ∀ c ∈ B, Neutral c) (h : ∀ k, 0 ≤ b - ex (seg.take k)) :
    ∀ k, 0 ≤ b - ex ((B ++ seg).take k) := by
  intro k
  rw [List.take_append, ex_append, ex_neutral (B.take k) (fun c hc => hB c (List.mem_of_mem_take hc))]
  have := h (k - B.length)
  omega

/-! ## number tail -/
theorem numTail_spec : ∀ (r : Str) (dot : Bool), ∃ pre, r = pre ++ (numTail r dot).1 ∧ pre.length = (numTail r dot).2 ∧
    ∀ c ∈ pre, (isNumber c = true ∨ c = 46) := by
  intro r
  induction r with
  | nil => intro dot; exact ⟨[], by simp [numTail], by simp [numTail], by intro c hc; cases hc⟩
  | cons c r ih =>
    intro dot
    unfold numTail
    by_cases h46 : (c == 46) = true
    · simp only [h46, if_true]
      cases dot with
      | true => exact ⟨[], by simp, by simp, by intro c hc; cases hc⟩
      | false =>
        obtain ⟨pre, h1, h2, h3⟩ := ih true
        refine ⟨c :: pre, by simp only [Bool.false_eq_true, if_false, List.cons_append]; rw [← h1], by simp [h2], ?_⟩
        intro x hx
        simp only [List.mem_cons] at hx
        rcases hx with rfl | hx
        · right; simpa using h46
        · exact h3 x hx
    · simp only [h46, Bool.false_eq_true, if_false]
      by_cases hn : isNumber c = true
      · simp only [hn, if_true]
        obtain ⟨pre, h1, h2, h3⟩ := ih dot
        refine ⟨c :: pre, by simp only [List.cons_append]; rw [← h1], by simp [h2], ?_⟩
        intro x hx
        simp only [List.mem_cons] at hx
        rcases hx with rfl | hx
        · left; exact hn
        · exact h3 x hx
      · simp only [hn, Bool.false_eq_true, if_false]
        exact ⟨[], by simp, by simp, by intro c hc; cases hc⟩

theorem digit_neutral (c : Ch) (h : isNumber c = true ∨ c = 46) : Neutral c ∧ ∀ ws, exAllowed ws c = true := by
  rcases h with h | h
  · refine ⟨?_, fun ws => by simp [exAllowed, h]⟩
    unfold isNumber at h
    simp only [Bool.and_eq_true, decide_eq_true_eq] at h
    have h1 : (48 : Nat) ≤ c := h.1
    have h2 : c ≤ (57 : Nat) := h.2
    constructor <;> intro hc <;> subst hc <;> omega
  · subst h; exact ⟨⟨by decide, by decide⟩, fun ws => by simp [exAllowed]⟩

/-! ## the backward loop -/
theorem backLoop_spec (ws : Bool) : ∀ (fuel : Nat) (l : Str) (n b : Nat), l.length < fuel →
    ∃ seg rest, l = seg ++ rest ∧ (backLoop ws fuel l n b).1 = n + seg.length ∧ (∀ c ∈ seg, exAllowed ws c = true) ∧
      ((backLoop ws fuel l n b).2 : Int) = (b : Int) - ex seg ∧ ∀ k, 0 ≤ (b : Int) - ex (seg.take k) := by
  intro fuel
  induction fuel with
  | zero => intro l n b h; omega
  | succ fuel ih =>
    intro l n b hl
    have triv : ∃ seg rest, l = seg ++ rest ∧ n = n + seg.length ∧ (∀ c ∈ seg, exAllowed ws c = true) ∧
        ((b : Nat) : Int) = (b : Int) - ex seg ∧ ∀ k, 0 ≤ (b : Int) - ex (seg.take k) :=
      ⟨[], l, by simp, by simp, (by intro c hc; cases hc), by simp [ex], by intro k; simp [ex]⟩
    cases l with
    | nil => simp only [backLoop]; exact triv
    | cons c r =>
      have hr : r.length < fuel := by simp only [List.length_cons] at hl; omega
      unfold backLoop
      by_cases hn : isNumber c = true
      · simp only [hn, if_true]
        obtain ⟨pre, h1, h2, h3⟩ := numTail_spec r false
        have hlen : (numTail r false).1.length < fuel := by
          have : r.length = pre.length + (numTail r false).1.length := by
            have := congrArg List.length h1
            simpa using this
          omega
        obtain ⟨seg', rest', e1, e2, e3, e4, e5⟩ := ih (numTail r false).1 (n + 1 + (numTail r false).2) b hlen
        have hB : ∀ x ∈ c :: pre, Neutral x := by
          intro x hx; simp only [List.mem_cons] at hx
          rcases hx with rfl | hx
          · exact (digit_neutral _ (Or.inl hn)).1
          · exact (digit_neutral _ (h3 x hx)).1
        refine ⟨(c :: pre) ++ seg', rest', ?_, ?_, ?_, ?_, prefix_block _ _ _ hB e5⟩
        · rw [List.append_assoc, ← e1, List.cons_append, ← h1]
        · rw [e2]; simp only [List.length_append, List.length_cons]; omega
        · intro x hx
          simp only [List.mem_append, List.mem_cons] at hx
          rcases hx with (rfl | hx) | hx
          · exact (digit_neutral _ (Or.inl hn)).2 ws
          · exact (digit_neutral _ (h3 x hx)).2 ws
          · exact e3 x hx
        · rw [e4, ex_append, ex_neutral _ hB]; omega
      · simp only [hn, Bool.false_eq_true, if_false]
        by_cases h41 : (c == 41) = true
        · simp only [h41, if_true]
          have hc : c = 41 := by simpa using h41
          obtain ⟨seg', rest', e1, e2, e3, e4, e5⟩ := ih r (n + 1) (b + 1) hr
          refine ⟨c :: seg', rest', by rw [e1]; rfl, by rw [e2]; simp only [List.length_cons]; omega, ?_, ?_, ?_⟩
          · intro x hx; simp only [List.mem_cons] at hx
            rcases hx with rfl | hx
            · simp [exAllowed, hc]
            · exact e3 x hx
          · rw [e4]; subst hc; simp only [ex]; push_cast; simp; omega
          · intro k
            cases k with
            | zero => simp [ex]
            | succ k => have := e5 k; subst hc; simp only [List.take_succ_cons, ex]; push_cast at this; simp; omega
        · simp only [h41, Bool.false_eq_true, if_false]
          by_cases h40 : (c == 40) = true
          · simp only [h40, if_true]
            have hc : c = 40 := by simpa using h40
            by_cases hb : (b == 0) = true
            · simp only [hb, if_true]; exact triv
            · simp only [hb, Bool.false_eq_true, if_false]
              have hb' : 1 ≤ b := by have : b ≠ 0 := by simpa using hb
                                     omega
              obtain ⟨seg', rest', e1, e2, e3, e4, e5⟩ := ih r (n + 1) (b - 1) hr
              refine ⟨c :: seg', rest', by rw [e1]; rfl, by rw [e2]; simp only [List.length_cons]; omega, ?_, ?_, ?_⟩
              · intro x hx; simp only [List.mem_cons] at hx
                rcases hx with rfl | hx
                · simp [exAllowed, hc]
                · exact e3 x hx
              · rw [e4]; subst hc; simp only [ex]; simp; omega
              · intro k
                cases k with
                | zero => simp [ex]
                | succ k => have := e5 k; subst hc; simp only [List.take_succ_cons, ex]; simp; omega
          · simp only [h40, Bool.false_eq_true, if_false]
            by_cases hop : ((ws && isSpace c) || isSign c || isOperator c) = true
            · simp only [hop, if_true]
              obtain ⟨seg', rest', e1, e2, e3, e4, e5⟩ := ih r (n + 1) b hr
              have hN : ∀ x ∈ [c], Neutral x := by
                intro x hx; simp only [List.mem_singleton] at hx; subst hx
                exact ⟨by simpa using h40, by simpa using h41⟩
              refine ⟨[c] ++ seg', rest', by rw [e1]; rfl, by rw [e2]; simp only [List.length_append, List.length_cons, List.length_nil]; omega, ?_, ?_,
                prefix_block _ _ _ hN e5⟩
              · intro x hx; simp only [List.mem_append, List.mem_singleton] at hx
                rcases hx with rfl | hx
                · simp only [Bool.or_eq_true, Bool.and_eq_true] at hop
                  rcases hop with (hop | hop) | hop
                  · simp [exAllowed, hop.1, hop.2]
                  · have : isOperator x = true := by
                      unfold isSign at hop; unfold isOperator
                      simp only [Bool.or_eq_true] at hop ⊢
                      rcases hop with hop | hop
                      · left; left; left; left; exact hop
                      · left; left; left; right; exact hop
                    simp [exAllowed, this]
                  · simp [exAllowed, hop]
                · exact e3 x hx
              · rw [e4, ex_append, ex_neutral _ hN]; omega
            · simp only [hop, Bool.false_eq_true, if_false]; exact triv


/-! ## from the reversed scan to the text -/
theorem balanced_of_rev (seg : Str) (h0 : ex seg = 0) (hp : ∀ k, 0 ≤ (0 : Int) - ex (seg.take k)) : Balanced seg.reverse := by
  refine ⟨by rw [ex_reverse]; exact h0, ?_⟩
  intro k
  have hsplit : seg.reverse.take k ++ seg.reverse.drop k = seg.reverse := List.take_append_drop k _
  have hrev : (seg.reverse.drop k).reverse ++ (seg.reverse.take k).reverse = seg := by
    rw [← List.reverse_append, hsplit, List.reverse_reverse]
  have hpre : seg.take (seg.reverse.drop k).reverse.length = (seg.reverse.drop k).reverse := by
    have := @List.take_left _ (seg.reverse.drop k).reverse (seg.reverse.take k).reverse
    rw [hrev] at this
    exact this
  have h1 := hp (seg.reverse.drop k).reverse.length
  rw [hpre, ex_reverse] at h1
  have h2 : ex (seg.reverse.take k) + ex (seg.reverse.drop k) = ex seg := by
    rw [← ex_append, hsplit, ex_reverse]
  omega

theorem balanced_drop_neutral (sp S : Str) (hsp : ∀ c ∈ sp, Neutral c) (h : Balanced (sp ++ S)) : Balanced S := by
  obtain ⟨h0, hp⟩ := h
  rw [ex_append, ex_neutral sp hsp] at h0
  refine ⟨by omega, ?_⟩
  intro j
  have := hp (sp.length + j)
  rw [List.take_append, ex_append] at this
  have e1 : sp.take (sp.length + j) = sp := List.take_of_length_le (by omega)
  have e2 : sp.length + j - sp.length = j := by omega
  rw [e1, e2, ex_neutral sp hsp] at this
  omega

theorem spanP_spec (p : Ch → Bool) (l : Str) : l = (spanP p l).1 ++ (spanP p l).2 ∧ ∀ c ∈ (spanP p l).1, p c = true := by
  induction l with
  | nil => simp [spanP]
  | cons x xs ih =>
    unfold spanP
    by_cases hx : p x = true
    · simp only [hx, if_true]
      refine ⟨by simp only [List.cons_append]; rw [← ih.1], ?_⟩
      intro c hc
      simp only [List.mem_cons] at hc
      rcases hc with rfl | hc
      · exact hx
      · exact ih.2 c hc
    · simp only [hx, Bool.false_eq_true, if_false]
      exact ⟨by simp, by intro c hc; cases hc⟩

theorem space_neutral (c : Ch) (h : isSpace c = true) : Neutral c := by
  unfold isSpace isWhiteSpace at h
  simp only [Bool.or_eq_true, beq_iff_eq] at h
  constructor <;> intro hc <;> subst hc <;> simp at h

theorem lookEnd_le (text : Str) (pos : Nat) (la ws : Bool) (hpos : pos ≤ text.length) : lookEnd text pos la ws ≤ text.length := by
  unfold lookEnd
  split
  · rename_i h
    simp only [Bool.and_eq_true, beq_iff_eq] at h
    have hlt : pos < text.length := by
      have := h.2
      rcases Nat.lt_or_ge pos text.length with h1 | h1
      · exact h1
      · rw [List.getElem?_eq_none h1] at this; cases this
    have := spanP_length (laCh ws) (text.drop (pos + 1))
    simp only [List.length_drop] at this
    omega
  · exact hpos

/-- **C19, `extract()`**: for EVERY text, position inside it and option set: nothing, or a range `start ≤ end ≤ |text|` ending at
    the look-ahead adjusted position whose characters are digits, dots, operators, parentheses and (if allowed) white space only,
    with balanced parentheses. -/
theorem extract_spec (text : Str) (pos : Nat) (la ws : Bool) (hpos : pos ≤ text.length) :
    match extract text pos la ws with
    | none => True
    | some (s, e) => s ≤ e ∧ e ≤ text.length ∧ e = lookEnd text pos la ws ∧
        (∀ c ∈ (text.drop s).take (e - s), exAllowed ws c = true) ∧ Balanced ((text.drop s).take (e - s)) := by
  unfold extract
  have hle := lookEnd_le text pos la ws hpos
  generalize lookEnd text pos la ws = e at hle ⊢
  have htl : (text.take e).reverse.length < e + 1 := by simp [Nat.min_eq_left hle]
  obtain ⟨seg, rest, e1, e2, e3, e4, e5⟩ := backLoop_spec ws (e + 1) (text.take e).reverse 0 0 htl
  simp only
  generalize backLoop ws (e + 1) (text.take e).reverse 0 0 = res at e2 e4 ⊢
  obtain ⟨n, b⟩ := res
  simp only at e2 e4 ⊢
  by_cases hc : (n != 0 && b == 0) = true
  · rw [if_pos hc]
    simp only [Bool.and_eq_true, bne_iff_ne, ne_eq, beq_iff_eq] at hc
    obtain ⟨hn0, hb0⟩ := hc
    subst hb0
    have hex0 : ex seg = 0 := by simpa using e4.symm
    have hn : n = seg.length := by omega
    subst hn
    -- the text around the consumed segment
    have hte : text.take e = rest.reverse ++ seg.reverse := by
      have := congrArg List.reverse e1
      simpa using this
    have hlen : rest.length + seg.length = e := by
      have := congrArg List.length hte
      simp [Nat.min_eq_left hle] at this; omega
    have hstart : e - seg.length = rest.length := by omega
    have htext : text = rest.reverse ++ (seg.reverse ++ text.drop e) := by
      rw [← List.append_assoc, ← hte, List.take_append_drop]
    have hS : (text.drop (e - seg.length)).take seg.length = seg.reverse := by
      rw [hstart]
      have h1 : text.drop rest.length = seg.reverse ++ text.drop e := by
        conv => lhs; rw [htext]
        exact List.drop_left' (by simp)
      rw [h1]
      exact List.take_left' (by simp)
    rw [hS]
    obtain ⟨hsp1, hsp2⟩ := spanP_spec isSpace seg.reverse
    generalize hk : (spanP isSpace seg.reverse).1 = sp at hsp1 hsp2 ⊢
    generalize hS' : (spanP isSpace seg.reverse).2 = S' at hsp1
    have hkl : sp.length + S'.length = seg.length := by
      have := congrArg List.length hsp1
      simp at this; omega
    -- the trimmed segment
    have hseg : (text.drop (e - seg.length + sp.length)).take (e - (e - seg.length + sp.length)) = S' := by
      have e3' : e - (e - seg.length + sp.length) = S'.length := by omega
      rw [e3', hstart]
      have h1 : text.drop (rest.length + sp.length) = S' ++ text.drop e := by
        conv => lhs; rw [htext, hsp1]
        have : rest.reverse ++ (sp ++ S' ++ text.drop e) = (rest.reverse ++ sp) ++ (S' ++ text.drop e) := by simp
        rw [this]
        exact List.drop_left' (by simp)
      rw [h1]
      exact List.take_left' rfl
    simp only
    rw [hseg]
    have hbal : Balanced (sp ++ S') := by rw [← hsp1]; exact balanced_of_rev seg hex0 (by simpa using e5)
    refine ⟨by omega, hle, trivial, ?_, balanced_drop_neutral sp S' (fun c hc => space_neutral c (hsp2 c hc)) hbal⟩
    intro c hc
    apply e3 c
    have : c ∈ seg.reverse := by rw [hsp1]; simp [hc]
    simpa using this
  · rw [if_neg hc]; trivial

end M
