import Emmet.Matcher.CssScan
/-! C16, CSS scanner: every event reported for ANY source has `0 ≤ start ≤ end ≤ |source|` and a delimiter that is `-1` or an
    index into the source. -/
namespace C

def EvOK (n : Int) (e : Ev) : Prop :=
  0 ≤ e.start ∧ e.start ≤ e.stop ∧ e.stop ≤ n ∧ (e.delimiter = -1 ∨ (0 ≤ e.delimiter ∧ e.delimiter < n ∧ e.stop ≤ e.delimiter + 1))

/-- scanner state invariant at position `pos` -/
def Inv (st : ScanState) (pos : Int) : Prop :=
  ((st.start = -1 ∧ st.stop = -1) ∨ (0 ≤ st.start ∧ st.start ≤ st.stop ∧ st.stop ≤ pos)) ∧
  (st.propertyDelimiter = -1 ∨ (0 ≤ st.propertyDelimiter ∧ st.propertyDelimiter < pos)) ∧
  (st.propertyStart = -1 ∨ (0 ≤ st.propertyStart ∧ st.propertyStart ≤ st.propertyEnd ∧
      st.propertyEnd ≤ st.propertyDelimiter + 1 ∧ 0 ≤ st.propertyDelimiter)) ∧
  (st.start ≠ -1 → st.propertyDelimiter < st.start)

theorem commentLoop_len (l : Str) (n : Nat) :
    (commentLoop l n).1.length + (commentLoop l n).2 = l.length + n ∧ n ≤ (commentLoop l n).2 := by
  fun_induction commentLoop l n <;> simp_all <;> omega

theorem comment_len (l r : Str) (n : Nat) (h : comment l = some (r, n)) : r.length + n = l.length ∧ 2 ≤ n := by
  unfold comment at h
  split at h
  · rename_i r0
    have := commentLoop_len r0 2
    simp only [Option.some.injEq] at h
    rw [h] at this
    simp only [List.length_cons]; omega
  · cases h

theorem literalLoop_len (q : Ch) (l : Str) (n : Nat) :
    (literalLoop q l n).1.length + (literalLoop q l n).2.1 = l.length + n ∧ (literalLoop q l n).2.2 = 0 ∧ n ≤ (literalLoop q l n).2.1 := by
  fun_induction literalLoop q l n <;> simp_all <;> omega

theorem literal_len (l r : Str) (n over : Nat) (h : literal l = some (r, n, over)) : r.length + n = l.length ∧ over = 0 ∧ 1 ≤ n := by
  unfold literal at h
  split at h
  · rename_i q xs
    split at h
    · have := literalLoop_len q xs 1
      simp only [Option.some.injEq] at h
      rw [h] at this
      simp only [List.length_cons]; omega
    · cases h
  · cases h

theorem spanSpace_len (l : Str) (n : Nat) : (spanSpace l n).1.length + (spanSpace l n).2 = l.length + n := by
  fun_induction spanSpace l n <;> simp_all <;> omega
theorem spanColon_len (l : Str) (n : Nat) : (spanColon l n).1.length + (spanColon l n).2 = l.length + n := by
  fun_induction spanColon l n <;> simp_all <;> omega

end C

namespace C

theorem inv_reset (st : ScanState) (p : Int) : Inv st.reset p := by
  simp [Inv, ScanState.reset]

/-- events flushed at a block / property end are well formed -/
theorem flushPending_ok (n : Int) (st : ScanState) (pos : Int) (acc : List Ev) (hp : 0 ≤ pos) (hn : pos < n)
    (hinv : Inv st pos) (hacc : ∀ e ∈ acc, EvOK n e) : ∀ e ∈ (flushPending st pos acc).1, EvOK n e := by
  obtain ⟨h1, h2, h3, h4⟩ := hinv
  unfold flushPending
  by_cases hps : (st.propertyStart != -1) = true
  · simp only [hps, if_true]
    have hps' : st.propertyStart ≠ -1 := by simpa using hps
    rcases h3 with h3 | h3
    · exact absurd h3 hps'
    · intro e he
      simp only [List.mem_cons] at he
      rcases he with rfl | rfl | he
      · by_cases hs : (st.start == -1) = true
        · simp only [hs, if_true, EvOK]; omega
        · simp only [hs, Bool.false_eq_true, if_false, EvOK]
          have hs' : st.start ≠ -1 := by simpa using hs
          rcases h1 with h1 | h1
          · exact absurd h1.1 hs'
          · omega
      · simp only [EvOK]; omega
      · exact hacc e he
  · simp only [hps, Bool.false_eq_true, if_false]
    by_cases hs : (st.start != -1) = true
    · simp only [hs, if_true]
      have hs' : st.start ≠ -1 := by simpa using hs
      intro e he
      simp only [List.mem_cons] at he
      rcases he with rfl | he
      · rcases h1 with h1 | h1
        · exact absurd h1.1 hs'
        · simp only [EvOK]; omega
      · exact hacc e he
    · simp only [hs, Bool.false_eq_true, if_false]; exact hacc

theorem closeBlock_ok (n : Int) (b : Bool) (pos : Int) (r : List Ev × ScanState) (hp : 0 ≤ pos) (hn : pos < n)
    (hr : ∀ e ∈ r.1, EvOK n e) : ∀ e ∈ (closeBlock b pos r).1, EvOK n e := by
  unfold closeBlock
  cases b with
  | false => simpa using hr
  | true =>
    simp only [if_true]
    intro e he
    simp only [List.mem_cons] at he
    rcases he with rfl | he
    · simp only [EvOK]; omega
    · exact hr e he

/-- the selector event at a block start is well formed -/
theorem selectorState_ok (st : ScanState) (pos : Int) (hp : 0 ≤ pos) (hinv : Inv st pos) :
    0 ≤ (selectorState st (pos + 1)).start ∧ (selectorState st (pos + 1)).start ≤ (selectorState st (pos + 1)).stop ∧
      (selectorState st (pos + 1)).stop ≤ pos + 1 := by
  obtain ⟨h1, h2, h3, h4⟩ := hinv
  unfold selectorState
  by_cases ha : (st.start == -1 && st.propertyStart == -1) = true
  · simp only [ha, if_true]
    have : st.propertyStart = -1 := by simp at ha; exact ha.2
    simp only [this]
    simp; omega
  · simp only [ha, Bool.false_eq_true, if_false]
    by_cases hps : (st.propertyStart != -1) = true
    · simp only [hps, if_true]
      have hps' : st.propertyStart ≠ -1 := by simpa using hps
      rcases h3 with h3 | h3
      · exact absurd h3 hps'
      · by_cases hst : (st.stop == -1) = true
        · simp only [hst, if_true]
          rcases h2 with h2 | h2 <;> omega
        · simp only [hst, Bool.false_eq_true, if_false]
          have hst' : st.stop ≠ -1 := by simpa using hst
          rcases h1 with h1 | h1
          · exact absurd h1.2 hst'
          · have := h4 (by omega); omega
    · simp only [hps, Bool.false_eq_true, if_false]
      have hps' : st.propertyStart = -1 := by simpa using hps
      have hs' : st.start ≠ -1 := by
        intro h; apply ha; simp [h, hps']
      rcases h1 with h1 | h1
      · exact absurd h1.1 hs'
      · omega

/-- the catch-all step keeps the invariant, consumes what it says and stays inside the input -/
theorem eatOne_ok (rest : Str) (p : Int) (st1 : ScanState) (hp : 0 ≤ p)
    (hs : 0 ≤ st1.start ∧ st1.start ≤ p ∧ (st1.stop = -1 ∨ st1.stop ≤ p))
    (h2 : st1.propertyDelimiter = -1 ∨ (0 ≤ st1.propertyDelimiter ∧ st1.propertyDelimiter < p))
    (h3 : st1.propertyStart = -1 ∨ (0 ≤ st1.propertyStart ∧ st1.propertyStart ≤ st1.propertyEnd ∧
      st1.propertyEnd ≤ st1.propertyDelimiter + 1 ∧ 0 ≤ st1.propertyDelimiter))
    (h4 : st1.propertyDelimiter < st1.start) :
    (eatOne rest p st1).2.1 + (eatOne rest p st1).1.length = p + rest.length ∧ p ≤ (eatOne rest p st1).2.1 ∧
      Inv (eatOne rest p st1).2.2 (eatOne rest p st1).2.1 := by
  unfold eatOne
  cases rest with
  | nil => simp only [Inv]; exact ⟨by simp, by omega, Or.inr ⟨hs.1, hs.2.1, by omega⟩, h2, h3, fun _ => h4⟩
  | cons y r =>
    simp only
    by_cases h40 : (y == 40) = true
    · simp only [h40, if_true, Inv, List.length_cons]
      refine ⟨by push_cast; omega, by omega, Or.inr ⟨hs.1, by omega, by omega⟩, ?_, h3, fun _ => h4⟩
      rcases h2 with h2 | h2
      · exact Or.inl h2
      · exact Or.inr ⟨h2.1, by omega⟩
    · simp only [h40, Bool.false_eq_true, if_false]
      by_cases h41 : (y == 41) = true
      · simp only [h41, if_true, Inv, List.length_cons]
        refine ⟨by push_cast; omega, by omega, Or.inr ⟨hs.1, by omega, by omega⟩, ?_, h3, fun _ => h4⟩
        rcases h2 with h2 | h2
        · exact Or.inl h2
        · exact Or.inr ⟨h2.1, by omega⟩
      · simp only [h41, Bool.false_eq_true, if_false]
        cases hl : literal (y :: r) with
        | none =>
          simp only [Inv, List.length_cons]
          refine ⟨by push_cast; omega, by omega, Or.inr ⟨hs.1, by omega, by omega⟩, ?_, h3, fun _ => h4⟩
          rcases h2 with h2 | h2
          · exact Or.inl h2
          · exact Or.inr ⟨h2.1, by omega⟩
        | some res =>
          obtain ⟨r', k, over⟩ := res
          obtain ⟨hlen, hov, hk⟩ := literal_len (y :: r) r' k over hl
          subst hov
          simp only [Inv, List.length_cons] at hlen ⊢
          refine ⟨by push_cast; omega, by omega, Or.inr ⟨hs.1, by omega, by omega⟩, ?_, h3, fun _ => h4⟩
          rcases h2 with h2 | h2
          · exact Or.inl h2
          · exact Or.inr ⟨h2.1, by omega⟩

end C

namespace C

theorem inv_mono_space (st : ScanState) (p q : Int) (h : p ≤ q) (hinv : Inv st p) : Inv st q := by
  obtain ⟨h1, h2, h3, h4⟩ := hinv
  refine ⟨?_, ?_, h3, h4⟩
  · rcases h1 with h1 | h1
    · exact Or.inl h1
    · exact Or.inr ⟨h1.1, h1.2.1, by omega⟩
  · rcases h2 with h2 | h2
    · exact Or.inl h2
    · exact Or.inr ⟨h2.1, by omega⟩

/-- hypotheses of `eatOne_ok` for the state "start set if it was not" -/
theorem start_set (st : ScanState) (pos p : Int) (hp : 0 ≤ pos) (hpp : pos ≤ p) (hinv : Inv st pos) :
    let st1 := if st.start == -1 then { st with start := p } else st
    (0 ≤ st1.start ∧ st1.start ≤ p ∧ (st1.stop = -1 ∨ st1.stop ≤ p)) ∧
    (st1.propertyDelimiter = -1 ∨ (0 ≤ st1.propertyDelimiter ∧ st1.propertyDelimiter < p)) ∧
    (st1.propertyStart = -1 ∨ (0 ≤ st1.propertyStart ∧ st1.propertyStart ≤ st1.propertyEnd ∧
      st1.propertyEnd ≤ st1.propertyDelimiter + 1 ∧ 0 ≤ st1.propertyDelimiter)) ∧
    st1.propertyDelimiter < st1.start := by
  obtain ⟨h1, h2, h3, h4⟩ := hinv
  intro st1
  by_cases hs : (st.start == -1) = true
  · have hst1 : st1 = { st with start := p } := by simp [st1, hs]
    have hs' : st.start = -1 := by simpa using hs
    rw [hst1]
    refine ⟨⟨by simp; omega, by simp, ?_⟩, ?_, h3, ?_⟩
    · rcases h1 with h1 | h1
      · exact Or.inl h1.2
      · exact absurd hs' (by omega)
    · rcases h2 with h2 | h2
      · exact Or.inl h2
      · exact Or.inr ⟨h2.1, by simp; omega⟩
    · rcases h2 with h2 | h2 <;> simp <;> omega
  · have hst1 : st1 = st := by simp [st1, hs]
    have hs' : st.start ≠ -1 := by simpa using hs
    rw [hst1]
    rcases h1 with h1 | h1
    · exact absurd h1.1 hs'
    · refine ⟨⟨h1.1, by omega, Or.inr (by omega)⟩, ?_, h3, h4 hs'⟩
      rcases h2 with h2 | h2
      · exact Or.inl h2
      · exact Or.inr ⟨h2.1, by omega⟩

/-- the property-colon step keeps the invariant -/
theorem colonState_inv (st : ScanState) (pos : Int) (h0 : 0 ≤ pos) (hinv : Inv st pos) : Inv (colonState st (pos + 1)) (pos + 1) := by
  unfold colonState
  obtain ⟨h1, h2, h3, h4⟩ := hinv
  simp only [Inv]
  refine ⟨Or.inl (by simp), Or.inr ⟨by omega, by omega⟩, ?_, fun h => absurd rfl h⟩
  by_cases hps : (st.propertyStart == -1) = true
  · have hps' : st.propertyStart = -1 := by simpa using hps
    simp only [hps, if_true]
    by_cases hs : st.start = -1
    · left; exact hs
    · right
      rcases h1 with h1 | h1
      · exact absurd h1.1 hs
      · have hst : (st.stop != -1) = true := by simp; omega
        simp only [hst, if_true]; omega
  · have hps' : st.propertyStart ≠ -1 := by simpa using hps
    simp only [hps, Bool.false_eq_true, if_false]
    right
    rcases h3 with h3 | h3
    · exact absurd h3 hps'
    · by_cases hst : (st.stop != -1) = true
      · simp only [hst, if_true]
        have hst' : st.stop ≠ -1 := by simpa using hst
        rcases h1 with h1 | h1
        · exact absurd h1.2 hst'
        · have := h4 (by omega); omega
      · simp only [hst, Bool.false_eq_true, if_false]
        have hpsb : (st.propertyStart != -1) = true := by simpa using hps'
        simp only [hpsb, if_true]; omega

theorem scanLoop_ok (n : Int) : ∀ (fuel : Nat) (rest : Str) (pos : Int) (st : ScanState) (acc : List Ev),
    pos + rest.length = n → 0 ≤ pos → Inv st pos → (∀ e ∈ acc, EvOK n e) →
    (∀ e ∈ (scanLoop fuel rest pos st acc).1, EvOK n e) ∧ Inv (scanLoop fuel rest pos st acc).2.1 (scanLoop fuel rest pos st acc).2.2 ∧
      0 ≤ (scanLoop fuel rest pos st acc).2.2 ∧ (scanLoop fuel rest pos st acc).2.2 ≤ n := by
  intro fuel
  induction fuel with
  | zero => intro rest pos st acc hl h0 hinv hacc; simp only [scanLoop]; exact ⟨hacc, hinv, h0, by omega⟩
  | succ fuel ih =>
    intro rest pos st acc hl h0 hinv hacc
    cases rest with
    | nil => simp only [scanLoop]; exact ⟨hacc, hinv, h0, by simp at hl; omega⟩
    | cons x xs =>
      have hlen : pos + 1 + (xs.length : Int) = n := by simp only [List.length_cons] at hl; push_cast at hl; omega
      have hn : pos < n := by omega
      unfold scanLoop
      cases hc : comment (x :: xs) with
      | some rn =>
        obtain ⟨r, k⟩ := rn
        obtain ⟨h1, h2⟩ := comment_len _ _ _ hc
        simp only
        exact ih r (pos + k) st acc (by simp only [List.length_cons] at h1; omega) (by omega) (inv_mono_space _ _ _ (by omega) hinv) hacc
      | none =>
        simp only
        by_cases hsp : isSpace x = true
        · simp only [hsp, if_true]
          have := spanSpace_len xs 1
          generalize hss : spanSpace xs 1 = sp at this
          obtain ⟨r, k⟩ := sp
          simp only at this ⊢
          exact ih r (pos + k) st acc (by omega) (by omega) (inv_mono_space _ _ _ (by omega) hinv) hacc
        · simp only [hsp, Bool.false_eq_true, if_false]
          by_cases hx : (x == 125 || x == 59 && decide (st.expression ≤ 0)) = true
          · simp only [hx, if_true]
            exact ih xs (pos + 1) _ _ hlen (by omega) (inv_reset _ _)
              (closeBlock_ok n _ _ _ h0 hn (flushPending_ok n _ _ _ h0 hn hinv hacc))
          · simp only [hx, Bool.false_eq_true, if_false]
            by_cases h123 : (x == 123) = true
            · simp only [h123, if_true]
              refine ih xs (pos + 1) _ _ hlen (by omega) (inv_reset _ _) ?_
              intro e he
              simp only [List.mem_cons] at he
              rcases he with rfl | he
              · obtain ⟨a, b, c⟩ := selectorState_ok _ _ h0 hinv
                simp only [EvOK]; omega
              · exact hacc e he
            · simp only [h123, Bool.false_eq_true, if_false]
              by_cases h58 : (x == 58) = true
              · simp only [h58, if_true]
                by_cases hex : (st.expression != 0) = true
                · simp only [hex, if_true]
                  obtain ⟨a, b, c, d⟩ := start_set st pos (pos + 1) h0 (by omega) hinv
                  obtain ⟨e1, e2, e3⟩ := eatOne_ok xs (pos + 1) _ (by omega) a b c d
                  exact ih _ _ _ acc (by omega) (by omega) e3 hacc
                · simp only [hex, Bool.false_eq_true, if_false]
                  have hsc := spanColon_len xs 0
                  by_cases hcol : (spanColon xs 0).2 > 0
                  · simp only [hcol, if_true]
                    obtain ⟨a, b, c, d⟩ := start_set st pos (pos + 1 + ((spanColon xs 0).2 : Int)) h0 (by omega) hinv
                    obtain ⟨e1, e2, e3⟩ := eatOne_ok (spanColon xs 0).1 (pos + 1 + ((spanColon xs 0).2 : Int)) _ (by omega) a b c d
                    exact ih _ _ _ acc (by omega) (by omega) e3 hacc
                  · simp only [hcol, if_false]
                    exact ih xs (pos + 1) _ acc hlen (by omega) (colonState_inv st pos h0 hinv) hacc
              · simp only [h58, Bool.false_eq_true, if_false]
                obtain ⟨a, b, c, d⟩ := start_set st pos pos h0 (by omega) hinv
                obtain ⟨e1, e2, e3⟩ := eatOne_ok (x :: xs) pos _ h0 a b c d
                exact ih _ _ _ acc (by omega) (by omega) e3 hacc

end C

namespace C

/-- **C16, CSS scanner**: for EVERY source, every reported token satisfies `0 ≤ start ≤ end ≤ |source|`, and its delimiter is
    `-1` or an index into the source. -/
theorem scan_ranges (s : Str) : ∀ e ∈ scan s, EvOK s.length e := by
  have hinv0 : Inv ({} : ScanState) 0 := by simp [Inv]
  have h := scanLoop_ok (s.length : Int) (2 * s.length + 2) s 0 {} [] (by simp) (by omega) hinv0 (by intro e he; cases he)
  unfold scan
  generalize scanLoop (2 * s.length + 2) s 0 {} [] = res at h
  obtain ⟨acc, st, pos⟩ := res
  obtain ⟨hacc, ⟨h1, h2, h3, h4⟩, hp0, hpn⟩ := h
  simp only at hacc h1 h2 h3 h4 hp0 hpn ⊢
  intro e he
  simp only [List.mem_reverse] at he
  have hpn' : ∀ e, e = (⟨.propertyName, st.propertyStart, st.propertyEnd, st.propertyDelimiter⟩ : Ev) → st.propertyStart ≠ -1 → EvOK s.length e := by
    intro e he hne
    subst he
    rcases h3 with h3 | h3
    · exact absurd h3 hne
    · rcases h2 with h2 | h2
      · simp only [EvOK]; omega
      · simp only [EvOK]; omega
  have hlast : ∀ (t : TT) e, e = (⟨t, st.start, st.stop, -1⟩ : Ev) → st.start ≠ -1 → EvOK s.length e := by
    intro t e he hne
    subst he
    rcases h1 with h1 | h1
    · exact absurd h1.1 hne
    · exact ⟨h1.1, h1.2.1, by simp only; omega, Or.inl rfl⟩
  by_cases hps : (st.propertyStart != -1) = true
  · have hps' : st.propertyStart ≠ -1 := by simpa using hps
    simp only [hps, if_true] at he
    by_cases hs : (st.start != -1) = true
    · have hs' : st.start ≠ -1 := by simpa using hs
      simp only [hs, if_true, List.mem_cons] at he
      rcases he with rfl | rfl | he
      · exact hlast _ _ rfl hs'
      · exact hpn' _ rfl hps'
      · exact hacc e he
    · simp only [hs, Bool.false_eq_true, if_false, List.mem_cons] at he
      rcases he with rfl | he
      · exact hpn' _ rfl hps'
      · exact hacc e he
  · simp only [hps, Bool.false_eq_true, if_false] at he
    by_cases hs : (st.start != -1) = true
    · have hs' : st.start ≠ -1 := by simpa using hs
      simp only [hs, if_true, List.mem_cons] at he
      rcases he with rfl | he
      · exact hlast _ _ rfl hs'
      · exact hacc e he
    · simp only [hs, Bool.false_eq_true, if_false] at he
      exact hacc e he

end C
