import Emmet.Css.Tok
/-! C18 (CSS half, prototype) on the real CSS abbreviation tokenizer model. -/
namespace CA

def Eats (s r : Str) (n : Nat) : Prop := s.drop n = r ∧ n ≤ s.length
theorem Eats.of_append (a b : Str) : Eats (a ++ b) b a.length := ⟨by simp, by simp⟩
theorem Eats.cons (x : Ch) (xs : Str) : Eats (x :: xs) xs 1 := ⟨by simp, by simp⟩
theorem Eats.refl (s : Str) : Eats s s 0 := ⟨by simp, by simp⟩
theorem Eats.trans {s r t : Str} {n m : Nat} (h1 : Eats s r n) (h2 : Eats r t m) : Eats s t (n + m) := by
  obtain ⟨a, b⟩ := h1; obtain ⟨c, d⟩ := h2
  subst a
  refine ⟨by rw [← c, List.drop_drop], ?_⟩
  simp only [List.length_drop] at d; omega
theorem eats_of_eq {a r s : Str} (h : a ++ r = s) : Eats s r a.length := by subst h; exact Eats.of_append a r

theorem spanP_append (p : Ch → Bool) (l : Str) : (spanP p l).1 ++ (spanP p l).2 = l := by
  induction l with
  | nil => simp [spanP]
  | cons x xs ih => simp only [spanP]; split <;> simp_all
theorem spanP_eats (p : Ch → Bool) (l : Str) : Eats l (spanP p l).2 (spanP p l).1.length :=
  eats_of_eq (spanP_append p l)

/-- what every successful consumer guarantees -/
def Eaten.Good (e : Eaten) (rest : Str) : Prop := Eats rest e.rest e.used ∧ 0 < e.used

theorem customProperty_good {rest e} (h : customProperty rest = some e) : e.Good rest := by
  unfold customProperty at h
  split at h
  · rename_i r
    cases h
    have := spanP_eats isKeyword r
    refine ⟨?_, by simp only; omega⟩
    have h2 := Eats.trans (Eats.trans (Eats.cons 45 (45 :: r)) (Eats.cons 45 r)) this
    simpa [Nat.add_comm, Nat.add_left_comm, Nat.add_assoc] using h2
  · cases h

theorem bracket_good {rest e} (h : bracket rest = some e) : e.Good rest := by
  unfold bracket at h
  split at h
  · cases h; exact ⟨Eats.cons 40 _, by simp⟩
  · cases h; exact ⟨Eats.cons 41 _, by simp⟩
  · cases h
theorem operator_good {rest e} (h : operator rest = some e) : e.Good rest := by
  unfold operator at h
  split at h
  · split at h
    · cases h; exact ⟨Eats.cons _ _, by simp⟩
    · cases h
  · cases h
theorem whiteSpace_good {rest e} (h : whiteSpace rest = some e) : e.Good rest := by
  unfold whiteSpace at h
  have := spanP_eats isSpace rest
  simp only at h
  split at h
  · cases h
  · rename_i hne
    cases h
    refine ⟨this, ?_⟩
    cases hs : (spanP isSpace rest).1 <;> simp_all

theorem optMinus_eq (s : Str) : (optMinus s).1 ++ (optMinus s).2 = s := by
  unfold optMinus; split <;> simp
theorem optFraction_eq (b : Bool) (s : Str) : (optFraction b s).1 ++ (optFraction b s).2 = s := by
  unfold optFraction
  split
  · split
    · simp
    · simp [spanP_append]
  · simp
theorem eatUnit_eq (s : Str) : (eatUnit s).1 ++ (eatUnit s).2 = s := by
  unfold eatUnit; split
  · simp
  · exact spanP_append _ _

theorem consumeNumber_eats {rest raw r} (h : consumeNumber rest = some (raw, r)) : raw ++ r = rest ∧ 0 < raw.length := by
  unfold consumeNumber at h
  simp only at h
  have h1 := optMinus_eq rest
  generalize optMinus rest = m at h h1
  have h2 := spanP_append isNumber m.2
  generalize spanP isNumber m.2 = sp at h h2
  have h3 := optFraction_eq sp.1.isEmpty sp.2
  generalize optFraction sp.1.isEmpty sp.2 = fr at h h3
  split at h
  · cases h
  · rename_i hne
    cases h
    refine ⟨?_, ?_⟩
    · rw [List.append_assoc, List.append_assoc, h3, h2, h1]
    · simp only [Bool.and_eq_true, List.isEmpty_iff, not_and] at hne
      simp only [List.length_append]
      rcases Nat.eq_zero_or_pos sp.1.length with h0 | h0
      · have hd : sp.1 = [] := List.eq_nil_of_length_eq_zero h0
        have hf := hne hd
        have : 0 < fr.1.length := List.length_pos_iff.mpr hf
        omega
      · omega

theorem numberValue_good {rest e} (h : numberValue rest = some e) : e.Good rest := by
  unfold numberValue at h
  split at h
  · rename_i raw r hn
    obtain ⟨he, hpos⟩ := consumeNumber_eats hn
    cases h
    have hu := eatUnit_eq r
    refine ⟨?_, by simp only; omega⟩
    have : (raw ++ (eatUnit r).1) ++ (eatUnit r).2 = rest := by rw [List.append_assoc, hu, he]
    have := eats_of_eq this
    simpa using this
  · cases h

end CA

namespace CA

theorem colorAlpha_eats (s : Str) : Eats s (colorAlpha s).2.2 (colorAlpha s).2.1 := by
  unfold colorAlpha
  split
  · rename_i r
    have := spanP_eats isNumber r
    generalize spanP isNumber r = sp at this
    obtain ⟨ds, r'⟩ := sp
    simp only at this ⊢
    split
    · rename_i he
      have h0 : ds = [] := by simpa using he
      subst h0
      have h2 := Eats.trans (Eats.cons 46 r) this
      simpa using h2
    · have h2 := Eats.trans (Eats.cons 46 r) this
      simpa [Nat.add_comm] using h2
  · exact Eats.refl _

theorem colorValue_good {rest e} (h : colorValue rest = some e) : e.Good rest := by
  unfold colorValue at h
  split at h
  · rename_i r
    have hsp := spanP_eats isHex r
    generalize spanP isHex r = sp at h hsp
    obtain ⟨hs, r1⟩ := sp
    simp only at h hsp
    split at h
    · have ha := colorAlpha_eats r1
      generalize colorAlpha r1 = ca at h ha
      obtain ⟨al, n, r2⟩ := ca
      simp only at h ha
      cases h
      refine ⟨?_, by simp only; omega⟩
      have := Eats.trans (Eats.cons 35 r) (Eats.trans hsp ha)
      simpa [Nat.add_assoc] using this
    · split at h
      · rename_i rt
        have ha := colorAlpha_eats rt
        generalize colorAlpha rt = ca at h ha
        obtain ⟨al, n, r2⟩ := ca
        simp only at h ha
        cases h
        refine ⟨?_, by simp only; omega⟩
        have := Eats.trans (Eats.cons 35 r) (Eats.trans hsp (Eats.trans (Eats.cons 116 rt) ha))
        have h0 : hs = [] := by simp_all
        subst h0
        simpa [Nat.add_assoc, Nat.add_comm, Nat.add_left_comm] using this
      · have ha := colorAlpha_eats r1
        generalize colorAlpha r1 = ca at h ha
        obtain ⟨al, n, r2⟩ := ca
        simp only at h ha
        have h0 : hs = [] := by simp_all
        subst h0
        split at h
        · cases h
          refine ⟨?_, by simp only; omega⟩
          have := Eats.trans (Eats.cons 35 r) (Eats.trans hsp ha)
          simpa [Nat.add_assoc] using this
        · cases h
          refine ⟨?_, by simp⟩
          have := Eats.trans (Eats.cons 35 r) hsp
          simpa using this
  · cases h

theorem stringLoop_eq (q : Ch) (s acc : Str) :
    (stringValue.loop q s acc).1 ++ (if (stringValue.loop q s acc).2.2 then [q] else []) ++ (stringValue.loop q s acc).2.1
      = acc.reverse ++ s := by
  induction s generalizing acc with
  | nil => simp [stringValue.loop]
  | cons x xs ih =>
    simp only [stringValue.loop]
    split
    · rename_i hx; simp only [beq_iff_eq] at hx; subst hx; simp
    · have := ih (x :: acc); simpa using this

theorem stringValue_good {rest e} (h : stringValue rest = some e) : e.Good rest := by
  unfold stringValue at h
  split at h
  · rename_i q r
    split at h
    · have hl := stringLoop_eq q r []
      generalize stringValue.loop q r [] = lp at h hl
      obtain ⟨v, r', fin⟩ := lp
      simp only at h hl
      cases h
      refine ⟨?_, by simp only; omega⟩
      have h2 : (q :: (v ++ (if fin then [q] else []))) ++ r' = q :: r := by
        simp only [List.cons_append, List.append_assoc]; congr 1
        simpa [List.append_assoc] using hl
      have := eats_of_eq h2
      cases fin <;> simpa [Nat.add_comm, Nat.add_assoc, Nat.add_left_comm] using this
    · cases h
  · cases h

theorem literal_good {rest e} (short atStart : Bool) (h : literal rest short atStart = some e) : e.Good rest := by
  unfold literal at h
  split at h
  · rename_i x r
    split at h
    · have := spanP_eats (if !atStart then isKeyword else isLiteralCh) r
      cases h
      refine ⟨?_, by simp only; omega⟩
      have h2 := Eats.trans (Eats.cons x r) this
      simpa [Nat.add_comm] using h2
    · split at h
      · have := spanP_eats (if short then isLiteralCh else isKeyword) r
        cases h
        refine ⟨?_, by simp only; omega⟩
        have h2 := Eats.trans (Eats.cons x r) this
        simpa [Nat.add_comm] using h2
      · simp only at h
        by_cases hx : (x == 46) = true
        · simp only [hx, if_true] at h
          have := spanP_eats isLiteralCh r
          split at h
          · cases h
          · cases h
            refine ⟨?_, by simp only [List.length_cons, List.length_nil]; omega⟩
            have h2 := Eats.trans (Eats.cons x r) this
            simpa [Nat.add_comm] using h2
        · simp only [hx, if_false, Bool.false_eq_true] at h
          have := spanP_eats isLiteralCh (x :: r)
          split at h
          · cases h
          · rename_i hne
            cases h
            refine ⟨by simpa using this, ?_⟩
            simp only [List.isEmpty_nil, Bool.true_and, List.isEmpty_iff] at hne
            simp only [List.length_nil, Nat.zero_add]
            exact List.length_pos_iff.mpr hne
  · cases h

end CA

namespace CA

theorem orElse_some {α : Type} (a b : Option α) (v : α) (h : (a <|> b) = some v) : a = some v ∨ b = some v := by
  cases a <;> simp_all

theorem plainToken_good {rest e} (short atStart : Bool) (h : plainToken rest short atStart = some e) : e.Good rest := by
  unfold plainToken at h
  rcases orElse_some _ _ _ h with h | h
  · exact numberValue_good h
  · rcases orElse_some _ _ _ h with h | h
    · exact colorValue_good h
    · rcases orElse_some _ _ _ h with h | h
      · exact stringValue_good h
      · rcases orElse_some _ _ _ h with h | h
        · exact bracket_good h
        · rcases orElse_some _ _ _ h with h | h
          · exact operator_good h
          · rcases orElse_some _ _ _ h with h | h
            · exact whiteSpace_good h
            · exact literal_good short atStart h

theorem consumePlaceholder_ok (fuel : Nat) (rest : Str) (stack : List Nat) (off : Nat) (acc : Str) (name r3 : Str)
    (h : consumePlaceholder fuel rest stack off acc = .ok (name, r3)) : name ++ r3 = acc.reverse ++ rest := by
  induction fuel generalizing rest stack off acc with
  | zero => simp [consumePlaceholder] at h
  | succ n ih =>
    cases rest with
    | nil =>
      cases stack <;> simp [consumePlaceholder] at h
      obtain ⟨rfl, rfl⟩ := h; simp
    | cons x xs =>
      simp only [consumePlaceholder] at h
      split at h
      · have := ih _ _ _ _ h; simpa using this
      · split at h
        · cases stack with
          | nil => simp at h; obtain ⟨rfl, rfl⟩ := h; simp
          | cons t st => have := ih _ _ _ _ h; simpa using this
        · have := ih _ _ _ _ h; simpa using this

theorem consumePlaceholder_err (fuel : Nat) (rest : Str) (stack : List Nat) (off : Nat) (acc : Str) (e : Nat)
    (hs : ∀ t ∈ stack, t ≤ off) (hf : rest.length < fuel)
    (h : consumePlaceholder fuel rest stack off acc = .error e) : e ≤ off + rest.length := by
  induction fuel generalizing rest stack off acc with
  | zero => omega
  | succ n ih =>
    cases rest with
    | nil =>
      cases stack with
      | nil => simp [consumePlaceholder] at h
      | cons t st => simp [consumePlaceholder] at h; have := hs t (by simp); omega
    | cons x xs =>
      simp only [consumePlaceholder] at h
      simp only [List.length_cons] at hf ⊢
      split at h
      · have := ih xs _ (off+1) _ (by intro t ht; simp at ht; rcases ht with rfl | ht; omega; have := hs t ht; omega) (by omega) h
        omega
      · split at h
        · cases stack with
          | nil => simp at h
          | cons t st =>
            have := ih xs st (off+1) _ (by intro t' ht; have := hs t' (by simp [ht]); omega) (by omega) h
            omega
        · have := ih xs stack (off+1) _ (by intro t ht; have := hs t ht; omega) (by omega) h
          omega

/-- result of a consumer that may fail with a scanner error -/
def FieldSpec (res : Except Err (Option Eaten)) (rest : Str) (pos : Nat) : Prop :=
  match res with
  | .ok (some e) => e.Good rest
  | .ok none => True
  | .error (.scanner p) => p ≤ pos + rest.length
  | .error _ => False

theorem fieldCont_spec (pos : Nat) (index : Option Nat) (name : Str) (used : Nat) (r2 full : Str)
    (hu : 0 < used) (he : Eats full r2 used) : FieldSpec (fieldCont pos index name used r2) full pos := by
  unfold fieldCont
  split
  · rename_i r3
    simp only [FieldSpec]
    exact ⟨Eats.trans he (Eats.cons 125 r3), Nat.succ_pos _⟩
  · simp only [FieldSpec]
    have := he.2; omega

theorem field_spec (rest : Str) (pos : Nat) : FieldSpec (field rest pos) rest pos := by
  unfold field
  split
  · rename_i r
    have hsp := spanP_eats isNumber r
    generalize spanP isNumber r = sp at hsp
    obtain ⟨ds, r1⟩ := sp
    simp only at hsp ⊢
    have h2 : Eats (36 :: 123 :: r) r 2 := Eats.trans (Eats.cons 36 _) (Eats.cons 123 r)
    split
    · split
      · rename_i r2
        cases hcp : consumePlaceholder (r2.length + 1) r2 [] 0 [] with
        | ok v =>
          obtain ⟨name, r3⟩ := v
          have hn := consumePlaceholder_ok _ _ _ _ _ _ _ hcp
          simp only [List.reverse_nil, List.nil_append] at hn
          simp only
          apply fieldCont_spec _ _ _ _ _ _ (by omega)
          have := Eats.trans h2 (Eats.trans hsp (Eats.trans (Eats.cons 58 r2) (eats_of_eq hn)))
          simpa [Nat.add_assoc] using this
        | error off =>
          have hoff := consumePlaceholder_err _ _ _ _ _ _ (by simp) (by omega) hcp
          simp only [FieldSpec]
          have h3 := (Eats.trans h2 (Eats.trans hsp (Eats.cons 58 r2)))
          have h4 := h3.1
          have h5 := h3.2
          have hlen : r2.length = (36 :: 123 :: r).length - (2 + (ds.length + 1)) := by rw [← h4]; simp
          simp only [List.length_cons] at hlen h5 hoff ⊢
          omega
      · apply fieldCont_spec _ _ _ _ _ _ (by omega)
        exact Eats.trans h2 hsp
    · rename_i hdne
      have hds' : ds = [] := by simpa using hdne
      subst hds'
      simp only [List.length_nil, Nat.add_zero] at hsp
      split
      · rename_i x xs
        split
        · cases hcp : consumePlaceholder ((x :: xs).length + 1) (x :: xs) [] 0 [] with
          | ok v =>
            obtain ⟨name, r3⟩ := v
            have hn := consumePlaceholder_ok _ _ _ _ _ _ _ hcp
            simp only [List.reverse_nil, List.nil_append] at hn
            simp only
            apply fieldCont_spec _ _ _ _ _ _ (by omega)
            exact Eats.trans (Eats.trans h2 hsp) (eats_of_eq hn)
          | error off =>
            have hoff := consumePlaceholder_err _ _ _ _ _ _ (by simp) (by omega) hcp
            simp only [FieldSpec]
            have h3 := Eats.trans h2 hsp
            have h4 := h3.1
            have hlen : (x :: xs).length = (36 :: 123 :: r).length - 2 := by rw [← h4]; simp
            simp only [List.length_cons] at hlen hoff ⊢
            omega
        · apply fieldCont_spec _ _ _ _ _ _ (by omega)
          exact Eats.trans h2 hsp
      · apply fieldCont_spec _ _ _ _ _ _ (by omega)
        exact Eats.trans h2 hsp
  · simp [FieldSpec]

/-- specification of `nextToken` -/
theorem nextToken_spec (rest : Str) (pos : Nat) (short : Bool) :
    match nextToken rest pos short with
    | .ok (some (e, _)) => e.Good rest
    | .ok none => True
    | .error (.scanner p) => p ≤ pos + rest.length
    | .error _ => False := by
  unfold nextToken
  cases hc : customProperty rest with
  | some e => simp only; exact customProperty_good hc
  | none =>
    simp only
    have hf := field_spec rest pos
    cases hfr : field rest pos with
    | error err =>
      rw [hfr] at hf
      simp only
      cases err <;> simp_all [FieldSpec]
    | ok o =>
      rw [hfr] at hf
      cases o with
      | some e => simp only; exact hf
      | none =>
        simp only
        cases hp : plainToken rest short (pos == 0) with
        | some e => simp only; exact plainToken_good _ _ hp
        | none => simp

end CA

namespace CA

/-- `acc` (most recent first) occupies `[0, p)`: every token is non-empty, ends where the next begins and starts (its
    start is defined) where the previous one ends -/
def GoodAcc : List Tok → Nat → Prop
  | [], p => p = 0
  | t :: rest, p => t.stop = p ∧ ∃ q, q < p ∧ t.start = some q ∧ GoodAcc rest q

theorem nextToken_flag (rest : Str) (pos : Nat) (short : Bool) (e : Eaten) (h : nextToken rest pos short = .ok (some (e, true))) :
    False := by
  unfold nextToken at h
  cases hc : customProperty rest with
  | some e' =>
    simp [hc] at h
  | none =>
    simp only [hc] at h
    cases hfr : field rest pos with
    | error err => simp [hfr] at h
    | ok o =>
      cases o with
      | some e' => simp [hfr] at h
      | none =>
        simp only [hfr] at h
        cases hp : plainToken rest short (pos == 0) <;> simp [hp] at h

/-- the popping loop of `merge_tokens` -/
theorem pop_spec (l : List Tok) (q P : Nat) (start : Option Nat) (stop : Nat) (hg : GoodAcc l q)
    (hst : (stop = 0 ∧ start = some 0 ∧ q = P) ∨ (stop = P ∧ start = some q ∧ q < P)) :
    ∃ q', GoodAcc (mergeTokens.pop l start stop).1 q' ∧
      (((mergeTokens.pop l start stop).2.2 = 0 ∧ (mergeTokens.pop l start stop).2.1 = some 0 ∧ q' = P) ∨
       ((mergeTokens.pop l start stop).2.2 = P ∧ (mergeTokens.pop l start stop).2.1 = some q' ∧ q' < P)) := by
  induction l generalizing q start stop with
  | nil => exact ⟨q, by simpa [mergeTokens.pop] using hg, by simpa [mergeTokens.pop] using hst⟩
  | cons t ts ih =>
    obtain ⟨hstop, q1, hq1, hstart, hrest⟩ := hg
    have keep : ∃ q', GoodAcc (t :: ts) q' ∧ ((stop = 0 ∧ start = some 0 ∧ q' = P) ∨ (stop = P ∧ start = some q' ∧ q' < P)) :=
      ⟨q, ⟨hstop, q1, hq1, hstart, hrest⟩, by rcases hst with ⟨a, b, c⟩ | ⟨a, b, c⟩ <;> simp_all⟩
    have go : True →
        ∃ q', GoodAcc (mergeTokens.pop ts t.start (if stop == 0 then t.stop else stop)).1 q' ∧
          (((mergeTokens.pop ts t.start (if stop == 0 then t.stop else stop)).2.2 = 0 ∧
            (mergeTokens.pop ts t.start (if stop == 0 then t.stop else stop)).2.1 = some 0 ∧ q' = P) ∨
           ((mergeTokens.pop ts t.start (if stop == 0 then t.stop else stop)).2.2 = P ∧
            (mergeTokens.pop ts t.start (if stop == 0 then t.stop else stop)).2.1 = some q' ∧ q' < P)) := by
      intro hnc
      have hs : t.start = some q1 := hstart
      apply ih q1 t.start (if stop == 0 then t.stop else stop) hrest
      right
      rcases hst with ⟨a, b, c⟩ | ⟨a, b, c⟩
      · subst a; simp only [beq_self_eq_true, if_true]; exact ⟨by omega, hs, by omega⟩
      · have : stop ≠ 0 := by omega
        simp only [beq_iff_eq, this, if_false]; exact ⟨a, hs, by omega⟩
    cases htok : t.tok with
    | literal v => simp only [mergeTokens.pop, htok]; exact go trivial
    | number raw unit => simp only [mergeTokens.pop, htok]; exact go trivial
    | op ch => simpa [mergeTokens.pop, htok] using keep
    | bracket o => simpa [mergeTokens.pop, htok] using keep
    | custom v => simpa [mergeTokens.pop, htok] using keep
    | color r g b a raw => simpa [mergeTokens.pop, htok] using keep
    | string v sg => simpa [mergeTokens.pop, htok] using keep
    | field n i => simpa [mergeTokens.pop, htok] using keep
    | ws => simpa [mergeTokens.pop, htok] using keep

theorem mergeTokens_good (src : Array Ch) (acc : List Tok) (p : Nat) (hg : GoodAcc acc p) : GoodAcc (mergeTokens src acc) p := by
  unfold mergeTokens
  obtain ⟨q', hq', hcase⟩ := pop_spec acc p p (some 0) 0 hg (Or.inl ⟨rfl, rfl, rfl⟩)
  generalize mergeTokens.pop acc (some 0) 0 = res at hq' hcase
  obtain ⟨rest, start, stop⟩ := res
  simp only at hq' hcase ⊢
  rcases hcase with ⟨a, b, c⟩ | ⟨a, b, c⟩
  · rw [a, b, ← c]; simpa using hq'
  · rw [a, b]
    have hne : (q' != p) = true := by simp; omega
    simp only [Option.getD_some, hne, if_true]
    exact ⟨rfl, q', c, rfl, hq'⟩

theorem bracketStep_spec (src : Array Ch) (pos : Nat) (tok : Token) (brackets : Int) (acc : List Tok) (hg : GoodAcc acc pos) :
    match bracketStep src pos tok brackets acc with
    | .ok (acc1, _) => GoodAcc acc1 pos
    | .error (.scanner p) => p = pos
    | .error _ => False := by
  cases tok with
  | bracket isOpen =>
    by_cases hb : brackets + (if isOpen = true then 1 else -1) < 0
    · simp only [bracketStep, hb, if_true]
    · simp only [bracketStep, hb, if_false]
      split
      · exact mergeTokens_good src acc pos hg
      · exact hg
  | op ch => simpa [bracketStep] using hg
  | literal v => simpa [bracketStep] using hg
  | custom v => simpa [bracketStep] using hg
  | number raw unit => simpa [bracketStep] using hg
  | color r g b a raw => simpa [bracketStep] using hg
  | string v sg => simpa [bracketStep] using hg
  | field n i => simpa [bracketStep] using hg
  | ws => simpa [bracketStep] using hg

/-- main invariant of the CSS tokenizer loop -/
theorem loop_spec (src : Array Ch) (isValue : Bool) (total : Nat) (fuel : Nat) :
    ∀ (rest : Str) (pos : Nat) (brackets : Int) (acc : List Tok),
      pos + rest.length = total → rest.length < fuel → GoodAcc acc pos →
      match loop src isValue fuel rest pos brackets acc with
      | .ok ts => GoodAcc ts.reverse total
      | .error (.scanner p) => p ≤ total
      | .error _ => False := by
  induction fuel with
  | zero => intro rest pos brackets acc _ hf _; omega
  | succ f ih =>
    intro rest pos brackets acc hpos hf hg
    cases rest with
    | nil => simp only [loop]; simp at hpos; subst hpos; simpa using hg
    | cons x xs =>
      simp only [loop]
      have hn := nextToken_spec (x :: xs) pos (brackets == 0 && !isValue)
      cases hnt : nextToken (x :: xs) pos (brackets == 0 && !isValue) with
      | error err =>
        rw [hnt] at hn
        cases err with
        | scanner p => simp only at hn ⊢; omega
        | token _ => exact absurd hn (by simp)
        | internal _ => exact absurd hn (by simp)
        | fuel => exact absurd hn (by simp)
      | ok o =>
        rw [hnt] at hn
        cases o with
        | none => simp only; simp at hpos; omega
        | some pr =>
          obtain ⟨e, noStart⟩ := pr
          simp only at hn ⊢
          obtain ⟨⟨hdrop, hle⟩, hused⟩ := hn
          have hbs := bracketStep_spec src pos e.tok brackets acc hg
          cases hb : bracketStep src pos e.tok brackets acc with
          | error err =>
            rw [hb] at hbs
            cases err with
            | scanner p => simp only at hbs ⊢; simp only [List.length_cons] at hpos; omega
            | token _ => exact absurd hbs (by simp)
            | internal _ => exact absurd hbs (by simp)
            | fuel => exact absurd hbs (by simp)
          | ok v =>
            obtain ⟨acc1, brackets1⟩ := v
            rw [hb] at hbs
            simp only at hbs ⊢
            have hlen : e.rest.length + e.used = (x :: xs).length := by rw [← hdrop]; simp only [List.length_drop]; omega
            have hflag : noStart = true → False := by
              intro h; subst h; exact nextToken_flag _ _ _ _ hnt
            have hg1 : GoodAcc (⟨e.tok, if noStart then none else some pos, pos + e.used⟩ :: acc1) (pos + e.used) := by
              refine ⟨rfl, pos, by omega, ?_, hbs⟩
              cases noStart with
              | true => exact (hflag rfl).elim
              | false => rfl
            by_cases hsd : shouldConsumeDashAfter e.tok = true
            · simp only [hsd, if_true]
              cases ho : operator e.rest with
              | some o =>
                simp only
                obtain ⟨⟨hdo, hlo⟩, huo⟩ := operator_good ho
                have hou : o.used = 1 := by
                  unfold operator at ho
                  split at ho
                  · split at ho
                    · cases ho; rfl
                    · cases ho
                  · cases ho
                have hlen2 : o.rest.length + 1 = e.rest.length := by rw [← hdo, hou]; simp only [List.length_drop]; omega
                apply ih
                · simp only [List.length_cons] at hpos hlen; omega
                · simp only [List.length_cons] at hf hlen; omega
                · exact ⟨rfl, pos + e.used, by omega, rfl, hg1⟩
              | none =>
                simp only
                apply ih
                · simp only [List.length_cons] at hpos hlen; omega
                · simp only [List.length_cons] at hf hlen; omega
                · exact hg1
            · simp only [hsd, if_false, Bool.false_eq_true]
              apply ih
              · simp only [List.length_cons] at hpos hlen; omega
              · simp only [List.length_cons] at hf hlen; omega
              · exact hg1

/-- **C18 (CSS tokenizer, prototype)**: either a scanner error with a position inside the input, or tokens whose spans tile
    `[0, |s|)` — every token ends where the next begins and starts (when it has a start) where the previous ends. -/
theorem tokenize_tiles (s : Str) (isValue : Bool) :
    match tokenize s isValue with
    | .ok ts => GoodAcc ts.reverse s.length
    | .error (.scanner p) => p ≤ s.length
    | .error _ => False :=
  loop_spec s.toArray isValue s.length (s.length + 1) s 0 0 [] (by simp) (by omega) rfl

end CA
