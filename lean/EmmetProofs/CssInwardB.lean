import EmmetProofs.CssMatchB
/-! C10 layer B, `balanced_inward`: over the event stream of ANY style sheet tree whose item starts are pairwise different, the loop
    returns the ranges of the first item in post-order (= the innermost one) that contains the position (bounds included), followed
    by the ranges of its chain of first children. -/
namespace C

/-- first-child chain of a sibling list: its first item, that one's first child, … (declarations with their full extent) -/
def Sheet.chain : Sheet → List IRng
  | .nil => []
  | .rule sel body close _ => (sel.start, close.stop, sel.delimiter) :: body.chain
  | .decl name value _ => [(name.start, propEnd value, name.delimiter)]

/-- what `balanced_inward` lists for a rule: full range, trimmed content range, then the chain of first children -/
def ruleOut (src : Array Ch) (sel close : Ev) (body : Sheet) : List (Int × Int) :=
  let a1 := pushR [] (sel.start, close.stop)
  let a2 := match innerRange src (sel.delimiter + 1) close.start with | some i => pushR a1 i | none => a1
  (chainI src body.chain a2).reverse
/-- … and for a declaration: full range, value range -/
def declOut (name value : Ev) : List (Int × Int) :=
  (pushR (pushR [] (name.start, propEnd value)) (value.start, value.stop)).reverse

/-- the spec: first item in post-order whose span contains `pos` (bounds included; a declaration up to its value end) -/
def Sheet.findIn (src : Array Ch) (pos : Int) : Sheet → Option (List (Int × Int))
  | .nil => none
  | .rule sel body close next =>
    (body.findIn src pos).orElse fun _ =>
      if sel.start ≤ pos && pos ≤ close.stop then some (ruleOut src sel close body) else next.findIn src pos
  | .decl name value next =>
    if name.start ≤ pos && pos ≤ value.stop then some (declOut name value) else next.findIn src pos

/-- starts of all items, in document order -/
def Sheet.starts : Sheet → List Int
  | .nil => []
  | .rule sel body _ next => sel.start :: (body.starts ++ next.starts)
  | .decl name _ next => name.start :: next.starts

def IR.ofEv (e : Ev) : IR := { start := e.start, stop := e.stop, delimiter := e.delimiter }

theorem inwardLoop_pending (src : Array Ch) (pos : Int) (rest : List Ev) (stack : List IR) (p : Option IR) (h : RestOK rest) :
    inwardLoop src pos rest stack p = inwardLoop src pos rest stack none := by
  rcases h with rfl | ⟨ev, evs, rfl, hev⟩
  · simp [inwardLoop]
  · simp only [inwardLoop, hev]

/-- the parent after a run of its children has been seen -/
def IR.adopt (r : IR) (ch : List IRng) : IR := match r.chain with | [] => { r with chain := ch } | _ => r

theorem adopt_nil (r : IR) : r.adopt [] = r := by
  unfold IR.adopt; split
  · rename_i h; cases r; simp_all
  · rfl

theorem adopt_nonempty (r : IR) (ch : List IRng) (h : r.chain ≠ []) : r.adopt ch = r := by
  unfold IR.adopt; split
  · rename_i h'; exact absurd h' h
  · rfl

/-- the head of the chain is not touched by a declaration that starts elsewhere -/
theorem updFirstEnd_other (r : IR) (ps e : Int) (h : ∀ c, r.chain.head? = some c → c.1 ≠ ps) : r.updFirstEnd ps e = r := by
  unfold IR.updFirstEnd
  split
  · rename_i cs ce cd rest hch
    have : cs ≠ ps := h (cs, ce, cd) (by rw [hch]; rfl)
    have hb : (cs == ps) = false := by simpa using this
    simp only [hb, Bool.false_eq_true, if_false]
    cases r; simp_all
  · rfl

/-- inside a rule: the loop over the events of a run of siblings = the spec on that run, and the parent adopts their chain -/
theorem inwardLoop_events (src : Array Ch) (pos : Int) (sh : Sheet) : ∀ (rest : List Ev) (parent : IR) (stk : List IR) (p : Option IR),
    sh.WF → RestOK rest → sh.starts.Pairwise (· ≠ ·) → (∀ c, parent.chain.head? = some c → ∀ s ∈ sh.starts, c.1 ≠ s) →
    inwardLoop src pos (sh.events ++ rest) (parent :: stk) p =
      match sh.findIn src pos with
      | some out => out
      | none => inwardLoop src pos rest (parent.adopt sh.chain :: stk) none := by
  induction sh with
  | nil =>
    intro rest parent stk p _ hr _ _
    simp only [Sheet.events, Sheet.findIn, Sheet.chain, List.nil_append, adopt_nil]
    exact inwardLoop_pending src pos rest _ p hr
  | rule sel body close next ihb ihn =>
    intro rest parent stk p hwf hr hd hpar
    obtain ⟨hs, hc, hb, hn⟩ := hwf
    simp only [Sheet.starts, List.pairwise_cons, List.pairwise_append] at hd
    obtain ⟨hsel, hbd, hnd, hbn⟩ := hd
    simp only [Sheet.events, Sheet.findIn, List.cons_append, List.append_assoc]
    conv => lhs; unfold inwardLoop
    simp only [hs]
    -- the body, inside the new rule
    rw [ihb (close :: (next.events ++ rest)) { start := sel.start, stop := sel.stop, delimiter := sel.delimiter } (parent :: stk) none hb
      (Or.inr ⟨close, _, rfl, hc⟩) hbd (by intro c hc; cases hc)]
    cases hfb : body.findIn src pos with
    | some out => simp [Option.orElse]
    | none =>
      simp only [Option.orElse]
      conv => lhs; unfold inwardLoop
      simp only [hc]
      have hadopt : (IR.adopt { start := sel.start, stop := sel.stop, delimiter := sel.delimiter } body.chain) =
          { start := sel.start, stop := sel.stop, delimiter := sel.delimiter, chain := body.chain } := by
        unfold IR.adopt; rfl
      rw [hadopt]
      simp only
      by_cases hcond : (decide (sel.start ≤ pos) && decide (pos ≤ close.stop)) = true
      · simp only [hcond, if_true]; rfl
      · simp only [hcond, Bool.false_eq_true, if_false]
        -- the rule is closed and handed to its parent
        have hset : parent.setFirstIfNone (IR.withEnd { start := sel.start, stop := sel.stop, delimiter := sel.delimiter, chain := body.chain } close.stop) =
            parent.adopt ((sel.start, close.stop, sel.delimiter) :: body.chain) := by
          unfold IR.setFirstIfNone IR.adopt IR.withEnd
          cases hch : parent.chain with
          | nil => simp
          | cons a b => simp
        rw [hset]
        have hnext := ihn rest (parent.adopt ((sel.start, close.stop, sel.delimiter) :: body.chain)) stk none hn hr hnd (by
          intro c hc s hs'
          by_cases hpe : parent.chain = []
          · have : (parent.adopt ((sel.start, close.stop, sel.delimiter) :: body.chain)).chain = (sel.start, close.stop, sel.delimiter) :: body.chain := by
              unfold IR.adopt; simp [hpe]
            rw [this] at hc
            simp only [List.head?_cons, Option.some.injEq] at hc
            subst hc
            exact hsel s (by simp [hs'])
          · rw [adopt_nonempty _ _ hpe] at hc
            exact hpar c hc s (by simp [Sheet.starts, hs']))
        rw [hnext]
        cases next.findIn src pos with
        | some out => rfl
        | none =>
          simp only [Sheet.chain]
          congr 2
          by_cases hpe : parent.chain = []
          · unfold IR.adopt; simp [hpe]
          · rw [adopt_nonempty _ _ hpe, adopt_nonempty _ _ hpe]
  | decl name value next ihn =>
    intro rest parent stk p hwf hr hd hpar
    obtain ⟨hnm, hv, hn⟩ := hwf
    simp only [Sheet.starts, List.pairwise_cons] at hd
    obtain ⟨hname, hnd⟩ := hd
    simp only [Sheet.events, Sheet.findIn, List.cons_append]
    conv => lhs; unfold inwardLoop
    simp only [hnm]
    conv => lhs; unfold inwardLoop
    simp only [hv]
    by_cases hcond : (decide (name.start ≤ pos) && decide (pos ≤ value.stop)) = true
    · simp only [hcond, if_true]; rfl
    · simp only [hcond, Bool.false_eq_true, if_false]
      -- the parent's record of this declaration
      have hupd : (parent.setFirstIfNone { start := name.start, stop := name.stop, delimiter := name.delimiter }).updFirstEnd name.start (propEnd value) =
          parent.adopt [(name.start, propEnd value, name.delimiter)] := by
        by_cases hpe : parent.chain = []
        · unfold IR.setFirstIfNone IR.updFirstEnd IR.adopt
          simp [hpe]
        · have h1 : parent.setFirstIfNone { start := name.start, stop := name.stop, delimiter := name.delimiter } = parent := by
            unfold IR.setFirstIfNone; split
            · rename_i h; exact absurd h hpe
            · rfl
          rw [h1, adopt_nonempty _ _ hpe]
          exact updFirstEnd_other parent _ _ (fun c hc => hpar c hc name.start (by simp [Sheet.starts]))
      rw [hupd]
      have hnext := ihn rest (parent.adopt [(name.start, propEnd value, name.delimiter)]) stk none hn hr hnd (by
        intro c hc s hs'
        by_cases hpe : parent.chain = []
        · have : (parent.adopt [(name.start, propEnd value, name.delimiter)]).chain = [(name.start, propEnd value, name.delimiter)] := by
            unfold IR.adopt; simp [hpe]
          rw [this] at hc
          simp only [List.head?_cons, Option.some.injEq] at hc
          subst hc
          exact hname s hs'
        · rw [adopt_nonempty _ _ hpe] at hc
          exact hpar c hc s (by simp [Sheet.starts, hs']))
      rw [hnext]
      cases next.findIn src pos with
      | some out => rfl
      | none =>
        simp only [Sheet.chain]
        congr 2
        by_cases hpe : parent.chain = []
        · unfold IR.adopt; simp [hpe]
        · rw [adopt_nonempty _ _ hpe, adopt_nonempty _ _ hpe]


/-- at top level (empty stack) -/
theorem inwardLoop_top (src : Array Ch) (pos : Int) (sh : Sheet) : ∀ (rest : List Ev) (p : Option IR),
    sh.WF → RestOK rest → sh.starts.Pairwise (· ≠ ·) →
    inwardLoop src pos (sh.events ++ rest) [] p =
      match sh.findIn src pos with
      | some out => out
      | none => inwardLoop src pos rest [] none := by
  induction sh with
  | nil =>
    intro rest p _ hr _
    simp only [Sheet.events, Sheet.findIn, List.nil_append]
    exact inwardLoop_pending src pos rest _ p hr
  | rule sel body close next ihb ihn =>
    intro rest p hwf hr hd
    obtain ⟨hs, hc, hb, hn⟩ := hwf
    simp only [Sheet.starts, List.pairwise_cons, List.pairwise_append] at hd
    obtain ⟨hsel, hbd, hnd, hbn⟩ := hd
    simp only [Sheet.events, Sheet.findIn, List.cons_append, List.append_assoc]
    conv => lhs; unfold inwardLoop
    simp only [hs]
    rw [inwardLoop_events src pos body (close :: (next.events ++ rest)) { start := sel.start, stop := sel.stop, delimiter := sel.delimiter } [] none hb
      (Or.inr ⟨close, _, rfl, hc⟩) hbd (by intro c hc; cases hc)]
    cases hfb : body.findIn src pos with
    | some out => simp [Option.orElse]
    | none =>
      simp only [Option.orElse]
      conv => lhs; unfold inwardLoop
      simp only [hc]
      have hadopt : (IR.adopt { start := sel.start, stop := sel.stop, delimiter := sel.delimiter } body.chain) =
          { start := sel.start, stop := sel.stop, delimiter := sel.delimiter, chain := body.chain } := by
        unfold IR.adopt; rfl
      rw [hadopt]
      simp only
      by_cases hcond : (decide (sel.start ≤ pos) && decide (pos ≤ close.stop)) = true
      · simp only [hcond, if_true]; rfl
      · simp only [hcond, Bool.false_eq_true, if_false]
        exact ihn rest none hn hr hnd
  | decl name value next ihn =>
    intro rest p hwf hr hd
    obtain ⟨hnm, hv, hn⟩ := hwf
    simp only [Sheet.starts, List.pairwise_cons] at hd
    obtain ⟨_, hnd⟩ := hd
    simp only [Sheet.events, Sheet.findIn, List.cons_append]
    conv => lhs; unfold inwardLoop
    simp only [hnm]
    conv => lhs; unfold inwardLoop
    simp only [hv]
    by_cases hcond : (decide (name.start ≤ pos) && decide (pos ≤ value.stop)) = true
    · simp only [hcond, if_true]; rfl
    · simp only [hcond, Bool.false_eq_true, if_false]
      exact ihn rest none hn hr hnd

/-- **C10_inward (layer B)**: for every style sheet tree whose items start at pairwise different offsets and every position,
    `balanced_inward` = the ranges of the innermost item containing the position (bounds included), then of its chain of first
    children — or nothing when no item contains it. -/
theorem C10_inward (src : Array Ch) (pos : Int) (sh : Sheet) (h : sh.WF) (hd : sh.starts.Pairwise (· ≠ ·)) :
    inwardLoop src pos sh.events [] none = (sh.findIn src pos).getD [] := by
  have := inwardLoop_top src pos sh [] none h (Or.inl rfl) hd
  simp only [List.append_nil] at this
  rw [this]
  cases sh.findIn src pos with
  | some out => rfl
  | none => simp [inwardLoop]

end C
