import EmmetProofs.MathOrder
/-! C19, lexing half: the parser loop maps the printed form of a syntax tree to the token list `toks`. -/
namespace M

def okNext (k : Str) : Prop := ∀ c r, k = c :: r → isNumber c = false ∧ c ≠ 46

theorem spanP_append (p : Ch → Bool) (a k : Str) (ha : ∀ c ∈ a, p c = true) (hk : ∀ c r, k = c :: r → p c = false) :
    spanP p (a ++ k) = (a, k) := by
  induction a with
  | nil =>
    cases k with
    | nil => rfl
    | cons c r => simp [spanP, hk c r rfl]
  | cons x xs ih =>
    have hx := ha x (by simp)
    simp only [List.cons_append, spanP, hx, if_true]
    rw [ih (fun c hc => ha c (by simp [hc]))]

theorem parse_ws_step (fuel : Nat) (ws : Str) (c : Ch) (r : Str) (pos : Nat) (prio : Int) (expected : Nat) (acc : List Token)
    (hws : ∀ c ∈ ws, isWhiteSpace c = true) (hc : isWhiteSpace c = false) :
    spanP isWhiteSpace (ws ++ c :: r) = (ws, c :: r) :=
  spanP_append _ _ _ hws (by intro c' r' h; cases h; exact hc)

theorem ws_not (c : Ch) (h : isWhiteSpace c = true) : isNumber c = false ∧ c ≠ 46 ∧ isOperator c = false ∧ c ≠ 40 ∧ c ≠ 41 := by
  grind [isWhiteSpace, isNumber, isOperator]
theorem op_not (c : Ch) (h : isOperator c = true) : isNumber c = false ∧ c ≠ 46 ∧ isWhiteSpace c = false ∧ c ≠ 40 ∧ c ≠ 41 := by
  grind [isWhiteSpace, isNumber, isOperator]
theorem num_not (c : Ch) (h : isNumber c = true) : isWhiteSpace c = false ∧ c ≠ 46 ∧ isOperator c = false ∧ c ≠ 40 ∧ c ≠ 41 := by
  grind [isWhiteSpace, isNumber, isOperator]

theorem consumeNumber_none (c : Ch) (r : Str) (h1 : isNumber c = false) (h2 : c ≠ 46) : consumeNumber (c :: r) = none := by
  unfold consumeNumber
  split
  · rename_i heq; cases heq; exact absurd rfl h2
  · simp [spanP, h1]

/-- the loop body after blanks were skipped (`r0` non-empty, no number at `r0`) -/
theorem parseLoop_char (fuel : Nat) (ws : Str) (c : Ch) (r : Str) (pos : Nat) (prio : Int) (expected : Nat) (acc : List Token)
    (hws : ∀ c ∈ ws, isWhiteSpace c = true) (hcw : isWhiteSpace c = false) (h1 : isNumber c = false) (h2 : c ≠ 46) :
    parseLoop (fuel+1) (ws ++ c :: r) pos prio expected acc =
      (if isOperator c then
          if isSign c && has expected Sign then
            parseLoop fuel r (pos + ws.length + 1) prio (Primary + LParen + Sign)
              (if c == 45 then { type := .op1, op := c, priority := op1Prio c prio } :: acc else acc)
          else if !has expected Operator then .error (.math (pos + ws.length + 1))
          else parseLoop fuel r (pos + ws.length + 1) prio (Primary + LParen + Sign) ({ type := .op2, op := c, priority := op2Prio c prio } :: acc)
        else if c == 40 then
          if !has expected LParen then .error (.math (pos + ws.length + 1))
          else parseLoop fuel r (pos + ws.length + 1) (prio + 10) (Primary + LParen + Sign + NullaryCall) acc
        else if c == 41 then
          if prio - 10 < 0 then .error (.math (pos + ws.length + 1))
          else if has expected NullaryCall then parseLoop fuel r (pos + ws.length + 1) (prio - 10) (Operator + RParen) ({ type := .null } :: acc)
          else if !has expected RParen then .error (.math (pos + ws.length + 1))
          else parseLoop fuel r (pos + ws.length + 1) (prio - 10) (Operator + RParen) acc
        else .error (.math (pos + ws.length))) := by
  have hsp : spanP isWhiteSpace (ws ++ c :: r) = (ws, c :: r) :=
    spanP_append _ _ _ hws (by intro c' r' h; cases h; exact hcw)
  have hcn := consumeNumber_none c r h1 h2
  cases hw : ws ++ c :: r with
  | nil => simp at hw
  | cons x xs =>
    conv => lhs; unfold parseLoop
    rw [← hw]
    simp only [hsp, hcn]
def litStr (ds fs : Str) : Str := if fs = [] then ds else ds ++ 46 :: fs
def LitOK (ds fs : Str) : Prop := (∀ c ∈ ds, isNumber c = true) ∧ (∀ c ∈ fs, isNumber c = true) ∧ (ds ≠ [] ∨ fs ≠ [])

theorem okNext_num (k : Str) (h : okNext k) : ∀ c r, k = c :: r → isNumber c = false := fun c r e => (h c r e).1

theorem consumeNumber_lit (ds fs k : Str) (h : LitOK ds fs) (hk : okNext k) :
    consumeNumber (litStr ds fs ++ k) = some (ds, fs, k, (litStr ds fs).length) := by
  obtain ⟨hd, hf, hne⟩ := h
  cases ds with
  | nil =>
    cases fs with
    | nil => simp at hne
    | cons f fs' =>
      have hsp := spanP_append isNumber (f :: fs') k hf (okNext_num k hk)
      simp only [litStr, List.nil_append, List.cons_append, reduceCtorEq, if_false] at hsp ⊢
      unfold consumeNumber
      simp only [hsp]
      simp [Nat.add_comm]
  | cons d ds' =>
    have hdn := hd d (by simp)
    have hd46 : d ≠ 46 := (num_not d hdn).2.1
    cases fs with
    | nil =>
      have hsp := spanP_append isNumber (d :: ds') k hd (okNext_num k hk)
      simp only [litStr, if_true, List.cons_append] at hsp ⊢
      unfold consumeNumber
      split
      · rename_i heq; cases heq; exact absurd rfl hd46
      · simp only [hsp]
        cases k with
        | nil => simp
        | cons c r =>
          have := (hk c r rfl).2
          simp
          split
          · rename_i heq; cases heq; exact absurd rfl this
          · rfl
    | cons f fs' =>
      have hsp := spanP_append isNumber (d :: ds') (46 :: ((f :: fs') ++ k)) hd (by intro c r h; cases h; rfl)
      have hsp2 := spanP_append isNumber (f :: fs') k hf (okNext_num k hk)
      simp only [litStr, reduceCtorEq, if_false, List.cons_append, List.append_assoc] at hsp hsp2 ⊢
      unfold consumeNumber
      split
      · rename_i heq; cases heq; exact absurd rfl hd46
      · simp only [hsp, hsp2]
        simp [Nat.add_comm, Nat.add_left_comm, Nat.add_assoc]
theorem litStr_head (ds fs : Str) (h : LitOK ds fs) : ∃ c r, litStr ds fs = c :: r ∧ isWhiteSpace c = false := by
  obtain ⟨hd, hf, hne⟩ := h
  cases ds with
  | nil =>
    cases fs with
    | nil => simp at hne
    | cons f fs' => exact ⟨46, f :: fs', by simp [litStr], by decide⟩
  | cons d ds' =>
    have := (num_not d (hd d (by simp))).1
    cases fs with
    | nil => exact ⟨d, ds', by simp [litStr], this⟩
    | cons f fs' => exact ⟨d, ds' ++ 46 :: f :: fs', by simp [litStr], this⟩

theorem parse_num (fuel : Nat) (ws ds fs k : Str) (pos : Nat) (prio : Int) (expected : Nat) (acc : List Token)
    (hws : ∀ c ∈ ws, isWhiteSpace c = true) (hl : LitOK ds fs) (hk : okNext k) (hp : has expected Primary = true) :
    parseLoop (fuel+1) (ws ++ (litStr ds fs ++ k)) pos prio expected acc
      = parseLoop fuel k (pos + ws.length + (litStr ds fs).length) prio (Operator + RParen)
          ({ type := .num, value := mkNumber ds fs } :: acc) := by
  obtain ⟨c, r, hc, hcw⟩ := litStr_head ds fs hl
  have hsp : spanP isWhiteSpace (ws ++ (litStr ds fs ++ k)) = (ws, litStr ds fs ++ k) :=
    spanP_append _ _ _ hws (by intro c' r' h; rw [hc] at h; cases h; exact hcw)
  have hcn := consumeNumber_lit ds fs k hl hk
  cases hw : ws ++ (litStr ds fs ++ k) with
  | nil => rw [hc] at hw; simp at hw
  | cons x xs =>
    conv => lhs; unfold parseLoop
    rw [← hw]
    simp only [hsp, hcn, hp]
    simp
/-! ### syntax trees with their blanks, and the printer -/
inductive Sx
  | num (ws ds fs : Str)
  | paren (ws1 : Str) (e : Sx) (ws2 : Str)
  | neg (ws : Str) (e : Sx)
  | pos (ws : Str) (e : Sx)
  | bin (c : Ch) (ws : Str) (l r : Sx)

def Sx.render : Sx → Str
  | .num ws ds fs => ws ++ litStr ds fs
  | .paren ws1 e ws2 => ws1 ++ 40 :: (e.render ++ (ws2 ++ [41]))
  | .neg ws e => ws ++ 45 :: e.render
  | .pos ws e => ws ++ 43 :: e.render
  | .bin c ws l r => l.render ++ (ws ++ c :: r.render)

def Sx.toEx : Sx → Ex
  | .num _ ds fs => .num (mkNumber ds fs)
  | .paren _ e _ => .paren e.toEx
  | .neg _ e => .neg e.toEx
  | .pos _ e => e.toEx
  | .bin c _ l r => .bin c l.toEx r.toEx

def AllWs (ws : Str) : Prop := ∀ c ∈ ws, isWhiteSpace c = true

def Sx.SWF : Sx → Prop
  | .num ws ds fs => AllWs ws ∧ LitOK ds fs
  | .paren ws1 e ws2 => AllWs ws1 ∧ e.SWF ∧ AllWs ws2
  | .neg ws e => AllWs ws ∧ e.SWF
  | .pos ws e => AllWs ws ∧ e.SWF
  | .bin c ws l r => isOperator c = true ∧ AllWs ws ∧ l.SWF ∧ r.SWF

def Sx.ntok : Sx → Nat
  | .num _ _ _ => 1
  | .paren _ e _ => e.ntok + 2
  | .neg _ e => e.ntok + 1
  | .pos _ e => e.ntok + 1
  | .bin _ _ l r => l.ntok + r.ntok + 1

def Sx.expAfter : Sx → Nat
  | .num _ _ _ => Operator + RParen
  | .paren _ _ _ => Operator + RParen
  | .neg _ e => e.expAfter
  | .pos _ e => e.expAfter
  | .bin _ _ _ r => r.expAfter

theorem Sx.expAfter_cases (s : Sx) : s.expAfter = 10 ∨ s.expAfter = 14 := by
  induction s with
  | num => left; rfl
  | paren => left; rfl
  | neg _ _ ih => exact ih
  | pos _ _ ih => exact ih
  | bin _ _ _ _ _ ih => exact ih

theorem okNext_ws_cons (ws : Str) (c : Ch) (r : Str) (hws : AllWs ws) (h1 : isNumber c = false) (h2 : c ≠ 46) :
    okNext (ws ++ c :: r) := by
  intro c' r' h
  cases ws with
  | nil => simp at h; obtain ⟨rfl, _⟩ := h; exact ⟨h1, h2⟩
  | cons w ws' =>
    simp at h; obtain ⟨rfl, _⟩ := h
    have := ws_not w (hws w (by simp))
    exact ⟨this.1, this.2.1⟩

theorem lex (s : Sx) : ∀ (d fuel : Nat) (k : Str) (pos : Nat) (expected : Nat) (acc : List Token), s.SWF →
    has expected Primary = true → has expected LParen = true → has expected Sign = true → okNext k →
    parseLoop (fuel + s.ntok) (s.render ++ k) pos (10 * (d : Int)) expected acc
      = parseLoop fuel k (pos + s.render.length) (10 * (d : Int)) s.expAfter ((s.toEx.toks d).reverse ++ acc) := by
  induction s with
  | num ws ds fs =>
    intro d fuel k pos expected acc hwf hP hL hS hk
    obtain ⟨hws, hl⟩ := hwf
    simp only [Sx.ntok, Sx.render, List.append_assoc]
    rw [parse_num fuel ws ds fs k pos _ expected acc hws hl hk hP]
    simp [Sx.expAfter, Sx.toEx, Ex.toks, numTok, Nat.add_assoc]
  | paren ws1 e ws2 ih =>
    intro d fuel k pos expected acc hwf hP hL hS hk
    obtain ⟨hw1, he, hw2⟩ := hwf
    simp only [Sx.ntok, Sx.render, List.append_assoc, List.cons_append, List.nil_append]
    have hf : fuel + (e.ntok + 2) = (fuel + 1 + e.ntok) + 1 := by omega
    rw [hf, parseLoop_char _ ws1 40 _ pos _ expected acc hw1 (by decide) (by decide) (by decide)]
    simp only [show isOperator 40 = false by decide, hL]
    simp only [Bool.false_eq_true, if_false, beq_self_eq_true, if_true, Bool.not_true]
    have hd : (10 * (d : Int) + 10) = 10 * ((d + 1 : Nat) : Int) := by push_cast; omega
    rw [hd, ih (d+1) (fuel+1) (ws2 ++ 41 :: k) _ (Primary + LParen + Sign + NullaryCall) acc he (by decide) (by decide) (by decide)
      (okNext_ws_cons ws2 41 k hw2 (by decide) (by decide))]
    rw [parseLoop_char _ ws2 41 k _ _ _ _ hw2 (by decide) (by decide) (by decide)]
    simp only [show isOperator 41 = false by decide, show ((41:Nat) == 40) = false by decide]
    have hN : has e.expAfter NullaryCall = false := by rcases e.expAfter_cases with h | h <;> rw [h] <;> decide
    have hR : has e.expAfter RParen = true := by rcases e.expAfter_cases with h | h <;> rw [h] <;> decide
    have hd' : 10 * ((d + 1 : Nat) : Int) - 10 = 10 * (d : Int) := by push_cast; omega
    have hnn : ¬ (10 * ((d + 1 : Nat) : Int) - 10 < 0) := by rw [hd']; omega
    simp only [Bool.false_eq_true, if_false, beq_self_eq_true, if_true, hN, hR, Bool.not_true, hnn]
    have hpos : pos + ws1.length + 1 + e.render.length + ws2.length + 1 = pos + (ws1 ++ 40 :: (e.render ++ (ws2 ++ [41]))).length := by
      simp [List.length_append]; omega
    rw [hd', hpos]
    simp [Sx.expAfter, Sx.toEx, Ex.toks]
  | neg ws e ih =>
    intro d fuel k pos expected acc hwf hP hL hS hk
    obtain ⟨hw, he⟩ := hwf
    simp only [Sx.ntok, Sx.render, List.append_assoc, List.cons_append]
    have hf : fuel + (e.ntok + 1) = (fuel + e.ntok) + 1 := by omega
    rw [hf, parseLoop_char _ ws 45 _ pos _ expected acc hw (by decide) (by decide) (by decide)]
    simp only [show isOperator 45 = true by decide, show isSign 45 = true by decide, hS, Bool.and_self, if_true,
      beq_self_eq_true]
    rw [ih d fuel k _ (Primary + LParen + Sign) _ he (by decide) (by decide) (by decide) hk]
    have hpos : pos + ws.length + 1 + e.render.length = pos + (ws ++ 45 :: e.render).length := by
      simp [List.length_append]; omega
    rw [hpos]
    simp [Sx.expAfter, Sx.toEx, Ex.toks, negTok]
  | pos ws e ih =>
    intro d fuel k pos expected acc hwf hP hL hS hk
    obtain ⟨hw, he⟩ := hwf
    simp only [Sx.ntok, Sx.render, List.append_assoc, List.cons_append]
    have hf : fuel + (e.ntok + 1) = (fuel + e.ntok) + 1 := by omega
    rw [hf, parseLoop_char _ ws 43 _ pos _ expected acc hw (by decide) (by decide) (by decide)]
    simp only [show isOperator 43 = true by decide, show isSign 43 = true by decide, hS, Bool.and_self, if_true,
      show ((43:Nat) == 45) = false by decide, Bool.false_eq_true, if_false]
    rw [ih d fuel k _ (Primary + LParen + Sign) _ he (by decide) (by decide) (by decide) hk]
    have hpos : pos + ws.length + 1 + e.render.length = pos + (ws ++ 43 :: e.render).length := by
      simp [List.length_append]; omega
    rw [hpos]
    simp [Sx.expAfter, Sx.toEx]
  | bin c ws l r ihl ihr =>
    intro d fuel k pos expected acc hwf hP hL hS hk
    obtain ⟨hc, hw, hl, hr⟩ := hwf
    have hcn := op_not c hc
    simp only [Sx.ntok, Sx.render, List.append_assoc, List.cons_append]
    have hf : fuel + (l.ntok + r.ntok + 1) = (fuel + r.ntok + 1) + l.ntok := by omega
    rw [hf, ihl d _ (ws ++ c :: (r.render ++ k)) pos expected acc hl hP hL hS (okNext_ws_cons ws c _ hw hcn.1 hcn.2.1)]
    rw [parseLoop_char _ ws c _ _ _ _ _ hw hcn.2.2.1 hcn.1 hcn.2.1]
    have hSg : has l.expAfter Sign = false := by rcases l.expAfter_cases with h | h <;> rw [h] <;> decide
    have hO : has l.expAfter Operator = true := by rcases l.expAfter_cases with h | h <;> rw [h] <;> decide
    simp only [hc, if_true, hSg, Bool.and_false, Bool.false_eq_true, if_false, hO, Bool.not_true]
    rw [ihr d fuel k _ (Primary + LParen + Sign) _ hr (by decide) (by decide) (by decide) hk]
    have hpos : pos + l.render.length + ws.length + 1 + r.render.length = pos + (l.render ++ (ws ++ c :: r.render)).length := by
      simp [List.length_append]; omega
    rw [hpos]
    simp [Sx.expAfter, Sx.toEx, Ex.toks, binTok]
/-! ### end to end on the repaired `parse`/`evaluate` -/
theorem arity_toks (e : Ex) (d : Nat) : arity (e.toks d) + 1 = (e.toks d).length := by
  induction e generalizing d with
  | num v => simp [Ex.toks, arity, numTok]
  | paren e ih => simp only [Ex.toks]; exact ih (d+1)
  | neg e ih => have := ih d; simp [Ex.toks, arity, negTok] at this ⊢; omega
  | bin c l r ihl ihr =>
    have := ihl d; have := ihr d
    simp [Ex.toks, arity, binTok, List.sum_append] at * ; omega

theorem Sx.ntok_le (s : Sx) (h : s.SWF) : s.ntok ≤ s.render.length := by
  induction s with
  | num ws ds fs =>
    obtain ⟨c, r, hc, _⟩ := litStr_head ds fs h.2
    simp [Sx.ntok, Sx.render, hc]; omega
  | paren ws1 e ws2 ih => have := ih h.2.1; simp [Sx.ntok, Sx.render]; omega
  | neg ws e ih => have := ih h.2; simp [Sx.ntok, Sx.render]; omega
  | pos ws e ih => have := ih h.2; simp [Sx.ntok, Sx.render]; omega
  | bin c ws l r ihl ihr => have := ihl h.2.2.1; have := ihr h.2.2.2; simp [Sx.ntok, Sx.render]; omega

theorem orderF_toks (e : Ex) (h : e.WF) : orderF (e.toks 0) = (e.post 0).reverse := by
  have hc := claim e 0 [] [] h (by simp) { type := .null, priority := 0 }
    (by cases e <;> simp only [Ex.hi] <;> (try have := lvl_range ‹Ch›) <;> simp <;> omega)
  simp only [popWhile, List.append_nil] at hc
  have h1 : (popWhile { type := .null, priority := 0 } (orderLoopF (e.toks 0) [] []).1 (orderLoopF (e.toks 0) [] []).2).1 = [] := by rw [hc]
  have h2 := popWhile_fst_nil _ _ _ h1
  rw [hc] at h2
  simp only at h2
  unfold orderF
  rw [h2]; simp

theorem post_ne_nil (e : Ex) (d : Nat) : e.post d ≠ [] := by
  induction e generalizing d with
  | num v => simp [Ex.post]
  | paren e ih => simp only [Ex.post]; exact ih (d+1)
  | neg e ih => simp [Ex.post]
  | bin c l r _ _ => simp [Ex.post]

/-- **C19 (exact clause), end to end on the repaired model**: every printed, well-grouped expression
    evaluates to the value of its tree; division by zero is the only error. -/
theorem evaluateF_render (s : Sx) (hs : s.SWF) (hw : s.toEx.WF) :
    evaluateF s.render = (s.toEx.val >>= fun v => .ok (some v)) := by
  have hlen := s.ntok_le hs
  obtain ⟨f, hf⟩ : ∃ f, s.render.length + 1 = (f + 1) + s.ntok := ⟨s.render.length - s.ntok, by omega⟩
  have hlex := lex s 0 (f+1) [] 0 (Primary + LParen + Sign) [] hs (by decide) (by decide) (by decide)
    (by intro c r h; cases h)
  simp only [List.append_nil, Nat.zero_add] at hlex
  unfold evaluateF
  rw [hf]
  have h10 : (10 * ((0 : Nat) : Int)) = 0 := by simp
  rw [h10] at hlex
  rw [hlex]
  simp only [parseLoop, List.reverse_reverse, bind, Except.bind]
  have har := arity_toks s.toEx 0
  simp only [show ¬ ((0 : Int) ≥ 10) by omega, if_false, har, bne_self_eq_false, Bool.false_eq_true]
  rw [orderF_toks _ hw]
  have hne := post_ne_nil s.toEx 0
  have hemp : ((s.toEx.post 0).reverse).isEmpty = false := by
    cases h : (s.toEx.post 0).reverse with
    | nil => simp at h; exact absurd h hne
    | cons _ _ => rfl
  simp only [hemp, Bool.false_eq_true, if_false]
  have := eval_post s.toEx 0 [] []
  simp only [List.append_nil] at this
  rw [this]
  cases s.toEx.val with
  | error e => rfl
  | ok v => simp [evalLoop, bind, Except.bind, pure, Except.pure]

-- non-vacuity: "6 - -2/( 1+1)" is in the domain
example : (Sx.bin 45 [32] (.num [] [54] []) (.bin 47 [] (.neg [32] (.num [] [50] [])) (.paren [] (.bin 43 [] (.num [32] [49] []) (.num [] [49] [])) []))).SWF := by
  simp [Sx.SWF, AllWs, LitOK, isOperator, isWhiteSpace, isNumber]
end M
