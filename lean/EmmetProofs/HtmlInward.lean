import EmmetProofs.HtmlMatchB
/-! C09 layer B, `balanced_inward`: the tag found plus the chain of first children below it. -/
namespace H

/-- the chain "first tree of the forest, its first child, …" -/
def Forest.firstChain : Forest → List Matched
  | .nil => []
  | .leaf e _ => [⟨e.name, (e.start, e.stop), none⟩]
  | .pair n o c inner _ => ⟨n, o, some c⟩ :: inner.firstChain

/-- spec: the first element in post-order that contains `pos` (pairs: `open.start ≤ pos ≤ close.stop`; self-contained
    elements: strictly), followed by its first child, that one's first child, … -/
def Forest.findIn (pos : Int) : Forest → Option (List Matched)
  | .nil => none
  | .leaf e rest => if inside e.start e.stop pos then some [⟨e.name, (e.start, e.stop), none⟩] else rest.findIn pos
  | .pair n o c inner rest =>
    match inner.findIn pos with
    | some r => some r
    | none => if (o.1 : Int) ≤ pos && pos ≤ c.2 then some (⟨n, o, some c⟩ :: inner.firstChain) else rest.findIn pos

/-- a tag on the stack records the first tree of what was scanned below it, unless it already has one -/
def adopt (p : ITag) (f : Forest) : ITag := match p.chain with | [] => { p with chain := f.firstChain } | _ => p
def absorb (stack : List ITag) (f : Forest) : List ITag := match stack with | [] => [] | p :: rest => adopt p f :: rest

theorem inwardLoop_cons (xml : Bool) (pos : Int) (ev : Ev) (evs : List Ev) (stack : List ITag) :
    inwardLoop xml pos (ev :: evs) stack =
      (if ev.type == .close then
        match stack with
        | [] => inwardLoop xml pos evs stack
        | tag :: rest =>
          if tag.tag.name == ev.name then
            if (tag.tag.openR.1 : Int) ≤ pos && pos ≤ ev.stop then
              ⟨ev.name, tag.tag.openR, some (ev.start, ev.stop)⟩ :: tag.chain
            else
              match rest with
              | parent :: rest' => inwardLoop xml pos evs (parent.setFirstIfNone (tag.withClose (ev.start, ev.stop)) :: rest')
              | [] => inwardLoop xml pos evs []
          else inwardLoop xml pos evs stack
      else if ev.type == .selfClose || isSelfClose ev.name xml then
        if (ev.start : Int) < pos && pos < ev.stop then [⟨ev.name, (ev.start, ev.stop), none⟩]
        else
          match stack with
          | parent :: rest => inwardLoop xml pos evs (parent.setFirstIfNone (ITag.new ev.name (ev.start, ev.stop)) :: rest)
          | [] => inwardLoop xml pos evs []
      else inwardLoop xml pos evs (ITag.new ev.name (ev.start, ev.stop) :: stack)) := by
  conv => lhs; unfold inwardLoop
  rfl

theorem adopt_nil (p : ITag) : adopt p .nil = p := by
  unfold adopt; split
  · rename_i h; cases p; simp_all [Forest.firstChain]
  · rfl
theorem absorb_nil (stack : List ITag) : absorb stack .nil = stack := by
  cases stack <;> simp [absorb, adopt_nil]

theorem inward_forest (xml : Bool) (pos : Int) (f : Forest) (hwf : f.WF xml) :
    ∀ (tail : List Ev) (stack : List ITag),
      inwardLoop xml pos (f.events ++ tail) stack =
        match f.findIn pos with
        | some r => r
        | none => inwardLoop xml pos tail (absorb stack f) := by
  induction f with
  | nil => intro tail stack; simp [Forest.events, Forest.findIn, absorb_nil]
  | leaf e rest ih =>
    intro tail stack
    obtain ⟨hl, hr⟩ := hwf
    simp only [Forest.events, List.cons_append, Forest.findIn]
    rw [inwardLoop_cons]
    simp only [isLeafEv, Bool.or_eq_true, Bool.and_eq_true, beq_iff_eq] at hl
    have h1 : (e.type == ElemType.close) = false := by
      rcases hl with hsc | ⟨hop, _⟩ <;> simp_all
    have h2 : (e.type == .selfClose || isSelfClose e.name xml) = true := by
      rcases hl with hsc | ⟨_, hself⟩ <;> simp_all
    simp only [h1, h2, Bool.false_eq_true, if_false, if_true, inside]
    by_cases h : ((e.start : Int) < pos && pos < e.stop) = true
    · simp [h]
    · simp only [h, Bool.false_eq_true, if_false]
      cases stack with
      | nil =>
        simp only [ih hr tail []]
        cases rest.findIn pos <;> simp [absorb]
      | cons p ps =>
        simp only [ih hr tail _]
        cases rest.findIn pos with
        | some r => rfl
        | none =>
          simp only [absorb]
          congr 2
          unfold adopt ITag.setFirstIfNone
          cases hp : p.chain with
          | nil => simp [ITag.new, Forest.firstChain, hp]
          | cons a b => simp [hp]
  | pair n o c inner rest ihi ihr =>
    intro tail stack
    obtain ⟨hn, hwi, hwr⟩ := hwf
    simp only [Forest.events, List.cons_append, List.append_assoc, Forest.findIn]
    rw [inwardLoop_cons]
    simp only [show (ElemType.open == ElemType.close) = false from rfl, show (ElemType.open == ElemType.selfClose) = false from rfl,
      hn, Bool.false_or, Bool.false_eq_true, if_false]
    rw [ihi hwi]
    cases hfi : inner.findIn pos with
    | some r => simp
    | none =>
      simp only [absorb]
      rw [inwardLoop_cons]
      have hnew : adopt (ITag.new n o) inner = ⟨⟨n, o, none⟩, inner.firstChain⟩ := by simp [adopt, ITag.new]
      simp only [hnew, beq_self_eq_true, if_true]
      by_cases h : ((o.1 : Int) ≤ pos && pos ≤ c.2) = true
      · simp [h]
      · simp only [h, Bool.false_eq_true, if_false]
        cases stack with
        | nil =>
          simp only [ihr hwr tail []]
          cases rest.findIn pos <;> simp [absorb]
        | cons p ps =>
          simp only [ihr hwr tail _]
          cases rest.findIn pos with
          | some r => rfl
          | none =>
            simp only [absorb]
            congr 2
            unfold adopt ITag.setFirstIfNone
            cases hp : p.chain with
            | nil => simp [ITag.withClose, Forest.firstChain, hp]
            | cons a b => simp [hp]

/-- **C09_inward (layer B)**: for every well-formed forest and every position -/
theorem C09_inward (xml : Bool) (pos : Int) (f : Forest) (hwf : f.WF xml) :
    inwardLoop xml pos f.events [] = (f.findIn pos).getD [] := by
  have := inward_forest xml pos f hwf [] []
  simp only [List.append_nil] at this
  rw [this]
  cases f.findIn pos <;> simp [inwardLoop]
end H
