import Emmet.Markup.Html
namespace T
/-- the configured quote characters, braces for an expression -/
def quotesOf (op : Options) (a : AAttr) : Str × Str :=
  if a.valueType == .expression then ([123], [125]) else if op.singleQuotes then ([39], [39]) else ([34], [34])

def valTruthy (v : Option (List VTok)) : Bool := match v with | some (_ :: _) => true | _ => false

/-- rendering of one attribute when no name map / value prefix applies (html, xml, … : everything but jsx / vue `class`-like entries) -/
theorem attrParts_plain (op : Options) (a : AAttr) (n0 : Ch) (ns : Str) (hn : a.name = some (n0 :: ns))
    (hm : op.markupAttributes = []) (hp : op.valuePrefix = []) :
    attrParts op a = some (attrNameCase op (n0 :: ns),
      (if (a.boolean || op.booleanAttributes.contains (lower (n0 :: ns))) && !valTruthy a.value then
          (if !op.compactBoolean then some [.str (attrNameCase op (n0 :: ns))] else a.value)
        else if !valTruthy a.value then some caret else a.value),
      (quotesOf op a).1, (quotesOf op a).2) := by
  unfold attrParts
  simp only [hn, hm, hp, List.isEmpty, if_true, quotesOf, valTruthy]
  cases hv : a.value with
  | none => by_cases he : (a.valueType == .expression) = true <;> by_cases hq : op.singleQuotes = true <;> simp [he, hq]
  | some l =>
    cases l with
    | nil => by_cases he : (a.valueType == .expression) = true <;> by_cases hq : op.singleQuotes = true <;> simp [he, hq]
    | cons x xs => by_cases he : (a.valueType == .expression) = true <;> by_cases hq : op.singleQuotes = true <;> simp [he, hq]

/-- an implied attribute (`!name`) is dropped exactly when it has no value (and is not an expression) -/
theorem shouldOutput_spec (a : AAttr) :
    shouldOutputAttribute a = false ↔ (a.implied = true ∧ a.valueType = .raw ∧ valTruthy a.value = false) := by
  unfold shouldOutputAttribute valTruthy
  cases a.implied <;> cases a.valueType <;> cases hv : a.value with
  | none => simp
  | some l => cases l <;> simp
end T
