import EmmetProofs.CssActionRanges
import EmmetProofs.CssScanOrder
namespace C

/-- a reported section is well formed: it contains the position, lies inside the source, and its body lies between its braces -/
def SecOK (n pos : Int) (s : Section) : Prop :=
  0 ≤ s.start ∧ s.start ≤ pos ∧ pos ≤ s.stop ∧ s.stop ≤ n ∧ 0 ≤ s.bodyStart ∧ s.bodyStart ≤ s.bodyEnd ∧ s.bodyEnd ≤ s.stop

/-- an open selector on the stack: in range and before everything still to come -/
def StackOK (_n : Int) (evs : List Ev) (r : Rng) : Prop :=
  0 ≤ r.1 ∧ -1 ≤ r.2.2 ∧ ∀ b ∈ evs, r.2.2 + 1 ≤ b.start

theorem sectionLoop_ok (n pos : Int) : ∀ (evs : List Ev) (stack : List Rng),
    (∀ e ∈ evs, EvOK n e) → evs.Pairwise (fun a b => Le a b.start) → (∀ r ∈ stack, StackOK n evs r) →
    ∀ s, sectionLoop pos evs stack = some s → SecOK n pos s := by
  intro evs
  induction evs with
  | nil => intro stack _ _ _ s h; simp [sectionLoop] at h
  | cons ev evs ih =>
    intro stack hok hsort hst s h
    have hev := hok ev (List.mem_cons_self ..)
    have hok' : ∀ e ∈ evs, EvOK n e := fun e he => hok e (List.mem_cons_of_mem _ he)
    have hsort' := (List.pairwise_cons.mp hsort).2
    have hle := (List.pairwise_cons.mp hsort).1
    have hst' : ∀ r ∈ stack, StackOK n evs r := fun r hr =>
      let ⟨a, b, c⟩ := hst r hr; ⟨a, b, fun x hx => c x (List.mem_cons_of_mem _ hx)⟩
    unfold sectionLoop at h
    split at h
    · cases h
    · cases hty : ev.type with
      | selector =>
        simp only [hty] at h
        apply ih _ hok' hsort' _ s h
        intro r hr
        rcases List.mem_cons.mp hr with rfl | hr
        · refine ⟨hev.1, ?_, fun b hb => ?_⟩
          · rcases hev.2.2.2 with h1 | h1 <;> simp only <;> omega
          · exact (hle b hb).2 hty
        · exact hst' r hr
      | blockEnd =>
        simp only [hty] at h
        cases stack with
        | nil => exact ih [] hok' hsort' (by simp) s h
        | cons sel rest =>
          simp only at h
          split at h
          · rename_i hc
            simp only [Bool.and_eq_true, decide_eq_true_eq] at hc
            cases h
            have hs := hst sel (List.mem_cons_self ..)
            have hb := hs.2.2 ev (List.mem_cons_self ..)
            refine ⟨hs.1, hc.1, hc.2, hev.2.2.1, ?_, hb, hev.2.1⟩
            show 0 ≤ sel.2.2 + 1
            have := hs.2.1; omega
          · exact ih rest hok' hsort' (fun r hr => hst' r (List.mem_cons_of_mem _ hr)) s h
      | propertyName => simp only [hty] at h; exact ih stack hok' hsort' hst' s h
      | propertyValue => simp only [hty] at h; exact ih stack hok' hsort' hst' s h
/-- `get_css_section` for EVERY source and position -/
theorem getCssSection_ranges (src : Str) (pos : Int) :
    ∀ s, sectionLoop pos (scan src) [] = some s → SecOK src.length pos s :=
  sectionLoop_ok src.length pos (scan src) [] (scan_ranges src) (scan_sorted src) (by simp)
end C
