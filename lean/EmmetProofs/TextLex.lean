import Emmet.Abbr.Tok
/-! C04, lexing of text: inside `{…}` the tokenizer model turns ANY payload of the text grammar — ordinary characters (operators,
    brackets, quotes, `*` … included), `\c` escapes, balanced inner braces — into ONE literal token whose value is the payload with
    the escapes resolved, and stops exactly at the closing brace. -/
namespace T

/-- text payloads and what they denote: `Txt w d` = payload `w` reads as the characters `d` -/
inductive Txt : Str → Str → Prop
  | nil : Txt [] []
  | chr (c : Ch) (w d : Str) : c ≠ 92 → c ≠ 123 → c ≠ 125 → c ≠ 36 → Txt w d → Txt (c :: w) (c :: d)     -- any character but \ { } $
  | esc (c : Ch) (w d : Str) : Txt w d → Txt (92 :: c :: w) (c :: d)                                      -- `\c` is the character c
  | nest (a da w d : Str) : Txt a da → Txt w d → Txt (123 :: (a ++ 125 :: w)) (123 :: (da ++ 125 :: d))   -- balanced inner braces are kept

/-- a tokenizer context inside text: no quote open, brace depth `ce ≥ 1` -/
def tctx (cg ca ce : Int) : Ctx := ⟨cg, ca, ce, none⟩

theorem allowedOp_expr (ch : Ch) (cg ca ce : Int) (h : 1 ≤ ce) : isAllowedOperator ch (tctx cg ca ce) = false := by
  unfold isAllowedOperator tctx
  split
  · rfl
  · have : (ce != 0) = true := by simp; omega
    simp [this]

/-- one step of the literal loop on an ordinary character inside text -/
theorem lit_step (es : Int) (hes : es ≠ 0) (c : Ch) (xs : Str) (fuel : Nat) (prev : Option Ch) (cg ca ce : Int) (v u : Str) (he : 1 ≤ ce)
    (h1 : c ≠ 92) (h4 : c ≠ 36) :
    literalLoop es (fuel + 1) (c :: xs) prev (tctx cg ca ce) v u =
      if c == 123 then literalLoop es fuel xs (some c) (tctx cg ca (ce + 1)) (c :: v) (c :: u)
      else if c == 125 then
        (if ce > 1 then literalLoop es fuel xs (some c) (tctx cg ca (ce - 1)) (c :: v) (c :: u) else (v.reverse, u.reverse, c :: xs, tctx cg ca ce))
      else literalLoop es fuel xs (some c) (tctx cg ca ce) (c :: v) (c :: u) := by
  conv => lhs; unfold literalLoop
  have c1 : (c == 92) = false := by simpa using h1
  have c4 : (c == 36) = false := by simpa using h4
  have c5 : (ce == 0) = false := by simp; omega
  have c6 : (es != 0) = true := by simpa using hes
  have c7 := allowedOp_expr c cg ca ce he
  simp only [tctx] at c7 ⊢
  simp only [c1, Bool.false_eq_true, if_false, c5, Bool.and_false, Bool.false_and, c4, c7, Bool.or_false, c6, if_true,
    show ((none : Option Ch) == some c) = false from rfl]
  split
  · rfl
  · split
    · rename_i h125
      split
      · rename_i hgt; simp [hgt]
      · rename_i hgt; simp [hgt]
    · rfl

theorem lit_txt (es : Int) (hes : es ≠ 0) {w d : Str} (h : Txt w d) : ∀ (k : Str) (F : Nat) (prev : Option Ch) (cg ca ce : Int) (v u : Str),
    1 ≤ ce → w.length ≤ F →
    ∃ fuel' prev', F ≤ fuel' + w.length ∧
      literalLoop es F (w ++ k) prev (tctx cg ca ce) v u =
        literalLoop es fuel' k prev' (tctx cg ca ce) (d.reverse ++ v) (w.reverse ++ u) := by
  induction h with
  | nil => intro k F prev cg ca ce v u _ _; exact ⟨F, prev, by simp, by simp⟩
  | chr c w d h1 h2 h3 h4 _ ih =>
    intro k F prev cg ca ce v u he hF
    obtain ⟨F', rfl⟩ : ∃ F', F = F' + 1 := ⟨F - 1, by simp only [List.length_cons] at hF; omega⟩
    obtain ⟨f', p', hf, hr⟩ := ih k F' (some c) cg ca ce (c :: v) (c :: u) he (by simp only [List.length_cons] at hF; omega)
    refine ⟨f', p', by simp only [List.length_cons]; omega, ?_⟩
    rw [List.cons_append, lit_step es hes c _ _ prev cg ca ce v u he h1 h4]
    have c2 : (c == 123) = false := by simpa using h2
    have c3 : (c == 125) = false := by simpa using h3
    simp only [c2, c3, Bool.false_eq_true, if_false]
    rw [hr]; simp
  | esc c w d _ ih =>
    intro k F prev cg ca ce v u he hF
    obtain ⟨F', rfl⟩ : ∃ F', F = F' + 1 := ⟨F - 1, by simp only [List.length_cons] at hF; omega⟩
    obtain ⟨f', p', hf, hr⟩ := ih k F' (some c) cg ca ce (c :: v) (c :: 92 :: u) he (by simp only [List.length_cons] at hF; omega)
    refine ⟨f', p', by simp only [List.length_cons]; omega, ?_⟩
    simp only [List.cons_append]
    conv => lhs; unfold literalLoop
    simp only [beq_self_eq_true, if_true]
    rw [hr]; simp
  | nest a da w d _ _ iha ihw =>
    intro k F prev cg ca ce v u he hF
    have hlen : (123 :: (a ++ 125 :: w)).length = a.length + w.length + 2 := by simp; omega
    rw [hlen] at hF
    obtain ⟨F1, rfl⟩ : ∃ F1, F = F1 + 1 := ⟨F - 1, by omega⟩
    obtain ⟨f1, p1, hf1, hr1⟩ := iha (125 :: (w ++ k)) F1 (some 123) cg ca (ce + 1) (123 :: v) (123 :: u) (by omega) (by omega)
    obtain ⟨g, rfl⟩ : ∃ g, f1 = g + 1 := ⟨f1 - 1, by omega⟩
    obtain ⟨f2, p2, hf2, hr2⟩ := ihw k g (some 125) cg ca ce (125 :: (da.reverse ++ 123 :: v)) (125 :: (a.reverse ++ 123 :: u)) he (by omega)
    refine ⟨f2, p2, by rw [hlen]; omega, ?_⟩
    have el : (123 :: (a ++ 125 :: w)) ++ k = 123 :: (a ++ 125 :: (w ++ k)) := by simp
    rw [el, lit_step es hes 123 _ _ prev cg ca ce v u he (by decide) (by decide)]
    simp only [beq_self_eq_true, if_true]
    rw [hr1, lit_step es hes 125 _ _ p1 cg ca (ce + 1) _ _ (by omega) (by decide) (by decide)]
    have c7 : (ce + 1 > 1) := by omega
    simp only [show ((125 : Ch) == 123) = false from rfl, Bool.false_eq_true, if_false, beq_self_eq_true, if_true, c7]
    have e2 : ce + 1 - 1 = ce := by omega
    rw [e2, hr2]
    simp

/-- **C04, lexing**: at brace depth 1 (right after the `{` of a text), for ANY payload `w` of the text grammar followed by the closing
    brace, `literal` consumes exactly `w` and yields ONE literal token whose value is what `w` denotes; the context is unchanged. -/
theorem literal_text {w d : Str} (h : Txt w d) (hne : w ≠ []) (post : Str) (prev : Option Ch) (cg ca : Int) :
    literal (w ++ 125 :: post) prev (tctx cg ca 1) = some (⟨.literal d, w, 125 :: post⟩, tctx cg ca 1) := by
  unfold literal
  have hes : (tctx cg ca 1).expr ≠ 0 := by simp [tctx]
  obtain ⟨f, p, hf, hr⟩ := lit_txt (tctx cg ca 1).expr hes h (125 :: post) ((w ++ 125 :: post).length + 1) prev cg ca 1 [] [] (by omega)
    (by simp; omega)
  rw [hr]
  obtain ⟨g, rfl⟩ : ∃ g, f = g + 1 := ⟨f - 1, by simp at hf; omega⟩
  rw [lit_step _ hes 125 _ _ p cg ca 1 _ _ (by omega) (by decide) (by decide)]
  simp only [show ((125 : Ch) == 123) = false from rfl, Bool.false_eq_true, if_false, beq_self_eq_true, if_true,
    show ¬ ((1 : Int) > 1) by omega, List.append_nil, List.reverse_reverse]
  have : (w == []) = false := by cases w with | nil => exact absurd rfl hne | cons a b => rfl
  simp [this]


theorem txt_head {w d : Str} (h : Txt w d) : ∀ c r, w = c :: r → c ≠ 36 := by
  intro c r hw
  cases h with
  | nil => cases hw
  | chr c' w' d' h1 h2 h3 h4 _ => simp only [List.cons.injEq] at hw; rw [← hw.1]; exact h4
  | esc c' w' d' _ => simp only [List.cons.injEq] at hw; rw [← hw.1]; decide
  | nest a da w' d' _ _ => simp only [List.cons.injEq] at hw; rw [← hw.1]; decide

/-- **C04, lexing, main loop**: one iteration of the tokenizer's main loop at the start of a text payload that does not begin with
    white space: none of the `$` consumers, the repeater or the operator / bracket / quote consumers applies — the whole payload
    becomes one literal token. (Leading white space is a white-space token of its own, which `C04_text_tokens` covers.) -/
theorem step_text {w d : Str} (h : Txt w d) (hne : w ≠ []) (hsp : ∀ c r, w = c :: r → isSpace c = false)
    (post : Str) (pos : Nat) (prev : Option Ch) (cg ca : Int) :
    step (w ++ 125 :: post) pos prev (tctx cg ca 1) = .ok (some (⟨.literal d, w, 125 :: post⟩, tctx cg ca 1)) := by
  cases w with
  | nil => exact absurd rfl hne
  | cons c r =>
    have h36 : c ≠ 36 := txt_head h c r rfl
    have hs : isSpace c = false := hsp c r rfl
    have hlit := literal_text h hne post prev cg ca
    have c36 : (c == 36) = false := by simpa using h36
    unfold step
    have hfield : field ((c :: r) ++ 125 :: post) pos (tctx cg ca 1) = .ok none := by
      unfold field
      split
      · split
        · rename_i heq; simp only [List.cons_append, List.cons.injEq] at heq; exact absurd heq.1 h36
        · rfl
      · rfl
    have hrp : repeaterPlaceholder ((c :: r) ++ 125 :: post) = none := by
      unfold repeaterPlaceholder
      split
      · rename_i heq; simp only [List.cons_append, List.cons.injEq] at heq; exact absurd heq.1 h36
      · rfl
    have hrn : repeaterNumber ((c :: r) ++ 125 :: post) = none := by
      unfold repeaterNumber
      simp [spanP, c36]
    have hrc : repeaterCtx ((c :: r) ++ 125 :: post) (tctx cg ca 1) = none := by
      unfold repeaterCtx; simp [tctx]
    have hws : whiteSpace ((c :: r) ++ 125 :: post) = none := by
      unfold whiteSpace
      simp [spanP, hs]
    rw [hfield]; simp only
    rw [hrp]; simp only
    rw [hrn]; simp only
    rw [hrc]; simp only
    rw [hws]; simp only
    rw [hlit]

end T
