import Emmet.Markup.Indent
/-! C15 / C12 key lemma: every formatter function restores the stream's `level`, so the indentation pushed for an
    element is (level at entry of the root) + (depth of the element). -/
namespace T

@[simp] theorem Out.push_level (o : Out) (s : Str) : (o.push s).level = o.level := rfl
@[simp] theorem Out.pushIndent_level (o : Out) (op : Options) (k : Int) : (o.pushIndent op k).level = o.level := rfl
@[simp] theorem Out.pushNewline_level (o : Out) (op : Options) (ind : Option (Option Int)) :
    (o.pushNewline op ind).level = o.level := by
  unfold Out.pushNewline
  cases ind with
  | none => rfl
  | some x => cases x with
    | none => rfl
    | some k => simp only; split <;> rfl
theorem foldl_level {α : Type} (f : Out → α → Out) (hf : ∀ o a, (f o a).level = o.level) (l : List α) (o : Out) :
    (l.foldl f o).level = o.level := by
  induction l generalizing o with
  | nil => rfl
  | cons a l ih => simp only [List.foldl_cons]; rw [ih, hf]
@[simp] theorem Out.pushString_level (o : Out) (op : Options) (s : Str) : (o.pushString op s).level = o.level := by
  unfold Out.pushString
  split
  · rfl
  · rw [foldl_level _ (by intro o a; simp)]; simp
@[simp] theorem Out.pushField_level (o : Out) (i : Nat) (ph : Str) : (o.pushField i ph).level = o.level := rfl

theorem tokFold_level (op : Options) (l : List VTok) (acc : Out × Int) : (l.foldl (tokStep op) acc).1.level = acc.1.level := by
  induction l generalizing acc with
  | nil => rfl
  | cons t l ih =>
    simp only [List.foldl_cons]
    rw [ih]
    cases t <;> simp [tokStep]
@[simp] theorem pushTokens_level (op : Options) (ts : List VTok) (o : Out) : (pushTokens op ts o).level = o.level := by
  unfold pushTokens
  simp only
  split
  · exact tokFold_level op ts (o, -1)
  · exact tokFold_level op ts (o, -1)

@[simp] theorem pushPrimary_level (op : Options) (attrs : List AAttr) (o : Out) : (pushPrimary op attrs o).level = o.level := by
  unfold pushPrimary
  apply foldl_level
  intro o a
  split
  · split <;> simp
  · rfl

theorem secStep_level (op : Options) (io : IndentOpts) (n : Nat) (acc : Out × Nat) (a : AAttr) :
    (secStep op io n acc a).1.level = acc.1.level := by
  obtain ⟨oc, i⟩ := acc
  unfold secStep
  simp only
  (repeat' split) <;> simp

@[simp] theorem pushSecondary_level (op : Options) (io : IndentOpts) (attrs : List AAttr) (o : Out) :
    (pushSecondary op io attrs o).level = o.level := by
  unfold pushSecondary
  have hf : ∀ (l : List AAttr) (acc : Out × Nat), (l.foldl (secStep op io attrs.length) acc).1.level = acc.1.level := by
    intro l
    induction l with
    | nil => intro acc; rfl
    | cons a l ih => intro acc; simp only [List.foldl_cons]; rw [ih, secStep_level]
  split
  · rfl
  · simp only
    split <;> split <;> simp [hf]

theorem textLineStep_level (op : Options) (io : IndentOpts) (mx field : Nat) (acc : Out × Nat) (x : List VTok × Nat) :
    (textLineStep op io mx field acc x).1.level = acc.1.level := by
  unfold textLineStep
  simp only
  (repeat' split) <;> simp

theorem textLines_level (op : Options) (io : IndentOpts) (mx field : Nat) (l : List (List VTok × Nat)) (acc : Out × Nat) :
    (l.foldl (textLineStep op io mx field) acc).1.level = acc.1.level := by
  induction l generalizing acc with
  | nil => rfl
  | cons a l ih => simp only [List.foldl_cons]; rw [ih, textLineStep_level]

@[simp] theorem pushValue_level (op : Options) (io : IndentOpts) (node : ANode) (o : Out) :
    (pushValue op io node o).level = o.level := by
  unfold pushValue
  split
  · rfl
  · simp only
    (repeat' split) <;> (try simp) <;>
      (rw [textLines_level]; simp)

theorem indent_level (op : Options) (io : IndentOpts) : ∀ (fuel : Nat),
    (∀ node index hasParent o, (indentElement op io fuel node index hasParent o).level = o.level) ∧
    (∀ cs i o, (indentChildren op io fuel cs i o).level = o.level) := by
  intro fuel
  induction fuel with
  | zero => exact ⟨fun _ _ _ _ => by simp [indentElement], fun _ _ _ => by simp [indentChildren]⟩
  | succ f ih =>
    obtain ⟨ihE, ihC⟩ := ih
    constructor
    · intro node index hasParent o
      unfold indentElement
      simp only
      split
      · split <;> (repeat' split) <;> simp
      · rw [ihC]; (repeat' split) <;> simp
    · intro cs i o
      cases cs with
      | nil => simp [indentChildren]
      | cons c rest => unfold indentChildren; rw [ihC, ihE]

/-- **level restoration**: after formatting any element (or child list) the stream is back at the level it had, so
    every child of an element is entered at the same level, one more than its parent's: indentation = depth. -/
theorem indentElement_level (op : Options) (io : IndentOpts) (fuel : Nat) (node : ANode) (index : Nat) (hasParent : Bool) (o : Out) :
    (indentElement op io fuel node index hasParent o).level = o.level := (indent_level op io fuel).1 node index hasParent o

end T
