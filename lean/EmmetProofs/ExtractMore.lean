import EmmetProofs.ExtractConsistent
/-! C11, further clauses: the end of a result is the look-ahead adjusted position; with a prefix, the prefix is the text found
    at `start` and the abbreviation lies to its right. -/
namespace X

/-- the caret position after clamping to the line and after look-ahead (`offset_past_auto_closed`) -/
def lookPos (line : Str) (pos : Int) (o : Opts) : Nat :=
  let p0 : Nat := (min (line.length : Int) (max 0 pos)).toNat
  if o.lookAhead then p0 + offsetPast (line.drop p0) o.markup else p0

theorem extract_stop (line : Str) (pos : Int) (o : Opts) (r : Result) (h : extract line pos o = some r) :
    r.stop = lookPos line pos o := by
  unfold extract at h
  unfold lookPos
  simp only at h ⊢
  generalize hp0 : (min (line.length : Int) (max 0 pos)).toNat = p0 at h ⊢
  generalize hp : (if o.lookAhead = true then p0 + offsetPast (line.drop p0) o.markup else p0) = p at h ⊢
  split at h
  · cases h
  · rename_i start hstart
    generalize hml : mainLoop o.markup (((line.take p).reverse.take (p - start)).length + 1) ((line.take p).reverse.take (p - start)) [] = ml at h
    obtain ⟨rest, stack⟩ := ml
    simp only at h
    split at h
    · cases h; rfl
    · cases h

theorem consumeListRev_prefix : ∀ (rp l r : Str), consumeListRev rp l = some r → l = rp ++ r := by
  intro rp
  induction rp with
  | nil => intro l r h; cases l <;> simp [consumeListRev] at h <;> simp [h]
  | cons p ps ih =>
    intro l r h
    cases l with
    | nil => simp [consumeListRev] at h
    | cons x xs =>
      simp only [consumeListRev] at h
      split at h
      · rename_i hpx
        have := ih xs r h
        simp at hpx
        simp [this, hpx]
      · cases h

/-- where `get_start_offset` stops, the (reversed) prefix is what lies immediately to the left -/
theorem startOffsetLoop_spec (rp : Str) : ∀ (fuel : Nat) (l : Str) (n : Nat), startOffsetLoop rp fuel l = some n →
    ∃ pre r, l = pre ++ (rp ++ r) ∧ (rp ++ r).length = n := by
  intro fuel
  induction fuel with
  | zero => intro l n h; simp [startOffsetLoop] at h
  | succ f ih =>
    intro l n h
    cases l with
    | nil => simp [startOffsetLoop] at h
    | cons x xs =>
      simp only [startOffsetLoop] at h
      split at h
      · rename_i r hr
        obtain ⟨pre, r', he, hn⟩ := ih r n h
        -- r is a suffix of x :: xs
        have hsuf : ∃ pre0, (x :: xs) = pre0 ++ r := by
          have key : ∀ (cl op : Ch) (s t : Str), consumePair cl op s = some t → ∃ p, s = p ++ t := by
            intro cl op s t hc
            cases s with
            | nil => simp [consumePair] at hc
            | cons c ys =>
              simp only [consumePair] at hc
              split at hc
              · have hf : ∀ (zs t : Str), consumePair.find op zs = some t → ∃ p, zs = p ++ t := by
                  intro zs
                  induction zs with
                  | nil => intro t ht; simp [consumePair.find] at ht
                  | cons z zs ihz =>
                    intro t ht
                    simp only [consumePair.find] at ht
                    split at ht
                    · cases ht; exact ⟨[z], rfl⟩
                    · obtain ⟨p, hp⟩ := ihz t ht; exact ⟨z :: p, by simp [hp]⟩
                obtain ⟨p, hp⟩ := hf ys t hc
                exact ⟨c :: p, by simp [hp]⟩
              · cases hc
          cases h1 : consumePair 93 91 (x :: xs) with
          | some r1 => simp [h1] at hr; subst hr; exact key _ _ _ _ h1
          | none => simp [h1] at hr; exact key _ _ _ _ hr
        obtain ⟨pre0, hp0⟩ := hsuf
        exact ⟨pre0 ++ pre, r', by rw [hp0, he]; simp, hn⟩
      · split at h
        · rename_i rr hc
          cases h
          have := consumeListRev_prefix rp (x :: xs) rr hc
          exact ⟨[], rr, by simpa using this, by rw [← this]⟩
        · obtain ⟨pre, r', he, hn⟩ := ih xs n h
          exact ⟨x :: pre, r', by simp [he], hn⟩

/-- **C11, prefix clause**: with a configured prefix, a result has the prefix at `start` and the abbreviation to its right -/
theorem extract_prefix (line : Str) (pos : Int) (o : Opts) (r : Result) (h : extract line pos o = some r)
    (hp : o.pfx ≠ []) :
    (line.drop r.start).take o.pfx.length = o.pfx ∧ r.start + o.pfx.length ≤ r.location := by
  unfold extract at h
  simp only at h
  generalize hp0 : (min (line.length : Int) (max 0 pos)).toNat = p0 at h
  generalize hpp : (if o.lookAhead = true then p0 + offsetPast (line.drop p0) o.markup else p0) = p at h
  have hple : p ≤ line.length := by
    have := offsetPast_le (line.drop p0) o.markup
    simp only [List.length_drop] at this
    have : p0 ≤ line.length := by omega
    split at hpp <;> omega
  have hne : o.pfx.isEmpty = false := by cases hx : o.pfx <;> simp_all
  simp only [hne, Bool.false_eq_true, if_false] at h
  split at h
  · cases h
  · rename_i start hstart
    obtain ⟨pre, rr, hl, hn⟩ := startOffsetLoop_spec o.pfx.reverse _ _ _ hstart
    generalize hml : mainLoop o.markup (((line.take p).reverse.take (p - start)).length + 1) ((line.take p).reverse.take (p - start)) [] = ml at h
    obtain ⟨rest, stack⟩ := ml
    have hrest : rest.length ≤ p - start := by
      have := mainLoop_len o.markup (((line.take p).reverse.take (p - start)).length + 1) ((line.take p).reverse.take (p - start)) []
      rw [hml] at this
      simp only [List.length_take, List.length_reverse] at this; omega
    simp only at h
    split at h
    · cases h
      simp only [hne, Bool.false_eq_true, if_false]
      -- the reversed left part is pre ++ (pfx.reverse ++ rr): so line.take p = rr.reverse ++ pfx ++ pre.reverse
      have htake : line.take p = rr.reverse ++ (o.pfx ++ pre.reverse) := by
        have := congrArg List.reverse hl
        simp only [List.reverse_reverse, List.reverse_append] at this
        rw [this]; simp
      have hstartlen : start = rr.length + o.pfx.length := by
        simp only [List.length_append, List.length_reverse] at hn; omega
      have hpl : p = rr.length + o.pfx.length + pre.length := by
        have := congrArg List.length htake
        simp only [List.length_take, List.length_append, List.length_reverse] at this; omega
      constructor
      · -- line[start - |pfx| : start] = pfx
        have hline : line = rr.reverse ++ (o.pfx ++ (pre.reverse ++ line.drop p)) := by
          have h0 := (List.take_append_drop p line).symm
          rw [htake] at h0
          simpa [List.append_assoc] using h0
        have hs : start - o.pfx.length = rr.reverse.length := by simp only [List.length_reverse]; omega
        rw [hs]
        calc (line.drop rr.reverse.length).take o.pfx.length
            = ((rr.reverse ++ (o.pfx ++ (pre.reverse ++ line.drop p))).drop rr.reverse.length).take o.pfx.length := by rw [← hline]
          _ = o.pfx := by simp
      · obtain ⟨k, hk, hkle⟩ := (stripLeading_spec ((line.take p).drop (start + rest.length))).1
        have htl : (line.take p).length = p := by simp only [List.length_take]; omega
        have hrawlen : ((line.take p).drop (start + rest.length)).length = p - (start + rest.length) := by
          simp only [List.length_drop, List.length_take]; omega
        have habl : (stripLeading ((line.take p).drop (start + rest.length))).length = p - (start + rest.length) - k := by
          rw [hk]; simp only [List.length_drop]; omega
        rw [habl]; omega
    · cases h

end X
