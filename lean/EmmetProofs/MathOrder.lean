import Emmet.Math
/-! C19 core on the REAL math model with the repaired ordering ("a prefix operator never pops"). -/
namespace M

theorem orderLoopF_append (a b ops operands) :
    orderLoopF (a ++ b) ops operands = orderLoopF b (orderLoopF a ops operands).1 (orderLoopF a ops operands).2 := by
  induction a generalizing ops operands with
  | nil => simp [orderLoopF]
  | cons t ts ih =>
    simp only [List.cons_append, orderLoopF]
    split
    · exact ih _ _
    · split
      · exact ih _ _
      · exact ih _ _

/-- one RPN step -/
def step1 (t : Token) (st : List Q) : Except MErr (List Q) :=
  match t.type with
  | .num => .ok (t.value :: st)
  | .op2 =>
    match st with
    | n2 :: n1 :: rest =>
      if t.op == 43 then .ok (n1.add n2 :: rest)
      else if t.op == 45 then .ok (n1.sub n2 :: rest)
      else if t.op == 42 then .ok (n1.mul n2 :: rest)
      else if n2.isZero then .error .zeroDiv
      else if t.op == 47 then .ok (n1.div n2 :: rest)
      else .ok ((n1.div n2).floor :: rest)
    | _ => .error (.internal "IndexError")
  | .op1 =>
    match st with
    | n1 :: rest => .ok (n1.neg :: rest)
    | [] => .error (.internal "IndexError")
  | .null => .error .mathNoPos

theorem evalLoop_cons (t : Token) (ts : List Token) (st : List Q) :
    evalLoop (t :: ts) st = (step1 t st) >>= evalLoop ts := by
  conv => lhs; unfold evalLoop
  unfold step1
  cases t.type <;> simp only [bind, Except.bind]
  · cases st <;> rfl
  · rcases st with _ | ⟨n2, _ | ⟨n1, rest⟩⟩
    · rfl
    · rfl
    · by_cases h1 : (t.op == 43) = true <;> by_cases h2 : (t.op == 45) = true <;> by_cases h3 : (t.op == 42) = true <;>
        by_cases h4 : n2.isZero = true <;> by_cases h5 : (t.op == 47) = true <;> simp only [h1, h2, h3, h4, h5, if_true, if_false] <;> rfl

theorem evalLoop_append (a b : List Token) (st : List Q) :
    evalLoop (a ++ b) st = (evalLoop a st) >>= evalLoop b := by
  induction a generalizing st with
  | nil => simp [evalLoop, bind, Except.bind]
  | cons t ts ih =>
    simp only [List.cons_append, evalLoop_cons]
    cases step1 t st with
    | error e => simp [bind, Except.bind]
    | ok v => simp only [bind, Except.bind]; exact ih v

/-- pop-and-apply while the top priority is ≥ `p` -/
def reduce (p : Int) : List Token → List Q → Except MErr (List Q × List Token)
  | [], vs => .ok (vs, [])
  | o :: os, vs => if p ≤ o.priority then (step1 o vs) >>= reduce p os else .ok (vs, o :: os)

def evalOps (operands : List Token) : Except MErr (List Q) := evalLoop operands.reverse []

/-- `popWhile` moves exactly the operators that `reduce` applies -/
theorem popWhile_reduce (t : Token) (ops operands : List Token) :
    (evalOps (popWhile t ops operands).2 >>= fun vs => pure (vs, (popWhile t ops operands).1)) =
      (evalOps operands >>= reduce t.priority ops) := by
  induction ops generalizing operands with
  | nil => simp [popWhile, reduce, evalOps, bind, Except.bind, pure, Except.pure]
  | cons o os ih =>
    simp only [popWhile, reduce]
    split
    · rw [ih (o :: operands)]
      simp only [evalOps, List.reverse_cons, evalLoop_append]
      cases evalLoop operands.reverse [] with
      | error e => simp [bind, Except.bind]
      | ok vs =>
        simp only [bind, Except.bind, evalLoop_cons]
        cases step1 o vs with
        | error e => rfl
        | ok v => simp [evalLoop, bind, Except.bind]
    · simp only [evalOps, bind, Except.bind, pure, Except.pure]

end M

namespace M
/-! ### expressions as the priorities group them; the pure shunting-yard claim -/
inductive Ex
  | num (v : Q)
  | paren (e : Ex)
  | neg (e : Ex)
  | bin (c : Ch) (l r : Ex)

def lvl (c : Ch) : Int := op2Prio c 0
theorem lvl_range (c : Ch) : 0 ≤ lvl c ∧ lvl c ≤ 2 := by unfold lvl op2Prio; split <;> (try split) <;> omega
theorem op2Prio_eq (c : Ch) (p : Int) : op2Prio c p = p + lvl c := by unfold lvl op2Prio; split <;> (try split) <;> omega

def Ex.lo : Ex → Int | .bin c _ _ => lvl c | _ => 3
def Ex.hi : Ex → Int | .bin c _ _ => lvl c | .neg _ => 2 | _ => 3

def Ex.WF : Ex → Prop
  | .num _ => True
  | .paren e => e.WF
  | .neg e => e.WF ∧ 3 ≤ e.lo
  | .bin c l r => l.WF ∧ r.WF ∧ isOperator c = true ∧ lvl c ≤ l.hi ∧ lvl c < r.lo ∧ lvl c ≤ r.hi

def numTok (v : Q) : Token := { type := .num, value := v }
def negTok (d : Nat) : Token := { type := .op1, op := 45, priority := op1Prio 45 (10 * (d : Int)) }
def binTok (d : Nat) (c : Ch) : Token := { type := .op2, op := c, priority := op2Prio c (10 * (d : Int)) }

/-- the token list the parser produces for the expression at parenthesis depth `d` -/
def Ex.toks (d : Nat) : Ex → List Token
  | .num v => [numTok v]
  | .paren e => e.toks (d+1)
  | .neg e => negTok d :: e.toks d
  | .bin c l r => l.toks d ++ binTok d c :: r.toks d

/-- reversed postfix form of the grouped tree -/
def Ex.post (d : Nat) : Ex → List Token
  | .num v => [numTok v]
  | .paren e => e.post (d+1)
  | .neg e => negTok d :: e.post d
  | .bin c l r => binTok d c :: (r.post d ++ l.post d)

theorem Ex.hi_le_lo (e : Ex) : e.hi ≤ e.lo := by
  cases e <;> simp [Ex.hi, Ex.lo]

theorem popWhile_noop (t : Token) (ops operands : List Token) (h : ∀ o ∈ ops, o.priority < t.priority) :
    popWhile t ops operands = (ops, operands) := by
  cases ops with
  | nil => rfl
  | cons o os =>
    have := h o (by simp)
    simp only [popWhile]
    rw [if_neg (by omega)]

theorem popWhile_congr (t t' : Token) (h : t.priority = t'.priority) (ops operands : List Token) :
    popWhile t ops operands = popWhile t' ops operands := by
  induction ops generalizing operands with
  | nil => rfl
  | cons o os ih => simp only [popWhile, h, ih]

theorem negTok_prio (d : Nat) : (negTok d).priority = 10 * (d : Int) + 2 := by simp [negTok, op1Prio]
theorem binTok_prio (d : Nat) (c : Ch) : (binTok d c).priority = 10 * (d : Int) + lvl c := by simp [binTok, op2Prio_eq]

/-- **Shunting-yard claim** (pure): flushing at any priority ≤ 10d + hi e after the tokens of `e`
    equals flushing after the postfix form of `e` has been appended to the output. -/
theorem claim (e : Ex) : ∀ (d : Nat) (ops operands : List Token), e.WF →
    (∀ o ∈ ops, o.priority < 10 * (d : Int) + e.lo) → ∀ tp : Token, tp.priority ≤ 10 * (d : Int) + e.hi →
    popWhile tp (orderLoopF (e.toks d) ops operands).1 (orderLoopF (e.toks d) ops operands).2
      = popWhile tp ops (e.post d ++ operands) := by
  induction e with
  | num v => intro d ops operands _ _ tp _; simp [Ex.toks, Ex.post, orderLoopF, numTok]
  | paren e ih =>
    intro d ops operands hwf hos tp hp
    simp only [Ex.toks, Ex.post]
    apply ih (d+1) ops operands hwf
    · intro o ho; have := hos o ho; simp only [Ex.lo] at this
      have := e.hi_le_lo; have : e.lo ≤ 3 ∨ True := Or.inr trivial
      have h3 : (0:Int) ≤ e.lo ∨ True := Or.inr trivial
      cases e <;> simp only [Ex.lo] <;> (try have := lvl_range ‹Ch›) <;> push_cast <;> omega
    · simp only [Ex.hi] at hp; cases e <;> simp only [Ex.hi] <;> (try have := lvl_range ‹Ch›) <;> push_cast <;> omega
  | neg e ih =>
    intro d ops operands hwf hos tp hp
    obtain ⟨hwf', hlo⟩ := hwf
    have hhi : 2 ≤ e.hi := by cases e <;> simp [Ex.hi, Ex.lo] at hlo ⊢ <;> omega
    simp only [Ex.hi] at hp
    simp only [Ex.lo] at hos
    have hstep : orderLoopF ((Ex.neg e).toks d) ops operands = orderLoopF (e.toks d) (negTok d :: ops) operands := by
      simp [Ex.toks, orderLoopF, negTok]
    rw [hstep, ih d (negTok d :: ops) operands hwf' _ tp (by omega)]
    · simp only [popWhile, Ex.post, List.cons_append]
      rw [if_pos (by rw [negTok_prio]; exact hp)]
    · intro o ho
      simp at ho
      rcases ho with rfl | ho
      · rw [negTok_prio]; omega
      · have := hos o ho; omega
  | bin c l r ihl ihr =>
    intro d ops operands hwf hos tp hp
    obtain ⟨hl, hr, _, hlhi, hrlo, hrhi⟩ := hwf
    simp only [Ex.lo] at hos
    simp only [Ex.hi] at hp
    have h1 := ihl d ops operands hl (by intro o ho; have := hos o ho; have := l.hi_le_lo; omega) (binTok d c)
      (by rw [binTok_prio]; omega)
    rw [popWhile_noop (binTok d c) ops _ (by intro o ho; rw [binTok_prio]; exact hos o ho)] at h1
    have hstep : orderLoopF ((Ex.bin c l r).toks d) ops operands
        = orderLoopF (r.toks d) (binTok d c :: ops) (l.post d ++ operands) := by
      simp only [Ex.toks, orderLoopF_append]
      conv => lhs; unfold orderLoopF
      rw [if_neg (by simp [binTok]), if_neg (by simp [binTok]), h1]
    rw [hstep, ihr d (binTok d c :: ops) (l.post d ++ operands) hr _ tp (by omega)]
    · simp only [popWhile, Ex.post, List.cons_append, List.append_assoc]
      rw [if_pos (by rw [binTok_prio]; exact hp)]
    · intro o ho
      simp at ho
      rcases ho with rfl | ho
      · rw [binTok_prio]; omega
      · have := hos o ho; omega

end M

namespace M
/-! ### RPN evaluation of the postfix form is the value of the tree -/
def applyOp (c : Ch) (n1 n2 : Q) : Except MErr Q :=
  if c == 43 then .ok (n1.add n2)
  else if c == 45 then .ok (n1.sub n2)
  else if c == 42 then .ok (n1.mul n2)
  else if n2.isZero then .error .zeroDiv
  else if c == 47 then .ok (n1.div n2)
  else .ok (n1.div n2).floor

/-- the value the documentation promises: usual precedence, left-assoc, `/` and `\` by zero raise -/
def Ex.val : Ex → Except MErr Q
  | .num v => .ok v
  | .paren e => e.val
  | .neg e => e.val >>= fun v => .ok v.neg
  | .bin c l r => l.val >>= fun a => r.val >>= fun b => applyOp c a b

theorem step1_bin (d : Nat) (c : Ch) (n1 n2 : Q) (st : List Q) :
    step1 (binTok d c) (n2 :: n1 :: st) = (applyOp c n1 n2 >>= fun v => .ok (v :: st)) := by
  simp only [step1, binTok, applyOp]
  by_cases h1 : (c == 43) = true <;> by_cases h2 : (c == 45) = true <;> by_cases h3 : (c == 42) = true <;>
    by_cases h4 : n2.isZero = true <;> by_cases h5 : (c == 47) = true <;> simp only [h1, h2, h3, h4, h5, if_true, if_false] <;> rfl

theorem eval_post (e : Ex) : ∀ (d : Nat) (rest : List Token) (st : List Q),
    evalLoop ((e.post d).reverse ++ rest) st = (e.val >>= fun v => evalLoop rest (v :: st)) := by
  induction e with
  | num v => intro d rest st; simp [Ex.post, Ex.val, numTok, evalLoop_cons, step1, bind, Except.bind]
  | paren e ih => intro d rest st; simp only [Ex.post, Ex.val]; exact ih (d+1) rest st
  | neg e ih =>
    intro d rest st
    simp only [Ex.post, Ex.val, List.reverse_cons, List.append_assoc, List.singleton_append, ih]
    cases e.val with
    | error err => rfl
    | ok v => simp [bind, Except.bind, evalLoop_cons, step1, negTok]
  | bin c l r ihl ihr =>
    intro d rest st
    simp only [Ex.post, Ex.val, List.reverse_cons, List.reverse_append, List.append_assoc, List.singleton_append, ihl, ihr]
    cases l.val with
    | error err => rfl
    | ok a =>
      simp only [bind, Except.bind]
      cases r.val with
      | error err => rfl
      | ok b =>
        simp only [evalLoop_cons, step1_bin, bind, Except.bind]
        cases applyOp c a b <;> rfl

theorem popWhile_fst_nil (t : Token) (ops operands : List Token) (h : (popWhile t ops operands).1 = []) :
    (popWhile t ops operands).2 = ops.reverse ++ operands := by
  induction ops generalizing operands with
  | nil => rfl
  | cons o os ih =>
    simp only [popWhile] at h ⊢
    split
    · rename_i hc; rw [if_pos hc] at h; rw [ih _ h]; simp
    · rename_i hc; rw [if_neg hc] at h; simp at h

/-- **C19 core on the real model**: for every well-grouped expression tree, ordering its tokens and
    running the RPN evaluator yields exactly the value of the tree (or its ZeroDivisionError). -/
theorem evaluate_val (e : Ex) (h : e.WF) :
    evalLoop (orderF (e.toks 0)) [] = (e.val >>= fun v => .ok [v]) := by
  have hc := claim e 0 [] [] h (by simp) { type := .null, priority := 0 }
    (by cases e <;> simp only [Ex.hi] <;> (try have := lvl_range ‹Ch›) <;> simp <;> omega)
  simp only [popWhile, List.append_nil] at hc
  have h1 : (popWhile { type := .null, priority := 0 } (orderLoopF (e.toks 0) [] []).1 (orderLoopF (e.toks 0) [] []).2).1 = [] := by rw [hc]
  have h2 := popWhile_fst_nil _ _ _ h1
  rw [hc] at h2
  simp only at h2
  have h3 : orderF (e.toks 0) = (e.post 0).reverse := by
    unfold orderF
    rw [h2]; simp
  rw [h3]
  have := eval_post e 0 [] []
  simp only [List.append_nil] at this
  rw [this]
  simp [evalLoop]

example : (Ex.bin 45 (.num ⟨6,1⟩) (.bin 47 (.neg (.num ⟨2,1⟩)) (.paren (.bin 43 (.num ⟨1,1⟩) (.num ⟨1,1⟩))))).WF := by
  simp [Ex.WF, Ex.lo, Ex.hi, lvl, op2Prio, isOperator]

end M
