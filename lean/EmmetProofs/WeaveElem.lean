import EmmetProofs.WeaveAttr
namespace T

theorem sq_lstrip (s : Str) : sq (lstrip s) = sq s := by
  induction s with
  | nil => rfl
  | cons x xs ih =>
    simp only [lstrip]
    split
    · rename_i hx; rw [ih, sq_cons x xs]; simp [sq, ws, hx]
    · rfl

theorem pushTokens_str_cons (op : Options) (s : Str) (ts : List VTok) (o : Out) :
    pushTokens op (.str s :: ts) o = pushTokens op ts (o.pushString op s) := by
  simp [pushTokens, tokStep]

theorem pushNewline_field (op : Options) (o : Out) (ind : Option (Option Int)) : (o.pushNewline op ind).field = o.field := by
  unfold Out.pushNewline
  cases ind with
  | none => rfl
  | some x => cases x with
    | none => rfl
    | some k => simp only; split <;> rfl

theorem R.nl {op op' : Options} (hw : WsOnly op) (hw' : WsOnly op') {a b : Out} (h : R a b) (c c' : Bool)
    (i i' : Option (Option Int)) :
    R (if c = true then a.pushNewline op i else a) (if c' = true then b.pushNewline op' i' else b) := by
  refine ⟨?_, ?_⟩
  · split <;> split <;> simp [pushNewline_sq _ hw, pushNewline_sq _ hw', h.1]
  · split <;> split <;> simp [pushNewline_field, h.2]
theorem R.nl1 {op op' : Options} (hw : WsOnly op) (hw' : WsOnly op') {a b : Out} (h : R a b)
    (i i' : Option (Option Int)) : R (a.pushNewline op i) (b.pushNewline op' i') :=
  ⟨by simp [pushNewline_sq _ hw, pushNewline_sq _ hw', h.1], by simp [pushNewline_field, h.2]⟩
theorem R.nlL {op : Options} (hw : WsOnly op) {a b : Out} (h : R a b) (i : Option (Option Int)) : R (a.pushNewline op i) b :=
  ⟨by simp [pushNewline_sq _ hw, h.1], by simp [pushNewline_field, h.2]⟩
theorem R.nlR {op' : Options} (hw' : WsOnly op') {a b : Out} (h : R a b) (i : Option (Option Int)) : R a (b.pushNewline op' i) :=
  ⟨by simp [pushNewline_sq _ hw', h.1], by simp [pushNewline_field, h.2]⟩
theorem R.wrap {op op' : Options} (hw : WsOnly op) (hw' : WsOnly op') {a a2 b b2 : Out} (hab : R a b)
    (ha : a2.buf = a.buf ∧ a2.field = a.field) (hb : b2.buf = b.buf ∧ b2.field = b.field) (c c' : Bool)
    (i i' : Option (Option Int)) :
    R (if c = true then a2.pushNewline op i else a) (if c' = true then b2.pushNewline op' i' else b) := by
  have h2 : R a2 b2 := ⟨by rw [ha.1, hb.1, hab.1], by rw [ha.2, hb.2, hab.2]⟩
  have h3 : R a2 b := ⟨by rw [ha.1, hab.1], by rw [ha.2, hab.2]⟩
  have h4 : R a b2 := ⟨by rw [hb.1, hab.1], by rw [hb.2, hab.2]⟩
  split <;> split
  · exact R.nl1 hw hw' h2 _ _
  · exact R.nlL hw h3 _
  · exact R.nlR hw' h4 _
  · exact hab
theorem R.pushString2 {op op' : Options} (hw : WsOnly op) (hw' : WsOnly op') {o o' : Out} (h : R o o') (s s' : Str)
    (hs : sq s = sq s') : R (o.pushString op s) (o'.pushString op' s') :=
  ⟨by rw [pushString_sq op hw, pushString_sq op' hw', h.1, hs], by rw [pushString_field, pushString_field, h.2]⟩
theorem R.lvl {a b : Out} (h : R a b) (k k' : Int) : R { a with level := k } { b with level := k' } := h

theorem html_weave (op : Options) (L : Layout) (hw : WsOnly op) (hw' : WsOnly (relayout op L)) : ∀ (fuel : Nat),
    (∀ node index items parent o o', R o o' →
      R (htmlElement op fuel node index items parent o) (htmlElement (relayout op L) fuel node index items parent o')) ∧
    (∀ cs i parent o o', R o o' →
      R (htmlChildren op fuel cs i parent o) (htmlChildren (relayout op L) fuel cs i parent o')) ∧
    (∀ node o o', R o o' →
      match pushSnippet op fuel node o, pushSnippet (relayout op L) fuel node o' with
      | some x, some x' => R x x'
      | none, none => True
      | _, _ => False) := by
  intro fuel
  induction fuel with
  | zero =>
    refine ⟨fun _ _ _ _ o o' h => by simpa [htmlElement] using h, fun _ _ _ o o' h => by simpa [htmlChildren] using h, ?_⟩
    intro node o o' h; simp [pushSnippet]
  | succ f ih =>
    obtain ⟨ihE, ihC, ihS⟩ := ih
    refine ⟨?_, ?_, ?_⟩
    · intro node index items parent o o' h
      unfold htmlElement
      extract_lets -merge fmt level o0 o1 name oa ob oc v inner1 ta x1a x2a tb ov ok inner tc x1 x2 td od o2 offset o3 fmt' level' o0' o1' name' oa' ob' oc' v' inner1' ta' x1a' x2a' tb' ov' ok' inner' tc' x1' x2' td' od' o2' offset' o3'
      have r0 : R o0 o0' := h
      have r1 : R o1 o1' := r0.nl hw hw' fmt fmt' _ _
      have ra : R oa oa' := r1.pushString hw hw' _
      have rb : R ob ob' := attrs_weave op L hw hw' _ _ _ ra
      have rc : R oc oc' := rb.pushString hw hw' _
      have rx1a : R x1a x1a' := by simp only [x1a, x1a']; exact R.wrap (a2 := ta) (b2 := ta') hw hw' rc ⟨rfl, rfl⟩ ⟨rfl, rfl⟩ _ _ _ _
      have rx2a : R x2a x2a' := rx1a.pushTokens hw hw' _
      have rov : R ov ov' := by
        simp only [ov, ov']
        split
        · exact R.wrap (a2 := tb) (b2 := tb') hw hw' rx2a ⟨rfl, rfl⟩ ⟨rfl, rfl⟩ _ _ _ _
        · exact rc
      have rok : R ok ok' := ihC _ _ _ _ _ rov
      have rx1 : R x1 x1' := by simp only [x1, x1']; exact R.wrap (a2 := tc) (b2 := tc') hw hw' rok ⟨rfl, rfl⟩ ⟨rfl, rfl⟩ _ _ _ _
      have rx2 : R x2 x2' := rx1.pushTokens hw hw' _
      have rleaf : R (if inner = true then td.pushNewline op (some (some td.level)) else x2)
          (if inner' = true then td'.pushNewline (relayout op L) (some (some td'.level)) else x2') :=
        R.wrap (a2 := td) (b2 := td') hw hw' rx2 ⟨rfl, rfl⟩ ⟨rfl, rfl⟩ _ _ _ _
      have rod : R od od' := by
        simp only [od, od']
        have hs := ihS node oc oc' rc
        cases h1 : pushSnippet op f node oc <;> cases h2 : pushSnippet (relayout op L) f node oc' <;> rw [h1, h2] at hs
        · simp only
          split
          · exact rleaf
          · exact rok
        · exact absurd hs (by simp)
        · exact absurd hs (by simp)
        · exact hs
      have ro2 : R o2 o2' := by
        simp only [o2, o2']
        split
        · split
          · exact rb.pushString hw hw' _
          · exact rod.pushString hw hw' _
        · have hs := ihS node o1 o1' r1
          cases h1 : pushSnippet op f node o1 <;> cases h2 : pushSnippet (relayout op L) f node o1' <;> rw [h1, h2] at hs
          · simp only
            split
            · exact ihC _ _ _ _ _ (r1.pushTokens hw hw' _)
            · exact r1
          · exact absurd hs (by simp)
          · exact absurd hs (by simp)
          · exact hs
      have ro3 : R o3 o3' := ro2.nl hw hw' _ _ _ _
      exact ro3
    · intro cs i parent o o' h
      cases cs with
      | nil => simpa [htmlChildren] using h
      | cons c rest =>
        unfold htmlChildren
        exact ihC _ _ _ _ _ (ihE _ _ _ _ _ _ h)
    · intro node o o' h
      unfold pushSnippet
      by_cases hc : (valueTruthy node && !node.children.isEmpty) = true
      · simp only [hc, if_true]
        cases hidx : (node.value.getD []).findIdx? isFieldV with
        | none => simp
        | some ix =>
          simp only
          have r1 := h.pushTokens hw hw' ((node.value.getD []).take ix)
          have r2 := ihC node.children 0 node _ _ r1
          cases hv : (node.value.getD [])[ix+1]? with
          | none => simp only; exact r2.pushTokens hw hw' _
          | some t =>
            cases t with
            | field nm i => simp only; exact r2.pushTokens hw hw' _
            | str s =>
              simp only
              have hdrop : (node.value.getD []).drop (ix+1) = .str s :: (node.value.getD []).drop (ix+2) := by
                have hlt : ix + 1 < (node.value.getD []).length := by
                  have := List.getElem?_eq_some_iff.mp hv; exact this.1
                rw [List.drop_eq_getElem_cons hlt]
                congr 1
                have := List.getElem?_eq_some_iff.mp hv
                exact this.2
              split <;> split
              · exact (r2.pushString2 hw hw' _ _ rfl).pushTokens hw hw' _
              · simp only [hdrop, pushTokens_str_cons]
                exact (r2.pushString2 hw hw' _ _ (sq_lstrip s)).pushTokens hw hw' _
              · simp only [hdrop, pushTokens_str_cons]
                exact (r2.pushString2 hw hw' _ _ (sq_lstrip s).symm).pushTokens hw hw' _
              · exact r2.pushTokens hw hw' _
      · simp only [hc]
        simp

theorem go_weave (op : Options) (L : Layout) (hw : WsOnly op) (hw' : WsOnly (relayout op L)) (nodes : List ANode) :
    ∀ (fuel : Nat) (rest : List ANode) (i : Nat) (o o' : Out), R o o' →
      R (htmlFormat.go op nodes fuel rest i o) (htmlFormat.go (relayout op L) nodes fuel rest i o') := by
  intro fuel
  induction fuel with
  | zero => intro rest i o o' h; simpa [htmlFormat.go] using h
  | succ f ih =>
    intro rest i o o' h
    cases rest with
    | nil => simpa [htmlFormat.go] using h
    | cons n ns =>
      simp only [htmlFormat.go]
      exact ih ns (i + 1) _ _ ((html_weave op L hw hw' 100000).1 n i nodes none o o' h)

/-- **C12_weave (observation `sq`)**: for every forest and any two option sets that differ only in layout options (indent,
    baseIndent, newline — white space only — format, formatLeafNode, formatSkip, formatForce, inlineBreak), the HTML
    formatter's outputs are equal once white space is removed: same tags, attributes, text and tabstop numbers, same order. -/
theorem C12_weave_sq (op : Options) (L : Layout) (hw : WsOnly op) (hw' : WsOnly (relayout op L)) (nodes : List ANode) :
    sq (htmlFormat op nodes) = sq (htmlFormat (relayout op L) nodes) := by
  unfold htmlFormat
  exact (go_weave op L hw hw' nodes _ nodes 0 {} {} ⟨rfl, rfl⟩).1
end T
