import Emmet.Matcher.Html
/-! C16_html_scan (prototype): for every string, every event reported by `scan` is a well-formed tag range. -/
namespace H

/-- "`f` consumed exactly `n` characters of `s`, leaving `r`" -/
def Eats (s r : Str) (n : Nat) : Prop := s.drop n = r ∧ n ≤ s.length

theorem Eats.refl (s : Str) : Eats s s 0 := ⟨by simp, by simp⟩
theorem Eats.trans {s r t : Str} {n m : Nat} (h1 : Eats s r n) (h2 : Eats r t m) : Eats s t (n + m) := by
  obtain ⟨a, b⟩ := h1; obtain ⟨c, d⟩ := h2
  subst a
  refine ⟨by rw [← c, List.drop_drop], ?_⟩
  simp only [List.length_drop] at d; omega
theorem Eats.cons (x : Ch) (xs : Str) : Eats (x :: xs) xs 1 := ⟨by simp, by simp⟩
theorem Eats.of_append (a b : Str) : Eats (a ++ b) b a.length := ⟨by simp, by simp⟩

theorem spanP_append (p : Ch → Bool) (l : Str) : (spanP p l).1 ++ (spanP p l).2 = l := by
  induction l with
  | nil => simp [spanP]
  | cons x xs ih => simp only [spanP]; split <;> simp_all
theorem spanP_eats (p : Ch → Bool) (l : Str) : Eats l (spanP p l).2 (spanP p l).1.length := by
  have := spanP_append p l
  have h := Eats.of_append (spanP p l).1 (spanP p l).2
  rwa [this] at h

theorem stripPrefix_eq (p s r : Str) (h : stripPrefix p s = some r) : s = p ++ r := by
  induction p generalizing s with
  | nil => simp [stripPrefix] at h; simp [h]
  | cons a as ih =>
    cases s with
    | nil => simp [stripPrefix] at h
    | cons x xs =>
      simp only [stripPrefix] at h
      split at h
      · rename_i hax; simp only [beq_iff_eq] at hax; subst hax; simp [ih xs h]
      · cases h
theorem stripPrefix_eats (p s r : Str) (h : stripPrefix p s = some r) : Eats s r p.length := by
  have := stripPrefix_eq p s r h; subst this; exact Eats.of_append p r

theorem findSuffix_eats (suf : Str) (s : Str) (n : Nat) :
    ∃ k, (findSuffix suf s n).2 = n + k ∧ Eats s (findSuffix suf s n).1 k := by
  induction s generalizing n with
  | nil => exact ⟨0, by simp [findSuffix], by simp [findSuffix, Eats]⟩
  | cons x xs ih =>
    simp only [findSuffix]
    split
    · rename_i r hr
      exact ⟨suf.length, rfl, stripPrefix_eats _ _ _ hr⟩
    · obtain ⟨k, hk, he⟩ := ih (n + 1)
      refine ⟨1 + k, by omega, ?_⟩
      exact Eats.trans (Eats.cons x xs) he

theorem consumeSection_eats (pre suf s r : Str) (n : Nat) (h : consumeSection pre suf s = some (r, n)) :
    Eats s r n ∧ pre.length ≤ n := by
  unfold consumeSection at h
  split at h
  · rename_i r0 hr0
    simp only [Option.some.injEq, Prod.mk.injEq] at h
    obtain ⟨k, hk, he⟩ := findSuffix_eats suf r0 pre.length
    obtain ⟨h1, h2⟩ := h
    rw [h1] at he; rw [h2] at hk
    have := Eats.trans (stripPrefix_eats _ _ _ hr0) he
    exact ⟨by rw [hk]; exact this, by omega⟩
  · cases h

theorem quotedLoop_eq (q : Ch) (fuel : Nat) (s acc : Str) (qs r : Str) (h : quotedLoop q fuel s acc = some (qs, r)) :
    qs ++ r = acc.reverse ++ s ∧ 0 < qs.length := by
  induction fuel generalizing s acc with
  | zero => simp [quotedLoop] at h
  | succ n ih =>
    cases s with
    | nil => simp [quotedLoop] at h
    | cons x xs =>
      simp only [quotedLoop] at h
      split at h
      · cases h; simp
      · split at h
        · split at h
          · rename_i y ys; have := ih _ _ h; simpa using this
          · cases h
        · have := ih _ _ h; simpa using this
theorem eatQuoted_eats (s qs r : Str) (h : eatQuoted s = some (qs, r)) : Eats s r qs.length ∧ 0 < qs.length := by
  cases s with
  | nil => simp [eatQuoted] at h
  | cons q xs =>
    simp only [eatQuoted] at h
    split at h
    · obtain ⟨this, hpos⟩ := quotedLoop_eq q _ xs [q] qs r h
      simp only [List.reverse_cons, List.reverse_nil, List.nil_append, List.singleton_append] at this
      have he := Eats.of_append qs r
      rw [this] at he
      exact ⟨he, hpos⟩
    · cases h

theorem piLoop_eats (fuel : Nat) (s : Str) (n : Nat) :
    ∃ k, (piLoop fuel s n).2 = n + k ∧ Eats s (piLoop fuel s n).1 k := by
  induction fuel generalizing s n with
  | zero => exact ⟨0, by simp [piLoop], by simp [piLoop, Eats]⟩
  | succ f ih =>
    cases s with
    | nil => exact ⟨0, by simp [piLoop], by simp [piLoop, Eats]⟩
    | cons x xs =>
      simp only [piLoop]
      split
      · rename_i r hr; exact ⟨2, rfl, stripPrefix_eats _ _ _ hr⟩
      · split
        · rename_i q r hq
          obtain ⟨he, _⟩ := eatQuoted_eats _ _ _ hq
          obtain ⟨k, hk, hk2⟩ := ih r (n + q.length)
          exact ⟨q.length + k, by omega, Eats.trans he hk2⟩
        · obtain ⟨k, hk, hk2⟩ := ih xs (n + 1)
          exact ⟨1 + k, by omega, Eats.trans (Eats.cons x xs) hk2⟩

theorem processingInstruction_eats (s r : Str) (n : Nat) (h : processingInstruction s = some (r, n)) :
    Eats s r n ∧ 2 ≤ n := by
  unfold processingInstruction at h
  split at h
  · rename_i r0 hr0
    simp only [Option.some.injEq, Prod.mk.injEq] at h
    obtain ⟨k, hk, he⟩ := piLoop_eats (r0.length + 1) r0 2
    obtain ⟨h1, h2⟩ := h
    rw [h1] at he; rw [h2] at hk
    have := Eats.trans (stripPrefix_eats _ _ _ hr0) he
    simp only [lit] at this
    exact ⟨by rw [hk]; exact this, by omega⟩
  · cases h

theorem ident_eq (s name r : Str) (h : ident s = some (name, r)) : name ++ r = s ∧ 0 < name.length := by
  cases s with
  | nil => simp [ident] at h
  | cons x xs =>
    simp only [ident] at h
    split at h
    · cases h
      have := spanP_append nameChar xs
      exact ⟨by simp [this], by simp⟩
    · cases h

end H

namespace H

theorem eatQuoted_eq (s qs r : Str) (h : eatQuoted s = some (qs, r)) : qs ++ r = s ∧ 0 < qs.length := by
  cases s with
  | nil => simp [eatQuoted] at h
  | cons q xs =>
    simp only [eatQuoted] at h
    split at h
    · have := quotedLoop_eq q _ xs [q] qs r h
      simpa using this
    · cases h

theorem pairLoop_eq (o c : Ch) (fuel : Nat) (s : Str) (depth : Nat) (acc ps r : Str)
    (h : pairLoop o c fuel s depth acc = some (ps, r)) : ps ++ r = acc.reverse ++ s ∧ 0 < ps.length := by
  induction fuel generalizing s depth acc with
  | zero => simp [pairLoop] at h
  | succ n ih =>
    cases s with
    | nil => simp [pairLoop] at h
    | cons x xs =>
      simp only [pairLoop] at h
      split at h
      · rename_i qs r' hq
        obtain ⟨hqe, _⟩ := eatQuoted_eq _ _ _ hq
        have := ih _ _ _ h
        refine ⟨?_, this.2⟩
        rw [this.1, ← hqe]
        simp
      · split at h
        · have := ih _ _ _ h; simpa using this
        · split at h
          · split at h
            · cases h; simp
            · have := ih _ _ _ h; simpa using this
          · split at h
            · split at h
              · have := ih _ _ _ h; simpa using this
              · cases h
            · have := ih _ _ _ h; simpa using this

end H

namespace H

theorem eatPair_eq (o c : Ch) (s ps r : Str) (h : eatPair o c s = some (ps, r)) : ps ++ r = s ∧ 0 < ps.length := by
  cases s with
  | nil => simp [eatPair] at h
  | cons x xs =>
    simp only [eatPair] at h
    split at h
    · have := pairLoop_eq o c _ xs 1 [x] ps r h; simpa using this
    · cases h

theorem orElse_some {α : Type} (a b : Option α) (v : α) (h : (a <|> b) = some v) : a = some v ∨ b = some v := by
  cases a <;> simp_all

theorem consumePaired_eq (s ps r : Str) (h : consumePaired s = some (ps, r)) : ps ++ r = s ∧ 0 < ps.length := by
  unfold consumePaired at h
  rcases orElse_some _ _ _ h with h | h
  · exact eatPair_eq _ _ _ _ _ h
  · rcases orElse_some _ _ _ h with h | h
    · exact eatPair_eq _ _ _ _ _ h
    · rcases orElse_some _ _ _ h with h | h
      · exact eatPair_eq _ _ _ _ _ h
      · exact eatPair_eq _ _ _ _ _ h

theorem attributeName_eq (s n r : Str) (h : attributeName s = some (n, r)) : n ++ r = s ∧ 0 < n.length := by
  cases s with
  | nil => simp [attributeName] at h
  | cons x xs =>
    simp only [attributeName] at h
    split at h
    · split at h
      · rename_i nm r' hid
        cases h
        have := ident_eq _ _ _ hid
        exact ⟨by simp [this.1], by simp⟩
      · cases h; simp
    · rcases orElse_some _ _ _ h with h | h
      · exact consumePaired_eq _ _ _ h
      · exact ident_eq _ _ _ h

theorem attributeValue_eq (s v r : Str) (h : attributeValue s = some (v, r)) : v ++ r = s ∧ 0 < v.length := by
  unfold attributeValue at h
  rcases orElse_some _ _ _ h with h | h
  · exact eatQuoted_eq _ _ _ h
  · rcases orElse_some _ _ _ h with h | h
    · exact consumePaired_eq _ _ _ h
    · simp only at h
      split at h
      · cases h
      · rename_i hne
        cases h
        have := spanP_append isUnquoted s
        refine ⟨this, ?_⟩
        cases hs : (spanP isUnquoted s).1 <;> simp_all

theorem eats_of_eq {a r s : Str} (h : a ++ r = s) : Eats s r a.length := by subst h; exact Eats.of_append a r

theorem skipAttributes_eats (fuel : Nat) (s : Str) (n : Nat) :
    ∃ k, (skipAttributes fuel s n).2 = n + k ∧ Eats s (skipAttributes fuel s n).1 k := by
  induction fuel generalizing s n with
  | zero => exact ⟨0, by simp [skipAttributes], by simp [skipAttributes, Eats]⟩
  | succ f ih =>
    cases s with
    | nil => exact ⟨0, by simp [skipAttributes], by simp [skipAttributes, Eats]⟩
    | cons x xs =>
      simp only [skipAttributes]
      have hws := spanP_eats isSpace (x :: xs)
      generalize hsp : spanP isSpace (x :: xs) = sp at hws
      obtain ⟨ws, r0⟩ := sp
      simp only at hws ⊢
      cases hn : attributeName r0 with
      | some v0 =>
        obtain ⟨nm, r1⟩ := v0
        have hnm := eats_of_eq (attributeName_eq _ _ _ hn).1
        simp only
        cases r1 with
        | nil =>
          obtain ⟨k, hk, he⟩ := ih [] (n + ws.length + nm.length)
          exact ⟨ws.length + (nm.length + k), by simp only; omega, Eats.trans hws (Eats.trans hnm he)⟩
        | cons c r2 =>
          by_cases hc : c = 61
          · subst hc
            simp only
            cases hv : attributeValue r2 with
            | some vv =>
              obtain ⟨v, r3⟩ := vv
              have hv' := eats_of_eq (attributeValue_eq _ _ _ hv).1
              obtain ⟨k, hk, he⟩ := ih r3 (n + ws.length + nm.length + 1 + v.length)
              exact ⟨ws.length + (nm.length + (1 + (v.length + k))), by simp only; omega,
                Eats.trans hws (Eats.trans hnm (Eats.trans (Eats.cons 61 r2) (Eats.trans hv' he)))⟩
            | none =>
              obtain ⟨k, hk, he⟩ := ih r2 (n + ws.length + nm.length + 1)
              exact ⟨ws.length + (nm.length + (1 + k)), by simp only; omega,
                Eats.trans hws (Eats.trans hnm (Eats.trans (Eats.cons 61 r2) he))⟩
          · split
            · rename_i r2' heq
              cases heq
              exact absurd rfl hc
            · obtain ⟨k, hk, he⟩ := ih (c :: r2) (n + ws.length + nm.length)
              exact ⟨ws.length + (nm.length + k), by omega, Eats.trans hws (Eats.trans hnm he)⟩
      | none =>
        simp only
        cases r0 with
        | nil => exact ⟨ws.length, rfl, hws⟩
        | cons y r1 =>
          simp only
          split
          · exact ⟨ws.length, rfl, hws⟩
          · obtain ⟨k, hk, he⟩ := ih r1 (n + ws.length + 1)
            exact ⟨ws.length + (1 + k), by omega, Eats.trans hws (Eats.trans (Eats.cons y r1) he)⟩

theorem findClosing_spec (name : Str) (s : Str) (pos : Nat) (r : Str) (cs ce : Nat)
    (h : findClosing name s pos = some (r, cs, ce)) :
    ∃ k, cs = pos + k ∧ ce = cs + name.length + 3 ∧ Eats s r (k + (name.length + 3)) ∧
      s[k]? = some 60 ∧ s[k + name.length + 2]? = some 62 := by
  induction s generalizing pos with
  | nil => simp [findClosing] at h
  | cons x xs ih =>
    simp only [findClosing] at h
    split at h
    · rename_i r0 hr0
      simp only [Option.some.injEq, Prod.mk.injEq] at h
      obtain ⟨rfl, rfl, rfl⟩ := h
      have heq := stripPrefix_eq _ _ _ hr0
      have he := stripPrefix_eats _ _ _ hr0
      refine ⟨0, by simp, by simp, ?_, ?_, ?_⟩
      · simpa [Nat.add_comm, Nat.add_left_comm, Nat.add_assoc] using he
      · rw [heq]; simp
      · rw [heq]
        simp only [List.cons_append, List.append_assoc, Nat.zero_add]
        have : ([60, 47] ++ name ++ [62] ++ r0) = [60, 47] ++ (name ++ (62 :: r0)) := by simp
        simp [List.getElem?_append_right, List.getElem?_cons]
    · obtain ⟨k, h1, h2, h3, h4, h5⟩ := ih (pos + 1) h
      refine ⟨k + 1, by omega, h2, ?_, by simpa using h4, ?_⟩
      · have := Eats.trans (Eats.cons x xs) h3
        simpa [Nat.add_comm, Nat.add_left_comm, Nat.add_assoc] using this
      · have : k + 1 + name.length + 2 = (k + name.length + 2) + 1 := by omega
        rw [this]; simpa using h5

end H

namespace H

theorem openSlash_eats (r0 : Str) : Eats r0 (openSlash r0).2.1 (openSlash r0).2.2 := by
  unfold openSlash
  split
  · exact Eats.cons 47 _
  · exact Eats.refl _

theorem tagTail_eats (r2 : Str) : Eats r2 (tagTail r2).1 (tagTail r2).2.1 := by
  unfold tagTail
  obtain ⟨k, hk, hek⟩ := skipAttributes_eats (r2.length + 1) r2 0
  have hws := spanP_eats isSpace (skipAttributes (r2.length + 1) r2 0).1
  have hna : (skipAttributes (r2.length + 1) r2 0).2 = k := by omega
  simp only
  split
  · rename_i rc hrb
    rw [hrb] at hws
    rw [hna]
    have := Eats.trans hek (Eats.trans hws (Eats.cons 47 rc))
    simpa [Nat.add_assoc] using this
  · rw [hna]
    exact Eats.trans hek hws

theorem afterName_eats (isClose : Bool) (r2 : Str) : Eats r2 (afterName isClose r2).1 (afterName isClose r2).2.1 := by
  unfold afterName
  split
  · exact Eats.refl _
  · exact tagTail_eats r2

/-- a reported range is a well-formed tag range of `orig` -/
def WFEv (orig : Str) (e : Ev) : Prop :=
  e.start < e.stop ∧ e.stop ≤ orig.length ∧ orig[e.start]? = some 60 ∧ orig[e.stop - 1]? = some 62

/-- events (most recent first) are well formed, increasing and non-overlapping, all ending at or before `bound` -/
def GoodRev (orig : Str) : List Ev → Nat → Prop
  | [], _ => True
  | e :: rest, b => WFEv orig e ∧ e.stop ≤ b ∧ GoodRev orig rest e.start

theorem GoodRev.mono {orig acc b b'} (h : GoodRev orig acc b) (hb : b ≤ b') : GoodRev orig acc b' := by
  cases acc with
  | nil => trivial
  | cons e rest => exact ⟨h.1, by have := h.2.1; omega, h.2.2⟩

theorem drop_eats {orig s r : Str} {pos n : Nat} (hd : orig.drop pos = s) (hp : pos ≤ orig.length) (he : Eats s r n) :
    orig.drop (pos + n) = r ∧ pos + n ≤ orig.length := by
  obtain ⟨h1, h2⟩ := he
  subst hd
  refine ⟨by rw [← h1, List.drop_drop], ?_⟩
  simp only [List.length_drop] at h2; omega

theorem drop_head {orig r : Str} {p : Nat} {x : Ch} (h : orig.drop p = x :: r) : orig[p]? = some x ∧ p < orig.length := by
  have hlt : p < orig.length := by
    refine Nat.lt_of_not_le fun hn => ?_
    have : orig.drop p = [] := List.drop_eq_nil_of_le hn
    rw [this] at h; cases h
  refine ⟨?_, hlt⟩
  have := List.getElem?_drop (xs := orig) (i := p) (j := 0)
  rw [h] at this
  simpa using this.symm

/-- main invariant of `scan` -/
theorem scanLoop_good (special : List (Str × Option (List Str))) (orig : Str) (fuel : Nat) :
    ∀ (s : Str) (pos : Nat) (acc : List Ev), orig.drop pos = s → pos ≤ orig.length → GoodRev orig acc pos →
      ∃ acc', scanLoop special fuel s pos acc = acc'.reverse ∧ GoodRev orig acc' orig.length := by
  induction fuel with
  | zero => intro s pos acc _ hp hg; exact ⟨acc, by simp [scanLoop], hg.mono hp⟩
  | succ f ih =>
    intro s pos acc hd hp hg
    cases s with
    | nil => exact ⟨acc, by simp [scanLoop], hg.mono hp⟩
    | cons x xs =>
      simp only [scanLoop]
      cases h1 : consumeSection (lit "<![CDATA[") (lit "]]>") (x :: xs) with
      | some v =>
        obtain ⟨r, n⟩ := v
        obtain ⟨he, _⟩ := consumeSection_eats _ _ _ _ _ h1
        obtain ⟨hd', hp'⟩ := drop_eats hd hp he
        exact ih r (pos + n) acc hd' hp' (hg.mono (by omega))
      | none =>
      simp only
      cases h2 : consumeSection (lit "<!--") (lit "-->") (x :: xs) with
      | some v =>
        obtain ⟨r, n⟩ := v
        obtain ⟨he, _⟩ := consumeSection_eats _ _ _ _ _ h2
        obtain ⟨hd', hp'⟩ := drop_eats hd hp he
        exact ih r (pos + n) acc hd' hp' (hg.mono (by omega))
      | none =>
      simp only
      cases h3 : processingInstruction (x :: xs) with
      | some v =>
        obtain ⟨r, n⟩ := v
        obtain ⟨he, _⟩ := processingInstruction_eats _ _ _ h3
        obtain ⟨hd', hp'⟩ := drop_eats hd hp he
        exact ih r (pos + n) acc hd' hp' (hg.mono (by omega))
      | none =>
      simp only
      by_cases hx : (x == 60) = true
      · simp only [hx, if_true]
        have hx' : x = 60 := by simpa using hx
        subst hx'
        have hlt := drop_head hd
        have hos := openSlash_eats xs
        generalize openSlash xs = os at hos
        obtain ⟨isClose, r1, c1⟩ := os
        simp only at hos ⊢
        obtain ⟨hd1, hp1⟩ := drop_eats hd hp (Eats.trans (Eats.cons 60 xs) hos)
        cases hid : ident r1 with
        | none =>
          simp only
          exact ih r1 (pos + 1 + c1) acc (by rw [Nat.add_assoc]; exact hd1) (by omega) (hg.mono (by omega))
        | some v =>
          obtain ⟨name, r2⟩ := v
          simp only
          obtain ⟨hne, hnpos⟩ := ident_eq _ _ _ hid
          obtain ⟨hd2, hp2⟩ := drop_eats hd1 hp1 (eats_of_eq hne)
          have han := afterName_eats isClose r2
          generalize afterName isClose r2 = an at han
          obtain ⟨r3, c3, ty⟩ := an
          simp only at han ⊢
          obtain ⟨hd3, hp3⟩ := drop_eats hd2 hp2 han
          have hp3eq : pos + 1 + c1 + name.length + c3 = pos + (1 + c1) + name.length + c3 := by omega
          cases r3 with
          | nil =>
            simp only
            exact ih [] _ acc (by rw [hp3eq]; exact hd3) (by omega) (hg.mono (by omega))
          | cons c r4 =>
            by_cases hc : c = 62
            · subst hc
              simp only
              rw [hp3eq]
              generalize hP3 : pos + (1 + c1) + name.length + c3 = p3 at hd3 hp3
              have hgt := drop_head hd3
              obtain ⟨hd4, hp4⟩ := drop_eats hd3 hp3 (Eats.cons 62 r4)
              have hev : WFEv orig ⟨name, ty, pos, p3 + 1⟩ := by
                refine ⟨by simp only; omega, by simp only; omega, hlt.1, ?_⟩
                simpa using hgt.1
              have hg1 : GoodRev orig (⟨name, ty, pos, p3 + 1⟩ :: acc) (p3 + 1) := ⟨hev, by simp, hg⟩
              split
              · split
                · rename_i r5 cs ce hfc
                  obtain ⟨k, hcs, hce, hek, hk60, hk62⟩ := findClosing_spec _ _ _ _ _ _ hfc
                  obtain ⟨hd5, hp5⟩ := drop_eats hd4 hp4 hek
                  have hidx : ∀ j v, r4[j]? = some v → orig[p3 + 1 + j]? = some v := by
                    intro j v hj
                    have := List.getElem?_drop (xs := orig) (i := p3 + 1) (j := j)
                    rw [hd4] at this; rw [← this]; exact hj
                  have hclose : WFEv orig ⟨name, .close, cs, ce⟩ := by
                    refine ⟨by simp only; omega, by simp only; omega, ?_, ?_⟩
                    · simp only; rw [hcs]; exact hidx _ _ hk60
                    · simp only
                      have : ce - 1 = p3 + 1 + (k + name.length + 2) := by omega
                      rw [this]; exact hidx _ _ hk62
                  have hg2 : GoodRev orig (⟨name, .close, cs, ce⟩ :: ⟨name, ty, pos, p3 + 1⟩ :: acc) ce :=
                    ⟨hclose, by simp, hg1.mono (by simp only; omega)⟩
                  have hce' : ce = p3 + 1 + (k + (name.length + 3)) := by omega
                  exact ih r5 ce _ (by rw [hce']; exact hd5) (by omega) hg2
                · exact ⟨_, rfl, hg1.mono (by omega)⟩
              · exact ih r4 (p3 + 1) _ hd4 hp4 hg1
            · split
              · rename_i heq; cases heq; exact absurd rfl hc
              · exact ih (c :: r4) _ acc (by rw [hp3eq]; exact hd3) (by omega) (hg.mono (by omega))
      · simp only [hx, if_false, Bool.false_eq_true]
        obtain ⟨hd', hp'⟩ := drop_eats hd hp (Eats.cons x xs)
        exact ih xs (pos + 1) acc hd' hp' (hg.mono (by omega))

/-- **C16_html_scan (prototype)**: for every string, the tags reported by `scan` are well-formed ranges
    (inside the input, starting with `<`, ending with `>`), increasing and non-overlapping. -/
theorem scan_good (s : Str) (special : List (Str × Option (List Str))) :
    ∃ acc', scan s special = acc'.reverse ∧ GoodRev s acc' s.length :=
  scanLoop_good special s (s.length + 1) s 0 [] (by simp) (by omega) trivial

end H
