import EmmetProofs.IndentLevel
/-! C12_indent key lemma for the HTML formatter: `level` is restored by `element`, its child loop and `push_snippet`. -/
namespace T

@[simp] theorem pushAttribute_level (op : Options) (a : AAttr) (o : Out) : (pushAttribute op a o).level = o.level := by
  unfold pushAttribute
  split
  · simp only
    (repeat' split) <;> simp
  · rfl

theorem attrs_fold_level (op : Options) (l : List AAttr) (o : Out) :
    (l.foldl (fun acc a => if shouldOutputAttribute a then pushAttribute op a acc else acc) o).level = o.level := by
  apply foldl_level
  intro o a; split <;> simp

theorem html_level (op : Options) : ∀ (fuel : Nat),
    (∀ node index items parent o, (htmlElement op fuel node index items parent o).level = o.level) ∧
    (∀ cs i parent o, (htmlChildren op fuel cs i parent o).level = o.level) ∧
    (∀ node o o', pushSnippet op fuel node o = some o' → o'.level = o.level) := by
  intro fuel
  induction fuel with
  | zero =>
    refine ⟨fun _ _ _ _ _ => by simp [htmlElement], fun _ _ _ _ => by simp [htmlChildren], ?_⟩
    intro node o o' h; simp [pushSnippet] at h
  | succ f ih =>
    obtain ⟨ihE, ihC, ihS⟩ := ih
    refine ⟨?_, ?_, ?_⟩
    · intro node index items parent o
      unfold htmlElement
      extract_lets fmt level o0 o1 name oa ob oc v inner1 ta x1a x2a tb ov ok inner tc x1 x2 td od o2 offset o3
      have h1 : o1.level = o.level + level := by simp only [o1]; split <;> simp [o0]
      have hoa : oa.level = o1.level := by simp [oa]
      have hob : ob.level = oa.level := attrs_fold_level op _ _
      have hoc : oc.level = ob.level := by simp [oc]
      have hov : ov.level = oc.level := by
        simp only [ov]
        split
        · split
          · rename_i hi; simp [tb, x2a, x1a, hi, ta]
          · rename_i hi; simp [x2a, x1a, hi]
        · rfl
      have hok : ok.level = ov.level := ihC _ _ _ _
      have hleaf : (if inner = true then td.pushNewline op (some (some td.level)) else x2).level = ok.level := by
        split
        · rename_i hi; simp [td, x2, x1, hi, tc]
        · rename_i hi; simp [x2, x1, hi]
      have hod : od.level = oc.level := by
        simp only [od]
        split
        · rename_i x heq; exact ihS _ _ _ heq
        · split
          · rw [hleaf, hok, hov]
          · rw [hok, hov]
      have ho2 : o2.level = o1.level := by
        simp only [o2]
        split
        · split
          · simp [hob, hoa]
          · simp [hod, hoc, hob, hoa]
        · split
          · rename_i x heq; exact ihS _ _ _ heq
          · split
            · rw [ihC]; simp
            · rfl
      have ho3 : o3.level = o2.level := by simp only [o3]; split <;> simp
      show o3.level - level = o.level
      rw [ho3, ho2, h1]; omega
    · intro cs i parent o
      cases cs with
      | nil => simp [htmlChildren]
      | cons c rest => unfold htmlChildren; rw [ihC, ihE]
    · intro node o o' h
      unfold pushSnippet at h
      split at h
      · simp only at h
        split at h
        · simp only [Option.some.injEq] at h
          subst h
          rw [pushTokens_level]
          (repeat' split) <;> simp [ihC]
        · cases h
      · cases h

/-- **C12_indent key lemma**: the HTML formatter restores the stream level after every element -/
theorem htmlElement_level (op : Options) (fuel : Nat) (node : ANode) (index : Nat) (items : List ANode) (parent : Option ANode) (o : Out) :
    (htmlElement op fuel node index items parent o).level = o.level := (html_level op fuel).1 node index items parent o
end T
