import Emmet.Abbr.Convert
/-! C02 (numbering clause): what a `$` run is replaced by. -/
namespace T

/-- the counter a `$`-run reads: the innermost repeater on the stack (copy `value`, 0-based, of `count` copies), or none -/
def counterOf (st : CState) : Option Rep := st.repeaters.getLast?

/-- the documented number: `$` counts from `base` upwards, `@-` counts down so that the LAST copy gets `base`; 1 outside
    every repeater -/
def documentedNumber (c : Option Rep) (reverse : Bool) (base : Nat) : Int :=
  match c with
  | none => 1
  | some r => if reverse then (base : Int) + r.count - r.value - 1 else (base : Int) + r.value

/-- zero padding to the width of the `$`-run -/
def padded (size : Nat) (v : Int) : Str :=
  let s := (toString v).toList.map Char.toNat
  List.replicate (size - s.length) 48 ++ s

/-- **C02, numbering**: a `$`-run of width `size` with modifiers `@base` / `@-base` (and no `^`) is replaced by the documented
    number of the nearest repeater, zero-padded to `size` digits; the converter state is unchanged -/
theorem stringify_number (t : Tok) (st : CState) (size : Nat) (reverse : Bool) (base : Nat)
    (h : t.tok = .repeaterNumber size reverse base 0) :
    stringifyTok t st = .ok (some (padded size (documentedNumber (counterOf st) reverse base)), st) := by
  unfold stringifyTok
  rw [h]
  simp only [padded, documentedNumber, counterOf]
  cases st.repeaters.getLast? with
  | none => simp
  | some r => simp

/-- the first copy of `*N` (value 0) gets `base`, the last (value N-1) gets `base + N - 1`; counting down, the last gets `base` -/
theorem documentedNumber_first (r : Rep) (base : Nat) (h : r.value = 0) : documentedNumber (some r) false base = base := by
  simp [documentedNumber, h]
theorem documentedNumber_last_reverse (r : Rep) (base : Nat) (h : r.value + 1 = r.count) :
    documentedNumber (some r) true base = base := by
  simp only [documentedNumber, if_true]
  have : (r.count : Int) = r.value + 1 := by exact_mod_cast h.symm
  omega

example : padded 3 7 = [48, 48, 55] := by decide

end T
