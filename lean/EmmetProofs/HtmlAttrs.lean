import EmmetProofs.HtmlScan
/-! C16, HTML attribute parser: for ANY string, every attribute `attributes()` reports is an in-range slice of the string: the name
    range is non-empty, the value (when present) starts right after the `=` that follows the name, names and values are exactly the
    text of their ranges, and attributes are reported in increasing, non-overlapping order. -/
namespace H

def Attr.endPos (a : Attr) : Nat := match a.value with | some (_, _, ve) => ve | none => a.nameEnd

def AttrOK (src : Str) (a : Attr) : Prop :=
  a.nameStart < a.nameEnd ∧ a.nameEnd ≤ src.length ∧ (src.drop a.nameStart).take (a.nameEnd - a.nameStart) = a.name ∧
  match a.value with
  | none => True
  | some (v, vs, ve) => vs = a.nameEnd + 1 ∧ vs < ve ∧ ve ≤ src.length ∧ (src.drop vs).take (ve - vs) = v

theorem slice_mid (pre n r : Str) : ((pre ++ (n ++ r)).drop pre.length).take n.length = n := by
  simp

/-- latest-first accumulator: in range, and each one ends at or before the start of the next -/
def AccOK (src : Str) : List Attr → Nat → Prop
  | [], _ => True
  | a :: rest, bound => AttrOK src a ∧ a.endPos ≤ bound ∧ AccOK src rest a.nameStart

theorem AccOK.mono {src : Str} : ∀ {acc : List Attr} {b b' : Nat}, AccOK src acc b → b ≤ b' → AccOK src acc b'
  | [], _, _, _, _ => trivial
  | _ :: _, _, _, h, hb => ⟨h.1, Nat.le_trans h.2.1 hb, h.2.2⟩

/-- forward list: every attribute in range, consecutive ones ordered -/
def Ordered (src : Str) : List Attr → Prop
  | [] => True
  | [a] => AttrOK src a
  | a :: b :: rest => AttrOK src a ∧ a.endPos ≤ b.nameStart ∧ Ordered src (b :: rest)

theorem ordered_of_acc (src : Str) : ∀ (acc : List Attr) (b : Nat) (tail : List Attr), AccOK src acc b → Ordered src tail →
    (∀ t ts, tail = t :: ts → b ≤ t.nameStart) → Ordered src (acc.reverse ++ tail) := by
  intro acc
  induction acc with
  | nil => intro b tail _ ht _; simpa using ht
  | cons a rest ih =>
    intro b tail h ht hb
    obtain ⟨h1, h2, h3⟩ := h
    simp only [List.reverse_cons, List.append_assoc, List.singleton_append]
    apply ih a.nameStart (a :: tail) h3
    · cases tail with
      | nil => exact h1
      | cons t ts => exact ⟨h1, Nat.le_trans h2 (hb t ts rfl), ht⟩
    · intro t ts heq; simp only [List.cons.injEq] at heq; rw [← heq.1]; exact Nat.le_refl _

theorem attributesLoop_ok (src : Str) : ∀ (fuel : Nat) (s : Str) (pos : Nat) (acc : List Attr) (pre : Str),
    pre ++ s = src → pre.length = pos → AccOK src acc pos → Ordered src (attributesLoop fuel s pos acc) := by
  intro fuel
  induction fuel with
  | zero => intro s pos acc pre _ _ h; simp only [attributesLoop]; simpa using ordered_of_acc src acc pos [] h trivial (by intro t ts h; cases h)
  | succ fuel ih =>
    intro s pos acc pre hsrc hpos hacc
    have fin : Ordered src acc.reverse := by simpa using ordered_of_acc src acc pos [] hacc trivial (by intro t ts h; cases h)
    cases s with
    | nil => simp only [attributesLoop]; exact fin
    | cons x xs =>
      unfold attributesLoop
      have hsp := spanP_append isSpace (x :: xs)
      generalize hws : spanP isSpace (x :: xs) = sp at hsp
      obtain ⟨ws, r0⟩ := sp
      simp only at hsp ⊢
      have hsrc0 : (pre ++ ws) ++ r0 = src := by rw [List.append_assoc, hsp]; exact hsrc
      have hlen0 : (pre ++ ws).length = pos + ws.length := by simp [hpos]
      cases hn : attributeName r0 with
      | none =>
        simp only
        cases r0 with
        | nil => exact fin
        | cons y r1 =>
          simp only
          exact ih r1 _ acc ((pre ++ ws) ++ [y]) (by rw [List.append_assoc, List.singleton_append]; exact hsrc0) (by simp [hpos]; omega)
            (hacc.mono (by omega))
      | some res =>
        obtain ⟨n, r1⟩ := res
        obtain ⟨hn1, hn2⟩ := attributeName_eq r0 n r1 hn
        simp only
        have hsrcN : (pre ++ ws) ++ (n ++ r1) = src := by rw [hn1]; exact hsrc0
        have hlenS : src.length = pos + ws.length + n.length + r1.length := by rw [← hsrcN]; simp [hpos]; omega
        have hname : (src.drop (pos + ws.length)).take (pos + ws.length + n.length - (pos + ws.length)) = n := by
          have := slice_mid (pre ++ ws) n r1
          rw [hsrcN, hlen0] at this
          rw [Nat.add_sub_cancel_left]; exact this
        have accN : AccOK src acc (pos + ws.length) := hacc.mono (by omega)
        -- attribute without value
        have noval : ∀ bound, pos + ws.length + n.length ≤ bound →
            AccOK src (⟨n, pos + ws.length, pos + ws.length + n.length, none⟩ :: acc) bound := by
          intro bound hb
          exact ⟨⟨by simp only; omega, by simp only; omega, hname, trivial⟩, by simp only [Attr.endPos]; exact hb, accN⟩
        cases r1 with
        | nil => exact ih [] _ _ ((pre ++ ws) ++ n) (by rw [← hsrcN]; simp) (by simp [hpos]; omega) (noval _ (Nat.le_refl _))
        | cons c r2 =>
          by_cases h61 : c = 61
          · subst h61
            simp only
            cases hv : attributeValue r2 with
            | none =>
              simp only
              exact ih r2 _ _ ((pre ++ ws) ++ n ++ [61]) (by rw [← hsrcN]; simp) (by simp [hpos]; omega) (noval _ (by omega))
            | some vr =>
              obtain ⟨v, r3⟩ := vr
              obtain ⟨hv1, hv2⟩ := attributeValue_eq r2 v r3 hv
              simp only
              have hsrcV : ((pre ++ ws) ++ n ++ [61]) ++ (v ++ r3) = src := by rw [hv1, ← hsrcN]; simp
              have hlenV : ((pre ++ ws) ++ n ++ [61]).length = pos + ws.length + n.length + 1 := by simp [hpos]; omega
              have hval : (src.drop (pos + ws.length + n.length + 1)).take (pos + ws.length + n.length + 1 + v.length - (pos + ws.length + n.length + 1)) = v := by
                have := slice_mid ((pre ++ ws) ++ n ++ [61]) v r3
                rw [hsrcV, hlenV] at this
                rw [Nat.add_sub_cancel_left]; exact this
              have hlenS2 : src.length = pos + ws.length + n.length + 1 + v.length + r3.length := by rw [← hsrcV]; simp [hpos]; omega
              refine ih r3 _ _ (((pre ++ ws) ++ n ++ [61]) ++ v) (by rw [← hsrcV]; simp) (by simp [hpos]; omega) ?_
              exact ⟨⟨by simp only; omega, by simp only; omega, hname, rfl, by omega, by omega, hval⟩, by simp [Attr.endPos], accN⟩
          · split
            · rename_i heq; simp only [List.cons.injEq] at heq; exact absurd heq.1 h61
            · exact ih (c :: r2) _ _ ((pre ++ ws) ++ n) (by rw [← hsrcN]; simp) (by simp [hpos]; omega) (noval _ (Nat.le_refl _))

/-- **C16, HTML attribute parser**: for EVERY string the attributes reported by `attributes()` are ordered, non-overlapping, in-range
    slices of the string. -/
theorem attributes_ranges (src : Str) : Ordered src (attributesLoop (src.length + 1) src 0 []) :=
  attributesLoop_ok src (src.length + 1) src 0 [] [] rfl rfl trivial

end H
