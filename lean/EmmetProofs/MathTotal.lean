import Emmet.Math
/-! C19, rejection side: for EVERY string the evaluator model ends with a value, the module's parse error, or ZeroDivisionError —
    never with an internal error (`IndexError` from an empty stack) and never out of fuel. -/
namespace M

/-! ## lengths -/
theorem spanP_length (p : Ch → Bool) (l : Str) : (spanP p l).1.length + (spanP p l).2.length = l.length := by
  induction l with
  | nil => simp [spanP]
  | cons x xs ih =>
    unfold spanP
    split
    · simp only [List.length_cons]; omega
    · simp

theorem consumeNumber_length {r0 ds fs r1 : Str} {n : Nat} (h : consumeNumber r0 = some (ds, fs, r1, n)) : r1.length < r0.length := by
  unfold consumeNumber at h
  split at h
  · rename_i r
    have := spanP_length isNumber r
    simp only at h
    split at h
    · simp only [Option.some.injEq, Prod.mk.injEq] at h
      obtain ⟨_, _, h3, _⟩ := h
      rw [← h3]; simp only [List.length_cons]; omega
    · cases h
  · have h0 := spanP_length isNumber r0
    simp only at h
    split at h
    · cases h
    · rename_i hne
      have hpos : 0 < (spanP isNumber r0).1.length := by
        cases hd : (spanP isNumber r0).1 with
        | nil => simp [hd] at hne
        | cons a b => simp
      split at h
      · rename_i r2 hr1
        have h2 := spanP_length isNumber r2
        split at h
        · simp only [Option.some.injEq, Prod.mk.injEq] at h
          obtain ⟨_, _, h3, _⟩ := h
          rw [← h3]
          have : (spanP isNumber r0).2.length = r2.length + 1 := by rw [hr1]; simp
          omega
        · cases h
      · simp only [Option.some.injEq, Prod.mk.injEq] at h
        obtain ⟨_, _, h3, _⟩ := h
        rw [← h3]; omega

/-! ## shape of the token sequence -/
/-- one step of the infix state machine: `st = true` after a primary (number or `()`), `false` where a primary is expected -/
def sstep (st : Bool) (t : Token) : Option Bool :=
  match t.type with
  | .num => if st then none else some true
  | .null => if st then none else some true
  | .op1 => if st then none else some false
  | .op2 => if st then some false else none
def srun : List Token → Bool → Option Bool
  | [], st => some st
  | t :: ts, st => match sstep st t with | some st' => srun ts st' | none => none

theorem srun_snoc (l : List Token) (t : Token) (st0 st st' : Bool) (h : srun l st0 = some st) (hs : sstep st t = some st') :
    srun (l ++ [t]) st0 = some st' := by
  induction l generalizing st0 with
  | nil => simp only [srun] at h; cases h; simp [srun, hs]
  | cons a l ih =>
    simp only [srun, List.cons_append] at h ⊢
    split at h
    · rename_i st1 h1; exact ih st1 h
    · cases h

def ExpInv (expected : Nat) (acc : List Token) : Prop :=
  ∃ st, srun acc.reverse false = some st ∧ (st = true → expected = 10) ∧ (st = false → expected = 21 ∨ expected = 53)

def MErr.isMath : MErr → Prop | .math _ => True | _ => False

def Good (r : Except MErr (List Token × Int × Nat)) : Prop :=
  match r with
  | .ok r => ∃ st, srun r.1 false = some st
  | .error e => e.isMath
theorem good_math (p : Nat) : Good (.error (.math p)) := by simp [Good, MErr.isMath]

theorem parseLoop_shape : ∀ (fuel : Nat) (rest : Str) (pos : Nat) (prio : Int) (expected : Nat) (acc : List Token),
    rest.length < fuel → ExpInv expected acc → Good (parseLoop fuel rest pos prio expected acc) := by
  intro fuel
  induction fuel with
  | zero => intro rest pos prio expected acc h; omega
  | succ fuel ih =>
    intro rest pos prio expected acc hlen hinv
    obtain ⟨st, hrun, hT, hF⟩ := hinv
    cases rest with
    | nil => simp only [parseLoop, Good]; exact ⟨st, by simpa using hrun⟩
    | cons x xs =>
      unfold parseLoop
      have hsp := spanP_length isWhiteSpace (x :: xs)
      generalize hws : spanP isWhiteSpace (x :: xs) = sp at hsp
      obtain ⟨ws, r0⟩ := sp
      simp only at hsp ⊢
      cases hcn : consumeNumber r0 with
      | some res =>
        obtain ⟨ds, fs, r1, n⟩ := res
        have hl := consumeNumber_length hcn
        simp only
        by_cases hP : (!has expected Primary) = true
        · simp only [hP, if_true]; exact good_math _
        · simp only [hP, Bool.false_eq_true, if_false]
          have hst : st = false := by
            cases st with
            | false => rfl
            | true => rw [hT rfl] at hP; exact absurd (by decide) hP
          subst hst
          refine ih r1 _ prio _ _ (by simp only [List.length_cons] at hlen hsp; omega) ⟨true, ?_, fun _ => rfl, fun h => by cases h⟩
          simp only [List.reverse_cons]
          exact srun_snoc _ _ false false true hrun (by simp [sstep])
      | none =>
        simp only
        cases r0 with
        | nil => exact good_math _
        | cons ch r1 =>
          have hl1 : r1.length < fuel := by simp only [List.length_cons] at hlen hsp; omega
          simp only
          by_cases hop : isOperator ch = true
          · simp only [hop, if_true]
            by_cases hsg : (isSign ch && has expected Sign) = true
            · simp only [hsg, if_true]
              simp only [Bool.and_eq_true] at hsg
              have hst : st = false := by
                cases st with
                | false => rfl
                | true => rw [hT rfl] at hsg; exact absurd hsg.2 (by decide)
              subst hst
              refine ih r1 _ prio _ _ hl1 ⟨false, ?_, (fun h => by cases h), fun _ => Or.inl rfl⟩
              by_cases h45 : (ch == 45) = true
              · simp only [h45, if_true, List.reverse_cons]
                exact srun_snoc _ _ false false false hrun (by simp [sstep])
              · simp only [h45, Bool.false_eq_true, if_false]; exact hrun
            · simp only [hsg, Bool.false_eq_true, if_false]
              by_cases hO : (!has expected Operator) = true
              · simp only [hO, if_true]; exact good_math _
              · simp only [hO, Bool.false_eq_true, if_false]
                have hst : st = true := by
                  cases st with
                  | true => rfl
                  | false => rcases hF rfl with h | h <;> rw [h] at hO <;> exact absurd (by decide) hO
                subst hst
                refine ih r1 _ prio _ _ hl1 ⟨false, ?_, (fun h => by cases h), fun _ => Or.inl rfl⟩
                simp only [List.reverse_cons]
                exact srun_snoc _ _ false true false hrun (by simp [sstep])
          · simp only [hop, Bool.false_eq_true, if_false]
            by_cases h40 : (ch == 40) = true
            · simp only [h40, if_true]
              by_cases hL : (!has expected LParen) = true
              · simp only [hL, if_true]; exact good_math _
              · simp only [hL, Bool.false_eq_true, if_false]
                have hst : st = false := by
                  cases st with
                  | false => rfl
                  | true => rw [hT rfl] at hL; exact absurd (by decide) hL
                subst hst
                exact ih r1 _ _ _ _ hl1 ⟨false, hrun, (fun h => by cases h), fun _ => Or.inr rfl⟩
            · simp only [h40, Bool.false_eq_true, if_false]
              by_cases h41 : (ch == 41) = true
              · simp only [h41, if_true]
                by_cases hneg : prio - 10 < 0
                · simp only [hneg, if_true]; exact good_math _
                simp only [hneg, if_false]
                by_cases hN : has expected NullaryCall = true
                · simp only [hN, if_true]
                  have hst : st = false := by
                    cases st with
                    | false => rfl
                    | true => rw [hT rfl] at hN; exact absurd hN (by decide)
                  subst hst
                  refine ih r1 _ _ _ _ hl1 ⟨true, ?_, fun _ => rfl, fun h => by cases h⟩
                  simp only [List.reverse_cons]
                  exact srun_snoc _ _ false false true hrun (by simp [sstep])
                · simp only [hN, Bool.false_eq_true, if_false]
                  by_cases hR : (!has expected RParen) = true
                  · simp only [hR, if_true]; exact good_math _
                  · simp only [hR, Bool.false_eq_true, if_false]
                    have hst : st = true := by
                      cases st with
                      | true => rfl
                      | false => rcases hF rfl with h | h <;> rw [h] at hR <;> exact absurd (by decide) hR
                    subst hst
                    exact ih r1 _ _ _ _ hl1 ⟨true, hrun, fun _ => rfl, fun h => by cases h⟩
              · simp only [h41, Bool.false_eq_true, if_false]; exact good_math _


/-! ## parity: a sequence that passes the parity test is a complete infix sequence without `()` -/
def bI (b : Bool) : Int := if b then 1 else 0
def nNull : List Token → Nat
  | [] => 0
  | t :: ts => (if t.type = .null then 1 else 0) + nNull ts

theorem arity_cons (t : Token) (ts : List Token) :
    arity (t :: ts) = (if t.type == .num then 0 else if t.type == .op1 then 1 else 2) + arity ts := by
  simp [arity]

theorem srun_count : ∀ (l : List Token) (st st' : Bool), srun l st = some st' →
    (arity l : Int) - l.length = bI st - bI st' + 2 * nNull l := by
  intro l
  induction l with
  | nil => intro st st' h; simp only [srun, Option.some.injEq] at h; subst h; simp [arity, nNull]
  | cons t ts ih =>
    intro st st' h
    simp only [srun] at h
    split at h
    · rename_i st1 h1
      have := ih st1 st' h
      rw [arity_cons]
      simp only [List.length_cons, nNull]
      unfold sstep at h1
      cases ht : t.type <;> simp only [ht] at h1 ⊢ <;> cases st <;> simp at h1 <;> subst h1 <;> simp [bI] at this ⊢ <;> omega
    · cases h

theorem nNull_zero : ∀ (l : List Token), nNull l = 0 → ∀ t ∈ l, t.type ≠ .null := by
  intro l
  induction l with
  | nil => intro _ t ht; cases ht
  | cons a l ih =>
    intro h t ht
    simp only [nNull] at h
    simp only [List.mem_cons] at ht
    rcases ht with rfl | ht
    · intro hn; simp [hn] at h
    · exact ih (by omega) t ht

theorem parity_complete (l : List Token) (st : Bool) (hrun : srun l false = some st) (hp : arity l + 1 = l.length) :
    st = true ∧ ∀ t ∈ l, t.type ≠ .null := by
  have h := srun_count l false st hrun
  have hp' : (arity l : Int) - l.length = -1 := by omega
  rw [hp'] at h
  cases st with
  | false => simp [bI] at h; omega
  | true => simp [bI] at h; exact ⟨rfl, nNull_zero l (by omega)⟩

/-! ## the ordered sequence never underflows -/
def nOp2 : List Token → Nat
  | [] => 0
  | t :: ts => (if t.type = .op2 then 1 else 0) + nOp2 ts
def IsOp (t : Token) : Prop := t.type = .op1 ∨ t.type = .op2

/-- stack depth simulation of the RPN loop -/
def depth : List Token → Nat → Option Nat
  | [], d => some d
  | t :: ts, d =>
    match t.type with
    | .num => depth ts (d + 1)
    | .op1 => if 1 ≤ d then depth ts d else none
    | .op2 => if 2 ≤ d then depth ts (d - 1) else none
    | .null => none

theorem depth_append (a b : List Token) (d : Nat) : depth (a ++ b) d = (depth a d).bind (depth b) := by
  induction a generalizing d with
  | nil => simp [depth]
  | cons t ts ih =>
    simp only [List.cons_append, depth]
    cases t.type <;> simp only [ih]
    · split <;> simp
    · split <;> simp
    · simp

theorem depth_ops : ∀ (ops : List Token), (∀ o ∈ ops, IsOp o) → depth ops (nOp2 ops + 1) = some 1 := by
  intro ops
  induction ops with
  | nil => intro _; simp [depth, nOp2]
  | cons o os ih =>
    intro h
    have ho := h o (by simp)
    have ih' := ih (fun x hx => h x (by simp [hx]))
    rcases ho with ho | ho
    · simp only [depth, ho, nOp2]
      simp [ih']
    · simp only [depth, ho, nOp2, if_true]
      have h2 : 2 ≤ 1 + nOp2 os + 1 := by omega
      have e : 1 + nOp2 os + 1 - 1 = nOp2 os + 1 := by omega
      simp only [h2, if_true, e]; exact ih'

theorem popWhile_inv (t : Token) : ∀ (ops operands : List Token), (∀ o ∈ ops, IsOp o) →
    depth operands.reverse 0 = some (nOp2 ops + 1) →
    (∀ o ∈ (popWhile t ops operands).1, IsOp o) ∧
      depth (popWhile t ops operands).2.reverse 0 = some (nOp2 (popWhile t ops operands).1 + 1) := by
  intro ops
  induction ops with
  | nil => intro operands h hd; simp only [popWhile]; exact ⟨h, hd⟩
  | cons o os ih =>
    intro operands h hd
    unfold popWhile
    split
    · apply ih (o :: operands) (fun x hx => h x (by simp [hx]))
      simp only [List.reverse_cons, depth_append, hd, Option.bind_some]
      rcases h o (by simp) with ho | ho
      · simp only [depth, ho, nOp2]
        simp
      · simp only [depth, ho, nOp2, if_true]
        have h2 : 2 ≤ 1 + nOp2 os + 1 := by omega
        have e : 1 + nOp2 os + 1 - 1 = nOp2 os + 1 := by omega
        simp only [h2, if_true, e]
    · exact ⟨h, hd⟩

theorem orderLoopF_inv : ∀ (ts ops operands : List Token) (st st' : Bool), srun ts st = some st' → (∀ t ∈ ts, t.type ≠ .null) →
    (∀ o ∈ ops, IsOp o) → depth operands.reverse 0 = some (nOp2 ops + (if st then 1 else 0)) →
    (∀ o ∈ (orderLoopF ts ops operands).1, IsOp o) ∧
      depth (orderLoopF ts ops operands).2.reverse 0 = some (nOp2 (orderLoopF ts ops operands).1 + (if st' then 1 else 0)) := by
  intro ts
  induction ts with
  | nil => intro ops operands st st' h _ hops hd; simp only [srun, Option.some.injEq] at h; subst h; simp only [orderLoopF]; exact ⟨hops, hd⟩
  | cons t ts ih =>
    intro ops operands st st' h hnn hops hd
    have hnn' : ∀ x ∈ ts, x.type ≠ .null := fun x hx => hnn x (by simp [hx])
    have htn := hnn t (by simp)
    simp only [srun] at h
    split at h
    · rename_i st1 h1
      unfold orderLoopF
      unfold sstep at h1
      cases ht : t.type with
      | num =>
        simp only [ht] at h1
        cases st <;> simp at h1
        subst h1
        simp only [beq_self_eq_true, if_true]
        refine ih ops (t :: operands) true st' h hnn' hops ?_
        simp only [List.reverse_cons, depth_append, hd, Option.bind_some, depth, ht]
        simp
      | op1 =>
        simp only [ht] at h1
        cases st <;> simp at h1
        subst h1
        have : (TokType.op1 == TokType.num) = false := by decide
        simp only [this, Bool.false_eq_true, if_false, beq_self_eq_true, if_true]
        refine ih (t :: ops) operands false st' h hnn' ?_ ?_
        · intro o ho; simp only [List.mem_cons] at ho; rcases ho with rfl | ho; exact Or.inl ht; exact hops o ho
        · simp only [nOp2, ht]; simpa using hd
      | op2 =>
        simp only [ht] at h1
        cases st <;> simp at h1
        subst h1
        have e1 : (TokType.op2 == TokType.num) = false := by decide
        have e2 : (TokType.op2 == TokType.op1) = false := by decide
        simp only [e1, e2, Bool.false_eq_true, if_false]
        obtain ⟨p1, p2⟩ := popWhile_inv t ops operands hops (by simpa using hd)
        refine ih _ _ false st' h hnn' ?_ ?_
        · intro o ho; simp only [List.mem_cons] at ho; rcases ho with rfl | ho; exact Or.inr ht; exact p1 o ho
        · simp only [nOp2, ht]; rw [p2]; simp; omega
      | null => exact absurd ht htn
    · cases h

/-! ## the RPN loop on a depth-valid sequence -/
theorem evalLoop_depth : ∀ (rpn : List Token) (st : List Q) (d : Nat), depth rpn st.length = some d →
    evalLoop rpn st = .error .zeroDiv ∨ ∃ st', evalLoop rpn st = .ok st' ∧ st'.length = d := by
  intro rpn
  induction rpn with
  | nil => intro st d h; simp only [depth, Option.some.injEq] at h; exact Or.inr ⟨st, by simp [evalLoop], h⟩
  | cons t ts ih =>
    intro st d h
    unfold evalLoop
    simp only [depth] at h
    cases ht : t.type with
    | num => simp only [ht] at h ⊢; exact ih (t.value :: st) d (by simpa using h)
    | op1 =>
      simp only [ht] at h ⊢
      cases st with
      | nil => simp at h
      | cons n1 rest =>
        simp only [List.length_cons] at h
        have : 1 ≤ rest.length + 1 := by omega
        simp only [this, if_true] at h
        exact ih (n1.neg :: rest) d (by simpa using h)
    | op2 =>
      simp only [ht] at h ⊢
      cases st with
      | nil => simp at h
      | cons n2 r1 =>
        cases r1 with
        | nil => simp at h
        | cons n1 rest =>
          simp only [List.length_cons] at h
          have : 2 ≤ rest.length + 1 + 1 := by omega
          simp only [this, if_true] at h
          have h' : depth ts (rest.length + 1) = some d := by simpa using h
          simp only
          by_cases c1 : (t.op == 43) = true
          · simp only [c1, if_true]; exact ih (_ :: rest) d (by simpa using h')
          · simp only [c1, Bool.false_eq_true, if_false]
            by_cases c2 : (t.op == 45) = true
            · simp only [c2, if_true]; exact ih (_ :: rest) d (by simpa using h')
            · simp only [c2, Bool.false_eq_true, if_false]
              by_cases c3 : (t.op == 42) = true
              · simp only [c3, if_true]; exact ih (_ :: rest) d (by simpa using h')
              · simp only [c3, Bool.false_eq_true, if_false]
                by_cases c4 : n2.isZero = true
                · simp only [c4, if_true]; exact Or.inl (by simp)
                · simp only [c4, Bool.false_eq_true, if_false]
                  by_cases c5 : (t.op == 47) = true
                  · simp only [c5, if_true]; exact ih (_ :: rest) d (by simpa using h')
                  · simp only [c5, Bool.false_eq_true, if_false]; exact ih (_ :: rest) d (by simpa using h')
    | null => simp only [ht] at h; cases h

/-! ## the theorem -/
def MErr.documented : MErr → Prop
  | .math _ => True
  | .mathNoPos => True
  | .zeroDiv => True
  | _ => False

/-- **C19, rejection side**: for EVERY string, `evaluate` ends with a value (or nothing, for an empty token list), the module's parse
    error, or ZeroDivisionError. -/
theorem evaluate_total (s : Str) : match evaluate s with | .ok _ => True | .error e => e.documented := by
  unfold evaluate evaluateF
  have hp := parseLoop_shape (s.length + 1) s 0 0 (Primary + LParen + Sign) [] (by omega)
    ⟨false, by simp [srun], (fun h => by cases h), fun _ => Or.inl (by decide)⟩
  cases hpl : parseLoop (s.length + 1) s 0 0 (Primary + LParen + Sign) [] with
  | error e =>
    rw [hpl] at hp
    simp only [Good] at hp
    cases e <;> simp [MErr.isMath] at hp
    simp [bind, Except.bind, MErr.documented]
  | ok r =>
    obtain ⟨tokens, prio, pos⟩ := r
    rw [hpl] at hp
    obtain ⟨st, hrun⟩ := hp
    simp only [bind, Except.bind]
    by_cases h10 : prio ≥ 10
    · simp only [h10, if_true, MErr.documented]
    · simp only [h10, if_false]
      by_cases hpar : (arity tokens + 1 != tokens.length) = true
      · simp only [hpar, if_true, MErr.documented]
      · simp only [hpar, Bool.false_eq_true, if_false]
        have hpar' : arity tokens + 1 = tokens.length := by simpa using hpar
        obtain ⟨hst, hnn⟩ := parity_complete tokens st hrun hpar'
        subst hst
        obtain ⟨o1, o2⟩ := orderLoopF_inv tokens [] [] false true hrun hnn (by intro o ho; cases ho) (by simp [depth, nOp2])
        have hd : depth (orderF tokens) 0 = some 1 := by
          unfold orderF
          rw [depth_append, o2]
          simp only [if_true, Option.bind_some]
          exact depth_ops _ o1
        by_cases hemp : (orderF tokens).isEmpty = true
        · simp only [hemp, if_true, pure, Except.pure]
        · simp only [hemp, Bool.false_eq_true, if_false]
          rcases evalLoop_depth (orderF tokens) [] 1 (by simpa using hd) with he | ⟨st', he, hl⟩
          · rw [he]; simp [MErr.documented]
          · rw [he]
            match st', hl with
            | [v], _ => simp [pure, Except.pure]

end M
