import Emmet.Action
import EmmetProofs.CssMatchRanges
import EmmetProofs.SplitValueRanges
/-! C17, `select_item_css`: for ANY source and position, the selected item lies inside the source and every range it lists — the full
    range, the value range and each value-token range — lies inside the item (the value tokens inside the value). -/
namespace C

/-- the item is in the source and each listed range is inside the item -/
def ItemOK (n : Int) (it : Item) : Prop :=
  0 ≤ it.start ∧ it.start ≤ it.stop ∧ it.stop ≤ n ∧ ∀ r ∈ it.ranges, it.start ≤ r.1 ∧ r.1 ≤ r.2 ∧ r.2 ≤ it.stop

theorem pushRange_mem {rs : List (Int × Int)} {r x : Int × Int} (h : x ∈ pushRange rs r) : x ∈ rs ∨ x = r := by
  unfold pushRange at h
  split at h
  · split at h
    · simp only [List.mem_append, List.mem_singleton] at h; exact h
    · exact Or.inl h
  · split at h
    · simp only [List.mem_append, List.mem_singleton] at h; exact h
    · exact Or.inl h

theorem slice_length (src : Str) (a b : Int) (h0 : 0 ≤ a) (hab : a ≤ b) (hb : b ≤ src.length) :
    ((slice src a b).length : Int) = b - a := by
  unfold slice
  simp only [List.length_take, List.length_drop]
  omega

/-- value range and value tokens all lie between `lo` and `hi` when the value does -/
theorem valueRanges_in (src : Str) (start stop lo hi : Int) (rs : List (Int × Int))
    (h0 : 0 ≤ start) (hss : start ≤ stop) (hn : stop ≤ src.length) (hlo : lo ≤ start) (hhi : stop ≤ hi)
    (hrs : ∀ r ∈ rs, lo ≤ r.1 ∧ r.1 ≤ r.2 ∧ r.2 ≤ hi) :
    ∀ r ∈ valueRanges src start stop rs, lo ≤ r.1 ∧ r.1 ≤ r.2 ∧ r.2 ≤ hi := by
  unfold valueRanges
  have hsl := slice_length src start stop h0 hss hn
  have htok := splitValue_ranges (slice src start stop)
  generalize splitValue (slice src start stop) = toks at htok
  have hbase : ∀ r ∈ pushRange rs (start, stop), lo ≤ r.1 ∧ r.1 ≤ r.2 ∧ r.2 ≤ hi := by
    intro r hr
    rcases pushRange_mem hr with h | h
    · exact hrs r h
    · subst h; exact ⟨hlo, hss, hhi⟩
  generalize pushRange rs (start, stop) = acc at hbase
  induction toks generalizing acc with
  | nil => simpa using hbase
  | cons t ts ih =>
    simp only [List.foldl_cons]
    apply ih (fun r hr => htok r (by simp [hr]))
    intro r hr
    rcases pushRange_mem hr with h | h
    · exact hbase r h
    · subst h
      obtain ⟨a, b, c⟩ := htok t (by simp)
      simp only
      omega

theorem propertyEnd_bounds (src : Str) (ev : Ev) (h : EvOK src.length ev) :
    ev.stop ≤ propertyEnd src ev.stop ev.delimiter ∧ propertyEnd src ev.stop ev.delimiter ≤ src.length := by
  obtain ⟨h1, h2, h3, h4⟩ := h
  unfold propertyEnd
  split
  · rename_i hc
    simp only [Bool.and_eq_true, bne_iff_ne, ne_eq, decide_eq_true_eq] at hc
    rcases h4 with h4 | h4
    · exact absurd h4 hc.1.1
    · omega
  · omega

theorem nextLoop_ok (src : Str) (pos : Int) : ∀ (evs : List Ev) (pending : Option Rng),
    (∀ e ∈ evs, EvOK src.length e) → evs.Pairwise (fun a b => Le a b.start) →
    (∀ p, pending = some p → 0 ≤ p.1 ∧ p.1 ≤ p.2.1 ∧ p.2.1 ≤ src.length ∧ ∀ e ∈ evs, p.1 ≤ e.start) →
    ∀ it, nextLoop src pos evs pending = some it → ItemOK src.length it := by
  intro evs
  induction evs with
  | nil => intro pending _ _ _ it h; simp [nextLoop] at h
  | cons ev evs ih =>
    intro pending hok hs hp it h
    have hev := hok ev (by simp)
    have hok' : ∀ e ∈ evs, EvOK src.length e := fun e he => hok e (by simp [he])
    obtain ⟨hhead, hs'⟩ := List.pairwise_cons.mp hs
    have hp' : ∀ p, pending = some p → 0 ≤ p.1 ∧ p.1 ≤ p.2.1 ∧ p.2.1 ≤ src.length ∧ ∀ e ∈ evs, p.1 ≤ e.start :=
      fun p hpp => ⟨(hp p hpp).1, (hp p hpp).2.1, (hp p hpp).2.2.1, fun e he => (hp p hpp).2.2.2 e (by simp [he])⟩
    obtain ⟨pe1, pe2⟩ := propertyEnd_bounds src ev hev
    obtain ⟨e1, e2, e3, e4⟩ := hev
    unfold nextLoop at h
    split at h
    · exact ih pending hok' hs' hp' it h
    · split at h
      · -- selector
        cases h
        exact ⟨e1, e2, e3, by intro r hr; simp only [List.mem_singleton] at hr; subst hr; exact ⟨Int.le_refl _, e2, Int.le_refl _⟩⟩
      · -- propertyName
        refine ih _ hok' hs' ?_ it h
        intro p hpp; cases hpp
        exact ⟨e1, e2, e3, fun e he => (hhead e he).1⟩
      · -- propertyValue
        simp only at h
        split at h
        · rename_i p
          obtain ⟨p0, p1, p2, p3⟩ := hp p rfl
          have hps := p3 ev (by simp)
          cases h
          refine ⟨p0, by simp only; omega, pe2, ?_⟩
          simp only
          apply valueRanges_in src ev.start ev.stop _ _ _ e1 e2 e3 hps pe1
          intro r hr
          rcases pushRange_mem hr with hh | hh
          · cases hh
          · subst hh; exact ⟨by omega, by simp only; omega, by omega⟩
        · cases h
          refine ⟨e1, by simp only; omega, pe2, ?_⟩
          simp only
          exact valueRanges_in src ev.start ev.stop _ _ _ e1 e2 e3 (by omega) pe1 (by intro r hr; cases hr)
      · -- blockEnd
        split at h
        · rename_i p
          obtain ⟨p0, p1, p2, _⟩ := hp p rfl
          cases h
          exact ⟨p0, p1, p2, by intro r hr; simp only [List.mem_singleton] at hr; subst hr; exact ⟨Int.le_refl _, p1, Int.le_refl _⟩⟩
        · exact ih none hok' hs' (by intro p hp; cases hp) it h

/-- **C17, `select_item_css` (next)**: for EVERY source and position the selected selector / declaration lies inside the source, and its
    full range, value range and every value-token range lie inside it. -/
theorem selectNextCss_ranges (src : Str) (pos : Int) : ∀ it, nextLoop src pos (scan src) none = some it → ItemOK src.length it :=
  nextLoop_ok src pos (scan src) none (scan_ranges src) (scan_sorted src) (by intro p hp; cases hp)


/-! ## previous direction -/
/-- what the backward state remembers is consistent: the remembered item is a token of the source, and a remembered value is a later
    token of the source -/
def PInv (n : Int) (evs : List Ev) (st : PState) : Prop :=
  (st.type ≠ none → 0 ≤ st.start ∧ st.start ≤ st.stop ∧ st.stop ≤ n ∧ ∀ e ∈ evs, st.start ≤ e.start) ∧
  (st.vStart ≠ -1 → ∃ v, EvOK n v ∧ v.start = st.vStart ∧ v.stop = st.vEnd ∧ v.delimiter = st.vDelim ∧ (st.type ≠ none → st.start ≤ v.start))

theorem prevLoop_inv (n pos : Int) : ∀ (evs : List Ev) (st : PState),
    (∀ e ∈ evs, EvOK n e) → evs.Pairwise (fun a b => Le a b.start) → PInv n evs st → PInv n [] (prevLoop pos evs st) := by
  intro evs
  induction evs with
  | nil => intro st _ _ h; simpa [prevLoop] using h
  | cons ev evs ih =>
    intro st hok hs hinv
    have hev := hok ev (by simp)
    have hok' : ∀ e ∈ evs, EvOK n e := fun e he => hok e (by simp [he])
    obtain ⟨hhead, hs'⟩ := List.pairwise_cons.mp hs
    have weaken : ∀ st', PInv n (ev :: evs) st' → PInv n [] st' := by
      intro st' h
      exact ⟨fun ht => ⟨(h.1 ht).1, (h.1 ht).2.1, (h.1 ht).2.2.1, by intro e he; cases he⟩, h.2⟩
    have tail : PInv n evs st := ⟨fun ht => ⟨(hinv.1 ht).1, (hinv.1 ht).2.1, (hinv.1 ht).2.2.1, fun e he => (hinv.1 ht).2.2.2 e (by simp [he])⟩, hinv.2⟩
    unfold prevLoop
    split
    · exact weaken st hinv
    · obtain ⟨e1, e2, e3, e4⟩ := hev
      have fresh : PInv n evs { type := some ev.type, start := ev.start, stop := ev.stop } :=
        ⟨fun _ => ⟨e1, e2, e3, fun e he => (hhead e he).1⟩, fun h => absurd rfl h⟩
      split
      · exact ih _ hok' hs' fresh
      · exact ih _ hok' hs' fresh
      · refine ih _ hok' hs' ⟨tail.1, fun _ => ⟨ev, ⟨e1, e2, e3, e4⟩, rfl, rfl, rfl, fun ht => (hinv.1 ht).2.2.2 ev (by simp)⟩⟩
      · exact ih _ hok' hs' tail

/-- **C17, `select_item_css` (previous)**: the same containment for the previous selector / declaration. -/
theorem selectPrevCss_ranges (src : Str) (pos : Int) : ∀ it, selectPrevCss src pos (scan src) = some it → ItemOK src.length it := by
  intro it h
  have hinv := prevLoop_inv src.length pos (scan src) {} (scan_ranges src) (scan_sorted src)
    ⟨fun ht => absurd rfl ht, fun hv => absurd rfl hv⟩
  unfold selectPrevCss at h
  generalize prevLoop pos (scan src) {} = st at hinv h
  obtain ⟨i1, i2⟩ := hinv
  simp only at h
  split at h
  · rename_i ht
    obtain ⟨a, b, c, _⟩ := i1 (by rw [ht]; simp)
    cases h
    exact ⟨a, b, c, by intro r hr; simp only [List.mem_singleton] at hr; subst hr; exact ⟨Int.le_refl _, b, Int.le_refl _⟩⟩
  · rename_i ht
    obtain ⟨a, b, c, _⟩ := i1 (by rw [ht]; simp)
    split at h
    · rename_i hv
      obtain ⟨v, hvok, v1, v2, v3, v4⟩ := i2 (by simpa using hv)
      have hsv := v4 (by rw [ht]; simp)
      obtain ⟨pe1, pe2⟩ := propertyEnd_bounds src v hvok
      obtain ⟨e1, e2, e3, e4⟩ := hvok
      rw [v1, v2, v3] at *
      cases h
      refine ⟨a, by simp only; omega, pe2, ?_⟩
      simp only
      apply valueRanges_in src st.vStart st.vEnd _ _ _ e1 e2 e3 hsv pe1
      intro r hr
      rcases pushRange_mem hr with hh | hh
      · cases hh
      · subst hh; exact ⟨Int.le_refl _, by simp only; omega, Int.le_refl _⟩
    · cases h
      refine ⟨a, b, c, ?_⟩
      intro r hr
      simp only at hr
      rcases pushRange_mem hr with hh | hh
      · cases hh
      · subst hh; exact ⟨Int.le_refl _, b, Int.le_refl _⟩
  · cases h

end C
