import EmmetProofs.CssScanRanges
import Emmet.Matcher.CssMatch
/-! C16: `split_value` reports non-empty, ordered ranges inside the value, for ANY value. -/
namespace C

def RngOK (n : Int) (r : Int × Int) : Prop := 0 ≤ r.1 ∧ r.1 < r.2 ∧ r.2 ≤ n

def SplitPost (n : Int) (r : List (Int × Int) × Int × Int) : Prop :=
  (∀ q ∈ r.1, RngOK n q) ∧ (r.2.1 = -1 ∨ (0 ≤ r.2.1 ∧ r.2.1 ≤ r.2.2)) ∧ r.2.2 ≤ n

def SplitPre (n : Int) (rest : Str) (pos start : Int) (acc : List (Int × Int)) : Prop :=
  pos + rest.length = n ∧ 0 ≤ pos ∧ (start = -1 ∨ (0 ≤ start ∧ start < pos)) ∧ ∀ r ∈ acc, RngOK n r

theorem pre_post {n : Int} {rest : Str} {pos start : Int} {acc : List (Int × Int)} (h : SplitPre n rest pos start acc) :
    SplitPost n (acc, start, pos) := by
  obtain ⟨h1, h2, h3, h4⟩ := h
  refine ⟨h4, ?_, by simp only; omega⟩
  rcases h3 with h3 | h3
  · exact Or.inl h3
  · exact Or.inr ⟨h3.1, by simp only; omega⟩

/-- the flush at a delimiter keeps the precondition for any later position -/
theorem flush_pre {n : Int} {rest r : Str} {pos start expr p1 : Int} {acc : List (Int × Int)}
    (h : SplitPre n rest pos start acc) (hr : p1 + r.length = n) (hp : pos < p1) :
    SplitPre n r p1 (if (expr == 0 && start != -1) = true then ((start, pos) :: acc, (-1 : Int)) else (acc, start)).2
      (if (expr == 0 && start != -1) = true then ((start, pos) :: acc, (-1 : Int)) else (acc, start)).1 := by
  obtain ⟨h1, h2, h3, h4⟩ := h
  by_cases hc : (expr == 0 && start != -1) = true
  · simp only [hc, if_true]
    have hne : start ≠ -1 := by simp at hc; exact hc.2
    refine ⟨hr, by omega, Or.inl rfl, ?_⟩
    intro q hq
    simp only [List.mem_cons] at hq
    rcases hq with rfl | hq
    · rcases h3 with h3 | h3
      · exact absurd h3 hne
      · exact ⟨h3.1, h3.2, by simp only; omega⟩
    · exact h4 q hq
  · simp only [hc, Bool.false_eq_true, if_false]
    refine ⟨hr, by omega, ?_, h4⟩
    rcases h3 with h3 | h3
    · exact Or.inl h3
    · exact Or.inr ⟨h3.1, by omega⟩

theorem space_pre {n : Int} {r : Str} {p1 start : Int} {acc : List (Int × Int)} (h : SplitPre n r p1 start acc) :
    SplitPre n (spanSpace r 0).1 (p1 + (spanSpace r 0).2) start acc := by
  obtain ⟨h1, h2, h3, h4⟩ := h
  have := spanSpace_len r 0
  refine ⟨by omega, by omega, ?_, h4⟩
  rcases h3 with h3 | h3
  · exact Or.inl h3
  · exact Or.inr ⟨h3.1, by omega⟩

theorem start_pre {n : Int} {rest r : Str} {pos start p1 : Int} {acc : List (Int × Int)}
    (h : SplitPre n rest pos start acc) (hr : p1 + r.length = n) (hp : pos < p1) :
    SplitPre n r p1 (if (start == -1) = true then pos else start) acc := by
  obtain ⟨h1, h2, h3, h4⟩ := h
  refine ⟨hr, by omega, ?_, h4⟩
  by_cases hs : (start == -1) = true
  · simp only [hs, if_true]; exact Or.inr ⟨h2, hp⟩
  · simp only [hs, Bool.false_eq_true, if_false]
    rcases h3 with h3 | h3
    · exact absurd (by simpa using h3) hs
    · exact Or.inr ⟨h3.1, by omega⟩

theorem splitLoop_ok (n : Int) : ∀ (fuel : Nat) (rest : Str) (pos start expr : Int) (acc : List (Int × Int)),
    SplitPre n rest pos start acc → SplitPost n (splitLoop fuel rest pos start expr acc) := by
  intro fuel
  induction fuel with
  | zero => intro rest pos start expr acc h; simp only [splitLoop]; exact pre_post h
  | succ fuel ih =>
    intro rest pos start expr acc h
    cases rest with
    | nil => simp only [splitLoop]; exact pre_post h
    | cons x xs =>
      have hlen : pos + 1 + (xs.length : Int) = n := by
        have := h.1; simp only [List.length_cons] at this; push_cast at this; omega
      have delim : ∀ (r : Str) (p1 : Int), p1 + r.length = n → pos < p1 →
          SplitPost n (splitLoop fuel (spanSpace r 0).1 (p1 + (spanSpace r 0).2)
            (if (expr == 0 && start != -1) = true then ((start, pos) :: acc, (-1 : Int)) else (acc, start)).2 expr
            (if (expr == 0 && start != -1) = true then ((start, pos) :: acc, (-1 : Int)) else (acc, start)).1) :=
        fun r p1 hr hp => ih _ _ _ _ _ (space_pre (flush_pre h hr hp))
      have nondelim : ∀ (r : Str) (p1 expr' : Int), p1 + r.length = n → pos < p1 →
          SplitPost n (splitLoop fuel r p1 (if (start == -1) = true then pos else start) expr' acc) :=
        fun r p1 expr' hr hp => ih _ _ _ _ _ (start_pre h hr hp)
      have nd : SplitPost n (if (x == 40) = true then splitLoop fuel xs (pos + 1) (if (start == -1) = true then pos else start) (expr + 1) acc
          else if (x == 41) = true then splitLoop fuel xs (pos + 1) (if (start == -1) = true then pos else start) (expr - 1) acc
          else match literal (x :: xs) with
            | some (r, k, over) => splitLoop fuel r (pos + k + over) (if (start == -1) = true then pos else start) expr acc
            | none => splitLoop fuel xs (pos + 1) (if (start == -1) = true then pos else start) expr acc) := by
        split
        · exact nondelim _ _ _ hlen (by omega)
        · split
          · exact nondelim _ _ _ hlen (by omega)
          · split
            · rename_i r k over hl
              have := literal_len _ _ _ _ hl
              simp only [List.length_cons] at this
              exact nondelim _ _ _ (by omega) (by omega)
            · exact nondelim _ _ _ hlen (by omega)
      unfold splitLoop
      simp only
      by_cases hd : (isSpace x || isOp x) = true
      · simp only [hd, if_true]
        exact delim xs (pos + 1) hlen (by omega)
      · simp only [hd, Bool.false_eq_true, if_false]
        by_cases h45 : (x == 45) = true
        · simp only [h45, if_true]
          cases xs with
          | nil => simp only; exact nd
          | cons y ys =>
            simp only
            by_cases hy : isSpace y = true
            · simp only [hy, if_true]
              refine delim ys (pos + 2) ?_ (by omega)
              simp only [List.length_cons] at hlen; push_cast at hlen; omega
            · simp only [hy, Bool.false_eq_true, if_false]
              exact nd
        · simp only [h45, Bool.false_eq_true, if_false]
          exact nd

/-- **C16, `split_value`**: for EVERY value, every reported token range is non-empty and lies inside the value:
    `0 ≤ start < end ≤ |value|`. -/
theorem splitValue_ranges (s : Str) : ∀ r ∈ splitValue s, RngOK s.length r := by
  have h := splitLoop_ok s.length (s.length + 1) s 0 (-1) 0 [] ⟨by omega, by omega, Or.inl rfl, by simp⟩
  intro r hr
  unfold splitValue at hr
  generalize splitLoop (s.length + 1) s 0 (-1) 0 [] = t at h hr
  obtain ⟨acc, start, pos⟩ := t
  obtain ⟨h1, h2, h3⟩ := h
  simp only at h1 h2 h3
  simp only [List.mem_reverse] at hr
  split at hr
  · rename_i hc
    simp only [List.mem_cons] at hr
    rcases hr with rfl | hr
    · simp only [Bool.and_eq_true, bne_iff_ne, ne_eq] at hc
      rcases h2 with h2 | h2
      · exact absurd h2 hc.1
      · exact ⟨h2.1, by have := hc.2; simp only; omega, h3⟩
    · exact h1 r hr
  · exact h1 r hr

end C
