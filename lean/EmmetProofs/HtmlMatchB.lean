import Emmet.Matcher.Html
/-! C09 layer B (prototype): `match` and `balanced_outward` on the event stream of any well-formed forest. -/
namespace H

/-- forests in first-child / next-sibling form -/
inductive Forest
  | nil
  | leaf (e : Ev) (rest : Forest)                                       -- self-closed or void element
  | pair (name : Str) (o c : Nat × Nat) (inner rest : Forest)            -- <name> inner </name> rest

def Forest.events : Forest → List Ev
  | .nil => []
  | .leaf e rest => e :: rest.events
  | .pair n o c inner rest => ⟨n, .open, o.1, o.2⟩ :: (inner.events ++ ⟨n, .close, c.1, c.2⟩ :: rest.events)

/-- an event that the matcher treats as a self-contained element -/
def isLeafEv (xml : Bool) (e : Ev) : Bool := e.type == .selfClose || (e.type == .open && isSelfClose e.name xml)

def Forest.WF (xml : Bool) : Forest → Prop
  | .nil => True
  | .leaf e rest => isLeafEv xml e = true ∧ rest.WF xml
  | .pair n _ _ inner rest => isSelfClose n xml = false ∧ inner.WF xml ∧ rest.WF xml

def inside (s e : Nat) (pos : Int) : Bool := (s : Int) < pos && pos < e

/-- spec: first element in post-order whose full range strictly contains `pos` (= the innermost one) -/
def Forest.findPost (pos : Int) : Forest → Option Matched
  | .nil => none
  | .leaf e rest => if inside e.start e.stop pos then some ⟨e.name, (e.start, e.stop), none⟩ else rest.findPost pos
  | .pair n o c inner rest =>
    match inner.findPost pos with
    | some m => some m
    | none => if inside o.1 c.2 pos then some ⟨n, o, some c⟩ else rest.findPost pos

/-- spec: all strictly containing elements in post-order (innermost → outermost) -/
def Forest.allPost (pos : Int) : Forest → List Matched
  | .nil => []
  | .leaf e rest => (if inside e.start e.stop pos then [⟨e.name, (e.start, e.stop), none⟩] else []) ++ rest.allPost pos
  | .pair n o c inner rest =>
    inner.allPost pos ++ (if inside o.1 c.2 pos then [⟨n, o, some c⟩] else []) ++ rest.allPost pos

theorem matchLoop_cons (xml : Bool) (pos : Int) (ev : Ev) (evs : List Ev) (stack : List Tag) :
    matchLoop xml pos (ev :: evs) stack =
      (match (if ev.type == .open && isSelfClose ev.name xml then ElemType.selfClose else ev.type) with
       | .open => matchLoop xml pos evs (⟨ev.name, ev.start, ev.stop⟩ :: stack)
       | .selfClose =>
         if (ev.start : Int) < pos && pos < ev.stop then some ⟨ev.name, (ev.start, ev.stop), none⟩
         else matchLoop xml pos evs stack
       | .close =>
         match stack with
         | tag :: rest =>
           if tag.name == ev.name then
             if (tag.start : Int) < pos && pos < ev.stop then some ⟨ev.name, (tag.start, tag.stop), some (ev.start, ev.stop)⟩
             else matchLoop xml pos evs rest
           else matchLoop xml pos evs stack
         | [] => matchLoop xml pos evs stack) := by
  conv => lhs; unfold matchLoop
  rfl

theorem outwardLoop_cons (xml : Bool) (pos : Int) (ev : Ev) (evs : List Ev) (stack : List Tag) (acc : List Matched) :
    outwardLoop xml pos (ev :: evs) stack acc =
      (if ev.type == .close then
        match stack with
        | tag :: rest =>
          if tag.name == ev.name then
            let acc' := if (tag.start : Int) < pos && pos < ev.stop then ⟨ev.name, (tag.start, tag.stop), some (ev.start, ev.stop)⟩ :: acc else acc
            outwardLoop xml pos evs rest acc'
          else outwardLoop xml pos evs stack acc
        | [] => outwardLoop xml pos evs stack acc
      else if ev.type == .selfClose || isSelfClose ev.name xml then
        let acc' := if (ev.start : Int) < pos && pos < ev.stop then ⟨ev.name, (ev.start, ev.stop), none⟩ :: acc else acc
        outwardLoop xml pos evs stack acc'
      else outwardLoop xml pos evs (⟨ev.name, ev.start, ev.stop⟩ :: stack) acc) := by
  conv => lhs; unfold outwardLoop
  rfl

theorem match_forest (xml : Bool) (pos : Int) (f : Forest) (hwf : f.WF xml) :
    ∀ (tail : List Ev) (stack : List Tag),
      matchLoop xml pos (f.events ++ tail) stack =
        match f.findPost pos with
        | some m => some m
        | none => matchLoop xml pos tail stack := by
  induction f with
  | nil => intro tail stack; simp [Forest.events, Forest.findPost]
  | leaf e rest ih =>
    intro tail stack
    obtain ⟨hl, hr⟩ := hwf
    simp only [Forest.events, List.cons_append, Forest.findPost]
    rw [matchLoop_cons]
    simp only [isLeafEv, Bool.or_eq_true, Bool.and_eq_true, beq_iff_eq] at hl
    have hty : (if e.type == .open && isSelfClose e.name xml then ElemType.selfClose else e.type) = .selfClose := by
      rcases hl with hsc | ⟨hop, hself⟩ <;> simp_all
    rw [hty]
    simp only [inside]
    by_cases h : ((e.start : Int) < pos && pos < e.stop) = true
    · simp [h]
    · simp only [h]; simp [ih hr tail stack]
  | pair n o c inner rest ihi ihr =>
    intro tail stack
    obtain ⟨hn, hwi, hwr⟩ := hwf
    simp only [Forest.events, List.cons_append, List.append_assoc, Forest.findPost]
    rw [matchLoop_cons]
    simp only [hn, Bool.and_false, Bool.false_eq_true, ↓reduceIte]
    rw [ihi hwi]
    cases hfi : inner.findPost pos with
    | some m => simp
    | none =>
      simp only
      rw [matchLoop_cons]
      simp only [Bool.false_and, Bool.false_eq_true, ↓reduceIte, beq_self_eq_true, inside, show (ElemType.close == ElemType.open) = false from rfl]
      by_cases h : ((o.1 : Int) < pos && pos < c.2) = true
      · simp [h]
      · simp only [h]; simp [ihr hwr tail stack]

theorem outward_forest (xml : Bool) (pos : Int) (f : Forest) (hwf : f.WF xml) :
    ∀ (tail : List Ev) (stack : List Tag) (acc : List Matched),
      outwardLoop xml pos (f.events ++ tail) stack acc =
        outwardLoop xml pos tail stack ((f.allPost pos).reverse ++ acc) := by
  induction f with
  | nil => intro tail stack acc; simp [Forest.events, Forest.allPost]
  | leaf e rest ih =>
    intro tail stack acc
    obtain ⟨hl, hr⟩ := hwf
    simp only [Forest.events, List.cons_append, Forest.allPost]
    rw [outwardLoop_cons]
    simp only [isLeafEv, Bool.or_eq_true, Bool.and_eq_true, beq_iff_eq] at hl
    have h1 : (e.type == ElemType.close) = false := by
      rcases hl with hsc | ⟨hop, _⟩ <;> simp_all
    have h2 : (e.type == .selfClose || isSelfClose e.name xml) = true := by
      rcases hl with hsc | ⟨_, hself⟩ <;> simp_all
    simp only [h1, h2, Bool.false_eq_true, ↓reduceIte, inside]
    rw [ih hr]
    by_cases h : ((e.start : Int) < pos && pos < e.stop) = true <;> simp [h]
  | pair n o c inner rest ihi ihr =>
    intro tail stack acc
    obtain ⟨hn, hwi, hwr⟩ := hwf
    simp only [Forest.events, List.cons_append, List.append_assoc, Forest.allPost]
    rw [outwardLoop_cons]
    simp only [hn, show (ElemType.open == ElemType.close) = false from rfl, show (ElemType.open == ElemType.selfClose) = false from rfl,
      Bool.or_self, Bool.false_eq_true, ↓reduceIte]
    rw [ihi hwi, outwardLoop_cons]
    simp only [beq_self_eq_true, ↓reduceIte, inside]
    rw [ihr hwr]
    by_cases h : ((o.1 : Int) < pos && pos < c.2) = true <;> simp [h]

/-- C09_match / C09_outward (layer B, prototype) -/
theorem C09_match (xml : Bool) (pos : Int) (f : Forest) (hwf : f.WF xml) :
    matchLoop xml pos f.events [] = f.findPost pos := by
  have := match_forest xml pos f hwf [] []
  simp only [List.append_nil] at this
  rw [this]; cases f.findPost pos <;> simp [matchLoop]

theorem C09_outward (xml : Bool) (pos : Int) (f : Forest) (hwf : f.WF xml) :
    outwardLoop xml pos f.events [] [] = f.allPost pos := by
  have := outward_forest xml pos f hwf [] [] []
  simp only [List.append_nil] at this
  rw [this]; simp [outwardLoop]

end H
