import Batteries.Data.List.Perm
/-! C14 termination, abstract prototype: snippet resolution with a "snippet already on the stack" guard
    terminates for every table, with nesting ≤ number of snippets. -/
namespace Sn
abbrev Key := Nat
abbrev Val := List Nat                -- the snippet text

/-- forests in first-child / next-sibling form -/
inductive F
  | nil
  | node (name : Option Key) (kids : F) (next : F)

inductive Err | fuel | parse (v : Val)
  deriving DecidableEq

variable (tbl : List (Key × Val)) (parse : Val → Except Err F)

def lookup (k : Key) : Option Val := (tbl.find? (·.1 == k)).map (·.2)

/-- append `extra` below the deepest last node (stand-in for find_deepest; any total function works here) -/
def F.graft : F → F → F
  | .nil, _ => .nil
  | .node n kids .nil, extra => (match kids with | .nil => .node n extra .nil | k => .node n (k.graft extra) .nil)
  | .node n kids next, extra => .node n kids (next.graft extra)

def F.append : F → F → F
  | .nil, g => g
  | .node n k next, g => .node n k (next.append g)

/-- `walk_resolve` with the resolver as a parameter: structural on the forest -/
def walkWith (r : Key → List Val → Except Err (Option F)) : F → List Val → Except Err F
  | .nil, _ => .ok .nil
  | .node name kids next, stack => do
    let kids' ← walkWith r kids stack
    let tail ← walkWith r next stack
    match name with
    | none => .ok (.node name kids' tail)
    | some k =>
      match ← r k stack with
      | some resolved => .ok ((resolved.graft kids').append tail)
      | none => .ok (.node name kids' tail)

/-- the `resolve` closure; the fuel counts nesting of snippets only -/
def resolveN : Nat → Key → List Val → Except Err (Option F)
  | 0, _, _ => .error .fuel
  | n+1, k, stack =>
    match lookup tbl k with
    | none => .ok none
    | some v =>
      if stack.contains v then .ok none          -- circular reference
      else do
        let parsed ← parse v
        let inner ← walkWith (resolveN n) parsed (stack ++ [v])
        .ok (some inner)

def vals : List Val := tbl.map (·.2)

theorem lookup_mem (k : Key) (v : Val) (h : lookup tbl k = some v) : v ∈ vals tbl := by
  unfold lookup at h
  cases hf : tbl.find? (·.1 == k) with
  | none => simp [hf] at h
  | some kv =>
    simp [hf] at h
    have := List.mem_of_find?_eq_some hf
    subst h
    exact List.mem_map_of_mem this

theorem walkWith_noFuel (r : Key → List Val → Except Err (Option F)) (stack : List Val)
    (hr : ∀ k, r k stack ≠ .error .fuel) : ∀ f, walkWith r f stack ≠ .error .fuel := by
  intro f
  induction f with
  | nil => simp [walkWith]
  | node name kids next ihk ihn =>
    unfold walkWith
    cases hk : walkWith r kids stack with
    | error e => intro h; simp [bind, Except.bind] at h; exact ihk (by rw [hk, h])
    | ok kids' =>
      cases hn : walkWith r next stack with
      | error e => intro h; simp [bind, Except.bind] at h; exact ihn (by rw [hn, h])
      | ok tail =>
        simp only [bind, Except.bind]
        cases name with
        | none => simp
        | some k =>
          simp only
          cases hrk : r k stack with
          | error e => intro h; simp at h; exact hr k (by rw [hrk, h])
          | ok o => cases o <;> simp

/-- **Termination**: with `n` more than the number of snippets not yet on the stack, resolution never runs out of fuel. -/
theorem resolveN_noFuel (hp : ∀ v, parse v ≠ .error .fuel) : ∀ (n : Nat) (stack : List Val),
    stack.Nodup → stack ⊆ vals tbl → (vals tbl).length < n + stack.length →
    ∀ k, resolveN tbl parse n k stack ≠ .error .fuel := by
  intro n
  induction n with
  | zero =>
    intro stack hnd hsub hlt k
    have := (List.subperm_of_subset hnd hsub).length_le
    omega
  | succ n ih =>
    intro stack hnd hsub hlt k
    unfold resolveN
    cases hl : lookup tbl k with
    | none => simp
    | some v =>
      simp only
      split
      · simp
      · rename_i hc
        have hv : v ∉ stack := by simpa using hc
        have hmem := lookup_mem tbl k v hl
        cases hpv : parse v with
        | error e => intro h; simp [bind, Except.bind] at h; exact hp v (by rw [hpv, h])
        | ok parsed =>
          simp only [bind, Except.bind]
          have hnd' : (stack ++ [v]).Nodup := by
            rw [List.nodup_append]; refine ⟨hnd, by simp, ?_⟩
            intro a ha b hb; simp at hb; subst hb; intro h; subst h; exact hv ha
          have hsub' : stack ++ [v] ⊆ vals tbl := by
            intro x hx; simp at hx; rcases hx with hx | rfl
            · exact hsub hx
            · exact hmem
          have := walkWith_noFuel (resolveN tbl parse n) (stack ++ [v])
            (ih (stack ++ [v]) hnd' hsub' (by simp; omega)) parsed
          cases hw : walkWith (resolveN tbl parse n) parsed (stack ++ [v]) with
          | error e => intro h; simp at h; exact this (by rw [hw, h])
          | ok _ => simp

/-- **C14 (termination clause)**: fuel `|table| + 1` is enough for every forest and every table -/
theorem C14_terminates (hp : ∀ v, parse v ≠ .error .fuel) (f : F) :
    walkWith (resolveN tbl parse (tbl.length + 1)) f [] ≠ .error .fuel := by
  apply walkWith_noFuel
  intro k
  exact resolveN_noFuel tbl parse hp (tbl.length + 1) [] List.nodup_nil (by simp) (by simp [vals]) k

end Sn
