import Emmet.Abbr.Convert
/-! C04 (token level): text tokens are data. For a run of tokens none of which is a field, a numbering token, a `$#`
    placeholder or a repeater, `stringify_value` returns exactly one string — the concatenation of the characters the
    tokens were made from — and leaves the converter state untouched (operators, brackets and quotes inside text are inert). -/
namespace T

def opChar : OpKind → Ch
  | .child => 62 | .cls => 46 | .climb => 94 | .id => 35 | .equal => 61 | .close => 47 | .sibling => 43
def brChar (isOpen : Bool) : BrCtx → Ch
  | .attribute => if isOpen then 91 else 93
  | .expression => if isOpen then 123 else 125
  | .group => if isOpen then 40 else 41

/-- the text of an inert token; `none` for the tokens that are interpreted -/
def plainText : Token → Option Str
  | .literal v => some v
  | .whiteSpace v => some v
  | .quote single => some [if single then 39 else 34]
  | .bracket isOpen k => some [brChar isOpen k]
  | .operator op => some [opChar op]
  | _ => none

theorem stringifyTok_plain (t : Tok) (st : CState) (s : Str) (h : plainText t.tok = some s) :
    stringifyTok t st = .ok (some s, st) := by
  unfold stringifyTok
  cases ht : t.tok with
  | literal v => rw [ht] at h; simp [plainText] at h; simp [h]
  | whiteSpace v => rw [ht] at h; simp [plainText] at h; simp [h]
  | quote sg => rw [ht] at h; simp [plainText] at h; simp [← h]
  | bracket o k => rw [ht] at h; simp [plainText] at h; subst h; cases k <;> simp [brChar]
  | operator op => rw [ht] at h; simp [plainText] at h; subst h; cases op <;> simp [opChar]
  | field n i => rw [ht] at h; simp [plainText] at h
  | repeaterPlaceholder => rw [ht] at h; simp [plainText] at h
  | repeaterNumber a b c d => rw [ht] at h; simp [plainText] at h
  | repeater a b => rw [ht] at h; simp [plainText] at h

theorem isFieldTok_plain (t : Tok) (s : Str) (h : plainText t.tok = some s) : isFieldTok t = none := by
  unfold isFieldTok
  cases ht : t.tok <;> rw [ht] at h <;> simp [plainText] at h <;> rfl

theorem joinOpt_somes (l : List Str) : joinOpt (l.map some) = .ok l.flatten := by
  induction l with
  | nil => rfl
  | cons a rest ih => simp [joinOpt, ih, bind, Except.bind, pure, Except.pure]

/-- all tokens inert: their texts -/
def texts : List Tok → Option (List Str)
  | [] => some []
  | t :: ts => match plainText t.tok, texts ts with | some s, some r => some (s :: r) | _, _ => none

theorem loop_plain : ∀ (ts : List Tok) (st : CState) (acc : List Str) (res : List VTok) (tx : List Str), texts ts = some tx →
    stringifyValueLoop ts st (acc.map some) res =
      .ok ((if acc.isEmpty && tx.isEmpty then res else VTok.str (acc.reverse ++ tx).flatten :: res).reverse, st) := by
  intro ts
  induction ts with
  | nil =>
    intro st acc res tx h
    simp [texts] at h; subst h
    unfold stringifyValueLoop
    cases acc with
    | nil => simp [pure, Except.pure]
    | cons a b =>
      have : ((a :: b).map some).reverse = ((a :: b).reverse).map some := by simp
      simp only [List.map_cons, List.isEmpty_cons, Bool.false_eq_true, if_false, bind, Except.bind]
      rw [show (some a :: List.map some b).reverse = ((a :: b).reverse).map some by simp, joinOpt_somes]
      simp [pure, Except.pure]
  | cons t rest ih =>
    intro st acc res tx h
    simp only [texts] at h
    cases hp : plainText t.tok with
    | none => simp [hp] at h
    | some s =>
      cases hr : texts rest with
      | none => simp [hp, hr] at h
      | some r =>
        simp [hp, hr] at h; subst h
        unfold stringifyValueLoop
        rw [isFieldTok_plain t s hp]
        simp only [bind, Except.bind, stringifyTok_plain t st s hp]
        have := ih st (s :: acc) res r hr
        simp only [List.map_cons] at this
        rw [this]
        simp

/-- **C04 (token level)**: the value of a non-empty run of inert tokens is the single string made of their characters; the
    converter state (repeater stack, text-insertion flags, repeat guard) is unchanged -/
theorem stringifyValue_plain (ts : List Tok) (st : CState) (tx : List Str) (h : texts ts = some tx) (hne : ts ≠ []) :
    stringifyValueLoop ts st [] [] = .ok ([VTok.str tx.flatten], st) := by
  have := loop_plain ts st [] [] tx h
  simp only [List.map_nil, List.isEmpty_nil, Bool.true_and, List.reverse_nil, List.nil_append] at this
  rw [this]
  cases tx with
  | nil => cases ts with
    | nil => exact absurd rfl hne
    | cons t r => simp [texts] at h; cases hp : plainText t.tok <;> cases hr : texts r <;> simp [hp, hr] at h
  | cons a b => simp

end T
