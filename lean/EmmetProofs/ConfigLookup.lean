import Emmet.Config
/-! C20: lookup theorem for Python dict `update` layering. -/
namespace Cfg
variable {κ ν : Type} [DecidableEq κ]

theorem get?_set (d : Dict κ ν) (k k' : κ) (v : ν) :
    get? (set d k v) k' = if k = k' then some v else get? d k' := by
  induction d with
  | nil => simp [set, get?]
  | cons x xs ih =>
    obtain ⟨a, b⟩ := x
    simp only [set]
    by_cases h : a = k
    · subst h
      by_cases h' : a = k' <;> simp [get?, h']
    · simp only [h, if_false, get?]
      by_cases h' : a = k'
      · subst h'
        have : ¬ k = a := fun e => h e.symm
        simp [this]
      · simp [h', ih]

/-- value of `k` in the LAST entry of `e` that mentions it (what a sequence of assignments leaves) -/
def lastIn : Dict κ ν → κ → Option ν
  | [], _ => none
  | (a, b) :: e, k => match lastIn e k with | some v => some v | none => if a = k then some b else none

/-- lookup after `update`: the later dict wins, keys it does not mention are untouched -/
theorem get?_update (d e : Dict κ ν) (k : κ) :
    get? (update d e) k = (match lastIn e k with | some v => some v | none => get? d k) := by
  unfold update
  induction e generalizing d with
  | nil => simp [lastIn]
  | cons kv rest ih =>
    obtain ⟨a, b⟩ := kv
    simp only [List.foldl_cons, lastIn]
    rw [ih, get?_set]
    cases lastIn rest k with
    | some v => simp
    | none => by_cases h : a = k <;> simp [h]

/-- the most specific present layer that mentions the key -/
def firstDefined : List (Option (Dict κ ν)) → κ → Option ν
  | [], _ => none
  | l :: ls, k =>
    match firstDefined ls k with
    | some v => some v
    | none => match l with | some e => lastIn e k | none => none

/-- **C20_lookup (prototype)**: the effective value is taken from the most specific (= last) layer defining the key;
    layers that do not mention a key leave it untouched. -/
theorem get?_mergeLayers_aux (layers : List (Option (Dict κ ν))) (acc : Dict κ ν) (k : κ) :
    get? (layers.foldl layerStep acc) k =
      (match firstDefined layers k with | some v => some v | none => get? acc k) := by
  induction layers generalizing acc with
  | nil => simp [firstDefined]
  | cons l rest ih =>
    simp only [List.foldl_cons, firstDefined]
    rw [ih]
    cases firstDefined rest k with
    | some v => simp
    | none =>
      cases l with
      | none => simp [layerStep]
      | some e => simp only [layerStep]; rw [get?_update]

theorem get?_mergeLayers (layers : List (Option (Dict κ ν))) (k : κ) :
    get? (mergeLayers layers) k = firstDefined layers k := by
  unfold mergeLayers
  rw [get?_mergeLayers_aux]
  cases firstDefined layers k <;> simp [get?]

/-- non-vacuity: defaults, type layer absent, syntax layer, user layer -/
example : get? (mergeLayers [some [(1, "d"), (2, "d")], none, some [(2, "s")], some [(3, "u")]]) 2 = some "s" := by decide

end Cfg
