import EmmetProofs.ConvCount
/-! C02, the `maxRepeat` clause on the REAL convert model, for skeleton trees and ANY budget: the converter's output is the budgeted
    unrolling `SK.unrollB` — copies are completed in document order, each completed copy costs one unit, the loop of a repeater ends
    after the copy that brings the budget to zero (or below), and every repeater that runs after that yields exactly one copy. -/
namespace T

/-- the copies of one repeated item under a budget: copy `i` is made with the budget its predecessors left (its own descendants
    may use some of it), then costs one unit; the loop ends after the copy that brings the budget to 0 or below -/
def loopB (copyF : Nat → Int → List ANode × Int) : Nat → Nat → Int → List ANode × Int
  | 0, _, g => ([], g)
  | m+1, i, g =>
    if (copyF i g).2 - 1 ≤ 0 then ((copyF i g).1, (copyF i g).2 - 1)
    else ((copyF i g).1 ++ (loopB copyF m (i + 1) ((copyF i g).2 - 1)).1, (loopB copyF m (i + 1) ((copyF i g).2 - 1)).2)

/-- the budgeted unrolling: (forest, budget left) -/
def SK.unrollB : SK → Int → List ANode × Int
  | .nil, g => ([], g)
  | .elem v none kids rest, g =>
    (elemCopy v (kids.unrollB g).1 none :: (rest.unrollB (kids.unrollB g).2).1, (rest.unrollB (kids.unrollB g).2).2)
  | .elem v (some n) kids rest, g =>
    let l := loopB (fun i b => ([elemCopy v (kids.unrollB b).1 (some ⟨cnt n, i, false⟩)], (kids.unrollB b).2)) (cnt n) 0 g
    (l.1 ++ (rest.unrollB l.2).1, (rest.unrollB l.2).2)
  | .grp none kids rest, g =>
    ((kids.unrollB g).1 ++ (rest.unrollB (kids.unrollB g).2).1, (rest.unrollB (kids.unrollB g).2).2)
  | .grp (some n) kids rest, g =>
    let l := loopB (fun i b => (attachRepeater (kids.unrollB b).1 ⟨cnt n, i, false⟩, (kids.unrollB b).2)) (cnt n) 0 g
    (l.1 ++ (rest.unrollB l.2).1, (rest.unrollB l.2).2)

/-- the statement proved by induction on the skeleton: for ANY state (any budget) -/
def ListB (sk : SK) : Prop :=
  ∀ (fuel : Nat) (st : CState), sk.need ≤ fuel → st.text = .none →
    convertList fuel sk.toT st = .ok ((sk.unrollB st.guard).1, withGuard st (sk.unrollB st.guard).2)

theorem convertOne_elemB (v : Str) (r : Option Nat) (kids : SK) (hk : ListB kids) (fuel : Nat) (cur : Option Rep) (st : CState)
    (hf : kids.need ≤ fuel) (ht : st.text = .none) :
    convertOne (fuel + 1) (elemNode v r kids.toT) cur st =
      .ok ([elemCopy v (kids.unrollB st.guard).1 cur], withGuard st (kids.unrollB st.guard).2) := by
  simp only [elemNode, convertOne, stringifyName_name, bind, Except.bind, pure, Except.pure]
  rw [hk fuel st hf ht]
  simp [elemCopy, hasField]

theorem convertOne_grpB (r : Option Nat) (kids : SK) (hk : ListB kids) (fuel : Nat) (cur : Option Rep) (st : CState)
    (hf : kids.need ≤ fuel) (ht : st.text = .none) :
    convertOne (fuel + 1) (.group kids.toT (repOf r)) cur st =
      .ok ((match cur with | some c => attachRepeater (kids.unrollB st.guard).1 c | none => (kids.unrollB st.guard).1),
           withGuard st (kids.unrollB st.guard).2) := by
  simp only [convertOne, bind, Except.bind, pure, Except.pure]
  rw [hk fuel st hf ht]
  cases cur <;> simp

/-- one iteration, for an explicit repeater, whatever budget the copy leaves -/
theorem repeatBody_specB (conv : Option Rep → CState → PM (List ANode × CState)) (items : List ANode) (g1 : Int)
    (rep : Rep) (himp : rep.implicit = false) (i : Nat) (st : CState) (base : List Rep) (x : Rep)
    (hr : st.repeaters = base ++ [x])
    (hconv : conv (some { rep with value := i }) (withReps st (base ++ [{ rep with value := i }])) =
      .ok (items, withGuard (withReps st (base ++ [{ rep with value := i }])) g1)) :
    repeatBody conv rep i st = .ok (items, withGuard (withReps st (base ++ [{ rep with value := i }])) (g1 - 1)) := by
  have hst0 : ({ st with repeaters := st.repeaters.dropLast ++ [{ rep with value := i }] } : CState) =
      withReps st (base ++ [{ rep with value := i }]) := by simp [withReps, hr]
  simp only [repeatBody, bind, Except.bind, pure, Except.pure]
  rw [hst0, hconv]
  simp [himp, withGuard, withReps]

theorem repeatLoop_specB (node : TNode) (copyF : Rep → Int → List ANode × Int) (K : Nat)
    (hone : ∀ fuel cur st, K ≤ fuel → st.text = .none →
      convertOne (fuel + 1) node (some cur) st = .ok ((copyF cur st.guard).1, withGuard st (copyF cur st.guard).2))
    (rep : Rep) (himp : rep.implicit = false) :
    ∀ (m i fuel : Nat) (st : CState) (acc : List ANode) (base : List Rep) (x : Rep),
      i + m = rep.count → K + m + 2 ≤ fuel → st.text = .none → st.repeaters = base ++ [x] →
      ∃ last, repeatLoop fuel node rep i st acc =
        .ok (acc ++ (loopB (fun j b => copyF { rep with value := j } b) m i st.guard).1,
             withReps (withGuard st (loopB (fun j b => copyF { rep with value := j } b) m i st.guard).2) (base ++ [last])) := by
  intro m
  induction m with
  | zero =>
    intro i fuel st acc base x him hf ht hr
    obtain ⟨f, rfl⟩ : ∃ f, fuel = f + 1 := ⟨fuel - 1, by omega⟩
    refine ⟨x, ?_⟩
    have : ¬ i < rep.count := by omega
    rw [repeatLoop_succ]
    simp only [this, if_false, pure, Except.pure, loopB]
    simp [withReps, withGuard, ← hr]
  | succ m ih =>
    intro i fuel st acc base x him hf ht hr
    obtain ⟨f, rfl⟩ : ∃ f, fuel = f + 2 := ⟨fuel - 2, by omega⟩
    have hlt : i < rep.count := by omega
    rw [repeatLoop_succ]
    simp only [hlt, if_true]
    have hconv := hone f { rep with value := i } (withReps st (base ++ [{ rep with value := i }])) (by omega) (by simpa using ht)
    simp only [withReps_guard] at hconv
    rw [repeatBody_specB _ _ _ rep himp i st base x hr hconv]
    simp only [bind, Except.bind, withGuard_guard, loopB]
    by_cases hstop : (copyF { rep with value := i } st.guard).2 - 1 ≤ 0
    · simp only [hstop, if_true, pure, Except.pure]
      exact ⟨{ rep with value := i }, by simp [withReps, withGuard]⟩
    · simp only [hstop, if_false]
      obtain ⟨last, hl⟩ := ih (i + 1) (f + 1)
        (withGuard (withReps st (base ++ [{ rep with value := i }])) ((copyF { rep with value := i } st.guard).2 - 1))
        (acc ++ (copyF { rep with value := i } st.guard).1) base { rep with value := i }
        (by omega) (by omega) (by simpa using ht) (by simp)
      refine ⟨last, ?_⟩
      rw [hl]
      simp only [withGuard_guard, List.append_assoc]
      congr 2


/-- `convert_statement` on a repeated skeleton node, any budget -/
theorem convertStatement_repB (node : TNode) (k : Nat)
    (hrep : node.rep? = some (repTok k))
    (copyF : Rep → Int → List ANode × Int) (K : Nat)
    (hone : ∀ fuel cur st, K ≤ fuel → st.text = .none →
      convertOne (fuel + 1) node (some cur) st = .ok ((copyF cur st.guard).1, withGuard st (copyF cur st.guard).2))
    (fuel : Nat) (st : CState) (hf : K + cnt k + 2 ≤ fuel) (ht : st.text = .none) :
    convertStatement (fuel + 1) node st =
      .ok ((loopB (fun j b => copyF ⟨cnt k, j, false⟩ b) (cnt k) 0 st.guard).1,
           withGuard st (loopB (fun j b => copyF ⟨cnt k, j, false⟩ b) (cnt k) 0 st.guard).2) := by
  simp only [convertStatement, hrep]
  have hr0 : repOfTok (repTok k) = ⟨k, 0, false⟩ := rfl
  have hlines : (match st.text with | TextArg.lines _ => true | _ => false) = false := by rw [ht]
  simp only [hr0, hlines, Bool.false_and, Bool.and_false, Bool.false_eq_true, if_false]
  have hcount : (if (k == 0) = true then 1 else k) = cnt k := rfl
  simp only [hcount]
  obtain ⟨last, hl⟩ := repeatLoop_specB node copyF K hone ⟨cnt k, 0, false⟩ rfl (cnt k) 0 fuel
    { st with repeaters := st.repeaters ++ [⟨cnt k, 0, false⟩] } [] st.repeaters ⟨cnt k, 0, false⟩
    (by simp) hf (by simpa using ht) rfl
  simp only [bind, Except.bind, pure, Except.pure]
  rw [hl]
  simp [withReps, withGuard]

/-- **C02, `maxRepeat` clause on the real convert model (skeleton trees, no wrap text): ANY budget** -/
theorem listB (sk : SK) : ListB sk := by
  induction sk with
  | nil =>
    intro fuel st hf _
    obtain ⟨f, rfl⟩ : ∃ f, fuel = f + 1 := ⟨fuel - 1, by simp [SK.need] at hf; omega⟩
    simp [SK.toT, convertList, SK.unrollB, withGuard]
  | elem v r kids rest ihk ihr =>
    intro fuel st hf ht
    obtain ⟨f, rfl⟩ : ∃ f, fuel = f + 2 := ⟨fuel - 2, by simp [SK.need] at hf; omega⟩
    simp only [SK.toT, convertList, bind, Except.bind, pure, Except.pure]
    cases r with
    | none =>
      simp only [SK.need, optCnt] at hf
      have h1 : convertStatement (f + 1) (elemNode v none kids.toT) st =
          .ok ([elemCopy v (kids.unrollB st.guard).1 none], withGuard st (kids.unrollB st.guard).2) := by
        obtain ⟨f', rfl⟩ : ∃ f', f = f' + 1 := ⟨f - 1, by omega⟩
        simp only [convertStatement, elemNode, repOf, Option.map_none, TNode.rep?]
        exact convertOne_elemB v none kids ihk f' none st (by omega) ht
      rw [h1]
      simp only
      rw [ihr (f + 1) _ (by omega) (by simpa using ht)]
      simp only [SK.unrollB, withGuard_withGuard, withGuard_guard, List.singleton_append]
    | some k =>
      simp only [SK.need, optCnt] at hf
      have h1 := convertStatement_repB (elemNode v (some k) kids.toT) k rfl
        (fun cur b => ([elemCopy v (kids.unrollB b).1 (some cur)], (kids.unrollB b).2)) kids.need
        (fun fuel cur st hK ht => convertOne_elemB v (some k) kids ihk fuel (some cur) st hK ht)
        f st (by omega) ht
      rw [h1]
      simp only
      rw [ihr (f + 1) _ (by omega) (by simpa using ht)]
      simp only [SK.unrollB, withGuard_withGuard, withGuard_guard]
  | grp r kids rest ihk ihr =>
    intro fuel st hf ht
    obtain ⟨f, rfl⟩ : ∃ f, fuel = f + 2 := ⟨fuel - 2, by simp [SK.need] at hf; omega⟩
    simp only [SK.toT, convertList, bind, Except.bind, pure, Except.pure]
    cases r with
    | none =>
      simp only [SK.need, optCnt] at hf
      have h1 : convertStatement (f + 1) (.group kids.toT (repOf none)) st =
          .ok ((kids.unrollB st.guard).1, withGuard st (kids.unrollB st.guard).2) := by
        obtain ⟨f', rfl⟩ : ∃ f', f = f' + 1 := ⟨f - 1, by omega⟩
        simp only [convertStatement, repOf, Option.map_none, TNode.rep?]
        have := convertOne_grpB none kids ihk f' none st (by omega) ht
        simpa [repOf] using this
      rw [h1]
      simp only
      rw [ihr (f + 1) _ (by omega) (by simpa using ht)]
      simp only [SK.unrollB, withGuard_withGuard, withGuard_guard]
    | some k =>
      simp only [SK.need, optCnt] at hf
      have h1 := convertStatement_repB (.group kids.toT (repOf (some k))) k rfl
        (fun cur b => (attachRepeater (kids.unrollB b).1 cur, (kids.unrollB b).2)) kids.need
        (fun fuel cur st hK ht => by simpa using convertOne_grpB (some k) kids ihk fuel (some cur) st hK ht)
        f st (by omega) ht
      rw [h1]
      simp only
      rw [ihr (f + 1) _ (by omega) (by simpa using ht)]
      simp only [SK.unrollB, withGuard_withGuard, withGuard_guard]

/-! ## what the budgeted unrolling says -/
/-- once the budget is exhausted (≤ 0 when a repeater starts), that repeater yields exactly one copy -/
theorem loopB_exhausted (copyF : Nat → Int → List ANode × Int) (m i : Nat) (g : Int) (h : (copyF i g).2 ≤ 1) :
    loopB copyF (m + 1) i g = ((copyF i g).1, (copyF i g).2 - 1) := by
  simp only [loopB]
  have : (copyF i g).2 - 1 ≤ 0 := by omega
  simp [this]

/-- with enough budget the budgeted unrolling is the plain one and the budget drops by the number of copies made -/
theorem loopB_enough (copy : Nat → List ANode) (kc : Nat) : ∀ (m i : Nat) (g : Int), ((m * (kc + 1) : Nat) : Int) < g →
    loopB (fun j b => (copy j, b - kc)) m i g = ((List.range' i m).flatMap copy, g - ((m * (kc + 1) : Nat) : Int)) := by
  intro m
  induction m with
  | zero => intro i g _; simp [loopB]
  | succ m ih =>
    intro i g hg
    have hexp : ((m + 1) * (kc + 1) : Nat) = m * (kc + 1) + (kc + 1) := by rw [Nat.add_mul]; simp
    have hexpI : (((m + 1) * (kc + 1) : Nat) : Int) = ((m * (kc + 1) : Nat) : Int) + ((kc + 1 : Nat) : Int) := by
      rw [hexp]; exact Int.natCast_add _ _
    have hmnn : (0 : Int) ≤ ((m * (kc + 1) : Nat) : Int) := Int.natCast_nonneg _
    rw [hexpI] at hg ⊢
    generalize ((m * (kc + 1) : Nat) : Int) = M at hg hmnn ih ⊢
    simp only [loopB]
    have hpos : ¬ (g - (kc : Int) - 1 ≤ 0) := by omega
    simp only [hpos, if_false]
    rw [ih (i + 1) (g - kc - 1) (by omega)]
    simp only [List.range'_succ, List.flatMap_cons]
    congr 1
    omega

end T
