import EmmetProofs.ConvCount
/-! C04 (wrap clause) on the REAL convert model: `name*` with a list of lines makes one copy per non-blank line, in order, each holding
that trimmed line. -/
namespace T

def impTok (c : Nat) : Tok := mk (.repeater c true)
/-- the leaf `name*` -/
def wrapLeaf (v : Str) (c : Nat) : TNode := .elem (some [nameTok v]) none none (some (impTok c)) false []
/-- copy `i` of `n`: the element with the trimmed line as its only content -/
def lineCopy (v : Str) (n i : Nat) (line : Str) : ANode :=
  .mk (some v) (some [.str (strip line)]) none [] (some ⟨n, i, true⟩) false

theorem convertOne_leaf (v : Str) (c : Nat) (fuel : Nat) (cur : Rep) (st : CState) :
    convertOne (fuel + 2) (wrapLeaf v c) (some cur) st = .ok ([.mk (some v) none none [] (some cur) false], st) := by
  simp only [wrapLeaf, convertOne, bind, Except.bind, pure, Except.pure, stringifyName_name, convertList]
  split <;> rfl

/-- the state after copy `i`: repeater stack top updated, text marked as inserted, one unit of the guard paid -/
def afterCopy (st : CState) (base : List Rep) (cur : Rep) : CState :=
  { st with repeaters := base ++ [cur], textInserted := true, guard := st.guard - 1 }

theorem repeatBody_wrap (v : Str) (c f : Nat) (rep : Rep) (himp : rep.implicit = true) (i : Nat) (st : CState)
    (ls : List Str) (ht : st.text = .lines ls) (hins : st.inserted = false) (base : List Rep) (x : Rep)
    (hr : st.repeaters = base ++ [x]) (hi : i < st.cleanText.length) :
    repeatBody (fun cur s => convertOne (f + 2) (wrapLeaf v c) cur s) rep i st =
      .ok ([lineCopy v rep.count i (st.cleanText.getD i [])], afterCopy st base { rep with value := i }) := by
  simp only [repeatBody, bind, Except.bind, pure, Except.pure, convertOne_leaf, himp, hins, Bool.not_false, Bool.and_self, if_true,
    List.getLast?_singleton, getTextAt, ht, hi, List.dropLast_singleton, List.nil_append]
  simp [lineCopy, afterCopy, hr, insertDeepest, ANode.depth, insertTextValue]
  exact ⟨hins, ht.symm⟩

/-- the state after the loop has made `m` copies -/
def afterLoop (st : CState) (base : List Rep) (last : Rep) (m : Nat) : CState :=
  { st with repeaters := base ++ [last], textInserted := st.textInserted || decide (0 < m), guard := st.guard - m }

theorem repeatLoop_wrap (v : Str) (c : Nat) (rep : Rep) (himp : rep.implicit = true) (ls : List Str) :
    ∀ (m i fuel : Nat) (st : CState) (acc : List ANode) (base : List Rep) (x : Rep),
      i + m = rep.count → rep.count = st.cleanText.length → m + 3 ≤ fuel → st.text = .lines ls → st.inserted = false →
      st.repeaters = base ++ [x] → (m : Int) < st.guard →
      ∃ last, repeatLoop fuel (wrapLeaf v c) rep i st acc =
        .ok (acc ++ (List.range' i m).map (fun j => lineCopy v rep.count j (st.cleanText.getD j [])), afterLoop st base last m) := by
  intro m
  induction m with
  | zero =>
    intro i fuel st acc base x him hn hf ht hins hr hg
    obtain ⟨f, rfl⟩ : ∃ f, fuel = f + 1 := ⟨fuel - 1, by omega⟩
    refine ⟨x, ?_⟩
    have : ¬ i < rep.count := by omega
    rw [repeatLoop_succ]
    simp only [this, if_false, pure, Except.pure]
    simp [afterLoop, ← hr]
  | succ m ih =>
    intro i fuel st acc base x him hn hf ht hins hr hg
    obtain ⟨f, rfl⟩ : ∃ f, fuel = f + 3 := ⟨fuel - 3, by omega⟩
    have hlt : i < rep.count := by omega
    rw [repeatLoop_succ]
    simp only [hlt, if_true]
    rw [repeatBody_wrap v c f rep himp i st ls ht hins base x hr (by omega)]
    simp only [bind, Except.bind]
    have hpos : ¬ ((afterCopy st base { rep with value := i }).guard ≤ 0) := by simp only [afterCopy]; push_cast at hg; omega
    simp only [hpos, if_false]
    obtain ⟨last, hl⟩ := ih (i + 1) (f + 2) (afterCopy st base { rep with value := i })
      (acc ++ [lineCopy v rep.count i (st.cleanText.getD i [])]) base { rep with value := i }
      (by omega) (by simpa [afterCopy] using hn) (by omega) (by simpa [afterCopy] using ht) (by simpa [afterCopy] using hins)
      (by simp [afterCopy]) (by simp only [afterCopy]; push_cast at hg; omega)
    refine ⟨last, ?_⟩
    rw [hl]
    simp only [List.range'_succ, List.map_cons, List.append_assoc, List.singleton_append, afterCopy, afterLoop]
    have h1 : st.guard - 1 - (m : Int) = st.guard - ((m + 1 : Nat) : Int) := by
      have : ((m + 1 : Nat) : Int) = (m : Int) + 1 := by push_cast; rfl
      rw [this]; omega
    have h2 : (true || decide (0 < m)) = (st.textInserted || decide (0 < m + 1)) := by simp
    rw [h1, h2]

/-- the copies `name*` makes for the non-blank lines `clean` -/
def wrapCopies (v : Str) (clean : List Str) : List ANode :=
  (List.range clean.length).map fun j => lineCopy v clean.length j (clean.getD j [])

theorem convertStatement_wrap (v : Str) (c fuel : Nat) (st : CState) (ls : List Str)
    (ht : st.text = .lines ls) (hins : st.inserted = false) (hg : (st.cleanText.length : Int) < st.guard)
    (hf : st.cleanText.length + 3 ≤ fuel) :
    convertStatement (fuel + 1) (wrapLeaf v c) st =
      .ok (wrapCopies v st.cleanText,
           { st with inserted := true, textInserted := st.textInserted || decide (0 < st.cleanText.length),
                     guard := st.guard - st.cleanText.length }) := by
  obtain ⟨ins, text, clean, guard, reps, vars, ti⟩ := st
  simp only at ht hins hg hf
  subst ht hins
  have hrep : (wrapLeaf v c).rep? = some (impTok c) := rfl
  have hr0 : repOfTok (impTok c) = ⟨c, 0, true⟩ := rfl
  simp only [convertStatement, hrep, hr0, Bool.and_self, if_true]
  obtain ⟨last, hl⟩ := repeatLoop_wrap v c ⟨clean.length, 0, true⟩ rfl ls clean.length 0 fuel
    ⟨false, .lines ls, clean, guard, reps ++ [⟨clean.length, 0, true⟩], vars, ti⟩ [] reps ⟨clean.length, 0, true⟩
    (by simp) rfl hf rfl rfl rfl hg
  simp only [bind, Except.bind, pure, Except.pure]
  rw [hl]
  simp [afterLoop, wrapCopies, List.range_eq_range']

/-- the non-blank lines of a wrap text -/
def nonBlank (ls : List Str) : List Str := ls.filter (fun l => !(strip l).isEmpty)

/-- `convert` on `name*` with a list of lines (no repeat limit): one copy per non-blank line, in order, each holding the trimmed line -/
theorem convert_wrap (v : Str) (c fuel : Nat) (ls : List Str) (vars : Option (List (Str × Str)))
    (hn : (nonBlank ls).length < 1000000) (hf : (nonBlank ls).length + 5 ≤ fuel) :
    convert [wrapLeaf v c] { text := .lines ls, variables := vars, maxRepeat := none } fuel = .ok (wrapCopies v (nonBlank ls)) := by
  obtain ⟨f, rfl⟩ : ∃ f, fuel = f + 2 := ⟨fuel - 2, by omega⟩
  unfold convert
  simp only [bind, Except.bind, pure, Except.pure, convertList]
  have h := convertStatement_wrap v c f
    { text := .lines ls, cleanText := nonBlank ls, variables := vars, guard := 1000000 } ls rfl rfl
    (by show ((nonBlank ls).length : Int) < 1000000; omega) (by show (nonBlank ls).length + 3 ≤ f; omega)
  simp only [nonBlank] at h ⊢
  rw [h]
  simp only [List.append_nil, Bool.true_and, Bool.false_or]
  by_cases h0 : 0 < (List.filter (fun l => !(strip l).isEmpty) ls).length
  · simp [h0]
  · have : (List.filter (fun l => !(strip l).isEmpty) ls) = [] := by
      cases hl : List.filter (fun l => !(strip l).isEmpty) ls with
      | nil => rfl
      | cons a b => rw [hl] at h0; simp at h0
    simp [this, wrapCopies]

end T
