import EmmetProofs.TokTiles
namespace T

theorem fieldCont_spec (pos : Nat) (index : Option Nat) (name used r2 full : Str)
    (hne : used ≠ []) (happ : used ++ r2 = full) :
    (∀ e, fieldCont pos index name used r2 = .ok (some e) → e.Good full) ∧
    (∀ p, fieldCont pos index name used r2 = .error (.scanner p) → p ≤ pos + full.length) ∧
    fieldCont pos index name used r2 ≠ .error .fuel := by
  have hlen : used.length + r2.length = full.length := by rw [← happ]; simp
  unfold fieldCont
  split
  · refine ⟨?_, ?_, ?_⟩
    · intro e he; cases he; simp [Eaten.Good, ← happ]
    · intro p hp; cases hp
    · simp
  · refine ⟨?_, ?_, ?_⟩
    · intro e he; cases he
    · intro p hp; cases hp; omega
    · simp

/-- `field`: success consumes a non-empty prefix; an error position lies inside the input. -/
theorem field_spec (rest : Str) (pos : Nat) (ctx : Ctx) :
    (∀ e, field rest pos ctx = .ok (some e) → e.Good rest) ∧
    (∀ p, field rest pos ctx = .error (.scanner p) → p ≤ pos + rest.length) ∧
    field rest pos ctx ≠ .error .fuel := by
  have triv : (∀ e, (Except.ok none : Except Err (Option Eaten)) = .ok (some e) → e.Good rest) ∧
      (∀ p, (Except.ok none : Except Err (Option Eaten)) = .error (.scanner p) → p ≤ pos + rest.length) ∧
      (Except.ok none : Except Err (Option Eaten)) ≠ .error .fuel :=
    ⟨(by intro e he; cases he), (by intro p hp; cases hp), (by simp)⟩
  unfold field
  split
  · split
    · rename_i r
      obtain ⟨ds, r1, hds, h1⟩ := spanP_eq isNumber r
      simp only [hds]
      subst h1
      split
      · split
        · rename_i r2
          cases hcp : consumePlaceholder (r2.length + 1) r2 [] 0 [] with
          | ok v =>
            obtain ⟨name, r3⟩ := v
            have := consumePlaceholder_ok _ _ _ _ _ _ _ hcp
            simp only
            apply fieldCont_spec
            · simp
            · simp_all
          | error off =>
            have := consumePlaceholder_err _ _ _ _ _ _ (by simp) (by omega) hcp
            simp only
            refine ⟨(by intro e he; cases he), ?_, (by simp)⟩
            intro p hp; cases hp
            simp_all; omega
        · apply fieldCont_spec
          · simp
          · simp
      · rename_i hdne
        have hds' : ds = [] := by simpa using hdne
        subst hds'
        split
        · rename_i x xs
          split
          · cases hcp : consumePlaceholder ((x :: xs).length + 1) (x :: xs) [] 0 [] with
            | ok v =>
              obtain ⟨name, r3⟩ := v
              have := consumePlaceholder_ok _ _ _ _ _ _ _ hcp
              simp only
              apply fieldCont_spec
              · simp
              · simp_all
            | error off =>
              have := consumePlaceholder_err _ _ _ _ _ _ (by simp) (by omega) hcp
              simp only
              refine ⟨(by intro e he; cases he), ?_, (by simp)⟩
              intro p hp; cases hp
              simp_all; omega
          · apply fieldCont_spec
            · simp
            · simp_all
        · apply fieldCont_spec
          · simp
          · simp_all
    · exact triv
  · exact triv

theorem literalLoop_spec (exprStart : Int) (fuel : Nat) (rest : Str) (prev : Option Ch) (ctx : Ctx) (v u : Str) :
    (literalLoop exprStart fuel rest prev ctx v u).2.1 ++ (literalLoop exprStart fuel rest prev ctx v u).2.2.1
      = u.reverse ++ rest ∧
    u.length ≤ (literalLoop exprStart fuel rest prev ctx v u).2.1.length := by
  fun_induction literalLoop exprStart fuel rest prev ctx v u <;>
    first
      | (simp_all; done)
      | (simp_all; omega)
      | (rename_i ih; simp at ih ⊢; exact ⟨ih.1, by omega⟩)

theorem literal_good {rest prev ctx e ctx'} (h : literal rest prev ctx = some (e, ctx')) : e.Good rest := by
  unfold literal at h
  have := literalLoop_spec ctx.expr (rest.length + 1) rest prev ctx [] []
  simp only at h
  generalize literalLoop ctx.expr (rest.length + 1) rest prev ctx [] [] = r at this h
  obtain ⟨v, u, r', c'⟩ := r
  simp only at this h
  split at h
  · cases h
  · cases h
    simp_all [Eaten.Good]

theorem step_spec (rest : Str) (pos : Nat) (prev : Option Ch) (ctx : Ctx) :
    (∀ e c', step rest pos prev ctx = .ok (some (e, c')) → e.Good rest) ∧
    (∀ p, step rest pos prev ctx = .error (.scanner p) → p ≤ pos + rest.length) ∧
    step rest pos prev ctx ≠ .error .fuel := by
  obtain ⟨f1, f2, f3⟩ := field_spec rest pos ctx
  unfold step
  cases hf : field rest pos ctx with
  | error er =>
    cases er with
    | scanner p => exact ⟨(by intro e c' h; cases h), (by intro q h; cases h; exact f2 p hf), (by simp)⟩
    | fuel => exact absurd hf f3
  | ok o =>
    cases o with
    | some e0 => exact ⟨(by intro e c' h; cases h; exact f1 _ hf), (by intro q h; cases h), (by simp)⟩
    | none =>
      simp only
      cases h1 : repeaterPlaceholder rest with
      | some e1 => exact ⟨(by intro e c' h; cases h; exact repeaterPlaceholder_good h1), (by intro q h; cases h), (by simp)⟩
      | none =>
      simp only
      cases h2 : repeaterNumber rest with
      | some e2 => exact ⟨(by intro e c' h; cases h; exact repeaterNumber_good h2), (by intro q h; cases h), (by simp)⟩
      | none =>
      simp only
      cases h3 : repeaterCtx rest ctx with
      | some e3 =>
        have h3' : repeater rest = some e3 := by
          unfold repeaterCtx at h3; split at h3
          · cases h3
          · exact h3
        exact ⟨(by intro e c' h; cases h; exact repeater_good h3'), (by intro q h; cases h), (by simp)⟩
      | none =>
      simp only
      cases h4 : whiteSpace rest with
      | some e4 => exact ⟨(by intro e c' h; cases h; exact whiteSpace_good h4), (by intro q h; cases h), (by simp)⟩
      | none =>
      simp only
      cases h5 : literal rest prev ctx with
      | some r5 =>
        obtain ⟨e5, c5⟩ := r5
        exact ⟨(by intro e c' h; cases h; exact literal_good h5), (by intro q h; cases h), (by simp)⟩
      | none =>
      simp only
      cases h6 : operator rest with
      | some e6 => exact ⟨(by intro e c' h; cases h; exact operator_good h6), (by intro q h; cases h), (by simp)⟩
      | none =>
      simp only
      cases h7 : quote rest with
      | some e7 => exact ⟨(by intro e c' h; cases h; exact quote_good h7), (by intro q h; cases h), (by simp)⟩
      | none =>
      simp only
      cases h8 : bracket rest with
      | some e8 => exact ⟨(by intro e c' h; cases h; exact bracket_good h8), (by intro q h; cases h), (by simp)⟩
      | none => exact ⟨(by intro e c' h; cases h), (by intro q h; cases h), (by simp)⟩

/-- spans tile `[a, b)` -/
inductive Tiles : List Tok → Nat → Nat → Prop
  | nil (a) : Tiles [] a a
  | cons (t ts a b) : t.start = a → a < t.stop → Tiles ts t.stop b → Tiles (t :: ts) a b

theorem Tiles.snoc {ts a b t} (h : Tiles ts a b) (h1 : t.start = b) (h2 : b < t.stop) :
    Tiles (ts ++ [t]) a t.stop := by
  induction h with
  | nil a => exact .cons _ _ _ _ h1 h2 (.nil _)
  | cons t' ts' a b e l _ ih => exact .cons _ _ _ _ e l (ih h1 h2)

theorem loop_spec (total : Nat) (fuel : Nat) (rest : Str) (pos : Nat) (prev : Option Ch) (ctx : Ctx) (acc : List Tok)
    (hpos : pos + rest.length = total) (hfuel : rest.length < fuel) (hacc : Tiles acc.reverse 0 pos) :
    match loop fuel rest pos prev ctx acc with
    | .ok ts => Tiles ts 0 total
    | .error (.scanner p) => p ≤ total
    | .error .fuel => False := by
  induction fuel generalizing rest pos prev ctx acc with
  | zero => omega
  | succ n ih =>
    cases rest with
    | nil =>
      simp only [loop]
      simp at hpos; subst hpos; exact hacc
    | cons ch xs =>
      simp only [loop]
      obtain ⟨s1, s2, s3⟩ := step_spec (ch :: xs) pos prev ctx
      cases hs : step (ch :: xs) pos prev ctx with
      | error er =>
        cases er with
        | scanner p => simp only; have := s2 p hs; omega
        | fuel => exact absurd hs s3
      | ok o =>
        cases o with
        | none => simp only; simp at hpos; omega
        | some r =>
          obtain ⟨e, c'⟩ := r
          simp only
          obtain ⟨happ, hne⟩ := s1 e c' hs
          have hlen : e.used.length + e.rest.length = (ch :: xs).length := by rw [← happ]; simp
          have hpos' : 0 < e.used.length := by cases hu : e.used <;> simp_all
          apply ih
          · omega
          · simp at hfuel hlen; omega
          · simp only [List.reverse_cons]
            exact Tiles.snoc (t := ⟨e.tok, pos, pos + e.used.length⟩) hacc rfl (by simp; omega)

/-- **C18 (markup tokenizer), prototype**: tokens tile the input, or the scanner error points inside it. -/
theorem tokenize_tiles (s : Str) :
    match tokenize s with
    | .ok ts => Tiles ts 0 s.length
    | .error (.scanner p) => p ≤ s.length
    | .error .fuel => False :=
  loop_spec s.length (s.length + 1) s 0 none {} [] (by simp) (by omega) (.nil 0)

end T
