import EmmetProofs.ExtractMore
namespace X

theorem dropWhile'_sub (p : Ch → Bool) : ∀ l : Str, (dropWhile' p l).1 ⊆ l := by
  intro l
  induction l with
  | nil => simp [dropWhile']
  | cons x xs ih =>
    unfold dropWhile'
    by_cases hp : p x = true
    · simp only [hp, if_true]; exact fun y hy => List.mem_cons_of_mem _ (ih hy)
    · simp only [hp]; exact fun y hy => hy

theorem consumeIdent_sub (l : Str) : (consumeIdent l).1 ⊆ l := dropWhile'_sub isIdent l

theorem quotedLoop_sub (q : Ch) : ∀ (l r : Str), quotedLoop q l = some r → r ⊆ l := by
  intro l
  induction l with
  | nil => intro r h; simp [quotedLoop] at h
  | cons x xs ih =>
    intro r h
    unfold quotedLoop at h
    by_cases hx : (x == q) = true
    · simp only [hx, if_true] at h
      split at h
      · exact fun z hz => List.mem_cons_of_mem _ (ih r h hz)
      · cases h; exact fun z hz => List.mem_cons_of_mem _ hz
    · simp only [hx] at h; exact fun z hz => List.mem_cons_of_mem _ (ih r h hz)

theorem consumeQuoted_sub (l r : Str) (h : consumeQuoted l = some r) : r ⊆ l := by
  cases l with
  | nil => simp [consumeQuoted] at h
  | cons q xs =>
    unfold consumeQuoted at h
    by_cases hq : isQuote q = true
    · simp only [hq, if_true] at h; exact fun z hz => List.mem_cons_of_mem _ (quotedLoop_sub q xs r h hz)
    · simp [hq] at h

theorem unquotedLoop_sub : ∀ (l : Str) (st : List Ch) (n : Nat), (unquotedLoop l st n).1 ⊆ l := by
  intro l
  induction l with
  | nil => intro st n; simp [unquotedLoop]
  | cons ch xs ih =>
    intro st n
    unfold unquotedLoop
    split
    · exact fun z hz => List.mem_cons_of_mem _ (ih _ _ hz)
    · split
      · cases st with
        | nil => exact fun z hz => hz
        | cons top rest =>
          simp only
          split
          · exact fun z hz => List.mem_cons_of_mem _ (ih _ _ hz)
          · exact fun z hz => hz
      · split
        · exact fun z hz => hz
        · exact fun z hz => List.mem_cons_of_mem _ (ih _ _ hz)

theorem consumeAttrUnquoted_sub (l r : Str) (h : consumeAttrUnquoted l = some r) : r ⊆ l := by
  unfold consumeAttrUnquoted at h
  have hs := unquotedLoop_sub l [] 0
  generalize unquotedLoop l [] 0 = res at h hs
  obtain ⟨r0, n⟩ := res
  simp only at h hs
  split at h
  · split at h
    · rename_i r1
      have h2 := consumeIdent_sub r1
      generalize consumeIdent r1 = ci at h h2
      obtain ⟨r2, ok⟩ := ci
      simp only at h h2
      split at h
      · cases h; exact fun z hz => hs (List.mem_cons_of_mem _ (h2 hz))
      · cases h
    · cases h
  · cases h

theorem consumeAttrQuoted_sub (l r : Str) (h : consumeAttrQuoted l = some r) : r ⊆ l := by
  unfold consumeAttrQuoted at h
  cases hq : consumeQuoted l with
  | none => rw [hq] at h; cases h
  | some r0 =>
    rw [hq] at h
    have hs := consumeQuoted_sub l r0 hq
    simp only at h
    split at h
    · rename_i r1
      have h2 := consumeIdent_sub r1
      generalize consumeIdent r1 = ci at h h2
      obtain ⟨r2, ok⟩ := ci
      simp only at h h2
      split at h
      · cases h; exact fun z hz => hs (List.mem_cons_of_mem _ (h2 hz))
      · cases h
    · cases h

theorem consumeAttribute_sub (l r : Str) (h : consumeAttribute l = some r) : r ⊆ l := by
  unfold consumeAttribute at h
  cases hq : consumeAttrQuoted l with
  | some r0 => rw [hq] at h; simp at h; subst h; exact consumeAttrQuoted_sub l r0 hq
  | none => rw [hq] at h; simp at h; exact consumeAttrUnquoted_sub l r h

/-- without a `<` to the left there is no tag: `is_html` says no -/
theorem isHtmlLoop_no_lt : ∀ (fuel : Nat) (l : Str), 60 ∉ l → isHtmlLoop fuel l = false := by
  intro fuel
  induction fuel with
  | zero => intro l _; cases l <;> rfl
  | succ fuel ih =>
    intro l hl
    cases l with
    | nil => rfl
    | cons a as =>
      unfold isHtmlLoop
      have h1 := dropWhile'_sub isWs (a :: as)
      generalize dropWhile' isWs (a :: as) = d1 at h1
      obtain ⟨l1, n1⟩ := d1
      simp only at h1 ⊢
      have h2 := consumeIdent_sub l1
      generalize consumeIdent l1 = ci at h2
      obtain ⟨l2, got⟩ := ci
      simp only at h2 ⊢
      have hl2 : 60 ∉ l2 := fun hm => hl (h1 (h2 hm))
      have hl1 : 60 ∉ l1 := fun hm => hl (h1 hm)
      cases got with
      | true =>
        simp only [if_true]
        cases l2 with
        | nil => rfl
        | cons x r =>
          have hx : x ≠ 60 := fun he => hl2 (by rw [he]; exact List.mem_cons_self ..)
          have hr : 60 ∉ r := fun hm => hl2 (List.mem_cons_of_mem _ hm)
          by_cases h47 : x = 47
          · subst h47
            cases r with
            | nil => rfl
            | cons y ys =>
              have hy : y ≠ 60 := fun he => hr (by rw [he]; exact List.mem_cons_self ..)
              simp only
              split
              · rename_i heq; simp at heq; exact absurd heq.1 hy
              · rfl
          · split
            · rename_i heq; simp at heq; exact absurd heq.1 h47
            · rename_i heq; simp at heq; exact absurd heq.1 hx
            · rename_i x' r' _ _ heq
              simp at heq; obtain ⟨rfl, rfl⟩ := heq
              split
              · exact ih _ hr
              · split
                · have h3 := consumeIdent_sub r
                  generalize consumeIdent r = ci2 at h3
                  obtain ⟨r2, ok⟩ := ci2
                  simp only at h3 ⊢
                  split
                  · exact ih _ (fun hm => hr (h3 hm))
                  · rfl
                · split
                  · rename_i r2 hcu
                    exact ih _ (fun hm => hl2 (consumeAttrUnquoted_sub _ _ hcu hm))
                  · rfl
            · rename_i heq; simp at heq
      | false =>
        simp only [Bool.false_eq_true, if_false]
        split
        · rename_i r hca
          exact ih _ (fun hm => hl1 (consumeAttribute_sub _ _ hca hm))
        · rfl

theorem isHtml_no_lt (l : Str) (h : 60 ∉ l) : isHtml l = false := by
  unfold isHtml
  split
  · rename_i r
    have hr : 60 ∉ r := fun hm => h (List.mem_cons_of_mem _ hm)
    apply isHtmlLoop_no_lt
    split
    · rename_i r' ; exact fun hm => hr (List.mem_cons_of_mem _ hm)
    · exact hr
  · rfl

theorem abbr_not_brace (ch : Ch) (m : Bool) (h : isAbbreviation ch = true) :
    isCloseBrace ch m = false ∧ isOpenBrace ch m = false := by
  have h40 : ch ≠ 40 := fun e => by subst e; exact absurd h (by decide)
  have h41 : ch ≠ 41 := fun e => by subst e; exact absurd h (by decide)
  have h91 : ch ≠ 91 := fun e => by subst e; exact absurd h (by decide)
  have h93 : ch ≠ 93 := fun e => by subst e; exact absurd h (by decide)
  have h123 : ch ≠ 123 := fun e => by subst e; exact absurd h (by decide)
  have h125 : ch ≠ 125 := fun e => by subst e; exact absurd h (by decide)
  simp [isCloseBrace, isOpenBrace, h40, h41, h91, h93, h123, h125]

/-- the backward scan runs over a run of abbreviation characters (no `<` anywhere to the left) and stops at the blank before it, or at
the start of the line -/
theorem mainLoop_word (m : Bool) : ∀ (w rest : Str) (fuel : Nat), (∀ c ∈ w, isAbbreviation c = true) → 60 ∉ w ++ rest →
    w.length < fuel → (rest = [] ∨ ∃ b rs, rest = b :: rs ∧ isWs b = true) → mainLoop m fuel (w ++ rest) [] = (rest, []) := by
  intro w
  induction w with
  | nil =>
    intro rest fuel _ _ hf hrest
    obtain ⟨f, rfl⟩ : ∃ f, fuel = f + 1 := ⟨fuel - 1, by simp at hf; omega⟩
    rcases hrest with rfl | ⟨b, rs, rfl, hb⟩
    · rfl
    · have hb' : b = 32 ∨ b = 9 := by simpa [isWs] using hb
      have hna : isAbbreviation b = false := by rcases hb' with rfl | rfl <;> decide
      have hcb : isCloseBrace b m = false := by rcases hb' with rfl | rfl <;> cases m <;> decide
      have hob : isOpenBrace b m = false := by rcases hb' with rfl | rfl <;> cases m <;> decide
      have hb62 : b ≠ 62 := by rcases hb' with rfl | rfl <;> decide
      have hh : isHtml (b :: rs) = false := by
        unfold isHtml; split
        · rename_i heq; simp at heq; exact absurd heq.1 hb62
        · rfl
      simp [mainLoop, hcb, hob, hh, hna]
  | cons c w ih =>
    intro rest fuel hw h60 hf hrest
    obtain ⟨f, rfl⟩ : ∃ f, fuel = f + 1 := ⟨fuel - 1, by simp at hf; omega⟩
    have hc := hw c (List.mem_cons_self ..)
    have ⟨hcb, hob⟩ := abbr_not_brace c m hc
    have hh : isHtml (c :: (w ++ rest)) = false := isHtml_no_lt _ h60
    have := ih rest f (fun x hx => hw x (List.mem_cons_of_mem _ hx)) (fun hm => h60 (List.mem_cons_of_mem _ hm))
      (by simp at hf; omega) hrest
    simp only [List.cons_append, mainLoop, List.contains_nil, Bool.false_and, hcb, hob, hh, hc, Bool.or_self, Bool.not_true,
      Bool.false_eq_true, if_false]
    exact this

theorem stripLeading_id (s : Str) (x : Ch) (xs : Str) (hs : s = x :: xs) (h : x ≠ 42 ∧ x ≠ 43 ∧ x ≠ 62 ∧ x ≠ 94) : stripLeading s = s := by
  subst hs; unfold stripLeading; simp [h.1, h.2.1, h.2.2.1, h.2.2.2]

/-- **round trip, bracket-free abbreviations**: a run of abbreviation characters (names, numbers, `# . * : $ - _ ! @ % ^ + > /`) that does
not begin with an operator, standing at the start of the line or after a blank, with no `<` to its left, is returned exactly — for the
caret at its end, both syntax types, look-ahead on or off, no prefix -/
theorem extract_roundtrip (pre abbr : Str) (a0 : Ch) (as : Str) (ha : abbr = a0 :: as)
    (hab : ∀ c ∈ abbr, isAbbreviation c = true) (hop : a0 ≠ 42 ∧ a0 ≠ 43 ∧ a0 ≠ 62 ∧ a0 ≠ 94)
    (hpre : pre = [] ∨ ∃ ps b, pre = ps ++ [b] ∧ isWs b = true) (hlt : 60 ∉ pre) (markup lookAhead : Bool) :
    extract (pre ++ abbr) ((pre ++ abbr).length : Int) { markup := markup, lookAhead := lookAhead, pfx := [] }
      = some ⟨abbr, pre.length, pre.length, (pre ++ abbr).length⟩ := by
  have h60a : 60 ∉ abbr := fun hm => absurd (hab 60 hm) (by decide)
  have hp0 : (min (((pre ++ abbr).length : Nat) : Int) (max 0 (((pre ++ abbr).length : Nat) : Int))).toNat = (pre ++ abbr).length := by omega
  have hoff : offsetPast (List.drop (pre ++ abbr).length (pre ++ abbr)) markup = 0 := by simp [offsetPast, dropWhile']
  have hp : (if lookAhead = true then (pre ++ abbr).length + offsetPast (List.drop (pre ++ abbr).length (pre ++ abbr)) markup
      else (pre ++ abbr).length) = (pre ++ abbr).length := by rw [hoff]; simp
  have hrest : pre.reverse = [] ∨ ∃ b rs, pre.reverse = b :: rs ∧ isWs b = true := by
    rcases hpre with rfl | ⟨ps, b, rfl, hb⟩
    · left; rfl
    · right; exact ⟨b, ps.reverse, by simp, hb⟩
  have hml := mainLoop_word markup abbr.reverse pre.reverse ((pre ++ abbr).length + 1)
    (fun c hc => hab c (List.mem_reverse.mp hc))
    (fun hm => by rcases List.mem_append.mp hm with h | h
                  · exact h60a (List.mem_reverse.mp h)
                  · exact hlt (List.mem_reverse.mp h))
    (by simp; omega) hrest
  unfold extract
  simp only [hp0]
  simp only [hp]
  simp only [List.reverse_append, List.isEmpty_nil, if_true, Nat.sub_zero, List.length_append,
    List.length_reverse, Nat.zero_add]
  have ht1 : List.take (pre.length + abbr.length) (pre ++ abbr) = pre ++ abbr := by apply List.take_of_length_le; simp
  simp only [ht1, List.reverse_append]
  have htake : List.take (pre.length + abbr.length) (abbr.reverse ++ pre.reverse) = abbr.reverse ++ pre.reverse := by
    apply List.take_of_length_le; simp; omega
  rw [htake]
  have hlen : (abbr.reverse ++ pre.reverse).length = pre.length + abbr.length := by simp; omega
  rw [hlen]
  have hml' : mainLoop markup (pre.length + abbr.length + 1) (abbr.reverse ++ pre.reverse) [] = (pre.reverse, []) := by
    simpa [List.length_append] using hml
  rw [hml']
  have hne : (pre.reverse.length != pre.length + abbr.length) = true := by
    subst ha; simp
  simp only [List.isEmpty_nil, Bool.true_and, hne, if_true, List.length_reverse]
  have hraw : List.drop pre.length (pre ++ abbr) = abbr := by simp
  rw [hraw, stripLeading_id abbr a0 as ha hop]
  simp
  subst ha; simp

end X
