import EmmetProofs.TokTilesMain
import EmmetProofs.ParseTotal
/-! C07, tokenizer → parser interface: a string that does not end with a backslash tokenizes to non-empty literals. -/
namespace T

def isLit : Token → Bool | .literal _ => true | _ => false

theorem repeaterPlaceholder_tok {rest e} (h : repeaterPlaceholder rest = some e) : isLit e.tok = false := by
  unfold repeaterPlaceholder at h; split at h <;> simp at h; subst h; rfl
theorem repeater_tok {rest e} (h : repeater rest = some e) : isLit e.tok = false := by
  unfold repeater at h; split at h
  · simp only at h; split at h <;> (simp at h; subst h; rfl)
  · simp at h
theorem whiteSpace_tok {rest e} (h : whiteSpace rest = some e) : isLit e.tok = false := by
  unfold whiteSpace at h; simp only at h; split at h <;> simp at h; subst h; rfl
theorem operator_tok {rest e} (h : operator rest = some e) : isLit e.tok = false := by
  unfold operator at h; split at h
  · split at h <;> simp at h; subst h; rfl
  · simp at h
theorem quote_tok {rest e} (h : quote rest = some e) : isLit e.tok = false := by
  unfold quote at h; split at h
  · split at h <;> simp at h; subst h; rfl
  · simp at h
theorem bracket_tok {rest e} (h : bracket rest = some e) : isLit e.tok = false := by
  unfold bracket at h; split at h
  · split at h <;> simp at h; subst h; rfl
  · simp at h
theorem repeaterNumber_tok {rest e} (h : repeaterNumber rest = some e) : isLit e.tok = false := by
  unfold repeaterNumber at h; simp only at h
  split at h
  · simp at h
  · split at h <;> (simp at h; subst h; rfl)
theorem fieldCont_tok {pos index name used r2 e} (h : fieldCont pos index name used r2 = .ok (some e)) : isLit e.tok = false := by
  unfold fieldCont at h; split at h <;> simp at h; subst h; rfl
theorem field_tok {rest pos ctx e} (h : field rest pos ctx = .ok (some e)) : isLit e.tok = false := by
  unfold field at h
  split at h
  · split at h
    · simp only at h
      split at h
      · split at h
        · split at h
          · exact fieldCont_tok h
          · simp at h
        · exact fieldCont_tok h
      · split at h
        · split at h
          · split at h
            · exact fieldCont_tok h
            · simp at h
          · exact fieldCont_tok h
        · exact fieldCont_tok h
    · simp at h
  · simp at h

theorem literalLoop_v (exprStart : Int) (fuel : Nat) (rest : Str) (prev : Option Ch) (ctx : Ctx) (v u : Str) :
    (literalLoop exprStart fuel rest prev ctx v u).1 = [] →
      v = [] ∧ ((literalLoop exprStart fuel rest prev ctx v u).2.1 = u.reverse ∨ rest.getLast? = some 92) := by
  fun_induction literalLoop exprStart fuel rest prev ctx v u <;> intro h <;>
    first
      | (simp_all; done)
      | (rename_i ih; have := ih h; simp_all; done)
      | (rename_i ih; have := (ih h).1; simp at this)

theorem literal_tok {rest prev ctx e ctx'} (h : literal rest prev ctx = some (e, ctx'))
    (hl : rest.getLast? ≠ some 92) : e.tok ≠ .literal [] := by
  unfold literal at h
  have := literalLoop_v ctx.expr (rest.length + 1) rest prev ctx [] []
  simp only at h
  generalize literalLoop ctx.expr (rest.length + 1) rest prev ctx [] [] = r at this h
  obtain ⟨v, u, r', c'⟩ := r
  simp only at this h
  split at h
  · cases h
  · rename_i hu
    cases h
    intro hv
    simp only [Token.literal.injEq] at hv
    rcases (this hv).2 with h1 | h1
    · simp at h1; simp [h1] at hu
    · exact hl h1

theorem step_tok (rest : Str) (pos : Nat) (prev : Option Ch) (ctx : Ctx) (e : Eaten) (c' : Ctx)
    (h : step rest pos prev ctx = .ok (some (e, c'))) (hl : rest.getLast? ≠ some 92) : e.tok ≠ .literal [] := by
  have nl : isLit e.tok = false → e.tok ≠ .literal [] := by intro h1 h2; rw [h2] at h1; cases h1
  unfold step at h
  cases hf : field rest pos ctx with
  | error er => simp [hf] at h
  | ok o =>
    cases o with
    | some e0 => simp [hf] at h; obtain ⟨rfl, _⟩ := h; exact nl (field_tok hf)
    | none =>
      simp only [hf] at h
      cases h1 : repeaterPlaceholder rest with
      | some e1 => simp [h1] at h; obtain ⟨rfl, _⟩ := h; exact nl (repeaterPlaceholder_tok h1)
      | none =>
      simp only [h1] at h
      cases h2 : repeaterNumber rest with
      | some e1 => simp [h2] at h; obtain ⟨rfl, _⟩ := h; exact nl (repeaterNumber_tok h2)
      | none =>
      simp only [h2] at h
      cases h3 : repeaterCtx rest ctx with
      | some e1 =>
        have h3' : repeater rest = some e1 := by
          unfold repeaterCtx at h3; split at h3
          · cases h3
          · exact h3
        simp [h3] at h; obtain ⟨rfl, _⟩ := h; exact nl (repeater_tok h3')
      | none =>
      simp only [h3] at h
      cases h4 : whiteSpace rest with
      | some e1 => simp [h4] at h; obtain ⟨rfl, _⟩ := h; exact nl (whiteSpace_tok h4)
      | none =>
      simp only [h4] at h
      cases h5 : literal rest prev ctx with
      | some r1 =>
        obtain ⟨e1, c1⟩ := r1
        simp [h5] at h; obtain ⟨rfl, _⟩ := h; exact literal_tok h5 hl
      | none =>
      simp only [h5] at h
      cases h6 : operator rest with
      | some e1 => simp [h6] at h; obtain ⟨rfl, _⟩ := h; exact nl (operator_tok h6)
      | none =>
      simp only [h6] at h
      cases h7 : quote rest with
      | some e1 => simp [h7] at h; obtain ⟨rfl, _⟩ := h; exact nl (quote_tok h7)
      | none =>
      simp only [h7] at h
      cases h8 : bracket rest with
      | some e1 => simp [h8] at h; obtain ⟨rfl, _⟩ := h; exact nl (bracket_tok h8)
      | none => simp [h8] at h

theorem loop_LitsNE : ∀ (fuel : Nat) (rest : Str) (pos : Nat) (prev : Option Ch) (ctx : Ctx) (acc ts : List Tok),
    loop fuel rest pos prev ctx acc = .ok ts → rest.getLast? ≠ some 92 → LitsNE acc → LitsNE ts := by
  intro fuel
  induction fuel with
  | zero => intro rest pos prev ctx acc ts h; simp [loop] at h
  | succ f ih =>
    intro rest pos prev ctx acc ts h hl hacc
    cases rest with
    | nil =>
      simp [loop] at h; subst h
      intro t ht; exact hacc t (by simpa using ht)
    | cons ch xs =>
      unfold loop at h
      cases hs : step (ch :: xs) pos prev ctx with
      | error e => simp [hs] at h
      | ok o =>
        cases o with
        | none => simp [hs] at h
        | some ec =>
          obtain ⟨e, c'⟩ := ec
          simp only [hs] at h
          have hg : e.Good (ch :: xs) := (step_spec (ch :: xs) pos prev ctx).1 e c' hs
          have htok := step_tok (ch :: xs) pos prev ctx e c' hs hl
          refine ih e.rest _ _ _ _ ts h ?_ ?_
          · intro hr
            apply hl
            rw [← hg.1]
            cases her : e.rest with
            | nil => rw [her] at hr; simp at hr
            | cons a b => rw [her] at hr; rw [List.getLast?_append]; simp [hr]
          · intro t ht
            simp at ht
            rcases ht with rfl | ht
            · exact htok
            · exact hacc t ht

/-- **tokenizer → parser interface**: if the input does not end with a backslash, no literal token is empty -/
theorem tokenize_LitsNE (s : Str) (ts : List Tok) (h : tokenize s = .ok ts) (hl : s.getLast? ≠ some 92) : LitsNE ts :=
  loop_LitsNE _ s 0 none {} [] ts h hl (by intro t ht; cases ht)

/-- **C07, tokenizer + parser stages**: for EVERY string and both JSX modes: a scanner error inside the input, or a token
    list on which the parser returns a forest or a token error — never an internal error, never out of fuel. (Before the
    repair of the JSX name test this needed the hypothesis "does not end with a backslash".) -/
theorem tokenize_parse_total (jsx : Bool) (s : Str) :
    match tokenize s with
    | .ok ts => Res (parseTokens jsx ts) (fun _ => True)
    | .error (.scanner p) => p ≤ s.length
    | .error .fuel => False := by
  have ht := tokenize_tiles s
  cases h : tokenize s with
  | ok ts => exact parseTokens_total jsx ts
  | error e =>
    rw [h] at ht
    cases e with
    | scanner p => simpa using ht
    | fuel => simpa using ht
end T
