import EmmetProofs.HtmlOutwardNested
namespace H

/-- a chain of first children: each one strictly inside the one before -/
def ChainOK : List Matched → Prop
  | [] => True
  | [_] => True
  | a :: b :: rest => b.Inside a ∧ ChainOK (b :: rest)

theorem chainOK_tail {a : Matched} {l : List Matched} (h : ChainOK (a :: l)) : ChainOK l := by
  cases l with
  | nil => trivial
  | cons b rest => exact h.2

theorem chainOK_cons (a : Matched) (l : List Matched) (h : ChainOK l) (hh : ∀ b, l.head? = some b → b.Inside a) : ChainOK (a :: l) := by
  cases l with
  | nil => trivial
  | cons b rest => exact ⟨hh b rfl, h⟩

/-- an open tag on the inward stack: opened before everything still to come, with a nested chain of (closed) first children inside it -/
structure ITagOK (evs : List Ev) (t : ITag) : Prop where
  ne : t.tag.openR.1 < t.tag.openR.2
  before : ∀ e ∈ evs, t.tag.openR.2 ≤ e.start
  chain : ChainOK t.chain
  chainIn : ∀ c ∈ t.chain, t.tag.openR.1 < c.start ∧ ∀ e ∈ evs, c.stop ≤ e.start
  chainNE : ∀ c ∈ t.chain, c.start < c.stop

theorem ITagOK.mono {ev : Ev} {evs : List Ev} {t : ITag} (h : ITagOK (ev :: evs) t) : ITagOK evs t :=
  ⟨h.ne, fun e he => h.before e (List.mem_cons_of_mem _ he), h.chain,
    fun c hc => ⟨(h.chainIn c hc).1, fun e he => (h.chainIn c hc).2 e (List.mem_cons_of_mem _ he)⟩, h.chainNE⟩

/-- the result list: every entry strictly inside the one before it -/
theorem inward_nested_acc (xml : Bool) (pos : Int) : ∀ (evs : List Ev) (stack : List ITag),
    SortedEv evs → (∀ t ∈ stack, ITagOK evs t) → stack.Pairwise (fun upper lower => lower.tag.openR.1 < upper.tag.openR.1) →
    ChainOK (inwardLoop xml pos evs stack) := by
  intro evs
  induction evs with
  | nil => intro stack _ _ _; simp [inwardLoop, ChainOK]
  | cons ev evs ih =>
    intro stack hs hst hord
    have hev : ev.start < ev.stop := hs.1
    have hlater : ∀ e' ∈ evs, ev.stop ≤ e'.start := hs.2.1
    have hsorted' : SortedEv evs := hs.2.2
    have hst' : ∀ t ∈ stack, ITagOK evs t := fun t ht => (hst t ht).mono
    unfold inwardLoop
    by_cases hc : (ev.type == .close) = true
    · simp only [hc, if_true]
      cases stack with
      | nil => exact ih [] hsorted' (by simp) List.Pairwise.nil
      | cons tag rest =>
        have htag := hst tag (List.mem_cons_self ..)
        by_cases hn : (tag.tag.name == ev.name) = true
        · simp only [hn, if_true]
          by_cases hp : ((tag.tag.openR.1 : Int) ≤ pos && pos ≤ ev.stop) = true
          · simp only [hp, if_true]
            apply chainOK_cons _ _ htag.chain
            intro b hb
            have hbm : b ∈ tag.chain := by cases hch : tag.chain with
              | nil => rw [hch] at hb; simp at hb
              | cons x xs => rw [hch] at hb; simp at hb; subst hb; exact List.mem_cons_self ..
            have h1 := htag.chainIn b hbm
            have h2 := h1.2 ev (List.mem_cons_self ..)
            exact ⟨h1.1, by show b.stop < ev.stop; omega⟩
          · simp only [hp]
            cases rest with
            | nil => exact ih [] hsorted' (by simp) List.Pairwise.nil
            | cons parent rest' =>
              simp only
              apply ih _ hsorted'
              · intro t ht
                rcases List.mem_cons.mp ht with rfl | ht
                · have hpar := hst parent (List.mem_cons_of_mem _ (List.mem_cons_self ..))
                  have hpar' := hpar.mono
                  unfold ITag.setFirstIfNone
                  cases hch : parent.chain with
                  | cons x xs => simp only; exact hpar'
                  | nil =>
                    simp only
                    have hlt : parent.tag.openR.1 < tag.tag.openR.1 := by
                      have := (List.pairwise_cons.mp hord).1 parent (List.mem_cons_self ..); exact this
                    have hclosed : ({ name := tag.tag.name, openR := tag.tag.openR, closeR := some (ev.start, ev.stop) } : Matched).stop = ev.stop := rfl
                    have hcstart : ({ name := tag.tag.name, openR := tag.tag.openR, closeR := some (ev.start, ev.stop) } : Matched).start = tag.tag.openR.1 := rfl
                    refine ⟨hpar'.ne, hpar'.before, ?_, ?_, ?_⟩
                    · apply chainOK_cons _ _ htag.chain
                      intro b hb
                      have hbm : b ∈ tag.chain := by cases hch2 : tag.chain with
                        | nil => rw [hch2] at hb; simp at hb
                        | cons x xs => rw [hch2] at hb; simp at hb; subst hb; exact List.mem_cons_self ..
                      have h1 := htag.chainIn b hbm
                      have h2 := h1.2 ev (List.mem_cons_self ..)
                      exact ⟨by simp only [ITag.withClose, hcstart]; exact h1.1, by simp only [ITag.withClose, hclosed]; omega⟩
                    · intro c hcm
                      rcases List.mem_cons.mp hcm with rfl | hcm
                      · refine ⟨by simp only [ITag.withClose, hcstart]; exact hlt, fun e he => ?_⟩
                        simp only [ITag.withClose, hclosed]; exact hlater e he
                      · have h1 := htag.chainIn c hcm
                        refine ⟨?_, fun e he => h1.2 e (List.mem_cons_of_mem _ he)⟩
                        show parent.tag.openR.1 < c.start
                        have := h1.1; omega
                    · intro c hcm
                      rcases List.mem_cons.mp hcm with rfl | hcm
                      · simp only [ITag.withClose, hclosed, hcstart]
                        have := htag.before ev (List.mem_cons_self ..); have := htag.ne; omega
                      · exact htag.chainNE c hcm
                · exact hst' t (List.mem_cons_of_mem _ (List.mem_cons_of_mem _ ht))
              · have h2 := (List.pairwise_cons.mp hord).2
                have h3 := List.pairwise_cons.mp h2
                refine List.pairwise_cons.mpr ⟨?_, h3.2⟩
                intro t ht
                have := h3.1 t ht
                unfold ITag.setFirstIfNone
                cases parent.chain <;> simpa using this
        · simp only [hn]; exact ih (tag :: rest) hsorted' hst' hord
    · simp only [hc]
      by_cases hsc : (ev.type == .selfClose || isSelfClose ev.name xml) = true
      · simp only [hsc, if_true]
        by_cases hp : ((ev.start : Int) < pos && pos < ev.stop) = true
        · simp only [hp, if_true]; trivial
        · simp only [hp]
          cases stack with
          | nil => exact ih [] hsorted' (by simp) List.Pairwise.nil
          | cons parent rest =>
            simp only
            apply ih _ hsorted'
            · intro t ht
              rcases List.mem_cons.mp ht with rfl | ht
              · have hpar := hst parent (List.mem_cons_self ..)
                have hpar' := hpar.mono
                unfold ITag.setFirstIfNone
                cases hch : parent.chain with
                | cons x xs => simp only; exact hpar'
                | nil =>
                  simp only [ITag.new]
                  have hb := hpar.before ev (List.mem_cons_self ..)
                  refine ⟨hpar'.ne, hpar'.before, trivial, ?_, ?_⟩
                  · intro c hcm; simp at hcm; subst hcm
                    refine ⟨?_, fun e he => hlater e he⟩
                    show parent.tag.openR.1 < ev.start
                    have := hpar.ne; omega
                  · intro c hcm; simp at hcm; subst hcm; exact hev
              · exact hst' t (List.mem_cons_of_mem _ ht)
            · have h3 := List.pairwise_cons.mp hord
              refine List.pairwise_cons.mpr ⟨?_, h3.2⟩
              intro t ht
              have := h3.1 t ht
              unfold ITag.setFirstIfNone
              cases parent.chain <;> simpa using this
      · simp only [hsc]
        apply ih _ hsorted'
        · intro t ht
          rcases List.mem_cons.mp ht with rfl | ht
          · exact ⟨hev, hlater, trivial, by simp [ITag.new], by simp [ITag.new]⟩
          · exact hst' t ht
        · refine List.pairwise_cons.mpr ⟨?_, hord⟩
          intro t ht
          have h1 := hst t ht
          have := h1.before ev (List.mem_cons_self ..)
          have := h1.ne
          show t.tag.openR.1 < ev.start
          omega

/-- successive `balanced_inward` entries lie strictly inside each other — for EVERY source, position and mode -/
theorem inward_nested (xml : Bool) (pos : Int) (s : Str) (special : List (Str × Option (List Str))) :
    ChainOK (inwardLoop xml pos (scan s special) []) := by
  obtain ⟨acc', hscan, hgood⟩ := scan_good s special
  have hsorted := (goodRev_sorted s acc' s.length hgood).1
  rw [← hscan] at hsorted
  exact inward_nested_acc xml pos (scan s special) [] hsorted (by simp) List.Pairwise.nil
-- (appended) first entry of balanced_inward contains the position
/-- the first entry of `balanced_inward` is the element at the position (its range contains the position; the ends count for a pair) -/
theorem inward_head_contains (xml : Bool) (pos : Int) : ∀ (evs : List Ev) (stack : List ITag) (m : Matched),
    (inwardLoop xml pos evs stack).head? = some m → (m.start : Int) ≤ pos ∧ pos ≤ (m.stop : Int) := by
  intro evs
  induction evs with
  | nil => intro stack m h; simp [inwardLoop] at h
  | cons ev evs ih =>
    intro stack m h
    unfold inwardLoop at h
    by_cases hc : (ev.type == .close) = true
    · simp only [hc, if_true] at h
      cases stack with
      | nil => exact ih [] m h
      | cons tag rest =>
        simp only at h
        by_cases hn : (tag.tag.name == ev.name) = true
        · simp only [hn, if_true] at h
          by_cases hp : ((tag.tag.openR.1 : Int) ≤ pos && pos ≤ ev.stop) = true
          · simp only [hp, if_true, List.head?_cons, Option.some.injEq] at h
            subst h
            simp only [Bool.and_eq_true, decide_eq_true_eq] at hp
            exact hp
          · simp only [hp] at h
            cases rest with
            | nil => exact ih [] m h
            | cons parent rest' => exact ih _ m h
        · simp only [hn] at h; exact ih _ m h
    · have hc' : (ev.type == .close) = false := by simpa using hc
      simp only [hc', Bool.false_eq_true, if_false] at h
      by_cases hsc : (ev.type == .selfClose || isSelfClose ev.name xml) = true
      · simp only [hsc, if_true] at h
        by_cases hp : ((ev.start : Int) < pos && pos < ev.stop) = true
        · simp only [hp, if_true, List.head?_cons, Option.some.injEq] at h
          subst h
          simp only [Bool.and_eq_true, decide_eq_true_eq] at hp
          exact ⟨by show (ev.start : Int) ≤ pos; omega, by show pos ≤ (ev.stop : Int); omega⟩
        · simp only [hp] at h
          cases stack with
          | nil => exact ih [] m h
          | cons parent rest => exact ih _ m h
      · simp only [hsc] at h; exact ih _ m h

end H
