/-! C03_merge, abstract prototype: the left-to-right merge loop with a by-name lookup equals the declarative
    group-by ("first mention keeps the place and absorbs every later mention of its name"). -/
namespace Mg
variable {A K : Type} [DecidableEq K] (key : A → Option K) (m : A → A → A)

/-- replace the first element whose key is `k` by `f` of it -/
def upd (k : K) (f : A → A) : List A → Option (List A)
  | [] => none
  | r :: rs => if key r = some k then some (f r :: rs) else (upd k f rs).map (r :: ·)

/-- the loop of `merge_attributes` -/
def go : List A → List A → List A
  | [], res => res
  | a :: rest, res =>
    match key a with
    | some k =>
      match upd key k (fun r => m r a) res with
      | some res' => go rest res'
      | none => go rest (res ++ [a])
    | none => go rest (res ++ [a])

def same (a b : A) : Bool := decide (key b = key a) && (key a).isSome
/-- `a` merged with every later mention of its name, left to right -/
def absorb (a : A) (later : List A) : A := (later.filter (same key a)).foldl m a

/-- the declarative result (fuel = length of the list suffices) -/
def spec : Nat → List A → List A
  | 0, _ => []
  | _+1, [] => []
  | f+1, a :: l => absorb key m a l :: spec f (l.filter (fun b => !same key a b))

def keys (res : List A) : List K := res.filterMap key
def fresh (res : List A) (b : A) : Bool := match key b with | some k => decide (k ∉ keys key res) | none => true

variable (hm : ∀ p a, key (m p a) = key p)
include hm

theorem absorb_key (a : A) (l : List A) : key (absorb key m a l) = key a := by
  unfold absorb
  generalize l.filter (same key a) = l'
  induction l' generalizing a with
  | nil => rfl
  | cons b bs ih => simp only [List.foldl_cons]; rw [ih, hm]

omit hm in
theorem spec_fuel (f g : Nat) (l : List A) (hf : l.length ≤ f) (hg : l.length ≤ g) : spec key m f l = spec key m g l := by
  induction f generalizing g l with
  | zero => cases l <;> cases g <;> simp_all [spec]
  | succ f ih =>
    cases l with
    | nil => cases g <;> simp [spec]
    | cons a l =>
      cases g with
      | zero => simp at hg
      | succ g =>
        simp only [spec]
        have hl : (l.filter (fun b => !same key a b)).length ≤ l.length := List.length_filter_le _ _
        rw [ih g (l.filter _) (by simp at hf; omega) (by simp at hg; omega)]

def specL (l : List A) : List A := spec key m l.length l

omit hm in
theorem specL_nil : specL key m ([] : List A) = [] := rfl
omit hm in
theorem specL_cons (a : A) (l : List A) :
    specL key m (a :: l) = absorb key m a l :: specL key m (l.filter (fun b => !same key a b)) := by
  unfold specL
  simp only [List.length_cons, spec]
  rw [spec_fuel key m l.length _ _ (List.length_filter_le _ _) (Nat.le_refl _)]

omit hm in
theorem absorb_skip (r a : A) (l : List A) (h : same key r a = false) : absorb key m r (a :: l) = absorb key m r l := by
  simp [absorb, List.filter, h]
omit hm in
theorem absorb_take (r a : A) (l : List A) (h : same key r a = true) :
    absorb key m r (a :: l) = (l.filter (same key r)).foldl m (m r a) := by
  simp [absorb, List.filter, h]

theorem same_m (r a : A) : same key (m r a) = same key r := by
  funext b; simp [same, hm]

theorem absorb_m (r a : A) (l : List A) (h : same key r a = true) :
    absorb key m r (a :: l) = absorb key m (m r a) l := by
  rw [absorb_take key m r a l h]; unfold absorb; rw [same_m key m hm]

omit hm in
theorem same_false_of_key (r a : A) (k : K) (ha : key a = some k) (hr : key r ≠ some k) : same key r a = false := by
  simp only [same, Bool.and_eq_false_iff, decide_eq_false_iff_not]
  left; rw [ha]; exact fun h => hr h.symm
omit hm in
theorem same_true_of_key (r a : A) (k : K) (ha : key a = some k) (hr : key r = some k) : same key r a = true := by
  simp [same, ha, hr]
omit hm in
theorem same_none (r a : A) (ha : key a = none) : same key r a = false := by
  simp only [same, Bool.and_eq_false_iff, decide_eq_false_iff_not]
  cases hr : key r with
  | none => right; rfl
  | some k => left; rw [ha]; simp

theorem upd_some (k : K) (a : A) (ha : key a = some k) : ∀ (res res' : List A),
    upd key k (fun r => m r a) res = some res' → (keys key res).Nodup →
    keys key res' = keys key res ∧ ∀ l, res'.map (fun r => absorb key m r l) = res.map (fun r => absorb key m r (a :: l)) := by
  intro res
  induction res with
  | nil => intro res' h; simp [upd] at h
  | cons r rs ih =>
    intro res' h hnd
    simp only [upd] at h
    split at h
    · rename_i hr
      cases h
      have hk : k ∉ keys key rs := by
        simp only [keys, List.filterMap_cons, hr] at hnd
        exact (List.nodup_cons.mp hnd).1
      refine ⟨by simp [keys, List.filterMap_cons, hm], ?_⟩
      intro l
      simp only [List.map_cons]
      rw [absorb_m key m hm r a l (same_true_of_key key r a k ha hr)]
      congr 1
      apply List.map_congr_left
      intro r' hr'
      rw [absorb_skip key m r' a l]
      apply same_false_of_key key r' a k ha
      intro hc
      exact hk (by simp only [keys, List.mem_filterMap]; exact ⟨r', hr', hc⟩)
    · rename_i hr
      cases hu : upd key k (fun r => m r a) rs with
      | none => simp [hu] at h
      | some rs' =>
        simp [hu] at h; subst h
        have hnd' : (keys key rs).Nodup := by
          simp only [keys, List.filterMap_cons] at hnd
          cases hkr : key r with
          | none => simpa [hkr, keys] using hnd
          | some k' => rw [hkr] at hnd; exact (List.nodup_cons.mp hnd).2
        obtain ⟨h1, h2⟩ := ih rs' hu hnd'
        refine ⟨by simp only [keys, List.filterMap_cons] at h1 ⊢; rw [h1], ?_⟩
        intro l
        simp only [List.map_cons, h2 l]
        rw [absorb_skip key m r a l (same_false_of_key key r a k ha hr)]

omit hm in
theorem upd_none (k : K) (f : A → A) : ∀ (res : List A), upd key k f res = none → k ∉ keys key res := by
  intro res
  induction res with
  | nil => intro _; simp [keys]
  | cons r rs ih =>
    intro h
    simp only [upd] at h
    split at h
    · cases h
    · rename_i hr
      cases hu : upd key k f rs with
      | some x => simp [hu] at h
      | none =>
        have := ih hu
        simp only [keys, List.filterMap_cons]
        cases hkr : key r with
        | none => simpa [keys] using this
        | some k' =>
          simp only [List.mem_cons, not_or]
          exact ⟨fun hc => hr (by rw [hkr, hc]), this⟩
omit hm in
theorem upd_mem (k : K) (f : A → A) : ∀ (res res' : List A), upd key k f res = some res' → k ∈ keys key res := by
  intro res
  induction res with
  | nil => intro res' h; simp [upd] at h
  | cons r rs ih =>
    intro res' h
    simp only [upd] at h
    split at h
    · rename_i hr; simp [keys, List.filterMap_cons, hr]
    · cases hu : upd key k f rs with
      | none => simp [hu] at h
      | some rs' =>
        have := ih rs' hu
        simp only [keys, List.filterMap_cons] at this ⊢
        cases key r <;> simp [this]

omit hm in
theorem fresh_congr (res res' : List A) (h : keys key res' = keys key res) : fresh key res' = fresh key res := by
  funext b; simp [fresh, h]

omit hm in
theorem keys_append_none (res : List A) (a : A) (ha : key a = none) : keys key (res ++ [a]) = keys key res := by
  simp [keys, List.filterMap_append, ha]
omit hm in
theorem keys_append_some (res : List A) (a : A) (k : K) (ha : key a = some k) : keys key (res ++ [a]) = keys key res ++ [k] := by
  simp [keys, List.filterMap_append, ha]

omit hm in
theorem absorb_nil (r : A) : absorb key m r [] = r := by simp [absorb]

/-- **C03_merge (abstract)**: the merge loop equals the declarative group-by -/
theorem go_spec : ∀ (rest res : List A), (keys key res).Nodup →
    go key m rest res = res.map (fun r => absorb key m r rest) ++ specL key m (rest.filter (fresh key res)) := by
  intro rest
  induction rest with
  | nil => intro res _; simp [go, absorb_nil, specL_nil]
  | cons a rest ih =>
    intro res hnd
    cases hk : key a with
    | none =>
      have hgo : go key m (a :: rest) res = go key m rest (res ++ [a]) := by simp [go, hk]
      rw [hgo, ih (res ++ [a]) (by rw [keys_append_none key res a hk]; exact hnd)]
      rw [fresh_congr key res (res ++ [a]) (keys_append_none key res a hk)]
      have hfa : fresh key res a = true := by simp [fresh, hk]
      have hsame : ∀ b, same key a b = false := by intro b; simp [same, hk]
      simp only [List.filter_cons, hfa, if_true, specL_cons, List.map_append, List.map_cons, List.map_nil]
      have h1 : ∀ l, absorb key m a l = a := by
        intro l
        have : l.filter (same key a) = [] := List.filter_eq_nil_iff.mpr (fun b _ => by simp [hsame b])
        simp [absorb, this]
      have h2 : ∀ l : List A, l.filter (fun b => !same key a b) = l := by
        intro l; simp [hsame]
      rw [h1, h1, h2]
      have h3 : res.map (fun r => absorb key m r (a :: rest)) = res.map (fun r => absorb key m r rest) := by
        apply List.map_congr_left; intro r _; exact absorb_skip key m r a rest (same_none key r a hk)
      rw [h3]; simp
    | some k =>
      cases hu : upd key k (fun r => m r a) res with
      | some res' =>
        have hgo : go key m (a :: rest) res = go key m rest res' := by simp [go, hk, hu]
        obtain ⟨hkeys, hmap⟩ := upd_some key m hm k a hk res res' hu hnd
        rw [hgo, ih res' (by rw [hkeys]; exact hnd), hmap rest, fresh_congr key res res' hkeys]
        have hfa : fresh key res a = false := by
          simp [fresh, hk, upd_mem key k _ res res' hu]
        simp [List.filter_cons, hfa]
      | none =>
        have hgo : go key m (a :: rest) res = go key m rest (res ++ [a]) := by simp [go, hk, hu]
        have hnot := upd_none key k _ res hu
        rw [hgo, ih (res ++ [a]) (by
          rw [keys_append_some key res a k hk]
          exact List.nodup_append.mpr ⟨hnd, by simp, by intro x hx y hy; simp at hy; subst hy; intro h; subst h; exact hnot hx⟩)]
        have hfa : fresh key res a = true := by simp [fresh, hk, hnot]
        simp only [List.filter_cons, hfa, if_true, specL_cons, List.map_append, List.map_cons, List.map_nil]
        have h3 : res.map (fun r => absorb key m r (a :: rest)) = res.map (fun r => absorb key m r rest) := by
          apply List.map_congr_left; intro r hr
          apply absorb_skip
          apply same_false_of_key key r a k hk
          intro hc; exact hnot (by simp only [keys, List.mem_filterMap]; exact ⟨r, hr, hc⟩)
        have h4 : absorb key m a (rest.filter (fresh key res)) = absorb key m a rest := by
          unfold absorb
          rw [List.filter_filter]
          congr 1
          apply List.filter_congr
          intro b _
          cases hb : same key a b with
          | false => simp
          | true =>
            simp only [same, Bool.and_eq_true, decide_eq_true_eq] at hb
            have : key b = some k := by rw [hb.1, hk]
            simp [fresh, this, hnot]
        have h5 : (rest.filter (fresh key res)).filter (fun b => !same key a b) = rest.filter (fresh key (res ++ [a])) := by
          rw [List.filter_filter]
          apply List.filter_congr
          intro b _
          simp only [fresh, keys_append_some key res a k hk, same, hk]
          cases hb : key b with
          | none => simp
          | some k' =>
            by_cases hkk : k' = k
            · subst hkk; simp
            · simp [hkk]
        rw [h3, h4, h5]; simp

/-- from the empty result: `merge_attributes attrs = spec attrs` -/
theorem merge_eq_spec (attrs : List A) : go key m attrs [] = specL key m attrs := by
  have := go_spec key m hm attrs [] (by simp [keys])
  have hf : ∀ b, fresh key ([] : List A) b = true := by intro b; unfold fresh; cases key b <;> simp [keys]
  have hfl : attrs.filter (fresh key []) = attrs := List.filter_eq_self.mpr (fun b _ => hf b)
  rw [hfl] at this
  simpa using this
end Mg
