import Emmet.ConfigModel
/-! C05: the unit decision (`resolve_numeric_value`) stated outright, and the documented defaults read off the REGENERATED
`DEFAULT_OPTIONS` through the configuration model. -/
namespace CA
/-- the documented unit of a number written `raw` with suffix `unit` on property `name` -/
def unitSpec (o : SOpts) (name : Option Str) (raw unit : Str) : Str :=
  if unit ≠ [] then
    match o.unitAliases.find? (·.1 == unit) with      -- an alias is replaced, any other explicit unit is kept
    | some kv => kv.2
    | none => unit
  else if (raw.filter isNumber).all (· == 48) then []                     -- 0 stays bare
  else if (match name with | some n => o.unitless.contains n | none => false) then []   -- unitless properties stay bare
  else if raw.contains 46 then o.floatUnit else o.intUnit

def numericItem (o : SOpts) (name : Option Str) : VItem → VItem
  | .tok t => (match t.tok with
    | .number raw unit => .tok { t with tok := .number raw (unitSpec o name raw unit) }
    | _ => .tok t)
  | other => other

theorem resolveNumeric_spec (o : SOpts) (name : Option Str) (vals : List (List VItem)) :
    resolveNumeric o name vals = vals.map (·.map (numericItem o name)) := by
  unfold resolveNumeric
  congr 1; funext cssVal; congr 1; funext it
  cases it with
  | fn n a => rfl
  | tok t =>
    obtain ⟨tk, st, sp⟩ := t
    cases tk <;> try rfl
    rename_i raw unit
    simp only [numericItem, unitSpec]
    cases unit with
    | nil =>
      generalize ((raw.filter isNumber).all (· == 48)) = z
      cases name with
      | none => cases z <;> simp
      | some n =>
        cases z <;> simp
        by_cases h : n ∈ o.unitless <;> simp [h]
    | cons u us =>
      cases o.unitAliases.find? (·.1 == u :: us) <;> simp
open Cfg
def cssCfg : RawConfig := { type := some (CA.lit "stylesheet"), syn := some (CA.lit "css") }
theorem default_units :
    (stylesheetOptions cssCfg []).intUnit = lit "px" ∧ (stylesheetOptions cssCfg []).floatUnit = lit "em"
    ∧ (stylesheetOptions cssCfg []).unitAliases = [(lit "e", lit "em"), (lit "p", lit "%"), (lit "x", lit "ex"), (lit "r", lit "rem")]
    ∧ (stylesheetOptions cssCfg []).unitless = ["z-index", "line-height", "opacity", "font-weight", "zoom", "flex", "flex-grow", "flex-shrink"].map lit := by
  decide +kernel
end CA
