import Emmet.Markup.Html
/-! C12_weave, operation level: with whitespace-only newline / indent / baseIndent, what the stream operations add to
    the output is, after removing white space, independent of every layout option and of the stream's level. -/
namespace T

def ws (c : Ch) : Bool := pyIsSpace c || isLineBreak c
/-- squeeze: drop all white space -/
def sq (s : Str) : Str := s.filter (fun c => !ws c)
@[simp] theorem sq_append (a b : Str) : sq (a ++ b) = sq a ++ sq b := by simp [sq]
@[simp] theorem sq_nil : sq [] = [] := rfl
theorem sq_ws (s : Str) (h : ∀ c ∈ s, ws c = true) : sq s = [] := by
  simp only [sq, List.filter_eq_nil_iff]; intro c hc; simp [h c hc]

def WsOnly (op : Options) : Prop := ∀ c ∈ op.newline ++ op.baseIndent ++ op.indent, ws c = true

theorem sq_repeat (s : Str) (h : sq s = []) (n : Nat) : sq (repeatStr s n) = [] := by
  induction n with
  | zero => rfl
  | succ n ih => simp [repeatStr, h, ih]

theorem sq_lb (x : Ch) (h : isLineBreak x = true) : sq [x] = [] := by simp [sq, ws, h]
theorem sq_cons (x : Ch) (r : Str) : sq (x :: r) = sq [x] ++ sq r := by
  rw [show x :: r = [x] ++ r by rfl, sq_append]

theorem sq_splitLines (s cur : Str) : sq (splitLines s cur).flatten = sq (cur.reverse ++ s) := by
  fun_induction splitLines s cur
  case case1 cur h => simp_all
  case case2 cur h => simp
  case case3 r cur ih =>
    simp only [List.flatten_cons, sq_append, ih, List.reverse_nil, List.nil_append]
    rw [sq_cons 13, sq_cons 10, sq_lb 13 (by decide), sq_lb 10 (by decide)]; simp
  case case4 x r cur _ hb ih =>
    simp only [List.flatten_cons, sq_append, ih, List.reverse_nil, List.nil_append]
    rw [sq_cons x, sq_lb x hb]; simp
  case case5 x r cur _ hb ih =>
    rw [ih]; simp

variable (op : Options) (hw : WsOnly op)
include hw

theorem sq_newline : sq (op.newline ++ op.baseIndent) = [] :=
  sq_ws _ (fun c hc => hw c (by simp at hc ⊢; rcases hc with h | h <;> simp [h]))
theorem sq_indent : sq op.indent = [] := sq_ws _ (fun c hc => hw c (by simp [hc]))

theorem pushIndent_sq (o : Out) (k : Int) : sq (o.pushIndent op k).buf = sq o.buf := by
  simp [Out.pushIndent, Out.push, sq_repeat _ (sq_indent op hw)]

theorem pushNewline_sq (o : Out) (ind : Option (Option Int)) : sq (o.pushNewline op ind).buf = sq o.buf := by
  have hn := sq_newline op hw
  unfold Out.pushNewline
  cases ind with
  | none => simp [Out.push, hn]
  | some x =>
    cases x with
    | none => simp only; rw [pushIndent_sq op hw]; simp [Out.push, hn]
    | some k =>
      simp only
      split
      · simp [Out.push, hn]
      · rw [pushIndent_sq op hw]; simp [Out.push, hn]

theorem pushLines_sq (ls : List Str) (o : Out) :
    sq (ls.foldl (fun acc ln => (acc.pushNewline op (some none)).push ln) o).buf = sq o.buf ++ sq ls.flatten := by
  induction ls generalizing o with
  | nil => simp
  | cons l ls ih =>
    simp only [List.foldl_cons, ih, List.flatten_cons, sq_append]
    simp [Out.push, pushNewline_sq op hw]

/-- `push_string` adds exactly the squeezed text -/
theorem pushString_sq (o : Out) (s : Str) : sq (o.pushString op s).buf = sq o.buf ++ sq s := by
  have hs := sq_splitLines s []
  unfold Out.pushString
  split
  · rename_i heq; rw [heq] at hs; simp at hs; simp [← hs]
  · rename_i l ls heq
    rw [heq] at hs
    rw [pushLines_sq op hw]
    simp only [List.flatten_cons, sq_append, List.reverse_nil, List.nil_append] at hs
    simp [Out.push, ← hs]

omit hw in
theorem pushString_field (o : Out) (s : Str) : (o.pushString op s).field = o.field := by
  unfold Out.pushString
  split
  · rfl
  · have : ∀ (ls : List Str) (o : Out), (ls.foldl (fun acc ln => (acc.pushNewline op (some none)).push ln) o).field = o.field := by
      intro ls
      induction ls with
      | nil => intro o; rfl
      | cons l ls ih =>
        intro o; simp only [List.foldl_cons, ih]
        unfold Out.pushNewline; simp [Out.push, Out.pushIndent]
    rw [this]; rfl

/-- what `push_tokens` writes and the next field index: a function of the tokens and the field counter only -/
def tokOut : List VTok → Nat → Int → Str × Int
  | [], _, lg => ([], lg)
  | .str s :: ts, fld, lg => let r := tokOut ts fld lg; (sq s ++ r.1, r.2)
  | .field name i :: ts, fld, lg =>
    let piece : Str := if name.isEmpty then [36, 123] ++ natToStr (fld + i) ++ [125] else [36, 123] ++ natToStr (fld + i) ++ [58] ++ name ++ [125]
    let r := tokOut ts fld (if (i : Int) > lg then (i : Int) else lg); (sq piece ++ r.1, r.2)

theorem tokFold_sq (ts : List VTok) (acc : Out × Int) :
    sq (ts.foldl (tokStep op) acc).1.buf = sq acc.1.buf ++ (tokOut ts acc.1.field acc.2).1 ∧
    (ts.foldl (tokStep op) acc).2 = (tokOut ts acc.1.field acc.2).2 ∧ (ts.foldl (tokStep op) acc).1.field = acc.1.field := by
  induction ts generalizing acc with
  | nil => simp [tokOut]
  | cons t ts ih =>
    simp only [List.foldl_cons]
    cases t with
    | str s =>
      have := ih (tokStep op acc (.str s))
      simp only [tokStep, pushString_sq op hw, pushString_field] at this
      simp only [tokOut, tokStep]
      exact ⟨by rw [this.1]; simp, this.2.1, this.2.2⟩
    | field name i =>
      have := ih (tokStep op acc (.field name i))
      have hb : sq (acc.1.pushField (acc.1.field + i) name).buf = sq acc.1.buf ++
          sq (if name.isEmpty then [36, 123] ++ natToStr (acc.1.field + i) ++ [125]
              else [36, 123] ++ natToStr (acc.1.field + i) ++ [58] ++ name ++ [125]) := by
        simp [Out.pushField, Out.push]
      have hfld : (acc.1.pushField (acc.1.field + i) name).field = acc.1.field := rfl
      simp only [tokStep] at this
      rw [hb, hfld] at this
      simp only [tokOut, tokStep]
      exact ⟨by rw [this.1]; simp, this.2.1, this.2.2⟩

/-- **C12_weave, token level**: two runs of `push_tokens` under any two whitespace-only layouts, from streams that agree on
    squeezed content and field counter, still agree afterwards -/
theorem pushTokens_weave (op' : Options) (hw' : WsOnly op') (ts : List VTok) (o o' : Out)
    (hb : sq o.buf = sq o'.buf) (hf : o.field = o'.field) :
    sq (pushTokens op ts o).buf = sq (pushTokens op' ts o').buf ∧ (pushTokens op ts o).field = (pushTokens op' ts o').field := by
  have h1 := tokFold_sq op hw ts (o, -1)
  have h2 := tokFold_sq op' hw' ts (o', -1)
  unfold pushTokens
  simp only
  rw [h1.2.1, h2.2.1]
  dsimp only
  rw [← hf]
  split
  · refine ⟨?_, ?_⟩
    · show sq (List.foldl (tokStep op) (o, -1) ts).1.buf = sq (List.foldl (tokStep op') (o', -1) ts).1.buf
      rw [h1.1, h2.1]; dsimp only; rw [hb, hf]
    · show (List.foldl (tokStep op) (o, -1) ts).1.field + _ = (List.foldl (tokStep op') (o', -1) ts).1.field + _
      rw [h1.2.2, h2.2.2]; dsimp only; rw [hf]
  · exact ⟨by rw [h1.1, h2.1]; dsimp only; rw [hb, hf], by rw [h1.2.2, h2.2.2]; dsimp only; rw [hf]⟩
end T
