import EmmetProofs.WeaveOps
namespace T

structure Layout where
  indent : Str
  baseIndent : Str
  newline : Str
  format : Bool
  formatLeafNode : Bool
  formatSkip : List Str
  formatForce : List Str
  inlineBreak : Nat

/-- change nothing but the layout options -/
def relayout (op : Options) (L : Layout) : Options :=
  { op with indent := L.indent, baseIndent := L.baseIndent, newline := L.newline, format := L.format,
            formatLeafNode := L.formatLeafNode, formatSkip := L.formatSkip, formatForce := L.formatForce,
            inlineBreak := L.inlineBreak }

/-- two streams with the same squeezed content and the same field counter -/
def R (o o' : Out) : Prop := sq o.buf = sq o'.buf ∧ o.field = o'.field

theorem R.pushString {op op' : Options} (hw : WsOnly op) (hw' : WsOnly op') {o o' : Out} (h : R o o') (s : Str) :
    R (o.pushString op s) (o'.pushString op' s) :=
  ⟨by rw [pushString_sq op hw, pushString_sq op' hw', h.1], by rw [pushString_field, pushString_field, h.2]⟩
theorem R.pushTokens {op op' : Options} (hw : WsOnly op) (hw' : WsOnly op') {o o' : Out} (h : R o o') (ts : List VTok) :
    R (pushTokens op ts o) (pushTokens op' ts o') := pushTokens_weave op hw op' hw' ts o o' h.1 h.2

theorem attrParts_relayout (op : Options) (L : Layout) (a : AAttr) : attrParts (relayout op L) a = attrParts op a := rfl

/-- **C12_weave, attribute level**: two runs of `push_attribute` that differ only in layout options keep the streams related -/
theorem pushAttribute_weave (op : Options) (L : Layout) (hw : WsOnly op) (hw' : WsOnly (relayout op L))
    (a : AAttr) (o o' : Out) (h : R o o') : R (pushAttribute op a o) (pushAttribute (relayout op L) a o') := by
  unfold pushAttribute
  rw [attrParts_relayout]
  cases attrParts op a with
  | none => exact h
  | some p =>
    obtain ⟨name, value2, lq, rq⟩ := p
    simp only
    have h1 := h.pushString hw hw' ([32] ++ name)
    split
    · exact ((h1.pushString hw hw' _).pushTokens hw hw' _).pushString hw hw' _
    · have : (relayout op L).selfClosing = op.selfClosing := rfl
      rw [this]
      split
      · exact h1.pushString hw hw' _
      · exact h1

theorem attrs_weave (op : Options) (L : Layout) (hw : WsOnly op) (hw' : WsOnly (relayout op L)) (l : List AAttr) :
    ∀ (o o' : Out), R o o' →
      R (l.foldl (fun acc a => if shouldOutputAttribute a then pushAttribute op a acc else acc) o)
        (l.foldl (fun acc a => if shouldOutputAttribute a then pushAttribute (relayout op L) a acc else acc) o') := by
  induction l with
  | nil => intro o o' h; exact h
  | cons a l ih =>
    intro o o' h
    simp only [List.foldl_cons]
    apply ih
    split
    · exact pushAttribute_weave op L hw hw' a o o' h
    · exact h
end T
