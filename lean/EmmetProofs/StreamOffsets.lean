import Emmet.Stream
/-! C13_offsets / C13_line_column on the model of `OutputStream` (Emmet/Stream.lean) with arbitrary user callbacks. -/
namespace St

/-- the piece returned by a callback sits at the reported offset -/
def Located (v : Str) (c : Call) : Prop := (v.drop c.offset).take c.piece.length = c.piece

/-- the text callback returns the newline string unchanged in length (e.g. the default identity) -/
def NLKeep (o : Opts) : Prop := ∀ off l c, (o.cbText (o.newline ++ o.baseIndent) off l c).length = (o.newline ++ o.baseIndent).length

structure Inv (o : Opts) (s : S) : Prop where
  off : s.offset = s.value.length
  loc : ∀ c ∈ s.log, Located s.value c
  line : s.line = s.nls
  col : s.lastNL ≤ s.offset ∧ s.column = s.offset - s.lastNL

theorem Located.append {v : Str} {c : Call} (w : Str) (h : Located v c) (hb : c.offset + c.piece.length ≤ v.length) :
    Located (v ++ w) c := by
  unfold Located at *
  rw [List.drop_append_of_le_length (by omega), List.take_append_of_le_length (by simp; omega)]
  exact h

theorem Located.bound {v : Str} {c : Call} (h : Located v c) : c.piece = [] ∨ c.offset + c.piece.length ≤ v.length := by
  unfold Located at h
  by_cases hp : c.piece = []
  · left; exact hp
  · right
    have : ((v.drop c.offset).take c.piece.length).length = c.piece.length := by rw [h]
    simp at this
    have hl : c.piece.length ≠ 0 := fun h0 => hp (List.length_eq_zero_iff.mp h0)
    omega

theorem Located.append' {v : Str} {c : Call} (w : Str) (h : Located v c) (ho : c.offset ≤ v.length) : Located (v ++ w) c := by
  rcases h.bound with hp | hb
  · unfold Located; simp [hp]
  · exact h.append w hb

/-- a stronger invariant that also bounds logged offsets (needed to keep pieces located under appends) -/
structure Inv2 (o : Opts) (s : S) : Prop extends Inv o s where
  bnd : ∀ c ∈ s.log, c.offset ≤ s.value.length

theorem push_inv (o : Opts) (s : S) (text : Str) (h : Inv2 o s) : Inv2 o (s.push o text) := by
  have hoff := h.off
  refine ⟨⟨?_, ?_, ?_, ?_⟩, ?_⟩
  · simp [S.push, S.raw, hoff]
  · intro c hc
    simp only [S.push, S.raw, List.mem_cons] at hc ⊢
    rcases hc with rfl | hc
    · simp [Located, hoff]
    · exact (h.loc c hc).append' _ (h.bnd c hc)
  · exact h.line
  · have := h.col; simp only [S.push, S.raw]; omega
  · intro c hc
    simp only [S.push, S.raw, List.mem_cons, List.length_append] at hc ⊢
    rcases hc with rfl | hc
    · simp [hoff]
    · have := h.bnd c hc; omega

theorem pushField_inv (o : Opts) (s : S) (i : Nat) (ph : Str) (h : Inv2 o s) : Inv2 o (s.pushField o i ph) := by
  have hoff := h.off
  refine ⟨⟨?_, ?_, ?_, ?_⟩, ?_⟩
  · simp [S.pushField, S.raw, hoff]
  · intro c hc
    simp only [S.pushField, S.raw, List.mem_cons] at hc ⊢
    rcases hc with rfl | hc
    · simp [Located, hoff]
    · exact (h.loc c hc).append' _ (h.bnd c hc)
  · exact h.line
  · have := h.col; simp only [S.pushField, S.raw]; omega
  · intro c hc
    simp only [S.pushField, S.raw, List.mem_cons, List.length_append] at hc ⊢
    rcases hc with rfl | hc
    · simp [hoff]
    · have := h.bnd c hc; omega

theorem pushIndent_inv (o : Opts) (s : S) (k : Int) (h : Inv2 o s) : Inv2 o (s.pushIndent o k) := push_inv o s _ h

theorem pushNewline_inv (o : Opts) (hk : NLKeep o) (s : S) (ind : Option (Option Int)) (h : Inv2 o s) :
    Inv2 o (s.pushNewline o ind) := by
  have h1 := push_inv o s (o.newline ++ o.baseIndent) h
  have hlen := hk s.offset s.line s.column
  have h2 : Inv2 o { (s.push o (o.newline ++ o.baseIndent)) with
      line := (s.push o (o.newline ++ o.baseIndent)).line + 1, column := o.baseIndent.length,
      lastNL := s.offset + o.newline.length, nls := s.nls + 1 } := by
    refine ⟨⟨h1.off, h1.loc, ?_, ?_⟩, h1.bnd⟩
    · have := h.line; simp only [S.push, S.raw] at *; omega
    · simp only [S.push, S.raw, List.length_append] at hlen ⊢; omega
  unfold S.pushNewline
  cases ind with
  | none => exact h2
  | some x =>
    cases x with
    | none => exact pushIndent_inv o _ _ h2
    | some k =>
      simp only
      split
      · exact h2
      · exact pushIndent_inv o _ _ h2

theorem pushLines_inv (o : Opts) (hk : NLKeep o) (ls : List Str) : ∀ s, Inv2 o s → Inv2 o (S.pushLines o s ls) := by
  induction ls with
  | nil => intro s h; exact h
  | cons l ls ih => intro s h; exact ih _ (push_inv o _ l (pushNewline_inv o hk s _ h))

theorem pushString_inv (o : Opts) (hk : NLKeep o) (s : S) (ls : List Str) (h : Inv2 o s) : Inv2 o (s.pushString o ls) := by
  cases ls with
  | nil => exact h
  | cons l ls => exact pushLines_inv o hk ls _ (push_inv o s l h)

theorem Prog.run_inv (o : Opts) (hk : NLKeep o) (p : Prog) : ∀ s, Inv2 o s → Inv2 o (p.run o s) := by
  induction p with
  | push t => exact fun s h => push_inv o s t h
  | field i ph => exact fun s h => pushField_inv o s i ph h
  | newline ind => exact fun s h => pushNewline_inv o hk s ind h
  | indent k => exact fun s h => pushIndent_inv o s k h
  | string ls => exact fun s h => pushString_inv o hk s ls h
  | level d => exact fun s h => ⟨⟨h.off, h.loc, h.line, h.col⟩, h.bnd⟩
  | seq a b iha ihb => exact fun s h => ihb _ (iha s h)
  | branch c a b iha ihb => intro s h; simp only [Prog.run]; split; exact iha s h; exact ihb s h

/-- **C13_offsets + line/column**: for every stream program, arbitrary `field` and `text` callbacks (the latter keeping the
    length of the newline string): every string a callback returned sits in the final output exactly at the offset it was
    given; the line it was given is the number of newlines pushed before, the column is the distance to the end of the last
    newline string. -/
theorem C13_offsets (o : Opts) (hk : NLKeep o) (p : Prog) :
    let s := p.run o {}
    s.offset = s.value.length ∧ (∀ c ∈ s.log, Located s.value c) ∧ s.line = s.nls ∧ s.column = s.offset - s.lastNL := by
  have h0 : Inv2 o {} := ⟨⟨rfl, (by intro c hc; cases hc), rfl, (by simp)⟩, (by intro c hc; cases hc)⟩
  have h := p.run_inv o hk {} h0
  exact ⟨h.off, h.loc, h.line, h.col.2⟩
end St
