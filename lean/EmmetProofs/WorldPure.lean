import Emmet.World
/-! C08: the result of a call does not depend on the calls made before. -/
namespace W
open Cfg

/-- the calls that pass cache dictionary `id` agree on the effective stylesheet snippet table `tab id` (the cache is keyed by
    nothing else, so this is what "sharing a cache" means) -/
def Agrees (tab : Nat → List (T.Str × T.Str)) (c : Call) : Prop :=
  ∀ id, c.cache = some id → typeOf c.cfg == T.lit "stylesheet" → mergedSnippets c.cfg c.glob = tab id

/-- every stored entry is the conversion of its dictionary's table -/
def Inv (tab : Nat → List (T.Str × T.Str)) (w : World) : Prop :=
  ∀ id sn, lookup w id = some sn → CA.convertSnippets (tab id) = .ok sn

theorem lookup_cons (w : World) (id id' : Nat) (sn : Array CA.Snippet) :
    lookup ((id, sn) :: w) id' = if id == id' then some sn else lookup w id' := by
  unfold lookup
  simp only [List.find?_cons]
  by_cases h : id == id' <;> simp [h]

theorem step_inv (tab) (w : World) (c : Call) (hw : Inv tab w) (hc : Agrees tab c) : Inv tab (step w c).1 := by
  unfold step
  by_cases hty : (typeOf c.cfg == T.lit "stylesheet") = true
  · simp only [hty, if_true]
    cases hcache : c.cache with
    | none => simp only; cases CA.convertSnippets (mergedSnippets c.cfg c.glob) <;> exact hw
    | some id =>
      simp only
      cases hl : lookup w id with
      | some sn => exact hw
      | none =>
        simp only
        cases hconv : CA.convertSnippets (mergedSnippets c.cfg c.glob) with
        | error e => exact hw
        | ok sn =>
          intro id' sn' h
          simp only at h
          rw [lookup_cons] at h
          by_cases hid : (id == id') = true
          · simp only [hid, if_true, Option.some.injEq] at h
            have : id = id' := by simpa using hid
            subst this; subst h
            rw [← hc id hcache hty]; exact hconv
          · simp only [hid, if_false] at h
            exact hw id' sn' h
  · simp only [hty, if_false]; exact hw

theorem run_inv (tab) (h : List Call) (w : World) (hw : Inv tab w) (hh : ∀ c ∈ h, Agrees tab c) : Inv tab (run h w) := by
  induction h generalizing w with
  | nil => exact hw
  | cons c rest ih =>
    simp only [run, List.foldl_cons]
    exact ih _ (step_inv tab w c hw (hh c (by simp))) (fun x hx => hh x (by simp [hx]))

/-- in a world that satisfies the invariant the outcome of a call is the outcome in the empty world -/
theorem step_result (tab) (w : World) (c : Call) (hw : Inv tab w) (hc : Agrees tab c) : (step w c).2 = (step [] c).2 := by
  unfold step
  by_cases hty : (typeOf c.cfg == T.lit "stylesheet") = true
  · simp only [hty, if_true]
    cases hcache : c.cache with
    | none => simp only; cases CA.convertSnippets (mergedSnippets c.cfg c.glob) <;> rfl
    | some id =>
      simp only
      have hnil : lookup ([] : World) id = none := rfl
      rw [hnil]
      cases hl : lookup w id with
      | some sn =>
        simp only
        have := hw id sn hl
        rw [← hc id hcache hty] at this
        rw [this]
      | none => simp only; cases CA.convertSnippets (mergedSnippets c.cfg c.glob) <;> rfl
  · simp [hty]

/-- **C08**: for every history `h` and probe `c` — calls of any kind, succeeding or failing, with or without cache
    dictionaries, as long as the calls sharing a dictionary agree on the snippet table — the probe's outcome after the history
    equals its outcome in a fresh state. -/
theorem result_independent (tab) (h : List Call) (c : Call) (hh : ∀ x ∈ h, Agrees tab x) (hc : Agrees tab c) :
    (step (run h []) c).2 = (step [] c).2 :=
  step_result tab _ c (run_inv tab h [] (by intro id sn hl; cases hl) hh) hc

/-- a cache never changes a result: with and without a cache dictionary the outcome in a fresh state is the same -/
theorem cache_transparent (c : Call) : (step [] c).2 = (step [] { c with cache := none }).2 := by
  unfold step
  by_cases hty : (typeOf c.cfg == T.lit "stylesheet") = true
  · simp only [hty, if_true]
    cases hcache : c.cache with
    | none => rfl
    | some id =>
      simp only
      have hnil : lookup ([] : World) id = none := rfl
      rw [hnil]
      simp only
      cases CA.convertSnippets (mergedSnippets c.cfg c.glob) <;> rfl
  · simp [hty]

end W
