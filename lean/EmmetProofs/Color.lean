import Emmet.Css.Style
/-! C05_hex_roundtrip: colour rendering never changes the colour's value (model of `to_hex` / `as_hex` / `parse_color`). -/
namespace S
open CA

/-- before the repair `to_hex` padded on the right (5 was rendered `50`, read back as 80); now: -/
example : toHex 5 = [48, 53] ∧ hex2 48 53 = 5 := by decide +kernel

theorem toHex_two : ∀ n, n < 256 → ∃ a b, toHex n = [a, b] ∧ hex2 a b = n := by
  have h : ∀ n : Fin 256, (match toHex n.1 with | [a, b] => hex2 a b == n.1 | _ => false) = true := by decide +kernel
  intro n hn
  have := h ⟨n, hn⟩
  simp only at this
  split at this
  · rename_i a b heq; exact ⟨a, b, heq, by simpa using this⟩
  · cases this

/-- six-digit form: `parse_color(as_hex(r,g,b))` is `(r,g,b)` for all channels -/
theorem hex6_roundtrip (r g b : Nat) (hr : r < 256) (hg : g < 256) (hb : b < 256) :
    parseColorRgb (toHex r ++ toHex g ++ toHex b) = (r, g, b) := by
  obtain ⟨a1, b1, h1, e1⟩ := toHex_two r hr
  obtain ⟨a2, b2, h2, e2⟩ := toHex_two g hg
  obtain ⟨a3, b3, h3, e3⟩ := toHex_two b hb
  rw [h1, h2, h3]
  simp [parseColorRgb, e1, e2, e3]

theorem short_digit : ∀ n, n < 256 → n % 17 = 0 → ∃ a, hexLower (n / 16) = [a] ∧ hex2 a a = n := by
  have h : ∀ n : Fin 256, (n.1 % 17 != 0 || (match hexLower (n.1 / 16) with | [a] => hex2 a a == n.1 | _ => false)) = true := by
    decide +kernel
  intro n hn hm
  have := h ⟨n, hn⟩
  simp only [hm, bne_self_eq_false, Bool.false_or] at this
  split at this
  · rename_i a heq; exact ⟨a, heq, by simpa using this⟩
  · cases this

/-- short form, produced only when every channel is a multiple of 17 -/
theorem hex3_roundtrip (r g b : Nat) (hr : r < 256) (hg : g < 256) (hb : b < 256)
    (mr : r % 17 = 0) (mg : g % 17 = 0) (mb : b % 17 = 0) :
    parseColorRgb (hexLower (r / 16) ++ hexLower (g / 16) ++ hexLower (b / 16)) = (r, g, b) := by
  obtain ⟨a1, h1, e1⟩ := short_digit r hr mr
  obtain ⟨a2, h2, e2⟩ := short_digit g hg mg
  obtain ⟨a3, h3, e3⟩ := short_digit b hb mb
  rw [h1, h2, h3]
  simp [parseColorRgb, e1, e2, e3]
end S
