import Emmet.Abbr.Tok
namespace T

theorem spanP_append (p : Ch → Bool) (l : Str) : (spanP p l).1 ++ (spanP p l).2 = l := by
  induction l with
  | nil => simp [spanP]
  | cons x xs ih =>
    simp only [spanP]
    split <;> simp_all

/-- what every successful consumer guarantees -/
def Eaten.Good (e : Eaten) (rest : Str) : Prop := e.used ++ e.rest = rest ∧ e.used ≠ []

theorem spanP_eq (p : Ch → Bool) (l : Str) : ∃ a b, spanP p l = (a, b) ∧ a ++ b = l :=
  ⟨_, _, rfl, spanP_append p l⟩

theorem repeaterPlaceholder_good {rest e} (h : repeaterPlaceholder rest = some e) : e.Good rest := by
  unfold repeaterPlaceholder at h
  split at h
  · cases h; simp [Eaten.Good]
  · cases h

theorem repeater_good {rest e} (h : repeater rest = some e) : e.Good rest := by
  unfold repeater at h
  split at h
  · rename_i r
    obtain ⟨a, b, hab, happ⟩ := spanP_eq isNumber r
    simp only [hab] at h
    split at h <;> (cases h; simp_all [Eaten.Good])
  · cases h

theorem whiteSpace_good {rest e} (h : whiteSpace rest = some e) : e.Good rest := by
  unfold whiteSpace at h
  obtain ⟨a, b, hab, happ⟩ := spanP_eq isSpace rest
  simp only [hab] at h
  split at h
  · cases h
  · cases h; simp_all [Eaten.Good]

theorem operator_good {rest e} (h : operator rest = some e) : e.Good rest := by
  unfold operator at h
  split at h
  · split at h
    · cases h; simp [Eaten.Good]
    · cases h
  · cases h
theorem quote_good {rest e} (h : quote rest = some e) : e.Good rest := by
  unfold quote at h
  split at h
  · split at h
    · cases h; simp [Eaten.Good]
    · cases h
  · cases h
theorem bracket_good {rest e} (h : bracket rest = some e) : e.Good rest := by
  unfold bracket at h
  split at h
  · split at h
    · cases h; simp [Eaten.Good]
    · cases h
  · cases h

theorem repeaterNumber_good {rest e} (h : repeaterNumber rest = some e) : e.Good rest := by
  unfold repeaterNumber at h
  obtain ⟨ds, r1, hds, h1⟩ := spanP_eq (· == 36) rest
  simp only [hds] at h
  split at h
  · cases h
  · rename_i hne
    split at h
    · rename_i r2
      obtain ⟨ups, r3, hups, h2⟩ := spanP_eq (· == 94) r2
      simp only [hups] at h
      split at h
      · rename_i r
        obtain ⟨bs, r5, hbs, h3⟩ := spanP_eq isNumber r
        simp only [hbs] at h
        cases h
        subst h1 h2 h3
        simp_all [Eaten.Good]
      · obtain ⟨bs, r5, hbs, h3⟩ := spanP_eq isNumber r3
        simp only [hbs] at h
        cases h
        subst h1 h2 h3
        simp_all [Eaten.Good]
    · cases h
      simp_all [Eaten.Good]

theorem consumePlaceholder_ok (fuel : Nat) (rest : Str) (stack : List Nat) (off : Nat) (acc : Str) (name r3 : Str)
    (h : consumePlaceholder fuel rest stack off acc = .ok (name, r3)) : name ++ r3 = acc.reverse ++ rest := by
  induction fuel generalizing rest stack off acc with
  | zero => simp [consumePlaceholder] at h
  | succ n ih =>
    cases rest with
    | nil =>
      cases stack <;> simp [consumePlaceholder] at h
      obtain ⟨rfl, rfl⟩ := h; simp
    | cons x xs =>
      simp only [consumePlaceholder] at h
      split at h
      · have := ih _ _ _ _ h; simpa using this
      · split at h
        · cases stack with
          | nil => simp at h; obtain ⟨rfl, rfl⟩ := h; simp
          | cons t st => have := ih _ _ _ _ h; simpa using this
        · have := ih _ _ _ _ h; simpa using this

theorem consumePlaceholder_err (fuel : Nat) (rest : Str) (stack : List Nat) (off : Nat) (acc : Str) (e : Nat)
    (hs : ∀ t ∈ stack, t ≤ off) (hf : rest.length < fuel)
    (h : consumePlaceholder fuel rest stack off acc = .error e) : e ≤ off + rest.length := by
  induction fuel generalizing rest stack off acc with
  | zero => omega
  | succ n ih =>
    cases rest with
    | nil =>
      cases stack with
      | nil => simp [consumePlaceholder] at h
      | cons t st =>
        simp [consumePlaceholder] at h
        have := hs t (by simp); omega
    | cons x xs =>
      simp only [consumePlaceholder] at h
      simp only [List.length_cons] at hf ⊢
      split at h
      · have := ih xs _ (off+1) _ (by intro t ht; simp at ht; rcases ht with rfl | ht; omega; have := hs t ht; omega) (by omega) h
        omega
      · split at h
        · cases stack with
          | nil => simp at h
          | cons t st =>
            have := ih xs st (off+1) _ (by intro t' ht; have := hs t' (by simp [ht]); omega) (by omega) h
            omega
        · have := ih xs stack (off+1) _ (by intro t ht; have := hs t ht; omega) (by omega) h
          omega

end T
