import Emmet.Matcher.CssMatch
/-! C10 layer B: `match` over the event stream of a style sheet tree = first enclosing item in post-order. -/
namespace C

/-- style sheets in first-child / next-sibling form -/
inductive Sheet
  | nil
  | rule (sel : Ev) (body : Sheet) (close : Ev) (next : Sheet)
  | decl (name value : Ev) (next : Sheet)

def Sheet.WF : Sheet → Prop
  | .nil => True
  | .rule sel body close next => sel.type = .selector ∧ close.type = .blockEnd ∧ body.WF ∧ next.WF
  | .decl name value next => name.type = .propertyName ∧ value.type = .propertyValue ∧ next.WF

def Sheet.events : Sheet → List Ev
  | .nil => []
  | .rule sel body close next => sel :: (body.events ++ close :: next.events)
  | .decl name value next => name :: value :: next.events

/-- the spec: first item in post-order whose span (as the pinned code draws it) strictly contains `pos` -/
def Sheet.findPost (pos : Int) : Sheet → Option MatchResult
  | .nil => none
  | .rule sel body close next =>
    (body.findPost pos).orElse fun _ =>
      if sel.start < pos && pos < close.stop then some ⟨"selector", sel.start, close.stop, sel.delimiter + 1, close.start⟩
      else next.findPost pos
  | .decl name value next =>
    if name.start < pos && pos < value.stop then some ⟨"property", name.start, value.delimiter + 1, value.start, value.stop⟩
    else next.findPost pos

def RestOK (rest : List Ev) : Prop := rest = [] ∨ ∃ ev evs, rest = ev :: evs ∧ ev.type = .blockEnd

theorem matchLoop_pending (pos : Int) (rest : List Ev) (stack : List Rng) (p : Option Rng) (h : RestOK rest) :
    matchLoop pos rest stack p = matchLoop pos rest stack none := by
  rcases h with rfl | ⟨ev, evs, rfl, hev⟩
  · simp [matchLoop]
  · simp only [matchLoop, hev]

theorem matchLoop_events (pos : Int) (sh : Sheet) : ∀ (rest : List Ev) (stack : List Rng) (p : Option Rng),
    sh.WF → RestOK rest →
    matchLoop pos (sh.events ++ rest) stack p = (sh.findPost pos).orElse fun _ => matchLoop pos rest stack none := by
  induction sh with
  | nil => intro rest stack p _ hr; simp only [Sheet.events, Sheet.findPost, List.nil_append, Option.orElse]; exact matchLoop_pending pos rest stack p hr
  | rule sel body close next ihb ihn =>
    intro rest stack p hwf hr
    obtain ⟨hs, hc, hb, hn⟩ := hwf
    simp only [Sheet.events, Sheet.findPost, List.cons_append, List.append_assoc]
    conv => lhs; unfold matchLoop
    simp only [hs]
    rw [ihb (close :: (next.events ++ rest)) _ none hb (Or.inr ⟨close, _, rfl, hc⟩)]
    cases body.findPost pos with
    | some r => simp [Option.orElse]
    | none =>
      simp only [Option.orElse]
      conv => lhs; unfold matchLoop
      simp only [hc]
      split
      · rfl
      · exact ihn rest stack none hn hr
  | decl name value next ihn =>
    intro rest stack p hwf hr
    obtain ⟨hnm, hv, hn⟩ := hwf
    simp only [Sheet.events, Sheet.findPost, List.cons_append]
    conv => lhs; unfold matchLoop
    simp only [hnm]
    conv => lhs; unfold matchLoop
    simp only [hv]
    split
    · simp [Option.orElse]
    · exact ihn rest stack none hn hr

/-- **C10_match (layer B)** -/
theorem C10_match (pos : Int) (sh : Sheet) (h : sh.WF) : matchLoop pos sh.events [] none = sh.findPost pos := by
  have := matchLoop_events pos sh [] [] none h (Or.inl rfl)
  simp only [List.append_nil, matchLoop] at this
  rw [this]
  cases sh.findPost pos <;> rfl

/-! ### balanced_outward -/
def ruleRanges (src : Array Ch) (pos : Int) (sel close : Ev) (acc : List (Int × Int)) : List (Int × Int) :=
  if sel.start < pos && pos < close.stop then
    let a1 := match innerRange src (sel.delimiter + 1) close.start with | some i => pushR acc i | none => acc
    pushR a1 (sel.start, close.stop)
  else acc
def declRanges (pos : Int) (name value : Ev) (acc : List (Int × Int)) : List (Int × Int) :=
  if name.start < pos && pos < max value.delimiter value.stop then
    pushR (pushR acc (value.start, value.stop)) (name.start, if value.delimiter != -1 then value.delimiter + 1 else value.stop)
  else acc

/-- the spec: every enclosing item, innermost first (post-order), contributes its body/value range and then its
    full range; `pushR` drops empty ranges and immediate repetitions -/
def Sheet.allPost (src : Array Ch) (pos : Int) : Sheet → List (Int × Int) → List (Int × Int)
  | .nil, acc => acc
  | .rule sel body close next, acc => next.allPost src pos (ruleRanges src pos sel close (body.allPost src pos acc))
  | .decl name value next, acc => next.allPost src pos (declRanges pos name value acc)

theorem outwardLoop_pending (src : Array Ch) (pos : Int) (rest : List Ev) (stack : List Rng) (p : Option Rng) (acc) (h : RestOK rest) :
    outwardLoop src pos rest stack p acc = outwardLoop src pos rest stack none acc := by
  rcases h with rfl | ⟨ev, evs, rfl, hev⟩
  · simp [outwardLoop]
  · simp only [outwardLoop, hev]

/-- inside a rule (non-empty stack) the loop over the events of a subtree is the tree recursion -/
theorem outwardLoop_events (src : Array Ch) (pos : Int) (sh : Sheet) : ∀ (rest : List Ev) (stack : List Rng) (p : Option Rng) (acc),
    sh.WF → RestOK rest → stack ≠ [] →
    outwardLoop src pos (sh.events ++ rest) stack p acc = outwardLoop src pos rest stack none (sh.allPost src pos acc) := by
  induction sh with
  | nil => intro rest stack p acc _ hr _; simp only [Sheet.events, Sheet.allPost, List.nil_append]; exact outwardLoop_pending src pos rest stack p acc hr
  | rule sel body close next ihb ihn =>
    intro rest stack p acc hwf hr hst
    obtain ⟨hs, hc, hb, hn⟩ := hwf
    simp only [Sheet.events, Sheet.allPost, List.cons_append, List.append_assoc]
    conv => lhs; unfold outwardLoop
    simp only [hs]
    rw [ihb (close :: (next.events ++ rest)) _ none acc hb (Or.inr ⟨close, _, rfl, hc⟩) (by simp)]
    conv => lhs; unfold outwardLoop
    simp only [hc]
    have : stack.isEmpty = false := by cases stack <;> simp_all
    simp only [this, Bool.false_eq_true, if_false]
    exact ihn rest stack none _ hn hr hst
  | decl name value next ihn =>
    intro rest stack p acc hwf hr hst
    obtain ⟨hnm, hv, hn⟩ := hwf
    simp only [Sheet.events, Sheet.allPost, List.cons_append]
    conv => lhs; unfold outwardLoop
    simp only [hnm]
    conv => lhs; unfold outwardLoop
    simp only [hv]
    exact ihn rest stack none _ hn hr hst

/-- top-level declarations before the first rule (stack empty) -/
def Sheet.declsOnly : Sheet → Prop
  | .nil => True
  | .rule _ _ _ _ => False
  | .decl _ _ next => next.declsOnly

/-- **C10_outward_partial (pinned code)**: for a sheet whose first top-level item is a rule, the result is the
    ranges of that rule's subtree — and nothing from `next`, whatever `pos` is (defect #14). -/
theorem C10_outward_first_rule (src : Array Ch) (pos : Int) (sel close : Ev) (body next : Sheet)
    (h : (Sheet.rule sel body close next).WF) :
    outwardLoop src pos (Sheet.rule sel body close next).events [] none []
      = (ruleRanges src pos sel close (body.allPost src pos [])).reverse := by
  obtain ⟨hs, hc, hb, hn⟩ := h
  simp only [Sheet.events]
  conv => lhs; unfold outwardLoop
  simp only [hs]
  rw [outwardLoop_events src pos body (close :: next.events) _ none [] hb (Or.inr ⟨close, _, rfl, hc⟩) (by simp)]
  conv => lhs; unfold outwardLoop
  simp only [hc, List.isEmpty_nil, if_true]
  rfl

/-- repaired loop: closing a top-level rule does not end the scan -/
def outwardLoopF (src : Array Ch) (pos : Int) : List Ev → List Rng → Option Rng → List (Int × Int) → List (Int × Int)
  | [], _, _, acc => acc.reverse
  | ev :: evs, stack, prop, acc =>
    match ev.type with
    | .selector => outwardLoopF src pos evs ((ev.start, ev.stop, ev.delimiter) :: stack) none acc
    | .blockEnd =>
      match stack with
      | left :: rest =>
        outwardLoopF src pos evs rest none (if left.1 < pos && pos < ev.stop then
            let a1 := match innerRange src (left.2.2 + 1) ev.start with | some i => pushR acc i | none => acc
            pushR a1 (left.1, ev.stop)
          else acc)
      | [] => outwardLoopF src pos evs [] none acc
    | .propertyName => outwardLoopF src pos evs stack (some (ev.start, ev.stop, ev.delimiter)) acc
    | .propertyValue =>
      outwardLoopF src pos evs stack none (match prop with
        | some p =>
          if p.1 < pos && pos < max ev.delimiter ev.stop then
            pushR (pushR acc (ev.start, ev.stop)) (p.1, if ev.delimiter != -1 then ev.delimiter + 1 else ev.stop)
          else acc
        | none => acc)

theorem outwardLoopF_pending (src : Array Ch) (pos : Int) (rest : List Ev) (stack : List Rng) (p : Option Rng) (acc) (h : RestOK rest) :
    outwardLoopF src pos rest stack p acc = outwardLoopF src pos rest stack none acc := by
  rcases h with rfl | ⟨ev, evs, rfl, hev⟩
  · simp [outwardLoopF]
  · simp only [outwardLoopF, hev]

theorem outwardLoopF_events (src : Array Ch) (pos : Int) (sh : Sheet) : ∀ (rest : List Ev) (stack : List Rng) (p : Option Rng) (acc),
    sh.WF → RestOK rest →
    outwardLoopF src pos (sh.events ++ rest) stack p acc = outwardLoopF src pos rest stack none (sh.allPost src pos acc) := by
  induction sh with
  | nil => intro rest stack p acc _ hr; simp only [Sheet.events, Sheet.allPost, List.nil_append]; exact outwardLoopF_pending src pos rest stack p acc hr
  | rule sel body close next ihb ihn =>
    intro rest stack p acc hwf hr
    obtain ⟨hs, hc, hb, hn⟩ := hwf
    simp only [Sheet.events, Sheet.allPost, List.cons_append, List.append_assoc]
    conv => lhs; unfold outwardLoopF
    simp only [hs]
    rw [ihb (close :: (next.events ++ rest)) _ none acc hb (Or.inr ⟨close, _, rfl, hc⟩)]
    conv => lhs; unfold outwardLoopF
    simp only [hc]
    exact ihn rest stack none _ hn hr
  | decl name value next ihn =>
    intro rest stack p acc hwf hr
    obtain ⟨hnm, hv, hn⟩ := hwf
    simp only [Sheet.events, Sheet.allPost, List.cons_append]
    conv => lhs; unfold outwardLoopF
    simp only [hnm]
    conv => lhs; unfold outwardLoopF
    simp only [hv]
    exact ihn rest stack none _ hn hr

/-- **C10_outward (layer B, repaired loop)**: for every sheet and every position in the file -/
theorem C10_outward (src : Array Ch) (pos : Int) (sh : Sheet) (h : sh.WF) :
    outwardLoopF src pos sh.events [] none [] = (sh.allPost src pos []).reverse := by
  have := outwardLoopF_events src pos sh [] [] none [] h (Or.inl rfl)
  simp only [List.append_nil] at this
  rw [this]; simp [outwardLoopF]

end C
