import Emmet.Matcher.CssMatch
/-! C10 layer B: `match` over the event stream of a style sheet tree = first enclosing item in post-order. -/
namespace C

/-- style sheets in first-child / next-sibling form -/
inductive Sheet
  | nil
  | rule (sel : Ev) (body : Sheet) (close : Ev) (next : Sheet)
  | decl (name value : Ev) (next : Sheet)

def Sheet.WF : Sheet → Prop
  | .nil => True
  | .rule sel body close next => sel.type = .selector ∧ close.type = .blockEnd ∧ body.WF ∧ next.WF
  | .decl name value next => name.type = .propertyName ∧ value.type = .propertyValue ∧ next.WF

def Sheet.events : Sheet → List Ev
  | .nil => []
  | .rule sel body close next => sel :: (body.events ++ close :: next.events)
  | .decl name value next => name :: value :: next.events

/-- the spec: first item in post-order whose span strictly contains `pos`; a rule spans `[selector start, '}' + 1)`, a
    declaration `[name start, delimiter + 1)` (`propEnd`: up to its value end when it has no delimiter) -/
def Sheet.findPost (pos : Int) : Sheet → Option MatchResult
  | .nil => none
  | .rule sel body close next =>
    (body.findPost pos).orElse fun _ =>
      if sel.start < pos && pos < close.stop then some ⟨"selector", sel.start, close.stop, sel.delimiter + 1, close.start⟩
      else next.findPost pos
  | .decl name value next =>
    if name.start < pos && pos < propEnd value then some ⟨"property", name.start, propEnd value, value.start, value.stop⟩
    else next.findPost pos

def RestOK (rest : List Ev) : Prop := rest = [] ∨ ∃ ev evs, rest = ev :: evs ∧ ev.type = .blockEnd

theorem matchLoop_pending (pos : Int) (rest : List Ev) (stack : List Rng) (p : Option Rng) (h : RestOK rest) :
    matchLoop pos rest stack p = matchLoop pos rest stack none := by
  rcases h with rfl | ⟨ev, evs, rfl, hev⟩
  · simp [matchLoop]
  · simp only [matchLoop, hev]

theorem matchLoop_events (pos : Int) (sh : Sheet) : ∀ (rest : List Ev) (stack : List Rng) (p : Option Rng),
    sh.WF → RestOK rest →
    matchLoop pos (sh.events ++ rest) stack p = (sh.findPost pos).orElse fun _ => matchLoop pos rest stack none := by
  induction sh with
  | nil => intro rest stack p _ hr; simp only [Sheet.events, Sheet.findPost, List.nil_append, Option.orElse]; exact matchLoop_pending pos rest stack p hr
  | rule sel body close next ihb ihn =>
    intro rest stack p hwf hr
    obtain ⟨hs, hc, hb, hn⟩ := hwf
    simp only [Sheet.events, Sheet.findPost, List.cons_append, List.append_assoc]
    conv => lhs; unfold matchLoop
    simp only [hs]
    rw [ihb (close :: (next.events ++ rest)) _ none hb (Or.inr ⟨close, _, rfl, hc⟩)]
    cases body.findPost pos with
    | some r => simp [Option.orElse]
    | none =>
      simp only [Option.orElse]
      conv => lhs; unfold matchLoop
      simp only [hc]
      split
      · rfl
      · exact ihn rest stack none hn hr
  | decl name value next ihn =>
    intro rest stack p hwf hr
    obtain ⟨hnm, hv, hn⟩ := hwf
    simp only [Sheet.events, Sheet.findPost, List.cons_append]
    conv => lhs; unfold matchLoop
    simp only [hnm]
    conv => lhs; unfold matchLoop
    simp only [hv]
    split
    · simp [Option.orElse]
    · exact ihn rest stack none hn hr

/-- **C10_match (layer B)** -/
theorem C10_match (pos : Int) (sh : Sheet) (h : sh.WF) : matchLoop pos sh.events [] none = sh.findPost pos := by
  have := matchLoop_events pos sh [] [] none h (Or.inl rfl)
  simp only [List.append_nil, matchLoop] at this
  rw [this]
  cases sh.findPost pos <;> rfl

/-! ### balanced_outward -/
theorem ruleRanges_evOf (src : Array Ch) (pos : Int) (sel close : Ev) (acc) :
    ruleRanges src pos (evOf (sel.start, sel.stop, sel.delimiter)) close acc = ruleRanges src pos sel close acc := rfl
theorem declRanges_evOf (pos : Int) (name value : Ev) (acc) :
    declRanges pos (evOf (name.start, name.stop, name.delimiter)) value acc = declRanges pos name value acc := rfl

/-- the spec: every enclosing item, innermost first (post-order), contributes its body/value range and then its
    full range; `pushR` drops empty ranges and immediate repetitions -/
def Sheet.allPost (src : Array Ch) (pos : Int) : Sheet → List (Int × Int) → List (Int × Int)
  | .nil, acc => acc
  | .rule sel body close next, acc => next.allPost src pos (ruleRanges src pos sel close (body.allPost src pos acc))
  | .decl name value next, acc => next.allPost src pos (declRanges pos name value acc)

theorem outwardLoop_pending (src : Array Ch) (pos : Int) (rest : List Ev) (stack : List Rng) (p : Option Rng) (acc) (h : RestOK rest) :
    outwardLoop src pos rest stack p acc = outwardLoop src pos rest stack none acc := by
  rcases h with rfl | ⟨ev, evs, rfl, hev⟩
  · simp [outwardLoop]
  · simp only [outwardLoop, hev]

/-- inside a rule (non-empty stack) the loop over the events of a subtree is the tree recursion -/
theorem outwardLoop_events (src : Array Ch) (pos : Int) (sh : Sheet) : ∀ (rest : List Ev) (stack : List Rng) (p : Option Rng) (acc),
    sh.WF → RestOK rest → stack ≠ [] →
    outwardLoop src pos (sh.events ++ rest) stack p acc = outwardLoop src pos rest stack none (sh.allPost src pos acc) := by
  induction sh with
  | nil => intro rest stack p acc _ hr _; simp only [Sheet.events, Sheet.allPost, List.nil_append]; exact outwardLoop_pending src pos rest stack p acc hr
  | rule sel body close next ihb ihn =>
    intro rest stack p acc hwf hr hst
    obtain ⟨hs, hc, hb, hn⟩ := hwf
    simp only [Sheet.events, Sheet.allPost, List.cons_append, List.append_assoc]
    conv => lhs; unfold outwardLoop
    simp only [hs]
    rw [ihb (close :: (next.events ++ rest)) _ none acc hb (Or.inr ⟨close, _, rfl, hc⟩) (by simp)]
    conv => lhs; unfold outwardLoop
    simp only [hc]
    have : stack.isEmpty = false := by cases stack <;> simp_all
    simp only [this, Bool.false_eq_true, if_false]
    exact ihn rest stack none _ hn hr hst
  | decl name value next ihn =>
    intro rest stack p acc hwf hr hst
    obtain ⟨hnm, hv, hn⟩ := hwf
    simp only [Sheet.events, Sheet.allPost, List.cons_append]
    conv => lhs; unfold outwardLoop
    simp only [hnm]
    conv => lhs; unfold outwardLoop
    simp only [hv]
    exact ihn rest stack none _ hn hr hst

/-! ### top level: the scan stops once the outermost section containing the position has been closed

The loop returns as soon as a top-level rule closes with a non-empty result. That is sound for a sheet whose items are
laid out in document order (`Seq`): every item of a rule's body ends before the rule's end (`Before`), and everything
that follows an item starts at or after its end (`After`). -/

/-- every item (at any depth) starts at or after `b` -/
def Sheet.After (b : Int) : Sheet → Prop
  | .nil => True
  | .rule sel body _ next => b ≤ sel.start ∧ body.After b ∧ next.After b
  | .decl name _ next => b ≤ name.start ∧ next.After b

/-- every item (at any depth) ends at or before `b` -/
def Sheet.Before (b : Int) : Sheet → Prop
  | .nil => True
  | .rule _ body close next => close.stop ≤ b ∧ body.Before b ∧ next.Before b
  | .decl _ value next => propEnd value ≤ b ∧ next.Before b

/-- top-level items in document order -/
def Sheet.Seq : Sheet → Prop
  | .nil => True
  | .rule _ body close next => body.Before close.stop ∧ next.After close.stop ∧ next.Seq
  | .decl _ value next => next.After (propEnd value) ∧ next.Seq

theorem allPost_after (src : Array Ch) (pos b : Int) (hb : pos ≤ b) (sh : Sheet) : ∀ acc, sh.After b → sh.allPost src pos acc = acc := by
  induction sh with
  | nil => intro acc _; rfl
  | rule sel body close next ihb ihn =>
    intro acc ⟨h1, h2, h3⟩
    have : ¬ (sel.start < pos) := by omega
    simp only [Sheet.allPost, ihb acc h2, ruleRanges, this, decide_false, Bool.false_and, Bool.false_eq_true, if_false]
    exact ihn acc h3
  | decl name value next ihn =>
    intro acc ⟨h1, h3⟩
    have : ¬ (name.start < pos) := by omega
    simp only [Sheet.allPost, declRanges, this, decide_false, Bool.false_and, Bool.false_eq_true, if_false]
    exact ihn acc h3

theorem allPost_before (src : Array Ch) (pos b : Int) (sh : Sheet) : ∀ acc, sh.Before b → (acc ≠ [] → pos < b) →
    sh.allPost src pos acc ≠ [] → pos < b := by
  induction sh with
  | nil => intro acc _ h hne; exact h hne
  | rule sel body close next ihb ihn =>
    intro acc ⟨h1, h2, h3⟩ h hne
    simp only [Sheet.allPost] at hne
    refine ihn _ h3 ?_ hne
    intro hr
    unfold ruleRanges at hr
    split at hr
    · rename_i hc
      simp only [Bool.and_eq_true, decide_eq_true_eq] at hc
      omega
    · exact ihb acc h2 h hr
  | decl name value next ihn =>
    intro acc ⟨h1, h3⟩ h hne
    simp only [Sheet.allPost] at hne
    refine ihn _ h3 ?_ hne
    intro hr
    unfold declRanges at hr
    split at hr
    · rename_i hc
      simp only [Bool.and_eq_true, decide_eq_true_eq] at hc
      omega
    · exact h hr

theorem outwardLoop_top (src : Array Ch) (pos : Int) (sh : Sheet) : ∀ (p : Option Rng) (acc),
    sh.WF → sh.Seq → (acc ≠ [] → ∃ b, pos ≤ b ∧ sh.After b) →
    outwardLoop src pos sh.events [] p acc = (sh.allPost src pos acc).reverse := by
  induction sh with
  | nil => intro p acc _ _ _; simp [Sheet.events, Sheet.allPost, outwardLoop]
  | rule sel body close next ihb ihn =>
    intro p acc hwf hseq hacc
    obtain ⟨hs, hc, hb, hn⟩ := hwf
    obtain ⟨hbef, haft, hseqn⟩ := hseq
    simp only [Sheet.events, Sheet.allPost]
    conv => lhs; unfold outwardLoop
    simp only [hs]
    rw [outwardLoop_events src pos body (close :: next.events) _ none acc hb (Or.inr ⟨close, _, rfl, hc⟩) (by simp)]
    conv => lhs; unfold outwardLoop
    simp only [hc, List.isEmpty_nil, Bool.true_and]
    rw [ruleRanges_evOf]
    by_cases hne : ruleRanges src pos sel close (body.allPost src pos acc) = []
    · simp only [hne, List.isEmpty_nil, Bool.not_true, Bool.false_eq_true, if_false]
      exact ihn none [] hn hseqn (fun h => absurd rfl h)
    · have hiE : (ruleRanges src pos sel close (body.allPost src pos acc)).isEmpty = false := by
        cases hx : ruleRanges src pos sel close (body.allPost src pos acc) with
        | nil => exact absurd hx hne
        | cons _ _ => rfl
      simp only [hiE, Bool.not_false, if_true]
      -- nothing after the rule can contain the position
      have hq : next.allPost src pos (ruleRanges src pos sel close (body.allPost src pos acc))
          = ruleRanges src pos sel close (body.allPost src pos acc) := by
        by_cases ha : acc = []
        · subst ha
          have hlt : pos < close.stop := by
            apply Decidable.byContradiction
            intro hge
            have hcond : ¬ ((decide (sel.start < pos) && decide (pos < close.stop)) = true) := by
              simp only [Bool.and_eq_true, decide_eq_true_eq]; omega
            have hb0 : body.allPost src pos [] ≠ [] := by
              intro h0; apply hne; unfold ruleRanges; simp only [hcond, if_false]; exact h0
            exact hge (allPost_before src pos close.stop body [] hbef (fun h => absurd rfl h) hb0)
          exact allPost_after src pos close.stop (by omega) next _ haft
        · obtain ⟨b, hpb, ⟨_, _, hnb⟩⟩ := hacc ha
          exact allPost_after src pos b hpb next _ hnb
      rw [hq]
  | decl name value next ihn =>
    intro p acc hwf hseq hacc
    obtain ⟨hnm, hv, hn⟩ := hwf
    obtain ⟨haft, hseqn⟩ := hseq
    simp only [Sheet.events, Sheet.allPost]
    conv => lhs; unfold outwardLoop
    simp only [hnm]
    conv => lhs; unfold outwardLoop
    simp only [hv]
    rw [declRanges_evOf]
    apply ihn none _ hn hseqn
    intro hne
    by_cases ha : acc = []
    · subst ha
      refine ⟨propEnd value, ?_, haft⟩
      apply Decidable.byContradiction
      intro hge
      apply hne
      unfold declRanges
      have : ¬ ((decide (name.start < pos) && decide (pos < propEnd value)) = true) := by
        simp only [Bool.and_eq_true, decide_eq_true_eq]; omega
      simp [this]
    · obtain ⟨b, hpb, ⟨_, hnb⟩⟩ := hacc ha
      exact ⟨b, hpb, hnb⟩

/-- **C10_outward (layer B)**: for every sheet laid out in document order and every position in the file,
    `balanced_outward` is the list of value / declaration / content / full ranges of all enclosing items, innermost first -/
theorem C10_outward (src : Array Ch) (pos : Int) (sh : Sheet) (h : sh.WF) (hs : sh.Seq) :
    outwardLoop src pos sh.events [] none [] = (sh.allPost src pos []).reverse :=
  outwardLoop_top src pos sh none [] h hs (fun h => absurd rfl h)

end C
