import Emmet.Abbr.Convert
import EmmetProofs.ParseDen
/-! C02 (count part) on the REAL convert model, for skeleton trees: exactly N copies, guard accounting. -/
namespace T

/-- skeleton forests in first-child / next-sibling form -/
inductive SK
  | nil
  | elem (v : Str) (r : Option Nat) (kids rest : SK)
  | grp (r : Option Nat) (kids rest : SK)

def SK.toT : SK → List TNode
  | .nil => []
  | .elem v r kids rest => elemNode v r kids.toT :: rest.toT
  | .grp r kids rest => .group kids.toT (repOf r) :: rest.toT

def cnt (k : Nat) : Nat := if k == 0 then 1 else k

def elemCopy (v : Str) (kids : List ANode) (rep : Option Rep) : ANode := .mk (some v) none none kids rep false

/-- spec: the unrolled forest -/
def SK.unroll : SK → List ANode
  | .nil => []
  | .elem v none kids rest => elemCopy v kids.unroll none :: rest.unroll
  | .elem v (some k) kids rest =>
      (List.range (cnt k)).map (fun i => elemCopy v kids.unroll (some ⟨cnt k, i, false⟩)) ++ rest.unroll
  | .grp none kids rest => kids.unroll ++ rest.unroll
  | .grp (some k) kids rest =>
      (List.range (cnt k)).flatMap (fun i => attachRepeater kids.unroll ⟨cnt k, i, false⟩) ++ rest.unroll

/-- number of copies made by repeaters (what the guard pays for) -/
def SK.cost : SK → Nat
  | .nil => 0
  | .elem _ none kids rest => kids.cost + rest.cost
  | .elem _ (some k) kids rest => cnt k * (kids.cost + 1) + rest.cost
  | .grp none kids rest => kids.cost + rest.cost
  | .grp (some k) kids rest => cnt k * (kids.cost + 1) + rest.cost

def optCnt : Option Nat → Nat | none => 0 | some k => cnt k
/-- enough fuel -/
def SK.need : SK → Nat
  | .nil => 1
  | .elem _ r kids rest => 4 + optCnt r + kids.need + rest.need
  | .grp r kids rest => 4 + optCnt r + kids.need + rest.need

def withGuard (st : CState) (g : Int) : CState := { st with guard := g }

@[simp] theorem withGuard_text (st g) : (withGuard st g).text = st.text := rfl
@[simp] theorem withGuard_guard (st g) : (withGuard st g).guard = g := rfl
@[simp] theorem withGuard_withGuard (st g h) : withGuard (withGuard st g) h = withGuard st h := rfl
theorem withGuard_self (st : CState) : withGuard st st.guard = st := rfl

theorem stringifyName_name (v : Str) (st : CState) : stringifyName [nameTok v] st = .ok (v, st) := by
  simp [stringifyName, stringifyList, stringifyTok, nameTok, mk, joinOpt, bind, Except.bind, pure, Except.pure]

theorem cnt_pos (k : Nat) : 0 < cnt k := by
  unfold cnt
  by_cases h : k = 0
  · simp [h]
  · simp [h]; omega

/-- the statement we prove by induction on the skeleton -/
def ListOK (sk : SK) : Prop :=
  ∀ (fuel : Nat) (st : CState), sk.need ≤ fuel → st.text = .none → (sk.cost : Int) < st.guard →
    convertList fuel sk.toT st = .ok (sk.unroll, withGuard st (st.guard - sk.cost))

end T

namespace T

/-- one element copy: `convert_element` on a skeleton element, given the statement for its children -/
theorem convertOne_elem (v : Str) (r : Option Nat) (kids : SK) (hk : ListOK kids) (fuel : Nat) (cur : Option Rep) (st : CState)
    (hf : kids.need ≤ fuel) (ht : st.text = .none) (hg : (kids.cost : Int) < st.guard) :
    convertOne (fuel + 1) (elemNode v r kids.toT) cur st =
      .ok ([elemCopy v kids.unroll cur], withGuard st (st.guard - kids.cost)) := by
  simp only [elemNode, convertOne, stringifyName_name, bind, Except.bind, pure, Except.pure]
  rw [hk fuel st hf ht hg]
  simp [elemCopy, hasField]

theorem convertOne_grp (r : Option Nat) (kids : SK) (hk : ListOK kids) (fuel : Nat) (cur : Option Rep) (st : CState)
    (hf : kids.need ≤ fuel) (ht : st.text = .none) (hg : (kids.cost : Int) < st.guard) :
    convertOne (fuel + 1) (.group kids.toT (repOf r)) cur st =
      .ok ((match cur with | some c => attachRepeater kids.unroll c | none => kids.unroll), withGuard st (st.guard - kids.cost)) := by
  simp only [convertOne, bind, Except.bind, pure, Except.pure]
  rw [hk fuel st hf ht hg]
  cases cur <;> simp

end T

namespace T

def withReps (st : CState) (rs : List Rep) : CState := { st with repeaters := rs }
@[simp] theorem withReps_text (st rs) : (withReps st rs).text = st.text := rfl
@[simp] theorem withReps_guard (st rs) : (withReps st rs).guard = st.guard := rfl
@[simp] theorem withGuard_reps (st g) : (withGuard st g).repeaters = st.repeaters := rfl
@[simp] theorem withReps_reps (st rs) : (withReps st rs).repeaters = rs := rfl

/-- one iteration, for an explicit (non-implicit) repeater -/
theorem repeatBody_spec (conv : Option Rep → CState → PM (List ANode × CState)) (copy : Rep → List ANode) (kc : Nat)
    (rep : Rep) (himp : rep.implicit = false) (i : Nat) (st : CState) (base : List Rep) (x : Rep)
    (hr : st.repeaters = base ++ [x])
    (hconv : conv (some { rep with value := i }) (withReps st (base ++ [{ rep with value := i }])) =
      .ok (copy { rep with value := i }, withGuard (withReps st (base ++ [{ rep with value := i }])) (st.guard - kc))) :
    repeatBody conv rep i st =
      .ok (copy { rep with value := i },
           withGuard (withReps st (base ++ [{ rep with value := i }])) (st.guard - kc - 1)) := by
  have hst0 : ({ st with repeaters := st.repeaters.dropLast ++ [{ rep with value := i }] } : CState) =
      withReps st (base ++ [{ rep with value := i }]) := by simp [withReps, hr]
  simp only [repeatBody, bind, Except.bind, pure, Except.pure]
  rw [hst0, hconv]
  simp [himp, withGuard, withReps]

theorem repeatLoop_succ (fuel : Nat) (node : TNode) (rep : Rep) (i : Nat) (st : CState) (acc : List ANode) :
    repeatLoop (fuel + 1) node rep i st acc =
      (if i < rep.count then
        (repeatBody (fun cur s => convertOne fuel node cur s) rep i st) >>= fun r =>
          if r.2.guard ≤ 0 then pure (acc ++ r.1, r.2) else repeatLoop fuel node rep (i + 1) r.2 (acc ++ r.1)
       else pure (acc, st)) := by
  conv => lhs; unfold repeatLoop

/-- the `while i < repeat.count` loop, for any node whose single conversion is known -/
theorem repeatLoop_spec (node : TNode) (copy : Rep → List ANode) (kc K : Nat)
    (hone : ∀ fuel cur st, K ≤ fuel → st.text = .none → (kc : Int) < st.guard →
      convertOne (fuel + 1) node (some cur) st = .ok (copy cur, withGuard st (st.guard - kc)))
    (rep : Rep) (himp : rep.implicit = false) :
    ∀ (m i fuel : Nat) (st : CState) (acc : List ANode) (base : List Rep) (x : Rep),
      i + m = rep.count → K + m + 2 ≤ fuel → st.text = .none → st.repeaters = base ++ [x] →
      ((m * (kc + 1) : Nat) : Int) < st.guard →
      ∃ last, repeatLoop fuel node rep i st acc =
        .ok (acc ++ (List.range' i m).flatMap (fun j => copy { rep with value := j }),
             withReps (withGuard st (st.guard - (m * (kc + 1) : Nat))) (base ++ [last])) := by
  intro m
  induction m with
  | zero =>
    intro i fuel st acc base x him hf ht hr hg
    obtain ⟨f, rfl⟩ : ∃ f, fuel = f + 1 := ⟨fuel - 1, by omega⟩
    refine ⟨x, ?_⟩
    have : ¬ i < rep.count := by omega
    rw [repeatLoop_succ]
    simp only [this, if_false, pure, Except.pure]
    simp [withReps, withGuard, ← hr]
  | succ m ih =>
    intro i fuel st acc base x him hf ht hr hg
    obtain ⟨f, rfl⟩ : ∃ f, fuel = f + 2 := ⟨fuel - 2, by omega⟩
    have hlt : i < rep.count := by omega
    have hexp : ((m + 1) * (kc + 1) : Nat) = m * (kc + 1) + (kc + 1) := by rw [Nat.add_mul]; simp
    have hmnn : (0 : Int) ≤ ((m * (kc + 1) : Nat) : Int) := by exact_mod_cast Nat.zero_le _
    have hg' : ((m * (kc + 1) : Nat) : Int) + (kc + 1) < st.guard := by rw [hexp] at hg; push_cast at hg ⊢; omega
    rw [repeatLoop_succ]
    simp only [hlt, if_true]
    have hconv := hone f { rep with value := i } (withReps st (base ++ [{ rep with value := i }])) (by omega)
      (by simpa using ht) (by simp only [withReps_guard]; omega)
    rw [repeatBody_spec _ copy kc rep himp i st base x hr (by simpa using hconv)]
    simp only [bind, Except.bind, withGuard_guard]
    have hpos : ¬ (st.guard - kc - 1 ≤ 0) := by omega
    simp only [hpos, if_false]
    obtain ⟨last, hl⟩ := ih (i + 1) (f + 1)
      (withGuard (withReps st (base ++ [{ rep with value := i }])) (st.guard - kc - 1))
      (acc ++ copy { rep with value := i }) base { rep with value := i }
      (by omega) (by omega) (by simpa using ht) (by simp) (by simp only [withGuard_guard]; omega)
    refine ⟨last, ?_⟩
    rw [hl]
    simp only [List.range'_succ, List.flatMap_cons, List.append_assoc, withGuard_guard]
    congr 2
    simp only [withReps, withGuard]
    rw [hexp]
    push_cast
    congr 1
    omega

end T

namespace T

theorem range'_flatMap_single {α : Type} (n : Nat) (g : Nat → α) :
    (List.range' 0 n).flatMap (fun j => [g j]) = (List.range n).map g := by
  rw [List.range_eq_range']
  induction (List.range' 0 n) with
  | nil => simp
  | cons x xs ih => simp [ih]

theorem range'_flatMap_range {α : Type} (n : Nat) (g : Nat → List α) :
    (List.range' 0 n).flatMap g = (List.range n).flatMap g := by rw [List.range_eq_range']

/-- `convert_statement` on a repeated skeleton node -/
theorem convertStatement_rep (node : TNode) (k : Nat)
    (hrep : node.rep? = some (repTok k))
    (copy : Rep → List ANode) (kc K : Nat)
    (hone : ∀ fuel cur st, K ≤ fuel → st.text = .none → (kc : Int) < st.guard →
      convertOne (fuel + 1) node (some cur) st = .ok (copy cur, withGuard st (st.guard - kc)))
    (fuel : Nat) (st : CState) (hf : K + cnt k + 2 ≤ fuel) (ht : st.text = .none)
    (hg : ((cnt k * (kc + 1) : Nat) : Int) < st.guard) :
    convertStatement (fuel + 1) node st =
      .ok ((List.range' 0 (cnt k)).flatMap (fun j => copy ⟨cnt k, j, false⟩),
           withGuard st (st.guard - (cnt k * (kc + 1) : Nat))) := by
  simp only [convertStatement, hrep]
  have hr0 : repOfTok (repTok k) = ⟨k, 0, false⟩ := rfl
  have hlines : (match st.text with | TextArg.lines _ => true | _ => false) = false := by rw [ht]
  simp only [hr0, hlines, Bool.false_and, Bool.and_false, Bool.false_eq_true, if_false]
  have hcount : (if (k == 0) = true then 1 else k) = cnt k := rfl
  simp only [hcount]
  obtain ⟨last, hl⟩ := repeatLoop_spec node copy kc K hone ⟨cnt k, 0, false⟩ rfl (cnt k) 0 fuel
    { st with repeaters := st.repeaters ++ [⟨cnt k, 0, false⟩] } [] st.repeaters ⟨cnt k, 0, false⟩
    (by simp) hf (by simpa using ht) rfl (by simpa using hg)
  simp only [bind, Except.bind, pure, Except.pure]
  rw [hl]
  simp [withReps, withGuard]

/-- **C02 count theorem on the real convert model (skeleton trees, no wrap text, guard not exhausted)** -/
theorem listOK (sk : SK) : ListOK sk := by
  induction sk with
  | nil =>
    intro fuel st hf _ _
    obtain ⟨f, rfl⟩ : ∃ f, fuel = f + 1 := ⟨fuel - 1, by simp [SK.need] at hf; omega⟩
    simp [SK.toT, convertList, SK.unroll, SK.cost, withGuard]
  | elem v r kids rest ihk ihr =>
    intro fuel st hf ht hg
    obtain ⟨f, rfl⟩ : ∃ f, fuel = f + 2 := ⟨fuel - 2, by simp [SK.need] at hf; omega⟩
    simp only [SK.toT, convertList, bind, Except.bind, pure, Except.pure]
    cases r with
    | none =>
      simp only [SK.cost, SK.need, optCnt] at hf hg
      have hgk : (kids.cost : Int) < st.guard := by push_cast at hg; omega
      have h1 : convertStatement (f + 1) (elemNode v none kids.toT) st =
          .ok ([elemCopy v kids.unroll none], withGuard st (st.guard - kids.cost)) := by
        obtain ⟨f', rfl⟩ : ∃ f', f = f' + 1 := ⟨f - 1, by omega⟩
        simp only [convertStatement, elemNode, repOf, Option.map_none, TNode.rep?]
        exact convertOne_elem v none kids ihk f' none st (by omega) ht hgk
      rw [h1]
      simp only
      rw [ihr (f + 1) _ (by omega) (by simpa using ht) (by simp only [withGuard_guard]; push_cast at hg; omega)]
      have harith : (st.guard - (kids.cost : Int) - rest.cost) = st.guard - ((kids.cost + rest.cost : Nat) : Int) := by
        push_cast; omega
      simp only [SK.unroll, SK.cost, withGuard_withGuard, withGuard_guard, List.singleton_append, harith]
    | some k =>
      simp only [SK.cost, SK.need, optCnt] at hf hg
      have hmul : ((cnt k * (kids.cost + 1) : Nat) : Int) < st.guard := by push_cast at hg ⊢; omega
      have h1 := convertStatement_rep (elemNode v (some k) kids.toT) k rfl
        (fun cur => [elemCopy v kids.unroll (some cur)]) kids.cost kids.need
        (fun fuel cur st hK ht hg => convertOne_elem v (some k) kids ihk fuel (some cur) st hK ht hg)
        f st (by omega) ht hmul
      rw [h1]
      simp only
      rw [ihr (f + 1) _ (by omega) (by simpa using ht) (by simp only [withGuard_guard]; push_cast at hg ⊢; omega)]
      have harith : (st.guard - ((cnt k * (kids.cost + 1) : Nat) : Int) - rest.cost) =
          st.guard - ((cnt k * (kids.cost + 1) + rest.cost : Nat) : Int) := by push_cast; omega
      simp only [SK.unroll, SK.cost, withGuard_withGuard, withGuard_guard, range'_flatMap_single, harith]
  | grp r kids rest ihk ihr =>
    intro fuel st hf ht hg
    obtain ⟨f, rfl⟩ : ∃ f, fuel = f + 2 := ⟨fuel - 2, by simp [SK.need] at hf; omega⟩
    simp only [SK.toT, convertList, bind, Except.bind, pure, Except.pure]
    cases r with
    | none =>
      simp only [SK.cost, SK.need, optCnt] at hf hg
      have hgk : (kids.cost : Int) < st.guard := by push_cast at hg; omega
      have h1 : convertStatement (f + 1) (.group kids.toT (repOf none)) st =
          .ok (kids.unroll, withGuard st (st.guard - kids.cost)) := by
        obtain ⟨f', rfl⟩ : ∃ f', f = f' + 1 := ⟨f - 1, by omega⟩
        simp only [convertStatement, repOf, Option.map_none, TNode.rep?]
        have := convertOne_grp none kids ihk f' none st (by omega) ht hgk
        simpa [repOf] using this
      rw [h1]
      simp only
      rw [ihr (f + 1) _ (by omega) (by simpa using ht) (by simp only [withGuard_guard]; push_cast at hg; omega)]
      have harith : (st.guard - (kids.cost : Int) - rest.cost) = st.guard - ((kids.cost + rest.cost : Nat) : Int) := by
        push_cast; omega
      simp only [SK.unroll, SK.cost, withGuard_withGuard, withGuard_guard, harith]
    | some k =>
      simp only [SK.cost, SK.need, optCnt] at hf hg
      have hmul : ((cnt k * (kids.cost + 1) : Nat) : Int) < st.guard := by push_cast at hg ⊢; omega
      have h1 := convertStatement_rep (.group kids.toT (repOf (some k))) k rfl
        (fun cur => attachRepeater kids.unroll cur) kids.cost kids.need
        (fun fuel cur st hK ht hg => by simpa using convertOne_grp (some k) kids ihk fuel (some cur) st hK ht hg)
        f st (by omega) ht hmul
      rw [h1]
      simp only
      rw [ihr (f + 1) _ (by omega) (by simpa using ht) (by simp only [withGuard_guard]; push_cast at hg ⊢; omega)]
      have harith : (st.guard - ((cnt k * (kids.cost + 1) : Nat) : Int) - rest.cost) =
          st.guard - ((cnt k * (kids.cost + 1) + rest.cost : Nat) : Int) := by push_cast; omega
      simp only [SK.unroll, SK.cost, withGuard_withGuard, withGuard_guard, range'_flatMap_range, harith]

end T
