import Emmet.Markup.Back
/-! C01: the implicit-name table. `documentedMap` / `documentedImplicit` are written from the property text (plus the five further
pairs of the Emmet documentation: colgroup/col, audio|video/source, object/param, map/area); the theorems are about the lookup in the
REGENERATED `Gen.elementMap`, so a changed, dropped or added entry of `ELEMENT_MAP` in /repo stops them from checking. -/
namespace T

/-- parents with a documented implicit child name -/
def documentedMap (pn : Str) : Option Str :=
  if pn = lit "ul" ∨ pn = lit "ol" then some (lit "li")
  else if pn = lit "table" ∨ pn = lit "tbody" ∨ pn = lit "thead" ∨ pn = lit "tfoot" then some (lit "tr")
  else if pn = lit "tr" then some (lit "td")
  else if pn = lit "select" ∨ pn = lit "optgroup" then some (lit "option")
  else if pn = lit "p" then some (lit "span")
  else if pn = lit "colgroup" then some (lit "col")
  else if pn = lit "audio" ∨ pn = lit "video" then some (lit "source")
  else if pn = lit "object" then some (lit "param")
  else if pn = lit "map" then some (lit "area")
  else none

/-- li in ul/ol, tr in table/tbody/thead/tfoot, td in tr, option in select/optgroup, span inside p and inside inline elements, div
otherwise -/
def documentedImplicit (inline : List Str) (pn : Str) : Str :=
  (documentedMap pn).getD (if inline.contains pn then lit "span" else lit "div")

theorem elementMap_eq : Gen.elementMap = [(lit "p", lit "span"), (lit "ul", lit "li"), (lit "ol", lit "li"), (lit "table", lit "tr"),
  (lit "tr", lit "td"), (lit "tbody", lit "tr"), (lit "thead", lit "tr"), (lit "tfoot", lit "tr"), (lit "colgroup", lit "col"),
  (lit "select", lit "option"), (lit "optgroup", lit "option"), (lit "audio", lit "source"), (lit "video", lit "source"),
  (lit "object", lit "param"), (lit "map", lit "area")] := by decide +kernel

theorem lookup_nil (x : Str) : lookup [] x = none := rfl
theorem lookup_cons (k v : Str) (t : List (Str × Str)) (x : Str) :
    lookup ((k, v) :: t) x = if x = k then some v else lookup t x := by
  unfold lookup; simp only [List.find?]
  by_cases h : x = k
  · subst h; simp
  · have : (k == x) = false := by simpa using fun h' => h h'.symm
    simp [this, h]

/-- the regenerated table is the documented one, for EVERY parent name -/
theorem lookup_elementMap (pn : Str) : lookup Gen.elementMap pn = documentedMap pn := by
  rw [elementMap_eq]
  simp only [lookup_cons, lookup_nil]
  unfold documentedMap
  by_cases h1 : pn = lit "p"; · subst h1; simp (decide := true)
  by_cases h2 : pn = lit "ul"; · subst h2; simp (decide := true)
  by_cases h3 : pn = lit "ol"; · subst h3; simp (decide := true)
  by_cases h4 : pn = lit "table"; · subst h4; simp (decide := true)
  by_cases h5 : pn = lit "tr"; · subst h5; simp (decide := true)
  by_cases h6 : pn = lit "tbody"; · subst h6; simp (decide := true)
  by_cases h7 : pn = lit "thead"; · subst h7; simp (decide := true)
  by_cases h8 : pn = lit "tfoot"; · subst h8; simp (decide := true)
  by_cases h9 : pn = lit "colgroup"; · subst h9; simp (decide := true)
  by_cases h10 : pn = lit "select"; · subst h10; simp (decide := true)
  by_cases h11 : pn = lit "optgroup"; · subst h11; simp (decide := true)
  by_cases h12 : pn = lit "audio"; · subst h12; simp (decide := true)
  by_cases h13 : pn = lit "video"; · subst h13; simp (decide := true)
  by_cases h14 : pn = lit "object"; · subst h14; simp (decide := true)
  by_cases h15 : pn = lit "map"; · subst h15; simp (decide := true)
  simp [h1, h2, h3, h4, h5, h6, h7, h8, h9, h10, h11, h12, h13, h14, h15]

theorem lowerCh_idem (c : Nat) : lowerCh (lowerCh c) = lowerCh c := by
  unfold lowerCh
  by_cases h1 : 65 ≤ c <;> by_cases h2 : c ≤ 90 <;> simp [h1, h2]
  omega
theorem lower_idem (s : Str) : lower (lower s) = lower s := by
  unfold lower; simp [List.map_map, Function.comp_def, lowerCh_idem]

/-- the element's own context: the parent element when there is one, otherwise the configured context name -/
def implicitCtx (o : Options) (parentName : Option Str) (hasParent : Bool) : Str :=
  lower (if hasParent then parentName.getD [] else o.contextName.getD [])

theorem implicitTag_name (o : Options) (parentName : Option Str) (hasParent : Bool)
    (name : Option Str) (v : Option (List VTok)) (a0 : AAttr) (as : List AAttr) (c : List ANode) (r : Option Rep) (s : Bool)
    (hn : name = none ∨ name = some []) :
    (implicitTag o parentName hasParent (.mk name v (some (a0 :: as)) c r s)).name
      = some (documentedImplicit o.inlineElements (implicitCtx o parentName hasParent)) := by
  rcases hn with h | h <;> subst h <;>
    simp only [implicitTag, isInlineName, lower_idem, lookup_elementMap, documentedImplicit, implicitCtx, List.isEmpty,
      Bool.and_self, if_true] <;>
    cases documentedMap (lower (if hasParent = true then parentName.getD [] else o.contextName.getD [])) <;> rfl

/-- a node that has a name, or no attributes, is left alone -/
theorem implicitTag_named (o : Options) (parentName : Option Str) (hasParent : Bool)
    (x : Ch) (xs : Str) (v : Option (List VTok)) (a : Option (List AAttr)) (c : List ANode) (r : Option Rep) (s : Bool) :
    implicitTag o parentName hasParent (.mk (some (x :: xs)) v a c r s) = .mk (some (x :: xs)) v a c r s := by
  unfold implicitTag; simp
theorem implicitTag_bare (o : Options) (parentName : Option Str) (hasParent : Bool)
    (name : Option Str) (v : Option (List VTok)) (c : List ANode) (r : Option Rep) (s : Bool) :
    implicitTag o parentName hasParent (.mk name v none c r s) = .mk name v none c r s := by
  unfold implicitTag; simp
end T
