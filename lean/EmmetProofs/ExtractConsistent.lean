import Emmet.Extract
/-! C11_consistent (prototype) on the real `extract` model: every result is consistent with the line. -/
namespace X

theorem dropWhile'_len (p : Ch → Bool) (l : Str) : (dropWhile' p l).1.length + (dropWhile' p l).2 = l.length := by
  induction l with
  | nil => simp [dropWhile']
  | cons x xs ih =>
    simp only [dropWhile']
    split
    · simp only [List.length_cons]; omega
    · simp

theorem offsetPast_le (r : Str) (m : Bool) : offsetPast r m ≤ r.length := by
  unfold offsetPast
  cases r with
  | nil => simp [dropWhile']
  | cons q rest =>
    simp only
    split
    · have := dropWhile'_len (fun ch => isCloseBrace ch m) rest
      simp only [List.length_cons]; omega
    · have := dropWhile'_len (fun ch => isCloseBrace ch m) (q :: rest)
      simp only [List.length_cons] at this ⊢; omega

theorem mainLoop_len (m : Bool) (fuel : Nat) (l : Str) (st : List Ch) :
    (mainLoop m fuel l st).1.length ≤ l.length := by
  fun_induction mainLoop m fuel l st <;> simp_all <;> omega

def isLeadOp (x : Ch) : Bool := x == 42 || x == 43 || x == 62 || x == 94

theorem stripLeading_spec (s : Str) :
    (∃ k, stripLeading s = s.drop k ∧ k ≤ s.length) ∧ (∀ x xs, stripLeading s = x :: xs → isLeadOp x = false) := by
  induction s with
  | nil => exact ⟨⟨0, by simp [stripLeading], by simp⟩, by intro x xs h; simp [stripLeading] at h⟩
  | cons y ys ih =>
    simp only [stripLeading]
    split
    · obtain ⟨⟨k, hk, hle⟩, h2⟩ := ih
      exact ⟨⟨k + 1, by simpa using hk, by simp; omega⟩, h2⟩
    · rename_i hnot
      refine ⟨⟨0, by simp, by simp⟩, ?_⟩
      intro x xs h
      cases h
      simp only [isLeadOp]
      simpa using hnot

theorem consumePair_find_len (op : Ch) (zs r : Str) (h : consumePair.find op zs = some r) : r.length ≤ zs.length := by
  induction zs with
  | nil => simp [consumePair.find] at h
  | cons z zs ih =>
    simp only [consumePair.find] at h
    split at h
    · cases h; simp
    · have := ih h; simp only [List.length_cons]; omega

theorem consumePair_len (cl op : Ch) (s r : Str) (h : consumePair cl op s = some r) : r.length < s.length := by
  cases s with
  | nil => simp [consumePair] at h
  | cons c ys =>
    simp only [consumePair] at h
    split at h
    · have := consumePair_find_len op ys r h; simp only [List.length_cons]; omega
    · cases h

theorem startOffsetLoop_le (rp : Str) (fuel : Nat) (l : Str) (n : Nat) (h : startOffsetLoop rp fuel l = some n) :
    n ≤ l.length := by
  induction fuel generalizing l with
  | zero => simp [startOffsetLoop] at h
  | succ f ih =>
    cases l with
    | nil => simp [startOffsetLoop] at h
    | cons x xs =>
      simp only [startOffsetLoop] at h
      split at h
      · rename_i r hr
        have hlen : r.length ≤ (x :: xs).length := by
          cases h1 : consumePair 93 91 (x :: xs) with
          | some r1 =>
            simp [h1] at hr; subst hr
            have := consumePair_len _ _ _ _ h1; omega
          | none =>
            simp [h1] at hr
            have := consumePair_len _ _ _ _ hr; omega
        have := ih r h
        omega
      · split at h
        · cases h; simp
        · have := ih xs h; simp only [List.length_cons]; omega

/-- **C11_consistent (prototype)**: the result fields are consistent with the line. -/
theorem extract_consistent (line : Str) (pos : Int) (o : Opts) (r : Result) (h : extract line pos o = some r) :
    r.stop ≤ line.length ∧ r.location ≤ r.stop ∧ r.start ≤ r.location ∧
    r.abbreviation = (line.take r.stop).drop r.location ∧
    (∀ x xs, r.abbreviation = x :: xs → isLeadOp x = false) := by
  unfold extract at h
  simp only at h
  -- name the pieces
  generalize hp0 : (min (line.length : Int) (max 0 pos)).toNat = p0 at h
  have hp0le : p0 ≤ line.length := by omega
  generalize hp : (if o.lookAhead = true then p0 + offsetPast (line.drop p0) o.markup else p0) = p at h
  have hple : p ≤ line.length := by
    have := offsetPast_le (line.drop p0) o.markup
    simp only [List.length_drop] at this
    split at hp <;> omega
  split at h
  · cases h
  · rename_i start hstart
    have hstartle : start ≤ p := by
      split at hstart
      · cases hstart; omega
      · have := startOffsetLoop_le _ _ _ _ hstart
        simp only [List.length_reverse, List.length_take] at this; omega
    generalize hml : mainLoop o.markup (((line.take p).reverse.take (p - start)).length + 1) ((line.take p).reverse.take (p - start)) [] = ml at h
    obtain ⟨rest, stack⟩ := ml
    have hrest : rest.length ≤ p - start := by
      have := mainLoop_len o.markup (((line.take p).reverse.take (p - start)).length + 1) ((line.take p).reverse.take (p - start)) []
      rw [hml] at this
      simp only [List.length_take, List.length_reverse] at this; omega
    simp only at h
    split at h
    · cases h
      simp only
      have htl : (line.take p).length = p := by simp only [List.length_take]; omega
      obtain ⟨⟨k, hk, hkle⟩, hhead⟩ := stripLeading_spec ((line.take p).drop (start + rest.length))
      have hrawlen : ((line.take p).drop (start + rest.length)).length = p - (start + rest.length) := by
        simp only [List.length_drop, List.length_take]; omega
      have habl : (stripLeading ((line.take p).drop (start + rest.length))).length = p - (start + rest.length) - k := by
        rw [hk]; simp only [List.length_drop]; omega
      refine ⟨hple, by omega, ?_, ?_, hhead⟩
      · split <;> omega
      · rw [habl, hk, List.drop_drop]
        congr 1
        omega
    · cases h

end X
