import EmmetProofs.CssScanOrder
import Emmet.Matcher.CssMatch
/-! C16, CSS matcher: for ANY source and ANY position, every range that `match`, `balanced_outward` and `balanced_inward` compute from
    the scanner's tokens satisfies `0 ≤ start ≤ end ≤ |source|` (the rule body of `match` included). Corollaries of the scanner
    theorems `scan_ranges` and `scan_sorted`. -/
namespace C

def ROK (n : Int) (r : Int × Int) : Prop := 0 ≤ r.1 ∧ r.1 ≤ r.2 ∧ r.2 ≤ n

theorem fwd_ge (src : Array Ch) (stop : Int) : ∀ (fuel : Nat) (s : Int), s ≤ innerRange.fwd src stop fuel s := by
  intro fuel
  induction fuel with
  | zero => intro s; simp [innerRange.fwd]
  | succ f ih =>
    intro s
    unfold innerRange.fwd
    split
    · have := ih (s + 1); omega
    · omega

theorem bwd_le (src : Array Ch) (s : Int) : ∀ (fuel : Nat) (e : Int), innerRange.bwd src s fuel e ≤ e := by
  intro fuel
  induction fuel with
  | zero => intro e; simp [innerRange.bwd]
  | succ f ih =>
    intro e
    unfold innerRange.bwd
    split
    · have := ih (e - 1); omega
    · omega

theorem innerRange_bounds {src : Array Ch} {a b : Int} {i : Int × Int} (h : innerRange src a b = some i) :
    a ≤ i.1 ∧ i.1 < i.2 ∧ i.2 ≤ b := by
  unfold innerRange at h
  simp only at h
  split at h
  · rename_i hlt
    cases h
    exact ⟨fwd_ge _ _ _ _, hlt, bwd_le _ _ _ _⟩
  · cases h

theorem innerRange_ok {src : Array Ch} {n a b : Int} {i : Int × Int} (h : innerRange src a b = some i) (ha : 0 ≤ a) (hb : b ≤ n) :
    ROK n i := by
  obtain ⟨h1, h2, h3⟩ := innerRange_bounds h
  exact ⟨by omega, by omega, by omega⟩

theorem pushR_ok {n : Int} {rs : List (Int × Int)} {r : Int × Int} (hrs : ∀ x ∈ rs, ROK n x) (hr : ROK n r) :
    ∀ x ∈ pushR rs r, ROK n x := by
  unfold pushR
  split
  · split
    · intro x hx; simp only [List.mem_cons] at hx; rcases hx with rfl | hx; exact hr; exact hrs x (by simp [hx])
    · exact hrs
  · split
    · intro x hx; simp only [List.mem_cons] at hx; rcases hx with rfl | hx; exact hr; exact hrs x hx
    · exact hrs

theorem propEnd_le {n : Int} {e : Ev} (h : EvOK n e) : e.stop ≤ propEnd e ∧ propEnd e ≤ n := by
  obtain ⟨h1, h2, h3, h4⟩ := h
  unfold propEnd
  split
  · rename_i hd
    have : e.delimiter ≠ -1 := by simpa using hd
    rcases h4 with h4 | h4
    · exact absurd h4 this
    · omega
  · omega

/-! ## match -/
def MROK (n : Int) (m : MatchResult) : Prop :=
  0 ≤ m.start ∧ m.start ≤ m.stop ∧ m.stop ≤ n ∧ 0 ≤ m.bodyStart ∧ m.bodyStart ≤ m.bodyEnd ∧ m.bodyEnd ≤ n

theorem matchLoop_ok (n pos : Int) : ∀ (evs : List Ev) (stack : List Rng) (pending : Option Rng),
    (∀ e ∈ evs, EvOK n e) → evs.Pairwise (fun a b => Le a b.start) →
    (∀ r ∈ stack, 0 ≤ r.1 ∧ 0 ≤ r.2.2 + 1 ∧ ∀ e ∈ evs, r.2.2 + 1 ≤ e.start) →
    (∀ p, pending = some p → 0 ≤ p.1) →
    ∀ m, matchLoop pos evs stack pending = some m → MROK n m := by
  intro evs
  induction evs with
  | nil => intro stack pending _ _ _ _ m h; simp [matchLoop] at h
  | cons ev evs ih =>
    intro stack pending hok hs hst hp m h
    have hev := hok ev (by simp)
    have hok' : ∀ e ∈ evs, EvOK n e := fun e he => hok e (by simp [he])
    obtain ⟨hhead, hs'⟩ := List.pairwise_cons.mp hs
    have hst' : ∀ r ∈ stack, 0 ≤ r.1 ∧ 0 ≤ r.2.2 + 1 ∧ ∀ e ∈ evs, r.2.2 + 1 ≤ e.start :=
      fun r hr => ⟨(hst r hr).1, (hst r hr).2.1, fun e he => (hst r hr).2.2 e (by simp [he])⟩
    unfold matchLoop at h
    split at h
    · -- selector
      rename_i ht
      refine ih _ none hok' hs' ?_ (by intro p hp; cases hp) m h
      intro r hr
      simp only [List.mem_cons] at hr
      rcases hr with rfl | hr
      · obtain ⟨a, b, c, d⟩ := hev
        refine ⟨a, by simp only; rcases d with d | d <;> omega, fun e he => (hhead e he).2 ht⟩
      · exact hst' r hr
    · -- blockEnd
      split at h
      · rename_i parent rest
        have hpar := hst parent (by simp)
        split at h
        · rename_i hc
          cases h
          simp only [Bool.and_eq_true, decide_eq_true_eq] at hc
          obtain ⟨a, b, c, d⟩ := hev
          have := hpar.2.2 ev (by simp)
          exact ⟨hpar.1, by simp only; omega, c, hpar.2.1, this, by simp only; omega⟩
        · exact ih rest none hok' hs' (fun r hr => hst' r (by simp [hr])) (by intro p hp; cases hp) m h
      · exact ih [] none hok' hs' (by intro r hr; cases hr) (by intro p hp; cases hp) m h
    · -- propertyName
      refine ih stack _ hok' hs' hst' ?_ m h
      intro p hp; cases hp; exact hev.1
    · -- propertyValue
      split at h
      · rename_i p
        have hp0 := hp p rfl
        split at h
        · rename_i hc
          cases h
          simp only [Bool.and_eq_true, decide_eq_true_eq] at hc
          obtain ⟨pe1, pe2⟩ := propEnd_le hev
          obtain ⟨a, b, c, d⟩ := hev
          exact ⟨hp0, by simp only; omega, pe2, a, b, c⟩
        · exact ih stack none hok' hs' hst' (by intro p hp; cases hp) m h
      · exact ih stack none hok' hs' hst' (by intro p hp; cases hp) m h

/-- **C16, CSS `match`**: for EVERY source and position, a reported match has `0 ≤ start ≤ end ≤ |source|` and a body range
    `0 ≤ body_start ≤ body_end ≤ |source|`. -/
theorem match_ranges (s : Str) (pos : Int) : ∀ m, matchLoop pos (scan s) [] none = some m → MROK s.length m :=
  matchLoop_ok s.length pos (scan s) [] none (scan_ranges s) (scan_sorted s) (by intro r hr; cases hr) (by intro p hp; cases hp)


/-! ## balanced_outward -/
theorem ruleRanges_ok {n pos : Int} {src : Array Ch} {sel close : Ev} {acc : List (Int × Int)}
    (hsel : 0 ≤ sel.start ∧ 0 ≤ sel.delimiter + 1) (hclose : EvOK n close) (hacc : ∀ x ∈ acc, ROK n x) :
    ∀ x ∈ ruleRanges src pos sel close acc, ROK n x := by
  unfold ruleRanges
  obtain ⟨a, b, c, d⟩ := hclose
  split
  · rename_i hc
    simp only [Bool.and_eq_true, decide_eq_true_eq] at hc
    simp only
    apply pushR_ok
    · split
      · rename_i i hi
        exact pushR_ok hacc (innerRange_ok hi hsel.2 (by omega))
      · exact hacc
    · exact ⟨hsel.1, by simp only; omega, c⟩
  · exact hacc

theorem declRanges_ok {n pos : Int} {name value : Ev} {acc : List (Int × Int)}
    (hname : 0 ≤ name.start) (hval : EvOK n value) (hacc : ∀ x ∈ acc, ROK n x) :
    ∀ x ∈ declRanges pos name value acc, ROK n x := by
  unfold declRanges
  obtain ⟨pe1, pe2⟩ := propEnd_le hval
  obtain ⟨a, b, c, d⟩ := hval
  split
  · rename_i hc
    simp only [Bool.and_eq_true, decide_eq_true_eq] at hc
    exact pushR_ok (pushR_ok hacc ⟨a, b, c⟩) ⟨hname, by simp only; omega, pe2⟩
  · exact hacc

theorem outwardLoop_ok (n pos : Int) (src : Array Ch) : ∀ (evs : List Ev) (stack : List Rng) (prop : Option Rng) (acc : List (Int × Int)),
    (∀ e ∈ evs, EvOK n e) → (∀ r ∈ stack, 0 ≤ r.1 ∧ 0 ≤ r.2.2 + 1) → (∀ p, prop = some p → 0 ≤ p.1) → (∀ x ∈ acc, ROK n x) →
    ∀ x ∈ outwardLoop src pos evs stack prop acc, ROK n x := by
  intro evs
  induction evs with
  | nil => intro stack prop acc _ _ _ hacc x hx; simp only [outwardLoop, List.mem_reverse] at hx; exact hacc x hx
  | cons ev evs ih =>
    intro stack prop acc hok hst hp hacc
    have hev := hok ev (by simp)
    have hok' : ∀ e ∈ evs, EvOK n e := fun e he => hok e (by simp [he])
    unfold outwardLoop
    split
    · -- selector
      refine ih _ none acc hok' ?_ (by intro p hp; cases hp) hacc
      intro r hr
      simp only [List.mem_cons] at hr
      rcases hr with rfl | hr
      · obtain ⟨a, b, c, d⟩ := hev
        exact ⟨a, by simp only; rcases d with d | d <;> omega⟩
      · exact hst r hr
    · -- blockEnd
      split
      · rename_i left rest
        have hl := hst left (by simp)
        have hacc' : ∀ x ∈ ruleRanges src pos (evOf left) ev acc, ROK n x := ruleRanges_ok (by simpa [evOf] using hl) hev hacc
        simp only
        split
        · intro x hx; simp only [List.mem_reverse] at hx; exact hacc' x hx
        · exact ih rest none _ hok' (fun r hr => hst r (by simp [hr])) (by intro p hp; cases hp) hacc'
      · split
        · intro x hx; simp only [List.mem_reverse] at hx; exact hacc x hx
        · exact ih [] none acc hok' (by intro r hr; cases hr) (by intro p hp; cases hp) hacc
    · -- propertyName
      refine ih stack _ acc hok' hst ?_ hacc
      intro p hp; cases hp; exact hev.1
    · -- propertyValue
      refine ih stack none _ hok' hst (by intro p hp; cases hp) ?_
      split
      · rename_i p
        exact declRanges_ok (by simpa [evOf] using hp p rfl) hev hacc
      · exact hacc

/-- **C16, CSS `balanced_outward`**: for EVERY source and position every listed range satisfies `0 ≤ start ≤ end ≤ |source|`. -/
theorem outward_ranges (s : Str) (pos : Int) : ∀ x ∈ outwardLoop s.toArray pos (scan s) [] none [], ROK s.length x :=
  outwardLoop_ok s.length pos s.toArray (scan s) [] none [] (scan_ranges s) (by intro r hr; cases hr) (by intro p hp; cases hp)
    (by intro x hx; cases hx)


/-! ## balanced_inward -/
def ChainOK (n : Int) (c : IRng) : Prop := 0 ≤ c.1 ∧ c.1 ≤ c.2.1 ∧ c.2.1 ≤ n ∧ 0 ≤ c.2.2 + 1

/-- a pending rule / declaration on the inward stack, relative to the events still to come -/
def IROK (n : Int) (evs : List Ev) (r : IR) : Prop :=
  0 ≤ r.start ∧ 0 ≤ r.delimiter + 1 ∧ (∀ e ∈ evs, r.start ≤ e.start) ∧ ∀ c ∈ r.chain, ChainOK n c

theorem IROK.tail {n : Int} {e : Ev} {evs : List Ev} {r : IR} (h : IROK n (e :: evs) r) : IROK n evs r :=
  ⟨h.1, h.2.1, fun x hx => h.2.2.1 x (by simp [hx]), h.2.2.2⟩

theorem chainStep_ok {n : Int} {src : Array Ch} {acc : List (Int × Int)} {c : IRng} (hacc : ∀ x ∈ acc, ROK n x) (hc : ChainOK n c) :
    ∀ x ∈ chainStep src acc c, ROK n x := by
  unfold chainStep
  obtain ⟨a, b, d, e⟩ := hc
  simp only
  split
  · rename_i i hi
    exact pushR_ok (pushR_ok hacc ⟨a, b, d⟩) (innerRange_ok hi e (by omega))
  · exact pushR_ok hacc ⟨a, b, d⟩

theorem chainI_ok {n : Int} {src : Array Ch} : ∀ (chain : List IRng) (acc : List (Int × Int)), (∀ x ∈ acc, ROK n x) →
    (∀ c ∈ chain, ChainOK n c) → ∀ x ∈ chainI src chain acc, ROK n x := by
  intro chain
  induction chain with
  | nil => intro acc hacc _; simpa [chainI] using hacc
  | cons c cs ih =>
    intro acc hacc hc
    simp only [chainI, List.foldl_cons]
    exact ih _ (chainStep_ok hacc (hc c (by simp))) (fun x hx => hc x (by simp [hx]))

theorem setFirstIfNone_ok {n : Int} {evs : List Ev} {r c : IR} (hr : IROK n evs r)
    (hc : ChainOK n (c.start, c.stop, c.delimiter)) (hcc : ∀ x ∈ c.chain, ChainOK n x) : IROK n evs (r.setFirstIfNone c) := by
  unfold IR.setFirstIfNone
  split
  · refine ⟨hr.1, hr.2.1, hr.2.2.1, ?_⟩
    intro x hx
    simp only [List.mem_cons] at hx
    rcases hx with rfl | hx
    · exact hc
    · exact hcc x hx
  · exact hr

theorem updFirstEnd_ok {n : Int} {evs : List Ev} {r : IR} {ps e : Int} (hr : IROK n evs r) (h1 : ps ≤ e) (h2 : e ≤ n) :
    IROK n evs (r.updFirstEnd ps e) := by
  unfold IR.updFirstEnd
  split
  · rename_i cs ce cd rest hch
    have hc := hr.2.2.2
    rw [hch] at hc
    split
    · rename_i heq
      have : cs = ps := by simpa using heq
      refine ⟨hr.1, hr.2.1, hr.2.2.1, ?_⟩
      intro x hx
      simp only [List.mem_cons] at hx
      rcases hx with rfl | hx
      · obtain ⟨a, b, c, d⟩ := hc (cs, ce, cd) (by simp)
        exact ⟨a, by simp only; omega, h2, d⟩
      · exact hc x (by simp [hx])
    · refine ⟨hr.1, hr.2.1, hr.2.2.1, ?_⟩
      simpa using hc
  · exact hr

theorem inwardLoop_ok (n pos : Int) (src : Array Ch) : ∀ (evs : List Ev) (stack : List IR) (pending : Option IR),
    (∀ e ∈ evs, EvOK n e) → evs.Pairwise (fun a b => Le a b.start) → (∀ r ∈ stack, IROK n evs r) →
    (∀ p, pending = some p → 0 ≤ p.start ∧ ∀ e ∈ evs, p.start ≤ e.start) →
    ∀ x ∈ inwardLoop src pos evs stack pending, ROK n x := by
  intro evs
  induction evs with
  | nil => intro stack pending _ _ _ _ x hx; simp [inwardLoop] at hx
  | cons ev evs ih =>
    intro stack pending hok hs hst hp
    have hev := hok ev (by simp)
    have hok' : ∀ e ∈ evs, EvOK n e := fun e he => hok e (by simp [he])
    obtain ⟨hhead, hs'⟩ := List.pairwise_cons.mp hs
    have hst' : ∀ r ∈ stack, IROK n evs r := fun r hr => (hst r hr).tail
    have nop : ∀ p, (none : Option IR) = some p → 0 ≤ p.start ∧ ∀ e ∈ evs, p.start ≤ e.start := by intro p hp; cases hp
    obtain ⟨pe1, pe2⟩ := propEnd_le hev
    obtain ⟨e1, e2, e3, e4⟩ := hev
    have hd : 0 ≤ ev.delimiter + 1 := by rcases e4 with d | d <;> omega
    unfold inwardLoop
    split
    · -- blockEnd
      split
      · exact ih [] none hok' hs' (by intro r hr; cases hr) nop
      · rename_i r rest
        have hr := hst r (by simp)
        have hrs := hr.2.2.1 ev (by simp)
        split
        · rename_i hc
          simp only [Bool.and_eq_true, decide_eq_true_eq] at hc
          simp only
          intro x hx
          simp only [List.mem_reverse] at hx
          refine chainI_ok r.chain _ ?_ hr.2.2.2 x hx
          have h1 : ∀ x ∈ pushR [] (r.start, ev.stop), ROK n x :=
            pushR_ok (by intro x hx; cases hx) ⟨hr.1, by simp only; omega, e3⟩
          split
          · rename_i i hi
            exact pushR_ok h1 (innerRange_ok hi hr.2.1 (by omega))
          · exact h1
        · split
          · rename_i parent rest'
            refine ih _ none hok' hs' ?_ nop
            intro q hq
            simp only [List.mem_cons] at hq
            rcases hq with rfl | hq
            · exact setFirstIfNone_ok (hst' parent (by simp)) ⟨hr.1, by simp only [IR.withEnd]; omega, by simpa [IR.withEnd] using e3, by simpa [IR.withEnd] using hr.2.1⟩
                (by simpa [IR.withEnd] using hr.2.2.2)
            · exact hst' q (by simp [hq])
          · exact ih [] none hok' hs' (by intro r hr; cases hr) nop
    · -- propertyName
      have hpn : ∀ p, some ({ start := ev.start, stop := ev.stop, delimiter := ev.delimiter } : IR) = some p →
          0 ≤ p.start ∧ ∀ e ∈ evs, p.start ≤ e.start := by
        intro p hp; cases hp; exact ⟨e1, fun e he => (hhead e he).1⟩
      simp only
      split
      · rename_i parent rest
        refine ih _ _ hok' hs' ?_ hpn
        intro q hq
        simp only [List.mem_cons] at hq
        rcases hq with rfl | hq
        · exact setFirstIfNone_ok (hst' parent (by simp)) ⟨e1, e2, e3, hd⟩ (by intro x hx; cases hx)
        · exact hst' q (by simp [hq])
      · exact ih [] _ hok' hs' (by intro r hr; cases hr) hpn
    · -- propertyValue
      split
      · rename_i p
        obtain ⟨p0, p1⟩ := hp p rfl
        have := p1 ev (by simp)
        split
        · intro x hx
          simp only [List.mem_reverse] at hx
          exact pushR_ok (pushR_ok (by intro x hx; cases hx) ⟨p0, by simp only; omega, pe2⟩) ⟨e1, e2, e3⟩ x hx
        · split
          · rename_i parent rest
            refine ih _ none hok' hs' ?_ nop
            intro q hq
            simp only [List.mem_cons] at hq
            rcases hq with rfl | hq
            · exact updFirstEnd_ok (hst' parent (by simp)) (by omega) pe2
            · exact hst' q (by simp [hq])
          · exact ih [] none hok' hs' (by intro r hr; cases hr) nop
      · exact ih stack none hok' hs' hst' nop
    · -- selector
      refine ih _ none hok' hs' ?_ nop
      intro q hq
      simp only [List.mem_cons] at hq
      rcases hq with rfl | hq
      · exact ⟨e1, hd, fun e he => (hhead e he).1, by intro x hx; cases hx⟩
      · exact hst' q hq

/-- **C16, CSS `balanced_inward`**: for EVERY source and position every listed range satisfies `0 ≤ start ≤ end ≤ |source|`. -/
theorem inward_ranges (s : Str) (pos : Int) : ∀ x ∈ inwardLoop s.toArray pos (scan s) [] none, ROK s.length x :=
  inwardLoop_ok s.length pos s.toArray (scan s) [] none (scan_ranges s) (scan_sorted s) (by intro r hr; cases hr) (by intro p hp; cases hp)

end C
