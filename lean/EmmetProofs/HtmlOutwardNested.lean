import EmmetProofs.HtmlMatchHead
import EmmetProofs.HtmlScan
namespace H

def Matched.start (m : Matched) : Nat := m.openR.1
def Matched.stop (m : Matched) : Nat := match m.closeR with | some c => c.2 | none => m.openR.2
/-- `b` strictly contains `a` -/
def Matched.Inside (a b : Matched) : Prop := b.start < a.start ∧ a.stop < b.stop

/-- events in document order: non-empty, each ending at or before the start of every later one -/
def SortedEv : List Ev → Prop
  | [] => True
  | e :: rest => e.start < e.stop ∧ (∀ e' ∈ rest, e.stop ≤ e'.start) ∧ SortedEv rest

structure OInv (pos : Int) (evs : List Ev) (stack : List Tag) (acc : List Matched) : Prop where
  sorted : SortedEv evs
  stackBefore : ∀ t ∈ stack, ∀ e ∈ evs, t.stop ≤ e.start
  stackNE : ∀ t ∈ stack, t.start < t.stop
  stackOrd : stack.Pairwise (fun upper lower => lower.start < upper.start)
  accBefore : ∀ m ∈ acc, ∀ e ∈ evs, m.stop ≤ e.start
  accStack : ∀ m ∈ acc, ∀ t ∈ stack, t.start < m.start ∨ m.stop ≤ t.start
  accPos : ∀ m ∈ acc, (m.start : Int) < pos ∧ pos < (m.stop : Int)
  chain : acc.Pairwise (fun later earlier => earlier.Inside later)

theorem outward_nested_acc (xml : Bool) (pos : Int) : ∀ (evs : List Ev) (stack : List Tag) (acc : List Matched),
    OInv pos evs stack acc → (outwardLoop xml pos evs stack acc).reverse.Pairwise (fun later earlier => earlier.Inside later) := by
  intro evs
  induction evs with
  | nil => intro stack acc h; simpa [outwardLoop] using h.chain
  | cons ev evs ih =>
    intro stack acc h
    have hs := h.sorted
    have hev : ev.start < ev.stop := hs.1
    have hlater : ∀ e' ∈ evs, ev.stop ≤ e'.start := hs.2.1
    have hsorted' : SortedEv evs := hs.2.2
    have hsb' : ∀ t ∈ stack, ∀ e ∈ evs, t.stop ≤ e.start := fun t ht e he => h.stackBefore t ht e (List.mem_cons_of_mem _ he)
    have hab' : ∀ m ∈ acc, ∀ e ∈ evs, m.stop ≤ e.start := fun m hm e he => h.accBefore m hm e (List.mem_cons_of_mem _ he)
    -- the state after skipping `ev` without touching stack / acc
    have hskip : OInv pos evs stack acc := ⟨hsorted', hsb', h.stackNE, h.stackOrd, hab', h.accStack, h.accPos, h.chain⟩
    unfold outwardLoop
    by_cases hc : (ev.type == .close) = true
    · simp only [hc, if_true]
      cases stack with
      | nil => exact ih [] acc hskip
      | cons tag rest =>
        have hrest : OInv pos evs rest acc :=
          ⟨hsorted', fun t ht => hsb' t (List.mem_cons_of_mem _ ht), fun t ht => h.stackNE t (List.mem_cons_of_mem _ ht),
            (List.pairwise_cons.mp h.stackOrd).2, hab', fun m hm t ht => h.accStack m hm t (List.mem_cons_of_mem _ ht), h.accPos, h.chain⟩
        by_cases hn : (tag.name == ev.name) = true
        · simp only [hn, if_true]
          by_cases hp : ((tag.start : Int) < pos && pos < ev.stop) = true
          · simp only [hp, if_true]
            simp only [Bool.and_eq_true, decide_eq_true_eq] at hp
            apply ih
            have htag_ev : tag.stop ≤ ev.start := h.stackBefore tag (List.mem_cons_self ..) ev (List.mem_cons_self ..)
            have htag_ne : tag.start < tag.stop := h.stackNE tag (List.mem_cons_self ..)
            refine ⟨hsorted', hrest.stackBefore, hrest.stackNE, hrest.stackOrd, ?_, ?_, ?_, ?_⟩
            · intro m hm e he
              rcases List.mem_cons.mp hm with rfl | hm
              · exact hlater e he
              · exact hab' m hm e he
            · intro m hm t ht
              rcases List.mem_cons.mp hm with rfl | hm
              · left; exact (List.pairwise_cons.mp h.stackOrd).1 t ht
              · exact h.accStack m hm t (List.mem_cons_of_mem _ ht)
            · intro m hm
              rcases List.mem_cons.mp hm with rfl | hm
              · exact hp
              · exact h.accPos m hm
            · refine List.pairwise_cons.mpr ⟨?_, h.chain⟩
              intro m hm
              have hmb : m.stop ≤ ev.start := h.accBefore m hm ev (List.mem_cons_self ..)
              have hmp := h.accPos m hm
              constructor
              · show tag.start < m.start
                rcases h.accStack m hm tag (List.mem_cons_self ..) with h1 | h1
                · exact h1
                · exfalso; have : (m.stop : Int) ≤ tag.start := by exact_mod_cast h1
                  omega
              · show m.stop < ev.stop
                omega
          · simp only [hp]; exact ih rest acc hrest
        · simp only [hn]; exact ih (tag :: rest) acc hskip
    · simp only [hc]
      by_cases hsc : (ev.type == .selfClose || isSelfClose ev.name xml) = true
      · simp only [hsc, if_true]
        by_cases hp : ((ev.start : Int) < pos && pos < ev.stop) = true
        · simp only [hp, if_true]
          simp only [Bool.and_eq_true, decide_eq_true_eq] at hp
          apply ih
          -- nothing found so far can contain the position: it ended before this tag began
          have hempty : acc = [] := by
            cases acc with
            | nil => rfl
            | cons m ms =>
              exfalso
              have hmb : m.stop ≤ ev.start := h.accBefore m (List.mem_cons_self ..) ev (List.mem_cons_self ..)
              have hmp := h.accPos m (List.mem_cons_self ..)
              have : (m.stop : Int) ≤ ev.start := by exact_mod_cast hmb
              omega
          subst hempty
          refine ⟨hsorted', hsb', h.stackNE, h.stackOrd, ?_, ?_, ?_, ?_⟩
          · intro m hm e he; simp at hm; subst hm; exact hlater e he
          · intro m hm t ht; simp at hm; subst hm
            left
            have := h.stackBefore t ht ev (List.mem_cons_self ..)
            have := h.stackNE t ht
            show t.start < ev.start
            omega
          · intro m hm; simp at hm; subst hm; exact hp
          · simp
        · simp only [hp]; exact ih stack acc hskip
      · simp only [hsc]
        apply ih
        refine ⟨hsorted', ?_, ?_, ?_, hab', ?_, h.accPos, h.chain⟩
        · intro t ht e he
          rcases List.mem_cons.mp ht with rfl | ht
          · exact hlater e he
          · exact hsb' t ht e he
        · intro t ht
          rcases List.mem_cons.mp ht with rfl | ht
          · exact hev
          · exact h.stackNE t ht
        · refine List.pairwise_cons.mpr ⟨?_, h.stackOrd⟩
          intro t ht
          have := h.stackBefore t ht ev (List.mem_cons_self ..)
          have := h.stackNE t ht
          show t.start < ev.start
          omega
        · intro m hm t ht
          rcases List.mem_cons.mp ht with rfl | ht
          · right; exact h.accBefore m hm ev (List.mem_cons_self ..)
          · exact h.accStack m hm t ht
theorem sortedEv_append_single : ∀ (l : List Ev) (e : Ev), SortedEv l → (∀ x ∈ l, x.stop ≤ e.start) → e.start < e.stop →
    SortedEv (l ++ [e]) := by
  intro l
  induction l with
  | nil => intro e _ _ he; exact ⟨he, by simp, trivial⟩
  | cons x xs ih =>
    intro e hs hall he
    refine ⟨hs.1, ?_, ih e hs.2.2 (fun y hy => hall y (List.mem_cons_of_mem _ hy)) he⟩
    intro e' he'
    rcases List.mem_append.mp he' with h | h
    · exact hs.2.1 e' h
    · simp at h; subst h; exact hall x (List.mem_cons_self ..)

theorem goodRev_sorted (orig : Str) : ∀ (acc : List Ev) (b : Nat), GoodRev orig acc b →
    SortedEv acc.reverse ∧ ∀ e ∈ acc, e.stop ≤ b := by
  intro acc
  induction acc with
  | nil => intro b _; exact ⟨trivial, by simp⟩
  | cons e rest ih =>
    intro b h
    obtain ⟨hwf, hb, hrest⟩ := h
    obtain ⟨hs, hall⟩ := ih e.start hrest
    constructor
    · rw [List.reverse_cons]
      exact sortedEv_append_single _ e hs (fun x hx => hall x (List.mem_reverse.mp hx)) hwf.1
    · intro x hx
      rcases List.mem_cons.mp hx with rfl | hx
      · exact hb
      · have := hall x hx; have := hwf.1; omega

/-- successive `balanced_outward` entries strictly contain each other — for EVERY source, position and mode -/
theorem outward_nested (xml : Bool) (pos : Int) (s : Str) (special : List (Str × Option (List Str))) :
    (outwardLoop xml pos (scan s special) [] []).Pairwise (fun inner outer => inner.Inside outer) := by
  obtain ⟨acc', hscan, hgood⟩ := scan_good s special
  have hsorted := (goodRev_sorted s acc' s.length hgood).1
  rw [← hscan] at hsorted
  have h := outward_nested_acc xml pos (scan s special) [] []
    ⟨hsorted, by simp, by simp, List.Pairwise.nil, by simp, by simp, by simp, List.Pairwise.nil⟩
  have := List.pairwise_reverse.mp h
  exact this
end H
