import Emmet.Markup.Back
import EmmetProofs.MergeAbstract
/-! C03: the CONCRETE model of `merge_attributes` (`T.mergeAttributes`) is the declarative group-by-name of `MergeAbstract`, and the
    per-field readings of the statement hold of its merge function. -/
namespace T

/-- the name an attribute is looked up by: `none` for a missing or empty name -/
def keyA (a : AAttr) : Option Str :=
  match a.name with
  | some nm => if nm.isEmpty then none else some nm
  | none => none

/-- what `merge_attributes` does with an earlier attribute `prev` and a later mention `a` of the same name -/
def mA (o : Options) (prev a : AAttr) : AAttr :=
  if a.name == some (lit "class") then { prev with value := mergeValue prev.value a.value }
  else
    { prev with
      value := if o.reverseAttributes then prev.value else a.value
      implied := prev.implied || a.implied
      boolean := prev.boolean || a.boolean
      valueType := if prev.valueType == .expression then prev.valueType else a.valueType }

theorem mA_name (o : Options) (p a : AAttr) : (mA o p a).name = p.name := by
  unfold mA
  split <;> rfl

theorem mA_key (o : Options) (p a : AAttr) : keyA (mA o p a) = keyA p := by
  unfold keyA
  rw [mA_name]

theorem keyA_some {r : AAttr} {nm : Str} (hne : nm.isEmpty = false) : keyA r = some nm ↔ r.name = some nm := by
  unfold keyA
  constructor
  · intro h
    cases hr : r.name with
    | none => simp [hr] at h
    | some x =>
      simp only [hr] at h
      split at h
      · cases h
      · simp only [Option.some.injEq] at h; rw [h]
  · intro h
    simp [h, hne]

/-- the index-based update of the model is the key-based update of the abstract loop -/
theorem upd_findIdx (a : AAttr) (f : AAttr → AAttr) (nm : Str) (hne : nm.isEmpty = false) : ∀ (res : List AAttr),
    Mg.upd keyA nm f res =
      (match res.findIdx? (fun r => r.name == some nm) with
       | some i => some (res.set i (f (res.getD i a)))
       | none => none) := by
  intro res
  induction res with
  | nil => simp [Mg.upd]
  | cons r rs ih =>
    simp only [Mg.upd, List.findIdx?_cons]
    by_cases hr : (r.name == some nm) = true
    · have : keyA r = some nm := (keyA_some hne).mpr (by simpa using hr)
      simp [hr, this]
    · have : ¬ keyA r = some nm := fun h => hr (by simpa using (keyA_some hne).mp h)
      simp only [this, if_false, hr, Bool.false_eq_true]
      rw [ih]
      cases rs.findIdx? (fun r => r.name == some nm) with
      | none => simp
      | some i => simp

theorem go_eq (o : Options) : ∀ (attrs res : List AAttr), mergeAttributes.go o attrs res = Mg.go keyA (mA o) attrs res := by
  intro attrs
  induction attrs with
  | nil => intro res; simp [mergeAttributes.go, Mg.go]
  | cons a rest ih =>
    intro res
    unfold mergeAttributes.go Mg.go
    cases hn : a.name with
    | none => simp only [keyA, hn]; exact ih _
    | some nm =>
      simp only
      by_cases he : nm.isEmpty = true
      · simp only [he, if_true, keyA, hn]; exact ih _
      · have he' : nm.isEmpty = false := by simpa using he
        simp only [he', Bool.false_eq_true, if_false, keyA, hn]
        rw [upd_findIdx a (fun r => mA o r a) nm he' res]
        cases hf : res.findIdx? (fun r => r.name == some nm) with
        | none => simp only; exact ih _
        | some i =>
          simp only
          have : mA o (res.getD i a) a =
              (if nm == lit "class" then { (res.getD i a) with value := mergeValue (res.getD i a).value a.value }
               else { (res.getD i a) with
                      value := if o.reverseAttributes then (res.getD i a).value else a.value
                      implied := (res.getD i a).implied || a.implied
                      boolean := (res.getD i a).boolean || a.boolean
                      valueType := if (res.getD i a).valueType == .expression then (res.getD i a).valueType else a.valueType }) := by
            unfold mA
            simp only [hn]
            by_cases hc : (nm == lit "class") = true
            · have : (some nm == some (lit "class")) = true := by simpa using hc
              simp [hc, this]
            · have : (some nm == some (lit "class")) = false := by simpa using hc
              simp [hc, this]
          rw [this]
          exact ih _

/-- **C03, concrete model**: `merge_attributes` = names in order of first mention, each first mention merged (left to right) with
    every later mention of its name, attributes without a name untouched. -/
theorem mergeAttributes_spec (o : Options) (attrs : List AAttr) :
    mergeAttributes o attrs = Mg.specL keyA (mA o) attrs := by
  unfold mergeAttributes
  rw [go_eq]
  exact Mg.merge_eq_spec keyA (mA o) (mA_key o) attrs


/-! ## what the merge function does to each field -/
def isClass (a : AAttr) : Bool := a.name == some (lit "class")

theorem fold_nonclass (o : Options) : ∀ (ms : List AAttr) (a : AAttr), (∀ b ∈ ms, isClass b = false) →
    (ms.foldl (mA o) a).name = a.name ∧
    (ms.foldl (mA o) a).value = (if o.reverseAttributes then a.value else ((ms.getLast?.map (·.value)).getD a.value)) ∧
    (ms.foldl (mA o) a).implied = (a.implied || ms.any (·.implied)) ∧
    (ms.foldl (mA o) a).boolean = (a.boolean || ms.any (·.boolean)) ∧
    (ms.foldl (mA o) a).multiple = a.multiple := by
  intro ms
  induction ms with
  | nil => intro a _; simp
  | cons b bs ih =>
    intro a h
    have hb : (b.name == some (lit "class")) = false := h b (by simp)
    obtain ⟨i1, i2, i3, i4, i5⟩ := ih (mA o a b) (fun x hx => h x (by simp [hx]))
    have e : mA o a b = { a with
        value := if o.reverseAttributes then a.value else b.value
        implied := a.implied || b.implied
        boolean := a.boolean || b.boolean
        valueType := if a.valueType == .expression then a.valueType else b.valueType } := by
      unfold mA; simp [hb]
    simp only [List.foldl_cons]
    refine ⟨by rw [i1, e], ?_, by rw [i3, e]; simp [Bool.or_assoc], by rw [i4, e]; simp [Bool.or_assoc], by rw [i5, e]⟩
    rw [i2, e]
    by_cases hr : o.reverseAttributes = true
    · simp [hr]
    · simp only [hr, Bool.false_eq_true, if_false]
      cases bs with
      | nil => simp
      | cons c cs =>
        simp only [List.getLast?_cons_cons]
        cases hh : (c :: cs).getLast? with
        | none => simp at hh
        | some x => simp

theorem fold_class (o : Options) : ∀ (ms : List AAttr) (a : AAttr), (∀ b ∈ ms, isClass b = true) →
    (ms.foldl (mA o) a).name = a.name ∧
    (ms.foldl (mA o) a).value = ms.foldl (fun v b => mergeValue v b.value) a.value ∧
    (ms.foldl (mA o) a).implied = a.implied ∧ (ms.foldl (mA o) a).boolean = a.boolean := by
  intro ms
  induction ms with
  | nil => intro a _; simp
  | cons b bs ih =>
    intro a h
    have hb : (b.name == some (lit "class")) = true := h b (by simp)
    obtain ⟨i1, i2, i3, i4⟩ := ih (mA o a b) (fun x hx => h x (by simp [hx]))
    have e : mA o a b = { a with value := mergeValue a.value b.value } := by unfold mA; simp [hb]
    simp only [List.foldl_cons]
    exact ⟨by rw [i1, e], by rw [i2, e], by rw [i3, e], by rw [i4, e]⟩

/-- the later mentions that are merged into `a` carry `a`'s name -/
theorem same_name (a b : AAttr) (h : Mg.same keyA a b = true) : ∃ nm, nm.isEmpty = false ∧ a.name = some nm ∧ b.name = some nm := by
  unfold Mg.same at h
  simp only [Bool.and_eq_true, decide_eq_true_eq] at h
  obtain ⟨h1, h2⟩ := h
  cases hk : keyA a with
  | none => simp [hk] at h2
  | some nm =>
    have hne : nm.isEmpty = false := by
      unfold keyA at hk
      split at hk
      · split at hk
        · cases hk
        · rename_i hh; simp only [Option.some.injEq] at hk; subst hk; simpa using hh
      · cases hk
    exact ⟨nm, hne, (keyA_some hne).mp hk, (keyA_some hne).mp (h1.trans hk)⟩

/-- **any other repeated attribute**: the last value wins (the first one under `reverseAttributes`), the flags are or-ed -/
theorem absorb_other (o : Options) (a : AAttr) (later : List AAttr) (hc : isClass a = false) :
    let ms := later.filter (Mg.same keyA a)
    let r := Mg.absorb keyA (mA o) a later
    r.name = a.name ∧
    r.value = (if o.reverseAttributes then a.value else ((ms.getLast?.map (·.value)).getD a.value)) ∧
    r.implied = (a.implied || ms.any (·.implied)) ∧ r.boolean = (a.boolean || ms.any (·.boolean)) := by
  intro ms r
  have hms : ∀ b ∈ ms, isClass b = false := by
    intro b hb
    obtain ⟨nm, _, ha, hbn⟩ := same_name a b (List.mem_filter.mp hb).2
    unfold isClass at hc ⊢
    rw [hbn]; rw [ha] at hc; exact hc
  obtain ⟨h1, h2, h3, h4, _⟩ := fold_nonclass o ms a hms
  exact ⟨h1, h2, h3, h4⟩

/-- **class**: the values of all mentions are merged in the order written -/
theorem absorb_class (o : Options) (a : AAttr) (later : List AAttr) (hc : isClass a = true) :
    let ms := later.filter (Mg.same keyA a)
    let r := Mg.absorb keyA (mA o) a later
    r.name = a.name ∧ r.value = ms.foldl (fun v b => mergeValue v b.value) a.value := by
  intro ms r
  have hms : ∀ b ∈ ms, isClass b = true := by
    intro b hb
    obtain ⟨nm, _, ha, hbn⟩ := same_name a b (List.mem_filter.mp hb).2
    unfold isClass at hc ⊢
    rw [hbn]; rw [ha] at hc; exact hc
  obtain ⟨h1, h2, _, _⟩ := fold_class o ms a hms
  exact ⟨h1, h2⟩

/-- class values that are plain words are joined by single spaces -/
theorem mergeValue_words (x y : Str) : mergeValue (some [.str x]) (some [.str y]) = some [.str (x ++ [32] ++ y)] := by
  simp [mergeValue, appendTok, List.append_assoc]

theorem class_words (x : Str) : ∀ (ys : List Str),
    ys.foldl (fun v y => mergeValue v (some [.str y])) (some [.str x]) = some [.str (ys.foldl (fun acc y => acc ++ [32] ++ y) x)] := by
  intro ys
  induction ys generalizing x with
  | nil => rfl
  | cons y ys ih =>
    simp only [List.foldl_cons]
    rw [mergeValue_words x y]
    exact ih (x ++ [32] ++ y)

end T
