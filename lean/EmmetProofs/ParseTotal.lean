import Emmet.Abbr.Parser
/-! C07, parser stage: for every token list whose literals are non-empty, `parseTokens` returns a tree or a
    token error — never `fuel`, never an internal error. -/
namespace T

theorem pLiteral_spec (allow : Bool) (ts : List Tok) (ba be bg : Int) (acc : List Tok) :
    (pLiteral allow ts ba be bg acc).2 <:+ ts ∧
    (pLiteral allow ts ba be bg acc).1.length + (pLiteral allow ts ba be bg acc).2.length = acc.length + ts.length := by
  fun_induction pLiteral allow ts ba be bg acc <;>
    simp_all [List.suffix_refl] <;>
    (rename_i ih; exact ⟨ih.1.trans (List.suffix_cons _ _), by omega⟩)

def Lt (r ts : List Tok) : Prop := r <:+ ts ∧ r.length < ts.length
theorem Lt.le {r ts : List Tok} (h : Lt r ts) : r <:+ ts := h.1
theorem Lt.of_cons (t : Tok) (ts : List Tok) : Lt ts (t :: ts) := ⟨List.suffix_cons _ _, by simp⟩
theorem Lt.trans_le {a b c : List Tok} (h : Lt a b) (h2 : b <:+ c) : Lt a c := ⟨h.1.trans h2, by have := h2.length_le; have := h.2; omega⟩
theorem Lt.le_trans {a b c : List Tok} (h : a <:+ b) (h2 : Lt b c) : Lt a c := ⟨h.trans h2.1, by have := h.length_le; have := h2.2; omega⟩

def OKErr : PErr → Prop | .token _ => True | _ => False
/-- the result is a value satisfying `P`, or a token error -/
def Res {α : Type} (x : PM α) (P : α → Prop) : Prop := match x with | .ok a => P a | .error e => OKErr e

theorem Res.bind {α β : Type} {x : PM α} {f : α → PM β} {P : α → Prop} {Q : β → Prop}
    (hx : Res x P) (hf : ∀ a, P a → Res (f a) Q) : Res (x >>= f) Q := by
  cases x with
  | error e => exact hx
  | ok a => exact hf a hx
theorem Res.ok {α : Type} {a : α} {P : α → Prop} (h : P a) : Res (.ok a : PM α) P := h
theorem Res.pure {α : Type} {a : α} {P : α → Prop} (h : P a) : Res (pure a : PM α) P := h
theorem Res.mono {α : Type} {x : PM α} {P Q : α → Prop} (hx : Res x P) (h : ∀ a, P a → Q a) : Res x Q := by
  cases x with
  | error e => exact hx
  | ok a => exact h a hx

theorem quotedLoop_spec (single : Bool) (ts acc : List Tok) :
    ∀ c r, quotedLoop single ts acc = some (c, r) → Lt r ts := by
  induction ts generalizing acc with
  | nil => intro c r h; simp [quotedLoop] at h
  | cons t ts ih =>
    intro c r h
    simp only [quotedLoop] at h
    split at h
    · cases h; exact Lt.of_cons _ _
    · exact (ih _ c r h).trans_le (List.suffix_cons _ _)

/-- a parser result that, when present, strictly shrinks the input -/
def OptLt {α : Type} (ts : List Tok) : Option (α × List Tok) → Prop
  | none => True
  | some (_, r) => Lt r ts

theorem pQuoted_spec (ts : List Tok) : Res (pQuoted ts) (OptLt ts) := by
  unfold pQuoted
  split
  · rename_i q ts'
    split
    · rename_i single _
      split
      · rename_i r heq
        obtain ⟨c, r⟩ := r
        exact (quotedLoop_spec single ts' [q] c r heq).trans_le (List.suffix_cons _ _)
      · trivial
    · trivial
  · trivial

theorem textLoop_spec (ts : List Tok) (depth : Nat) (acc : List Tok) : (textLoop ts depth acc).2 <:+ ts := by
  fun_induction textLoop ts depth acc <;>
    (first | exact List.suffix_refl _ | exact List.suffix_cons _ _ | (rename_i ih; exact ih.trans (List.suffix_cons _ _)))

theorem pText_spec (ts : List Tok) : OptLt ts (pText ts) := by
  unfold pText
  split
  · split
    · exact Lt.le_trans (textLoop_spec _ _ _) (Lt.of_cons _ _)
    · trivial
  · trivial

theorem dropOps_spec (k : OpKind) (ts : List Tok) (n : Nat) : (dropOps k ts n).2 <:+ ts := by
  fun_induction dropOps k ts n <;>
    (first | exact List.suffix_refl _ | exact List.suffix_cons _ _ | (rename_i ih; exact ih.trans (List.suffix_cons _ _)))

theorem pShortAttribute_spec (k : OpKind) (nm : String) (jsx : Bool) (ts : List Tok) :
    OptLt ts (pShortAttribute k nm jsx ts) := by
  unfold pShortAttribute
  split
  · rename_i t ts'
    split
    · have hd := dropOps_spec k ts' 1
      simp only
      split
      · rename_i consumed r2 heq
        split at heq
        · have := pText_spec (dropOps k ts' 1).2
          rw [heq] at this
          exact (this.trans_le hd).trans_le (List.suffix_cons _ _)
        · cases heq
      · have := (pLiteral_spec false (dropOps k ts' 1).2 0 0 0 []).1
        exact Lt.le_trans (this.trans hd) (Lt.of_cons _ _)
    · trivial
  · trivial
theorem pLiteral_lt (allow : Bool) (ts : List Tok) (h : (pLiteral allow ts 0 0 0 []).1.isEmpty = false) :
    Lt (pLiteral allow ts 0 0 0 []).2 ts := by
  have := pLiteral_spec allow ts 0 0 0 []
  refine ⟨this.1, ?_⟩
  have h2 := this.2
  cases hl : (pLiteral allow ts 0 0 0 []).1 with
  | nil => rw [hl] at h; simp at h
  | cons a b => rw [hl] at h2; simp at h2; omega

theorem pAttribute_spec (ts : List Tok) : Res (pAttribute ts) (OptLt ts) := by
  unfold pAttribute
  apply Res.bind (pQuoted_spec ts)
  intro a ha
  cases a with
  | some cr => obtain ⟨c, r⟩ := cr; exact ha
  | none =>
    simp only
    split
    · exact Res.pure trivial
    · rename_i hne
      have hlt := pLiteral_lt true ts (by simpa using hne)
      split
      · rename_i e r1 heq
        have hr1 : Lt r1 ts := by
          have : r1 <:+ (pLiteral true ts 0 0 0 []).2 := by rw [heq]; exact List.suffix_cons _ _
          exact Lt.le_trans this hlt
        split
        · apply Res.bind (pQuoted_spec r1)
          intro b hb
          cases b with
          | some vr => obtain ⟨v, r2⟩ := vr; exact Res.pure (Lt.le_trans hb.1 hr1)
          | none =>
            simp only
            split
            · exact Res.pure hr1
            · exact Res.pure (Lt.le_trans (pLiteral_spec true r1 0 0 0 []).1 hr1)
        · exact Res.pure hlt
      · exact Res.pure hlt

theorem attrSetLoop_spec : ∀ (fuel : Nat) (ts : List Tok) (acc : List TokenAttribute), ts.length < fuel →
    Res (attrSetLoop fuel ts acc) (fun r => r.2 <:+ ts) := by
  intro fuel
  induction fuel with
  | zero => intro ts acc h; omega
  | succ f ih =>
    intro ts acc h
    cases ts with
    | nil => exact Res.ok (List.suffix_refl _)
    | cons t ts' =>
      unfold attrSetLoop
      apply Res.bind (pAttribute_spec (t :: ts'))
      intro a ha
      cases a with
      | some ar =>
        obtain ⟨a, r⟩ := ar
        simp only
        have hlt : Lt r (t :: ts') := ha
        exact (ih r _ (by have := hlt.2; simp at this h; omega)).mono (fun x hx => hx.trans hlt.1)
      | none =>
        simp only
        split
        · exact Res.pure (List.suffix_cons _ _)
        · split
          · exact (ih ts' acc (by simp at h; omega)).mono (fun x hx => hx.trans (List.suffix_cons _ _))
          · trivial

theorem pAttributeSet_spec (ts : List Tok) : Res (pAttributeSet ts) (OptLt ts) := by
  unfold pAttributeSet
  split
  · rename_i t ts'
    split
    · apply Res.bind (attrSetLoop_spec (ts'.length + 1) ts' [] (by omega))
      intro r hr
      exact Res.pure (Lt.le_trans hr (Lt.of_cons _ _))
    · exact Res.pure trivial
  · exact Res.pure trivial
def LitsNE (ts : List Tok) : Prop := ∀ t ∈ ts, t.tok ≠ .literal []
theorem LitsNE.suffix {r ts : List Tok} (h : LitsNE ts) (hs : r <:+ ts) : LitsNE r := fun t ht => h t (hs.subset ht)

theorem isCapitalizedLiteral_spec (t : Tok) : Res (isCapitalizedLiteral t) (fun _ => True) := by
  unfold isCapitalizedLiteral
  split <;> trivial

theorem jsxNameLoop_spec : ∀ (fuel : Nat) (ts acc : List Tok), ts.length < fuel →
    Res (jsxNameLoop fuel ts acc) (fun r => r.2 <:+ ts) := by
  intro fuel
  induction fuel with
  | zero => intro ts acc h; omega
  | succ f ih =>
    intro ts acc h
    cases ts with
    | nil => exact Res.ok (List.suffix_refl _)
    | cons d ts' =>
      unfold jsxNameLoop
      split
      · split
        · rename_i l ts2
          apply Res.bind (isCapitalizedLiteral_spec l)
          intro b _
          split
          · have hs : ts2 <:+ d :: l :: ts2 := (List.suffix_cons _ _).trans (List.suffix_cons _ _)
            exact (ih ts2 _ (by simp at h ⊢; omega)).mono (fun x hx => hx.trans hs)
          · exact Res.pure (List.suffix_refl _)
        · exact Res.pure (List.suffix_refl _)
      · exact Res.pure (List.suffix_refl _)

theorem nameLoop_spec (ts acc : List Tok) :
    (nameLoop ts acc).2 <:+ ts ∧ (nameLoop ts acc).1.length + (nameLoop ts acc).2.length = acc.length + ts.length := by
  fun_induction nameLoop ts acc <;> simp_all [List.suffix_refl] <;>
    (rename_i ih; exact ⟨ih.1.trans (List.suffix_cons _ _), by omega⟩)

theorem pElementName_spec (jsx : Bool) (ts : List Tok) :
    Res (pElementName jsx ts) (fun nr => nr.2 <:+ ts ∧ (nr.1.isEmpty = false → Lt nr.2 ts)) := by
  have key : ∀ (pre r : List Tok), r <:+ ts → (pre.isEmpty = false → Lt r ts) →
      (nameLoop r []).2 <:+ ts ∧ ((pre ++ (nameLoop r []).1).isEmpty = false → Lt (nameLoop r []).2 ts) := by
    intro pre r hr hpre
    have hn := nameLoop_spec r []
    refine ⟨hn.1.trans hr, ?_⟩
    intro hne
    cases pre with
    | cons a b => exact Lt.le_trans hn.1 (hpre rfl)
    | nil =>
      simp only [List.nil_append] at hne
      refine ⟨hn.1.trans hr, ?_⟩
      have h2 := hn.2
      have := hr.length_le
      cases hm : (nameLoop r []).1 with
      | nil => rw [hm] at hne; simp at hne
      | cons a b => rw [hm] at h2; simp at h2; omega
  unfold pElementName
  apply Res.bind (P := fun pr => pr.2 <:+ ts ∧ (pr.1.isEmpty = false → Lt pr.2 ts))
  · cases ts with
    | nil => exact Res.pure ⟨List.suffix_refl _, by simp⟩
    | cons t ts1 =>
      simp only
      split
      · apply Res.bind (isCapitalizedLiteral_spec t)
        intro b _
        split
        · have hs : ts1 <:+ t :: ts1 := List.suffix_cons _ _
          exact (jsxNameLoop_spec _ ts1 [t] (by omega)).mono
            (fun x hx => ⟨hx.trans hs, fun _ => Lt.le_trans hx (Lt.of_cons _ _)⟩)
        · exact Res.pure ⟨List.suffix_refl _, by simp⟩
      · exact Res.pure ⟨List.suffix_refl _, by simp⟩
  · intro pr hpr
    obtain ⟨pre, r⟩ := pr
    exact Res.pure (key pre r hpr.1 hpr.2)
theorem elemLoop_spec (jsx : Bool) : ∀ (fuel : Nat) (ts : List Tok) (e : ElemAcc), ts.length < fuel →
    Res (elemLoop jsx fuel ts e)
      (fun er => er.2 <:+ ts ∧ (e.isEmpty = true → er.1.isEmpty = false → Lt er.2 ts)) := by
  intro fuel
  induction fuel with
  | zero => intro ts e h; omega
  | succ f ih =>
    intro ts e h
    cases ts with
    | nil => exact Res.ok ⟨List.suffix_refl _, fun h1 h2 => by simp_all⟩
    | cons t ts' =>
      -- any recursive call on a strictly shorter rest `r` with a non-empty accumulator
      have step : ∀ (r : List Tok) (e' : ElemAcc), Lt r (t :: ts') →
          Res (elemLoop jsx f r e')
            (fun er => er.2 <:+ (t :: ts') ∧ (e.isEmpty = true → er.1.isEmpty = false → Lt er.2 (t :: ts'))) := by
        intro r e' hlt
        exact (ih r e' (by have := hlt.2; simp at this h; omega)).mono
          (fun x hx => ⟨hx.1.trans hlt.1, fun _ _ => Lt.le_trans hx.1 hlt⟩)
      unfold elemLoop
      simp only [bind_pure_comp, pure_bind]
      split
      · exact step ts' _ (Lt.of_cons _ _)
      · split
        · rename_i consumed r heq
          split at heq
          · have := pText_spec (t :: ts'); rw [heq] at this
            exact step r _ this
          · cases heq
        · apply Res.bind (P := OptLt (t :: ts'))
          · split
            · rename_i a r heq
              have := pShortAttribute_spec .id "id" jsx (t :: ts'); rw [heq] at this
              exact Res.pure this
            · split
              · rename_i a r heq
                have := pShortAttribute_spec .cls "class" jsx (t :: ts'); rw [heq] at this
                exact Res.pure this
              · exact pAttributeSet_spec (t :: ts')
          · intro attr hattr
            cases attr with
            | some ar => obtain ⟨as, r⟩ := ar; exact step r _ hattr
            | none =>
              simp only
              split
              · rename_i hc
                have hne : e.isEmpty = false := by
                  cases he : e.isEmpty <;> simp_all
                split
                · split
                  · exact Res.pure ⟨(List.suffix_cons _ _).trans (List.suffix_cons _ _), fun h1 => by simp_all⟩
                  · exact Res.pure ⟨List.suffix_cons _ _, fun h1 => by simp_all⟩
                · exact Res.pure ⟨List.suffix_cons _ _, fun h1 => by simp_all⟩
              · exact Res.pure ⟨List.suffix_refl _, fun h1 h2 => by simp_all⟩
theorem climbs_total (ts : List Tok) (cur : Frame) (above : List Frame) : (climbs ts cur above).2.2 <:+ ts := by
  fun_induction climbs ts cur above <;>
    (first | exact List.suffix_refl _ | exact List.suffix_cons _ _ | (rename_i ih; exact ih.trans (List.suffix_cons _ _)))

theorem optRepeater_spec (ts : List Tok) : (optRepeater ts).2 <:+ ts := by
  unfold optRepeater
  split
  · split
    · exact List.suffix_cons _ _
    · exact List.suffix_refl _
  · exact List.suffix_refl _

/-- both mutual functions, by induction on the fuel -/
theorem pItem_pStatements_spec (jsx : Bool) : ∀ (fuel : Nat),
    (∀ ts, 2 * ts.length ≤ fuel → 1 ≤ fuel → Res (pItem jsx fuel ts) (OptLt ts)) ∧
    (∀ ts cur above, 2 * ts.length + 1 ≤ fuel →
      Res (pStatements jsx fuel ts cur above) (fun r => r.2 <:+ ts)) := by
  intro fuel
  induction fuel with
  | zero => exact ⟨fun ts _ h => by omega, fun ts _ _ h => by omega⟩
  | succ f ih =>
    obtain ⟨ihI, ihS⟩ := ih
    constructor
    · intro ts hf _
      unfold pItem
      apply Res.bind (pElementName_spec jsx ts)
      intro nr hnr
      obtain ⟨name, r⟩ := nr
      simp only
      apply Res.bind (elemLoop_spec jsx (r.length + 1) r _ (by omega))
      intro er her
      obtain ⟨e, r1⟩ := er
      simp only
      split
      · rename_i hne
        have hne' : e.isEmpty = false := by simpa using hne
        refine Res.pure ?_
        show Lt r1 ts
        by_cases hn : name.isEmpty = true
        · have h0 : ({ name := if name.isEmpty = true then none else some name } : ElemAcc).isEmpty = true := by
            simp [hn, ElemAcc.isEmpty]
          exact (her.2 h0 hne').trans_le hnr.1
        · exact Lt.le_trans her.1 (hnr.2 (by simpa using hn))
      · cases ts with
        | nil => exact Res.pure trivial
        | cons g ts1 =>
          simp only
          split
          · have hs : ts1 <:+ g :: ts1 := List.suffix_cons _ _
            apply Res.bind (ihS ts1 ⟨.root, []⟩ [] (by simp at hf; omega))
            intro kr hkr
            obtain ⟨kids, r2⟩ := kr
            simp only
            have h2 : Lt r2 (g :: ts1) := Lt.le_trans hkr (Lt.of_cons _ _)
            split
            · rename_i c r3
              have h3 : Lt r3 (g :: ts1) := Lt.le_trans (List.suffix_cons _ _) h2
              split
              · exact Res.pure (Lt.le_trans (optRepeater_spec r3) h3)
              · exact Res.pure h3
            · exact Res.pure h2
          · exact Res.pure trivial
    · intro ts cur above hf
      cases ts with
      | nil => exact Res.ok (List.suffix_refl _)
      | cons t ts' =>
        unfold pStatements
        apply Res.bind (ihI (t :: ts') (by simp at hf ⊢; omega) (by simp at hf; omega))
        intro it hit
        cases it with
        | none => exact Res.pure (List.suffix_refl _)
        | some nr =>
          obtain ⟨node, r⟩ := nr
          have hlt : Lt r (t :: ts') := hit
          have again : ∀ (r' : List Tok) (c : Frame) (a : List Frame), r' <:+ r →
              Res (pStatements jsx f r' c a) (fun x => x.2 <:+ t :: ts') := by
            intro r' c a hr'
            have hlt' : Lt r' (t :: ts') := Lt.le_trans hr' hlt
            exact (ihS r' c a (by have := hlt'.2; simp at this hf; omega)).mono
              (fun x hx => hx.trans hlt'.1)
          simp only
          split
          · rename_i o r1
            split
            · exact again r1 _ _ (List.suffix_cons _ _)
            · split
              · exact again r1 _ _ (List.suffix_cons _ _)
              · split
                · exact again _ _ _ (climbs_total _ _ _)
                · exact again _ _ _ (List.suffix_refl _)
          · exact Res.pure (by exact hlt.1)

/-- **C07, parser stage**: for every token list with non-empty literals, in both JSX modes, `parseTokens`
    returns a forest or a token error — it never runs out of fuel and never raises an internal error. -/
theorem parseTokens_total (jsx : Bool) (ts : List Tok) :
    Res (parseTokens jsx ts) (fun _ => True) := by
  unfold parseTokens
  apply Res.bind ((pItem_pStatements_spec jsx (2 * ts.length + 2)).2 ts ⟨.root, []⟩ [] (by omega))
  intro kr _
  obtain ⟨kids, r⟩ := kr
  simp only
  split
  · trivial
  · exact Res.pure trivial
end T
