import Emmet.Generated.Leaf
import Emmet.Abbr.Tok
import Emmet.Css.Tok
import Emmet.Matcher.Html
import Emmet.Matcher.CssMatch
import Emmet.Math
import Emmet.Extract
/-! Tie (a) for the character predicates: `Emmet/Generated/Leaf.lean` holds, for every character predicate of the code, the set of code
    points below `Gen.Leaf.limit` (0x3000) on which the REAL function returns true (the translator evaluates it on each of them on every
    run). The theorems below compare every hand-written model predicate with that table, by kernel evaluation, on `Gen.Leaf.points`:
    every code point below 0x180 and, beyond, both sides of every place where one of the code's predicates changes its value (the end
    points of all table ranges with their neighbours; the predicates are unions of intervals). A changed predicate in /repo changes the
    generated table (and the points) and the corresponding theorem stops checking.

    `agree`: equal on every point. `agreeAscii`: the Python predicate goes through `str.isdecimal` / `str.isdigit`,
    which also accept non-ASCII digits; the models carry the ASCII part, and such inputs are excluded from the correspondence
    (`vlib.unmodelled_char`): equal on every code point that is not a non-ASCII decimal / digit. -/
namespace Leaf
open Gen.Leaf

def agree (f : Nat → Bool) (t : List (Nat × Nat)) : Bool := points.all fun ch => f ch == inR ch t
def agreeAscii (f : Nat → Bool) (t : List (Nat × Nat)) (ex : List (Nat × Nat)) : Bool :=
  points.all fun ch => (decide (128 ≤ ch) && inR ch ex) || f ch == inR ch t

-- emmet/scanner_utils.py
theorem T_isNumber : agreeAscii T.isNumber scanner_utils__is_number str__isdecimal = true := by decide +kernel
theorem T_isAlpha : agree T.isAlpha scanner_utils__is_alpha = true := by decide +kernel
theorem T_isAlphaWord : agree T.isAlphaWord scanner_utils__is_alpha_word = true := by decide +kernel
theorem T_isAlphaNumericWord : agreeAscii T.isAlphaNumericWord scanner_utils__is_alpha_numeric_word str__isdecimal = true := by decide +kernel
theorem T_isWhiteSpace : agree T.isWhiteSpace scanner_utils__is_white_space = true := by decide +kernel
theorem T_isSpace : agree T.isSpace scanner_utils__is_space = true := by decide +kernel
theorem T_isQuote : agree T.isQuote scanner_utils__is_quote = true := by decide +kernel
theorem T_isDigitPy : agreeAscii T.isDigitPy str__isdigit str__isdigit = true := by decide +kernel
theorem CA_isNumber : agreeAscii CA.isNumber scanner_utils__is_number str__isdecimal = true := by decide +kernel
theorem CA_isAlpha : agree CA.isAlpha scanner_utils__is_alpha = true := by decide +kernel
theorem CA_isAlphaWord : agree CA.isAlphaWord scanner_utils__is_alpha_word = true := by decide +kernel
theorem CA_isAlphaNumericWord : agreeAscii CA.isAlphaNumericWord scanner_utils__is_alpha_numeric_word str__isdecimal = true := by decide +kernel
theorem CA_isQuote : agree CA.isQuote scanner_utils__is_quote = true := by decide +kernel
theorem CA_isSpace : agree CA.isSpace scanner_utils__is_space = true := by decide +kernel
theorem H_isAlpha : agree H.isAlpha scanner_utils__is_alpha = true := by decide +kernel
theorem H_isNumber : agreeAscii H.isNumber scanner_utils__is_number str__isdecimal = true := by decide +kernel
theorem H_isSpace : agree H.isSpace scanner_utils__is_space = true := by decide +kernel
theorem H_isQuote : agree H.isQuote scanner_utils__is_quote = true := by decide +kernel
theorem C_isSpace : agree C.isSpace scanner_utils__is_space = true := by decide +kernel
theorem C_isQuote : agree C.isQuote scanner_utils__is_quote = true := by decide +kernel
theorem M_isWhiteSpace : agree M.isWhiteSpace scanner_utils__is_white_space = true := by decide +kernel
theorem M_isSpace : agree M.isSpace scanner_utils__is_space = true := by decide +kernel
theorem M_isNumber : agreeAscii M.isNumber scanner_utils__is_number str__isdecimal = true := by decide +kernel
theorem X_isAlpha : agree X.isAlpha scanner_utils__is_alpha = true := by decide +kernel
theorem X_isNumber : agreeAscii X.isNumber scanner_utils__is_number str__isdecimal = true := by decide +kernel
theorem X_isQuote : agree X.isQuote scanner_utils__is_quote = true := by decide +kernel
-- emmet/html_matcher/utils.py
theorem H_nameStartChar : agree H.nameStartChar html_matcher_utils__name_start_char = true := by decide +kernel
theorem H_nameChar : agreeAscii H.nameChar html_matcher_utils__name_char str__isdecimal = true := by decide +kernel
theorem H_isTerminator : agree H.isTerminator html_matcher_utils__is_terminator = true := by decide +kernel
theorem H_isUnquoted : agree H.isUnquoted html_matcher_utils__is_unquoted = true := by decide +kernel
-- emmet/abbreviation/tokenizer
theorem T_isOpenBracket : agree T.isOpenBracket abbreviation_tokenizer__is_open_bracket = true := by decide +kernel
theorem T_isElementName : agreeAscii T.isElementName abbreviation_tokenizer__is_element_name str__isdecimal = true := by decide +kernel
def opName : T.OpKind → String
  | .child => "child" | .sibling => "sibling" | .climb => "climb" | .cls => "class" | .id => "id" | .close => "close" | .equal => "equal"
def brName : T.BrCtx → String | .group => "group" | .attribute => "attribute" | .expression => "expression"
def lookupS (ch : Nat) (t : List (Nat × String)) : Option String := (t.find? (·.1 == ch)).map (·.2)
theorem T_operatorType : (points.all fun ch => (T.operatorType ch).map opName == lookupS ch abbreviation_tokenizer__operator_type) = true := by
  decide +kernel
theorem T_bracketType : (points.all fun ch => (T.bracketType ch).map brName == lookupS ch abbreviation_tokenizer__bracket_type) = true := by
  decide +kernel
-- emmet/css_abbreviation/tokenizer
theorem CA_isIdentPrefix : agree CA.isIdentPrefix css_abbreviation_tokenizer__is_ident_prefix = true := by decide +kernel
theorem CA_isHex : agreeAscii CA.isHex css_abbreviation_tokenizer__is_hex str__isdecimal = true := by decide +kernel
theorem CA_isKeyword : agreeAscii CA.isKeyword css_abbreviation_tokenizer__is_keyword str__isdecimal = true := by decide +kernel
theorem CA_isLiteralCh : agree CA.isLiteralCh css_abbreviation_tokenizer__is_literal = true := by decide +kernel
-- emmet/css_matcher/parse.py, emmet/math_expression/parser.py
theorem C_isOp : agree C.isOp css_matcher_parse__is_operator = true := by decide +kernel
theorem M_isSign : agree M.isSign math_expression_parser__is_sign = true := by decide +kernel
theorem M_isOperator : agree M.isOperator math_expression_parser__is_operator = true := by decide +kernel
-- emmet/extract_abbreviation
theorem X_isAbbreviation : agreeAscii X.isAbbreviation extract_abbreviation__is_abbreviation str__isdecimal = true := by decide +kernel
theorem X_isIdent : agreeAscii X.isIdent extract_abbreviation_is_html__is_ident str__isdecimal = true := by decide +kernel
theorem X_isWs : agree X.isWs extract_abbreviation_is_html__is_white_space = true := by decide +kernel
theorem X_isUnquotedValue : agree X.isUnquotedValue extract_abbreviation_is_html__is_unquoted_value = true := by decide +kernel
theorem X_isOpenBracket : agree X.isOpenBracket extract_abbreviation_is_html__is_open_bracket = true := by decide +kernel
theorem X_isCloseBracket : agree X.isCloseBracket extract_abbreviation_is_html__is_close_bracket = true := by decide +kernel

end Leaf
