import EmmetProofs.CssScanRanges
/-! C16 / C10, CSS scanner: the events reported for ANY source are ordered — a later event never starts before an earlier one,
    and never before the position after the brace that ended an earlier selector. Every selector ends at or before its brace. -/
namespace C

/-- event `e` lies at or before `x`: it starts there or earlier and, if it is a selector, so does the position after its brace -/
def Le (e : Ev) (x : Int) : Prop := e.start ≤ x ∧ (e.type = .selector → e.delimiter + 1 ≤ x)

theorem Le.mono {e : Ev} {x y : Int} (h : Le e x) (hxy : x ≤ y) : Le e y := ⟨by have := h.1; omega, fun ht => by have := h.2 ht; omega⟩

/-- latest-first list: every event lies at or before the start of each later one -/
def SortedRev : List Ev → Prop
  | [] => True
  | e :: rest => (∀ e' ∈ rest, Le e' e.start) ∧ SortedRev rest

/-- everything reported so far lies at or before the current position and before the pending token / property starts -/
def Below (acc : List Ev) (st : ScanState) (pos : Int) : Prop :=
  ∀ e ∈ acc, Le e pos ∧ (st.start ≠ -1 → Le e st.start) ∧ (st.propertyStart ≠ -1 → Le e st.propertyStart)

theorem below_mono {acc : List Ev} {st : ScanState} {p q : Int} (h : Below acc st p) (hpq : p ≤ q) : Below acc st q :=
  fun e he => ⟨(h e he).1.mono hpq, (h e he).2⟩

theorem below_reset {acc : List Ev} {st : ScanState} {p : Int} (h : ∀ e ∈ acc, Le e p) : Below acc st.reset p :=
  fun e he => ⟨h e he, fun hh => absurd rfl hh, fun hh => absurd rfl hh⟩

theorem flushPending_sorted (st : ScanState) (pos : Int) (acc : List Ev) (hinv : Inv st pos)
    (hs : SortedRev acc) (hb : Below acc st pos) :
    SortedRev (flushPending st pos acc).1 ∧ ∀ e ∈ (flushPending st pos acc).1, Le e pos := by
  obtain ⟨h1, h2, h3, h4⟩ := hinv
  unfold flushPending
  by_cases hps : (st.propertyStart != -1) = true
  · simp only [hps, if_true]
    have hps' : st.propertyStart ≠ -1 := by simpa using hps
    have h3' := h3.resolve_left hps'
    have h2' : 0 ≤ st.propertyDelimiter ∧ st.propertyDelimiter < pos := by rcases h2 with h2 | h2 <;> omega
    by_cases hst : (st.start == -1) = true
    · simp only [hst, if_true]
      refine ⟨⟨?_, ?_, hs⟩, ?_⟩
      · intro e' he'
        simp only [List.mem_cons] at he'
        rcases he' with rfl | he'
        · exact ⟨by simp only; omega, fun ht => by cases ht⟩
        · exact (hb e' he').1
      · intro e' he'; exact (hb e' he').2.2 hps'
      · intro e he
        simp only [List.mem_cons] at he
        rcases he with rfl | rfl | he
        · exact ⟨by simp, fun ht => by cases ht⟩
        · exact ⟨by simp only; omega, fun ht => by cases ht⟩
        · exact (hb e he).1
    · simp only [hst, Bool.false_eq_true, if_false]
      have hst' : st.start ≠ -1 := by simpa using hst
      have h1' : 0 ≤ st.start ∧ st.start ≤ st.stop ∧ st.stop ≤ pos := by rcases h1 with h1 | h1; exact absurd h1.1 hst'; exact h1
      have h4' := h4 hst'
      refine ⟨⟨?_, ?_, hs⟩, ?_⟩
      · intro e' he'
        simp only [List.mem_cons] at he'
        rcases he' with rfl | he'
        · exact ⟨by simp only; omega, fun ht => by cases ht⟩
        · exact (hb e' he').2.1 hst'
      · intro e' he'; exact (hb e' he').2.2 hps'
      · intro e he
        simp only [List.mem_cons] at he
        rcases he with rfl | rfl | he
        · exact ⟨by simp only; omega, fun ht => by cases ht⟩
        · exact ⟨by simp only; omega, fun ht => by cases ht⟩
        · exact (hb e he).1
  · simp only [hps, Bool.false_eq_true, if_false]
    by_cases hst : (st.start != -1) = true
    · simp only [hst, if_true]
      have hst' : st.start ≠ -1 := by simpa using hst
      have h1' : 0 ≤ st.start ∧ st.start ≤ st.stop ∧ st.stop ≤ pos := by rcases h1 with h1 | h1; exact absurd h1.1 hst'; exact h1
      refine ⟨⟨fun e' he' => (hb e' he').2.1 hst', hs⟩, ?_⟩
      intro e he
      simp only [List.mem_cons] at he
      rcases he with rfl | he
      · exact ⟨by simp only; omega, fun ht => by cases ht⟩
      · exact (hb e he).1
    · simp only [hst, Bool.false_eq_true, if_false]
      exact ⟨hs, fun e he => (hb e he).1⟩

theorem closeBlock_sorted (b : Bool) (pos : Int) (r : List Ev × ScanState) (hs : SortedRev r.1) (hb : ∀ e ∈ r.1, Le e pos) :
    SortedRev (closeBlock b pos r).1 ∧ ∀ e ∈ (closeBlock b pos r).1, Le e (pos + 1) := by
  unfold closeBlock
  cases b with
  | false => simp only [Bool.false_eq_true, if_false]; exact ⟨hs, fun e he => (hb e he).mono (by omega)⟩
  | true =>
    simp only [if_true]
    refine ⟨⟨hb, hs⟩, ?_⟩
    intro e he
    simp only [List.mem_cons] at he
    rcases he with rfl | he
    · exact ⟨by simp only; omega, fun ht => by cases ht⟩
    · exact (hb e he).mono (by omega)

theorem selectorState_low (st : ScanState) (pos : Int) (acc : List Ev) (hb : Below acc st pos) :
    ∀ e ∈ acc, Le e (selectorState st (pos + 1)).start := by
  intro e he
  obtain ⟨b1, b2, b3⟩ := hb e he
  unfold selectorState
  by_cases ha : (st.start == -1 && st.propertyStart == -1) = true
  · simp only [ha, if_true]
    have : st.propertyStart = -1 := by simp at ha; exact ha.2
    simp only [this]
    simpa using b1.mono (by omega : pos ≤ pos + 1)
  · simp only [ha, Bool.false_eq_true, if_false]
    by_cases hps : (st.propertyStart != -1) = true
    · simp only [hps, if_true]
      exact b3 (by simpa using hps)
    · simp only [hps, Bool.false_eq_true, if_false]
      have hps' : st.propertyStart = -1 := by simpa using hps
      have hs' : st.start ≠ -1 := by intro h; apply ha; simp [h, hps']
      exact b2 hs'

theorem colonState_below (st : ScanState) (pos : Int) (acc : List Ev) (hb : Below acc st pos) :
    Below acc (colonState st (pos + 1)) (pos + 1) := by
  intro e he
  obtain ⟨b1, b2, b3⟩ := hb e he
  refine ⟨b1.mono (by omega), fun hh => absurd (by simp [colonState]) hh, ?_⟩
  unfold colonState
  by_cases hps : (st.propertyStart == -1) = true
  · simp only [hps, if_true]; exact fun hh => b2 hh
  · simp only [hps, Bool.false_eq_true, if_false]; exact fun hh => b3 hh

theorem eatOne_fields (rest : Str) (p : Int) (st1 : ScanState) :
    (eatOne rest p st1).2.2.start = st1.start ∧ (eatOne rest p st1).2.2.propertyStart = st1.propertyStart := by
  unfold eatOne
  cases rest with
  | nil => exact ⟨rfl, rfl⟩
  | cons y r =>
    simp only
    split
    · exact ⟨rfl, rfl⟩
    · split
      · exact ⟨rfl, rfl⟩
      · split <;> exact ⟨rfl, rfl⟩

theorem eatOne_below (rest : Str) (pos p : Int) (st : ScanState) (acc : List Ev) (hpp : pos ≤ p) (hb : Below acc st pos)
    (hq : p ≤ (eatOne rest p (if st.start == -1 then { st with start := p } else st)).2.1) :
    Below acc (eatOne rest p (if st.start == -1 then { st with start := p } else st)).2.2
      (eatOne rest p (if st.start == -1 then { st with start := p } else st)).2.1 := by
  intro e he
  obtain ⟨b1, b2, b3⟩ := hb e he
  obtain ⟨f1, f2⟩ := eatOne_fields rest p (if st.start == -1 then { st with start := p } else st)
  rw [f1, f2]
  refine ⟨b1.mono (by omega), ?_, ?_⟩
  · by_cases hs : (st.start == -1) = true
    · simp only [hs, if_true]; exact fun _ => b1.mono hpp
    · simp only [hs, Bool.false_eq_true, if_false]; exact b2
  · by_cases hs : (st.start == -1) = true
    · simp only [hs, if_true]; exact b3
    · simp only [hs, Bool.false_eq_true, if_false]; exact b3

theorem scanLoop_sorted (n : Int) : ∀ (fuel : Nat) (rest : Str) (pos : Int) (st : ScanState) (acc : List Ev),
    pos + rest.length = n → 0 ≤ pos → Inv st pos → SortedRev acc → Below acc st pos →
    SortedRev (scanLoop fuel rest pos st acc).1 ∧
      Below (scanLoop fuel rest pos st acc).1 (scanLoop fuel rest pos st acc).2.1 (scanLoop fuel rest pos st acc).2.2 := by
  intro fuel
  induction fuel with
  | zero => intro rest pos st acc hl h0 hinv hs hb; simp only [scanLoop]; exact ⟨hs, hb⟩
  | succ fuel ih =>
    intro rest pos st acc hl h0 hinv hs hb
    cases rest with
    | nil => simp only [scanLoop]; exact ⟨hs, hb⟩
    | cons x xs =>
      have hlen : pos + 1 + (xs.length : Int) = n := by simp only [List.length_cons] at hl; push_cast at hl; omega
      have hn : pos < n := by omega
      unfold scanLoop
      cases hc : comment (x :: xs) with
      | some rn =>
        obtain ⟨r, k⟩ := rn
        obtain ⟨h1, h2⟩ := comment_len _ _ _ hc
        simp only
        exact ih r (pos + k) st acc (by simp only [List.length_cons] at h1; omega) (by omega) (inv_mono_space _ _ _ (by omega) hinv) hs
          (below_mono hb (by omega))
      | none =>
        simp only
        by_cases hsp : isSpace x = true
        · simp only [hsp, if_true]
          have := spanSpace_len xs 1
          generalize hss : spanSpace xs 1 = sp at this
          obtain ⟨r, k⟩ := sp
          simp only at this ⊢
          exact ih r (pos + k) st acc (by omega) (by omega) (inv_mono_space _ _ _ (by omega) hinv) hs (below_mono hb (by omega))
        · simp only [hsp, Bool.false_eq_true, if_false]
          by_cases hx : (x == 125 || x == 59 && decide (st.expression ≤ 0)) = true
          · simp only [hx, if_true]
            obtain ⟨f1, f2⟩ := flushPending_sorted st pos acc hinv hs hb
            obtain ⟨c1, c2⟩ := closeBlock_sorted (x == 125) pos _ f1 f2
            exact ih xs (pos + 1) _ _ hlen (by omega) (inv_reset _ _) c1 (below_reset c2)
          · simp only [hx, Bool.false_eq_true, if_false]
            by_cases h123 : (x == 123) = true
            · simp only [h123, if_true]
              obtain ⟨a, b, c⟩ := selectorState_ok _ _ h0 hinv
              refine ih xs (pos + 1) _ _ hlen (by omega) (inv_reset _ _) ⟨selectorState_low st pos acc hb, hs⟩ (below_reset ?_)
              intro e he
              simp only [List.mem_cons] at he
              rcases he with rfl | he
              · exact ⟨by simp only; omega, fun _ => by simp⟩
              · exact (hb e he).1.mono (by omega)
            · simp only [h123, Bool.false_eq_true, if_false]
              by_cases h58 : (x == 58) = true
              · simp only [h58, if_true]
                by_cases hex : (st.expression != 0) = true
                · simp only [hex, if_true]
                  obtain ⟨a, b, c, d⟩ := start_set st pos (pos + 1) h0 (by omega) hinv
                  obtain ⟨e1, e2, e3⟩ := eatOne_ok xs (pos + 1) _ (by omega) a b c d
                  exact ih _ _ _ acc (by omega) (by omega) e3 hs (eatOne_below xs pos (pos + 1) st acc (by omega) hb e2)
                · simp only [hex, Bool.false_eq_true, if_false]
                  have hsc := spanColon_len xs 0
                  by_cases hcol : (spanColon xs 0).2 > 0
                  · simp only [hcol, if_true]
                    obtain ⟨a, b, c, d⟩ := start_set st pos (pos + 1 + ((spanColon xs 0).2 : Int)) h0 (by omega) hinv
                    obtain ⟨e1, e2, e3⟩ := eatOne_ok (spanColon xs 0).1 (pos + 1 + ((spanColon xs 0).2 : Int)) _ (by omega) a b c d
                    exact ih _ _ _ acc (by omega) (by omega) e3 hs (eatOne_below _ pos _ st acc (by omega) hb e2)
                  · simp only [hcol, if_false]
                    exact ih xs (pos + 1) _ acc hlen (by omega) (colonState_inv st pos h0 hinv) hs (colonState_below st pos acc hb)
              · simp only [h58, Bool.false_eq_true, if_false]
                obtain ⟨a, b, c, d⟩ := start_set st pos pos h0 (by omega) hinv
                obtain ⟨e1, e2, e3⟩ := eatOne_ok (x :: xs) pos _ h0 a b c d
                exact ih _ _ _ acc (by omega) (by omega) e3 hs (eatOne_below _ pos pos st acc (by omega) hb e2)


theorem sortedRev_pairwise : ∀ (l : List Ev), SortedRev l → l.Pairwise (fun later earlier => Le earlier later.start)
  | [], _ => List.Pairwise.nil
  | _ :: rest, h => List.Pairwise.cons h.1 (sortedRev_pairwise rest h.2)

/-- **C16 / C10, CSS scanner order**: for EVERY source the reported tokens are ordered: a later token never starts before an
    earlier one, nor before the position after the brace of an earlier selector. -/
theorem scan_sorted (s : Str) : (scan s).Pairwise (fun a b => Le a b.start) := by
  have hinv0 : Inv ({} : ScanState) 0 := by simp [Inv]
  have h := scanLoop_ok (s.length : Int) (2 * s.length + 2) s 0 {} [] (by simp) (by omega) hinv0 (by intro e he; cases he)
  have h' := scanLoop_sorted (s.length : Int) (2 * s.length + 2) s 0 {} [] (by simp) (by omega) hinv0 trivial (by intro e he; cases he)
  unfold scan
  generalize scanLoop (2 * s.length + 2) s 0 {} [] = res at h h'
  obtain ⟨acc, st, pos⟩ := res
  obtain ⟨_, ⟨h1, h2, h3, h4⟩, _, _⟩ := h
  obtain ⟨hs, hb⟩ := h'
  simp only at h1 h2 h3 h4 hs hb ⊢
  rw [List.pairwise_reverse]
  apply sortedRev_pairwise
  by_cases hps : (st.propertyStart != -1) = true
  · have hps' : st.propertyStart ≠ -1 := by simpa using hps
    have h3' := h3.resolve_left hps'
    simp only [hps, if_true]
    by_cases hst : (st.start != -1) = true
    · have hst' : st.start ≠ -1 := by simpa using hst
      have h4' := h4 hst'
      simp only [hst, if_true]
      refine ⟨?_, fun e he => (hb e he).2.2 hps', hs⟩
      intro e he
      simp only [List.mem_cons] at he
      rcases he with rfl | he
      · exact ⟨by simp only; omega, fun ht => by cases ht⟩
      · exact (hb e he).2.1 hst'
    · simp only [hst, Bool.false_eq_true, if_false]
      exact ⟨fun e he => (hb e he).2.2 hps', hs⟩
  · simp only [hps, Bool.false_eq_true, if_false]
    by_cases hst : (st.start != -1) = true
    · have hst' : st.start ≠ -1 := by simpa using hst
      simp only [hst, if_true]
      exact ⟨fun e he => (hb e he).2.1 hst', hs⟩
    · simp only [hst, Bool.false_eq_true, if_false]
      exact hs

end C
