import Emmet.Action
/-! C17: what the HTML action helpers select (over ANY event list), and well-formedness of class-token ranges. -/
namespace H

theorem getOpenTag_spec (pos : Int) (evs : List Ev) (e : Ev) (h : getOpenTag pos evs = some e) :
    e ∈ evs ∧ (e.start : Int) < pos ∧ pos < e.stop := by
  induction evs with
  | nil => simp [getOpenTag] at h
  | cons x xs ih =>
    unfold getOpenTag at h
    split at h
    · rename_i hc
      cases h
      simp only [Bool.and_eq_true, decide_eq_true_eq] at hc
      exact ⟨by simp, hc.1, hc.2⟩
    · split at h
      · cases h
      · obtain ⟨h1, h2⟩ := ih h
        exact ⟨by simp [h1], h2⟩

/-- `select_next_item` returns the FIRST open / self-closing tag that ends after the position -/
theorem selectNext_spec (pos : Int) (evs : List Ev) (e : Ev) (h : selectNext pos evs = some e) :
    ∃ pre post, evs = pre ++ e :: post ∧ isOpenish e = true ∧ (e.stop : Int) > pos ∧
      ∀ x ∈ pre, ¬ (isOpenish x = true ∧ (x.stop : Int) > pos) := by
  induction evs with
  | nil => simp [selectNext] at h
  | cons x xs ih =>
    unfold selectNext at h
    split at h
    · rename_i hc
      cases h
      simp only [Bool.and_eq_true, decide_eq_true_eq] at hc
      exact ⟨[], xs, rfl, hc.1, hc.2, by simp⟩
    · rename_i hc
      obtain ⟨pre, post, he, h1, h2, h3⟩ := ih h
      refine ⟨x :: pre, post, by simp [he], h1, h2, ?_⟩
      intro y hy
      simp only [List.mem_cons] at hy
      rcases hy with rfl | hy
      · intro hcontra
        apply hc
        simp only [Bool.and_eq_true, decide_eq_true_eq]
        exact hcontra
      · exact h3 y hy

/-- `select_previous_item`: the result is an open / self-closing tag of the list that starts before the position (or the
    initial value) -/
theorem selectPrev_spec (pos : Int) (evs : List Ev) (last : Option Ev) (e : Ev) (h : selectPrev pos evs last = some e) :
    last = some e ∨ (e ∈ evs ∧ isOpenish e = true ∧ (e.start : Int) < pos) := by
  induction evs generalizing last with
  | nil => left; simpa [selectPrev] using h
  | cons x xs ih =>
    unfold selectPrev at h
    split at h
    · left; exact h
    · rename_i hc
      rcases ih _ h with h1 | ⟨h1, h2, h3⟩
      · split at h1
        · rename_i ho
          cases h1
          right; exact ⟨by simp, ho, by omega⟩
        · left; exact h1
      · right; exact ⟨by simp [h1], h2, h3⟩

/-- class tokens: every range of `token_list(value, offset)` is non-empty and lies inside `[offset, offset + |value|]` -/
theorem tokenLoop_spec : ∀ (l : List Ch) (pos start : Nat) (acc : List (Nat × Nat)) (n : Nat),
    start ≤ pos → pos + l.length = n → (∀ r ∈ acc, r.1 < r.2 ∧ r.2 ≤ n) →
    ∀ r ∈ tokenLoop l pos start acc, r.1 < r.2 ∧ r.2 ≤ n := by
  intro l
  induction l with
  | nil =>
    intro pos start acc n hs hn hacc r hr
    unfold tokenLoop at hr
    split at hr
    · rename_i hne
      simp only [List.mem_cons] at hr
      rcases hr with rfl | hr
      · simp at hn; simp at hne; exact ⟨by omega, by omega⟩
      · exact hacc r hr
    · exact hacc r hr
  | cons ch rest ih =>
    intro pos start acc n hs hn hacc r hr
    unfold tokenLoop at hr
    simp only [List.length_cons] at hn
    split at hr
    · refine ih (pos + 1) (pos + 1) _ n (by omega) (by omega) ?_ r hr
      intro q hq
      split at hq
      · rename_i hne
        simp only [List.mem_cons] at hq
        rcases hq with rfl | hq
        · simp at hne; exact ⟨by omega, by omega⟩
        · exact hacc q hq
      · exact hacc q hq
    · exact ih (pos + 1) start acc n (by omega) (by omega) hacc r hr

theorem tokenList_ranges (value : List Ch) (offset : Nat) :
    ∀ r ∈ tokenList value offset, offset ≤ r.1 ∧ r.1 < r.2 ∧ r.2 ≤ offset + value.length := by
  intro r hr
  unfold tokenList at hr
  simp only [List.mem_map, List.mem_reverse] at hr
  obtain ⟨q, hq, rfl⟩ := hr
  have := tokenLoop_spec value 0 0 [] value.length (by omega) (by simp) (by intro r hr; cases hr) q hq
  exact ⟨by simp, by simp; omega, by simp; omega⟩

end H
