import Emmet.Snippets
/-! Whole-table facts about the REGENERATED snippet files: no name is claimed by two entries (so reading the flattened table never
hides an entry), and the names of the flattened tables the models use are exactly the written names, in order. -/
namespace Snip
theorem markup_distinct : distinct ((flatten T.Gen.markupWritten).map (·.1)) = true := by decide +kernel
theorem xsl_distinct : distinct ((flatten T.Gen.xslWritten).map (·.1)) = true := by decide +kernel
theorem pug_distinct : distinct ((flatten T.Gen.pugWritten).map (·.1)) = true := by decide +kernel
theorem css_distinct : distinct ((flatten CA.Gen.cssWritten).map (·.1)) = true := by decide +kernel
theorem markup_names : (flatten T.Gen.markupWritten).map (·.1) = T.Gen.markupSnippets.map (·.1) := by decide +kernel
theorem css_names : (flatten CA.Gen.cssWritten).map (·.1) = CA.Gen.cssSnippets.map (·.1) := by decide +kernel
theorem distinct_spec (l : List (List Nat)) (h : distinct l = true) : l.Nodup := by
  induction l with
  | nil => exact List.nodup_nil
  | cons x xs ih =>
    simp only [distinct, Bool.and_eq_true, Bool.not_eq_true', List.contains_eq_mem, decide_eq_false_iff_not] at h
    exact List.nodup_cons.mpr ⟨h.1, ih h.2⟩
end Snip
