import Emmet.Math
import Mathlib.Data.Rat.Defs
import Mathlib.Algebra.Order.Field.Rat
import Mathlib.Tactic.FieldSimp
import Mathlib.Tactic.Ring
import Mathlib.Tactic.Push
import Mathlib.Data.Rat.Floor
/-! C19: the model's exact arithmetic on (num, den) pairs is arithmetic in ℚ. -/
namespace M

def Q.toRat (q : Q) : ℚ := (q.num : ℚ) / (q.den : ℚ)
def Q.OK (q : Q) : Prop := 0 < q.den

theorem Q.norm_toRat (q : Q) (h : q.OK) : q.norm.toRat = q.toRat ∧ q.norm.OK := by
  unfold Q.norm
  simp only
  set g := Nat.gcd q.num.natAbs q.den with hg
  have hgpos : 0 < g := Nat.gcd_pos_of_pos_right _ h
  have hg0 : (g == 0) = false := by simp; omega
  rw [hg0]
  simp only [Bool.false_eq_true, if_false]
  have hdn : (g : Int) ∣ q.num := by
    have := Nat.gcd_dvd_left q.num.natAbs q.den
    exact Int.natCast_dvd.mpr this
  have hdd : g ∣ q.den := Nat.gcd_dvd_right _ _
  constructor
  · unfold Q.toRat
    simp only
    obtain ⟨k, hk⟩ := hdn
    obtain ⟨m, hm⟩ := hdd
    have hgq : (g : ℚ) ≠ 0 := by exact_mod_cast hgpos.ne'
    have hm0 : m ≠ 0 := by rintro rfl; simp at hm; unfold Q.OK at h; omega
    have hmq : (m : ℚ) ≠ 0 := by exact_mod_cast hm0
    rw [hk, hm, Int.mul_ediv_cancel_left _ (by exact_mod_cast hgpos.ne'), Nat.mul_div_cancel_left _ hgpos]
    push_cast
    field_simp
  · unfold Q.OK
    simp only
    exact Nat.div_pos (Nat.le_of_dvd h hdd) hgpos

theorem Q.add_toRat (a b : Q) (ha : a.OK) (hb : b.OK) : (a.add b).toRat = a.toRat + b.toRat ∧ (a.add b).OK := by
  unfold Q.add
  have hok : (⟨a.num * b.den + b.num * a.den, a.den * b.den⟩ : Q).OK := Nat.mul_pos ha hb
  obtain ⟨h1, h2⟩ := Q.norm_toRat _ hok
  refine ⟨?_, h2⟩
  rw [h1]
  unfold Q.toRat
  have : (a.den : ℚ) ≠ 0 := by exact_mod_cast (Nat.pos_iff_ne_zero.mp ha)
  have : (b.den : ℚ) ≠ 0 := by exact_mod_cast (Nat.pos_iff_ne_zero.mp hb)
  push_cast
  field_simp

theorem Q.mul_toRat (a b : Q) (ha : a.OK) (hb : b.OK) : (a.mul b).toRat = a.toRat * b.toRat ∧ (a.mul b).OK := by
  unfold Q.mul
  have hok : (⟨a.num * b.num, a.den * b.den⟩ : Q).OK := Nat.mul_pos ha hb
  obtain ⟨h1, h2⟩ := Q.norm_toRat _ hok
  refine ⟨?_, h2⟩
  rw [h1]
  unfold Q.toRat
  have : (a.den : ℚ) ≠ 0 := by exact_mod_cast (Nat.pos_iff_ne_zero.mp ha)
  have : (b.den : ℚ) ≠ 0 := by exact_mod_cast (Nat.pos_iff_ne_zero.mp hb)
  push_cast
  field_simp

theorem Q.neg_toRat (a : Q) (ha : a.OK) : a.neg.toRat = - a.toRat ∧ a.neg.OK := by
  refine ⟨?_, ha⟩
  unfold Q.neg Q.toRat
  push_cast
  ring

theorem Q.sub_toRat (a b : Q) (ha : a.OK) (hb : b.OK) : (a.sub b).toRat = a.toRat - b.toRat ∧ (a.sub b).OK := by
  unfold Q.sub
  obtain ⟨h1, h2⟩ := Q.neg_toRat b hb
  obtain ⟨h3, h4⟩ := Q.add_toRat a b.neg ha h2
  exact ⟨by rw [h3, h1]; ring, h4⟩

theorem Q.div_toRat (a b : Q) (ha : a.OK) (hb : b.OK) (hz : b.isZero = false) :
    (a.div b).toRat = a.toRat / b.toRat ∧ (a.div b).OK := by
  have hnz : b.num ≠ 0 := by simpa [Q.isZero] using hz
  unfold Q.div
  simp only
  have hab : 0 < b.num.natAbs := Int.natAbs_pos.mpr hnz
  have hok : (⟨(if b.num < 0 then -1 else 1) * a.num * b.den, a.den * b.num.natAbs⟩ : Q).OK := Nat.mul_pos ha hab
  obtain ⟨h1, h2⟩ := Q.norm_toRat _ hok
  refine ⟨?_, h2⟩
  rw [h1]
  unfold Q.toRat
  have hda : (a.den : ℚ) ≠ 0 := by exact_mod_cast (Nat.pos_iff_ne_zero.mp ha)
  have hdb : (b.den : ℚ) ≠ 0 := by exact_mod_cast (Nat.pos_iff_ne_zero.mp hb)
  have hnq : (b.num : ℚ) ≠ 0 := by exact_mod_cast hnz
  have habs : ((b.num.natAbs : ℕ) : ℚ) = |(b.num : ℚ)| := by
    rw [← Int.cast_abs, Int.abs_eq_natAbs]; simp
  simp only [Nat.cast_mul, habs]
  split
  · rename_i hneg
    have : (b.num : ℚ) < 0 := by exact_mod_cast hneg
    rw [abs_of_neg this]
    push_cast
    field_simp
  · rename_i hpos
    have : (0 : ℚ) < b.num := by
      have : 0 ≤ b.num := Int.not_lt.mp hpos
      exact_mod_cast lt_of_le_of_ne this (Ne.symm hnz)
    rw [abs_of_pos this]
    push_cast
    field_simp

theorem Q.floor_toRat (a : Q) (ha : a.OK) : a.floor.toRat = (⌊a.toRat⌋ : ℚ) ∧ a.floor.OK := by
  refine ⟨?_, Nat.one_pos⟩
  unfold Q.floor Q.toRat
  simp only [Nat.cast_one, div_one]
  rw [Rat.floor_intCast_div_natCast]
end M
