/-! Model of emmet/css_matcher (scan.py, __init__.py, parse.py). Positions are Int because the code reports -1. -/
namespace C
abbrev Ch := Nat
abbrev Str := List Ch
def isSpace (ch : Ch) : Bool := ch == 32 || ch == 9 || ch == 160 || ch == 10 || ch == 13
def isQuote (ch : Ch) : Bool := ch == 34 || ch == 39

inductive TT | selector | propertyName | propertyValue | blockEnd deriving Repr, DecidableEq
structure Ev where
  type : TT
  start : Int
  stop : Int
  delimiter : Int
  deriving Repr

structure ScanState where
  start : Int := -1
  stop : Int := -1
  propertyDelimiter : Int := -1
  propertyStart : Int := -1
  propertyEnd : Int := -1
  expression : Int := 0

def ScanState.reset (s : ScanState) : ScanState := { expression := s.expression }

/-- `comment`: consumed length (`/*` … `*/` or to EOF) -/
def commentLoop : Str → Nat → Str × Nat
  | [], n => ([], n)
  | 42 :: 47 :: r, n => (r, n + 2)
  | _ :: r, n => commentLoop r (n + 1)
def comment : Str → Option (Str × Nat)
  | 47 :: 42 :: r => some (commentLoop r 2)
  | _ => none
-- NB Python: `if eat('*'): if eat('/'): return True; continue` — a `*` not followed by `/` is consumed alone: same as above.

/-- `literal(scanner)`: quoted string, never steps past the end (`over` is always 0 since the repair of the trailing-backslash overrun) -/
def literalLoop (q : Ch) : Str → Nat → Str × Nat × Nat          -- rest, consumed, overrun
  | [], n => ([], n, 0)
  | x :: xs, n =>
    if x == q || x == 10 || x == 13 then (xs, n + 1, 0)
    else if x == 92 then
      match xs with
      | _ :: ys => literalLoop q ys (n + 2)
      | [] => ([], n + 1, 0)                                   -- eat('\\'); at EOF: no further step
    else literalLoop q xs (n + 1)
def literal : Str → Option (Str × Nat × Nat)
  | q :: xs => if isQuote q then some (literalLoop q xs 1) else none
  | [] => none

def spanSpace : Str → Nat → Str × Nat
  | x :: xs, n => if isSpace x then spanSpace xs (n + 1) else (x :: xs, n)
  | [], n => ([], n)
def spanColon : Str → Nat → Str × Nat
  | 58 :: xs, n => spanColon xs (n + 1)
  | s, n => (s, n)

/-- block or property end at `sstart`: flush the pending property (name, then value — an empty value at the delimiter when
    nothing was consumed) or the consumed token -/
def flushPending (st : ScanState) (sstart : Int) (acc : List Ev) : List Ev × ScanState :=
  if st.propertyStart != -1 then
    let a := ⟨.propertyName, st.propertyStart, st.propertyEnd, st.propertyDelimiter⟩ :: acc
    let st' := if st.start == -1 then { st with start := sstart, stop := sstart } else st
    (⟨.propertyValue, st'.start, st'.stop, sstart⟩ :: a, st')
  else if st.start != -1 then (⟨.propertyName, st.start, st.stop, sstart⟩ :: acc, st)
  else (acc, st)
def closeBlock (blockEnd : Bool) (sstart : Int) (r : List Ev × ScanState) : List Ev × ScanState :=
  if blockEnd then (⟨.blockEnd, sstart, sstart + 1, sstart⟩ :: r.1, { r.2 with start := sstart, stop := sstart + 1 }) else r
/-- block start: the token that becomes the selector (`p1` = position after the brace) -/
def selectorState (st : ScanState) (p1 : Int) : ScanState :=
  let st1 := if st.start == -1 && st.propertyStart == -1 then { st with start := p1, stop := p1 } else st
  if st1.propertyStart != -1 then
    { st1 with start := st1.propertyStart, stop := if st1.stop == -1 then st1.propertyDelimiter + 1 else st1.stop } else st1

/-- the catch-all branch of the scanner loop at position `p`: `(` or `)` (expression counter), a string literal, or one
    character; nothing at the end of the input. Returns the rest, the new position and the state with `end` updated. -/
def eatOne (rest : Str) (p : Int) (st1 : ScanState) : Str × Int × ScanState :=
  match rest with
  | [] => ([], p, { st1 with stop := p })
  | y :: r =>
    if y == 40 then (r, p + 1, { st1 with expression := st1.expression + 1, stop := p + 1 })
    else if y == 41 then (r, p + 1, { st1 with expression := st1.expression - 1, stop := p + 1 })
    else match literal (y :: r) with
      | some (r', n, over) => (r', p + n + over, { st1 with stop := p + n + over })
      | none => (r, p + 1, { st1 with stop := p + 1 })

/-- a property colon (`p1` = position after it): the consumed token becomes the property name -/
def colonState (st : ScanState) (p1 : Int) : ScanState :=
  let st1 := if st.propertyStart == -1 then { st with propertyStart := st.start } else st
  let pe := if st1.stop != -1 then st1.stop else if st1.propertyStart != -1 then st1.propertyDelimiter + 1 else st1.propertyEnd
  { st1 with propertyEnd := pe, propertyDelimiter := p1 - 1, start := -1, stop := -1 }

/-- `scan(source, callback)` as an event list (callback never stops it). -/
def scanLoop : Nat → Str → Int → ScanState → List Ev → List Ev × ScanState × Int
  | 0, _, pos, st, acc => (acc, st, pos)
  | _+1, [], pos, st, acc => (acc, st, pos)
  | fuel+1, x :: xs, pos, st, acc =>
    match comment (x :: xs) with
    | some (r, n) => scanLoop fuel r (pos + n) st acc
    | none =>
    if isSpace x then let (r, n) := spanSpace xs 1; scanLoop fuel r (pos + n) st acc
    else
    let sstart := pos                                        -- scanner.start = scanner.pos
    if x == 125 || (x == 59 && st.expression ≤ 0) then      -- a `;` inside parentheses is not a delimiter
      let r := closeBlock (x == 125) pos (flushPending st pos acc)
      scanLoop fuel xs (pos + 1) r.2.reset r.1
    else if x == 123 then
      let st2 := selectorState st (pos + 1)
      scanLoop fuel xs (pos + 1) st2.reset (⟨.selector, st2.start, st2.stop, pos⟩ :: acc)
    else if x == 58 then
      -- `eat(':') and not is_known_selector_colon`: state.expression or eat_while(':')
      let p1 := pos + 1
      if st.expression != 0 then
        -- known selector colon (inside parentheses): the catch-all branch runs with the colon already consumed
        let e := eatOne xs p1 (if st.start == -1 then { st with start := p1 } else st)
        scanLoop fuel e.1 e.2.1 e.2.2 acc
      else
        let c := spanColon xs 0
        if c.2 > 0 then
          -- `::` pseudo-element: known selector colon, catch-all branch with the colons consumed
          let p2 := p1 + c.2
          let e := eatOne c.1 p2 (if st.start == -1 then { st with start := p2 } else st)
          scanLoop fuel e.1 e.2.1 e.2.2 acc
        else
          scanLoop fuel xs p1 (colonState st p1) acc
    else
      let e := eatOne (x :: xs) pos (if st.start == -1 then { st with start := pos } else st)
      scanLoop fuel e.1 e.2.1 e.2.2 acc

def scan (s : Str) : List Ev :=
  let (acc, st, _) := scanLoop (2 * s.length + 2) s 0 {} []
  let acc1 := if st.propertyStart != -1 then ⟨.propertyName, st.propertyStart, st.propertyEnd, st.propertyDelimiter⟩ :: acc else acc
  let acc2 := if st.start != -1 then
      ⟨if st.propertyStart != -1 then .propertyValue else .propertyName, st.start, st.stop, -1⟩ :: acc1 else acc1
  acc2.reverse

end C
