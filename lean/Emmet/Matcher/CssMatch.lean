import Emmet.Matcher.CssScan
namespace C

structure MatchResult where
  type : String
  start : Int
  stop : Int
  bodyStart : Int
  bodyEnd : Int
  deriving Repr

abbrev Rng := Int × Int × Int      -- start, end, delimiter

/-- end of a declaration: one past its terminating delimiter, or the value end when it has none (`delimiter = -1`) -/
def propEnd (ev : Ev) : Int := if ev.delimiter != -1 then ev.delimiter + 1 else ev.stop

/-- `match(source, pos)` -/
def matchLoop (pos : Int) : List Ev → List Rng → Option Rng → Option MatchResult
  | [], _, _ => none
  | ev :: evs, stack, pending =>
    match ev.type with
    | .selector => matchLoop pos evs ((ev.start, ev.stop, ev.delimiter) :: stack) none
    | .blockEnd =>
      match stack with
      | parent :: rest =>
        if parent.1 < pos && pos < ev.stop then some ⟨"selector", parent.1, ev.stop, parent.2.2 + 1, ev.start⟩
        else matchLoop pos evs rest none
      | [] => matchLoop pos evs [] none
    | .propertyName => matchLoop pos evs stack (some (ev.start, ev.stop, ev.delimiter))
    | .propertyValue =>
      match pending with
      | some p =>
        if p.1 < pos && pos < propEnd ev then some ⟨"property", p.1, propEnd ev, ev.start, ev.stop⟩
        else matchLoop pos evs stack none
      | none => matchLoop pos evs stack none

def srcAt (src : Array Ch) (i : Int) : Ch := if i < 0 then src.getD (src.size - (-i).toNat) 0 else src.getD i.toNat 0

/-- `inner_range(source, start, end)`; Python negative indexing for `source[end - 1]` is reproduced -/
def innerRange (src : Array Ch) (start stop : Int) : Option (Int × Int) :=
  let rec fwd (fuel : Nat) (s : Int) : Int :=
    match fuel with
    | 0 => s
    | f+1 => if s < stop && 0 ≤ s && s.toNat < src.size && isSpace (src.getD s.toNat 0) then fwd f (s + 1) else s
  let s := fwd (src.size + 1) start
  let rec bwd (fuel : Nat) (e : Int) : Int :=
    match fuel with
    | 0 => e
    | f+1 => if e != 0 && e > s && isSpace (srcAt src (e - 1)) then bwd f (e - 1) else e
  let e := bwd (src.size + 1) stop
  if s < e then some (s, e) else none

def pushR (rs : List (Int × Int)) (r : Int × Int) : List (Int × Int) :=   -- rs is reversed (last first)
  match rs with
  | prev :: _ => if (prev.1 != r.1 || prev.2 != r.2) && r.1 != r.2 then r :: rs else rs
  | [] => if r.1 != r.2 then r :: rs else rs

/-- what closing a rule contributes to `balanced_outward`: trimmed content range, then full range -/
def ruleRanges (src : Array Ch) (pos : Int) (sel close : Ev) (acc : List (Int × Int)) : List (Int × Int) :=
  if sel.start < pos && pos < close.stop then
    let a1 := match innerRange src (sel.delimiter + 1) close.start with | some i => pushR acc i | none => acc
    pushR a1 (sel.start, close.stop)
  else acc
/-- what a declaration contributes: value range, then full range -/
def declRanges (pos : Int) (name value : Ev) (acc : List (Int × Int)) : List (Int × Int) :=
  if name.start < pos && pos < propEnd value then
    pushR (pushR acc (value.start, value.stop)) (name.start, propEnd value)
  else acc
def evOf (r : Rng) : Ev := ⟨.selector, r.1, r.2.1, r.2.2⟩

/-- `balanced_outward` -/
def outwardLoop (src : Array Ch) (pos : Int) : List Ev → List Rng → Option Rng → List (Int × Int) → List (Int × Int)
  | [], _, _, acc => acc.reverse
  | ev :: evs, stack, prop, acc =>
    match ev.type with
    | .selector => outwardLoop src pos evs ((ev.start, ev.stop, ev.delimiter) :: stack) none acc
    | .blockEnd =>
      match stack with
      | left :: rest =>
        let acc' := ruleRanges src pos (evOf left) ev acc
        if rest.isEmpty && !acc'.isEmpty then acc'.reverse else outwardLoop src pos evs rest none acc'
      | [] => if !acc.isEmpty then acc.reverse else outwardLoop src pos evs [] none acc   -- `if not stack and result: return False`
    | .propertyName => outwardLoop src pos evs stack (some (ev.start, ev.stop, ev.delimiter)) acc
    | .propertyValue =>
      let acc' := match prop with
        | some p => declRanges pos (evOf p) ev acc
        | none => acc
      outwardLoop src pos evs stack none acc'

/-- inward range: a selector / property range together with the chain of its first children (first child, that one's
    first child, …). The Python keeps pooled objects linked through `first_child`; the alias-free model keeps the chain
    as a plain list, so reading it needs no fuel. -/
abbrev IRng := Int × Int × Int          -- start, end, delimiter
structure IR where
  start : Int
  stop : Int
  delimiter : Int
  chain : List IRng := []

def IR.setFirstIfNone (r c : IR) : IR := match r.chain with | [] => { r with chain := (c.start, c.stop, c.delimiter) :: c.chain } | _ => r
def IR.withEnd (r : IR) (e : Int) : IR := { r with stop := e }
def IR.updFirstEnd (r : IR) (pstart : Int) (e : Int) : IR :=
  match r.chain with
  | (cs, ce, cd) :: rest => if cs == pstart then { r with chain := (cs, e, cd) :: rest } else { r with chain := (cs, ce, cd) :: rest }
  | [] => r

def chainStep (src : Array Ch) (acc : List (Int × Int)) (c : IRng) : List (Int × Int) :=
  let a1 := pushR acc (c.1, c.2.1)
  match innerRange src (c.2.2 + 1) (c.2.1 - 1) with | some i => pushR a1 i | none => a1
def chainI (src : Array Ch) (chain : List IRng) (acc : List (Int × Int)) : List (Int × Int) := chain.foldl (chainStep src) acc

def inwardLoop (src : Array Ch) (pos : Int) : List Ev → List IR → Option IR → List (Int × Int)
  | [], _, _ => []
  | ev :: evs, stack, pending =>
    match ev.type with
    | .blockEnd =>
      match stack with
      | [] => inwardLoop src pos evs [] none
      | r :: rest =>
        if r.start ≤ pos && pos ≤ ev.stop then
          let a1 := pushR [] (r.start, ev.stop)
          let a2 := match innerRange src (r.delimiter + 1) ev.start with | some i => pushR a1 i | none => a1
          (chainI src r.chain a2).reverse
        else
          match rest with
          | parent :: rest' => inwardLoop src pos evs (parent.setFirstIfNone (r.withEnd ev.stop) :: rest') none
          | [] => inwardLoop src pos evs [] none
    | .propertyName =>
      let p : IR := { start := ev.start, stop := ev.stop, delimiter := ev.delimiter }
      match stack with
      | parent :: rest => inwardLoop src pos evs (parent.setFirstIfNone p :: rest) (some p)
      | [] => inwardLoop src pos evs [] (some p)
    | .propertyValue =>
      match pending with
      | some p =>
        if p.start ≤ pos && pos ≤ ev.stop then
          (pushR (pushR [] (p.start, propEnd ev)) (ev.start, ev.stop)).reverse
        else
          match stack with
          | parent :: rest => inwardLoop src pos evs (parent.updFirstEnd p.start (propEnd ev) :: rest) none
          | [] => inwardLoop src pos evs [] none
      | none => inwardLoop src pos evs stack none
    | .selector => inwardLoop src pos evs ({ start := ev.start, stop := ev.stop, delimiter := ev.delimiter } :: stack) none

/-- `split_value(value)` -/
def isOp (ch : Ch) : Bool := ch == 43 || ch == 47 || ch == 42 || ch == 44
def splitLoop : Nat → Str → Int → Int → Int → List (Int × Int) → List (Int × Int) × Int × Int
  | 0, _, pos, start, _, acc => (acc, start, pos)
  | _+1, [], pos, start, _, acc => (acc, start, pos)
  | fuel+1, x :: xs, pos, start, expr, acc =>
    let isDelim : Option (Str × Int) :=
      if isSpace x || isOp x then some (xs, pos + 1)
      else if x == 45 then (match xs with | y :: ys => if isSpace y then some (ys, pos + 2) else none | [] => none)
      else none
    match isDelim with
    | some (r, p1) =>
      let (acc', start') := if expr == 0 && start != -1 then ((start, pos) :: acc, (-1 : Int)) else (acc, start)
      let (r', n) := spanSpace r 0
      splitLoop fuel r' (p1 + n) start' expr acc'
    | none =>
      let start' := if start == -1 then pos else start
      if x == 40 then splitLoop fuel xs (pos + 1) start' (expr + 1) acc
      else if x == 41 then splitLoop fuel xs (pos + 1) start' (expr - 1) acc
      else match literal (x :: xs) with
        | some (r, n, over) => splitLoop fuel r (pos + n + over) start' expr acc
        | none => splitLoop fuel xs (pos + 1) start' expr acc
def splitValue (s : Str) : List (Int × Int) :=
  let (acc, start, pos) := splitLoop (s.length + 1) s 0 (-1) 0 []
  (if start != -1 && start != pos then (start, pos) :: acc else acc).reverse

end C
